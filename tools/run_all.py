#!/usr/bin/env python3
"""runs every claimed check's quick command on the current tree (sequentially) and validates the evidence"""
import json, subprocess, sys, time, os
os.chdir(os.path.dirname(os.path.dirname(os.path.abspath(__file__))))
m = json.load(open("MANIFEST.json"))
only = sys.argv[1:]
bad = 0
for c in m["checks"]:
    if only and c["property_id"] not in only:
        continue
    t = time.time()
    p = subprocess.run(c["quick_cmd"], shell=True, capture_output=True, text=True)
    last = [l for l in p.stdout.strip().split("\n") if l][-1:] or [""]
    viol = [l for l in p.stdout.split("\n") if l.startswith("VIOLATION")]
    print("%s rc=%d %.0fs %s %s" % (c["property_id"], p.returncode, time.time() - t, last[0][:110], "VIOLATIONS=%d" % len(viol) if viol else ""), flush=True)
    bad += p.returncode != 0
q = subprocess.run(["python3-vt", "-c", """
import json,jsonschema,glob
s=json.load(open('/root/.vp/EVIDENCE.schema.json'))
jsonschema.validate(json.load(open('MANIFEST.json')),json.load(open('/root/.vp/MANIFEST.schema.json')))
for f in sorted(glob.glob('evidence/*.json')):
    e=json.load(open(f)); jsonschema.validate(e,s)
    c=e['coverage']
    assert c.get('obligations',0)>=1 and c.get('discharged')==c.get('obligations'), (f, c.get('obligations'), c.get('discharged'))
print('evidence+manifest valid')
"""], capture_output=True, text=True)
print(q.stdout.strip(), q.stderr.strip()[-400:])
sys.exit(1 if bad or q.returncode else 0)
