"""Python-side analysers of emitted modules: annotation erasure, free names, API signatures."""
import ast, builtins

TYPING_NAMES = {"Optional", "Union", "Tuple", "Callable", "Any", "NewType", "List", "Set", "Dict"}


class _Strip(ast.NodeTransformer):
    def visit_AnnAssign(self, node):
        self.generic_visit(node)
        if node.value is None:
            return None
        return ast.copy_location(ast.Assign(targets=[node.target], value=node.value, type_comment=None), node)

    def visit_arg(self, node):
        node.annotation = None
        return node

    def visit_FunctionDef(self, node):
        node.returns = None
        self.generic_visit(node)
        return node

    def visit_ImportFrom(self, node):
        if node.module == "typing":
            return None
        return node


def erased(py):
    """canonical dump of the module with annotations and typing imports erased (None on syntax error)"""
    try:
        tree = ast.parse(py)
    except SyntaxError:
        return None
    tree = _Strip().visit(tree)
    ast.fix_missing_locations(tree)
    return ast.dump(tree, include_attributes=False)


def signatures(py):
    """{qualified name: (kind, [params as (name, has_default, is_vararg)], [bases])} of the module's API"""
    tree = ast.parse(py)
    out = {}

    def fun(prefix, f):
        a = f.args
        n_def = len(a.defaults)
        ps = []
        for i, p in enumerate(a.args):
            ps.append((p.arg, i >= len(a.args) - n_def, False))
        if a.vararg:
            ps.append((a.vararg.arg, False, True))
        out[prefix + f.name] = ("fun", ps, [])

    for node in tree.body:
        if isinstance(node, ast.FunctionDef):
            fun("", node)
        elif isinstance(node, ast.ClassDef):
            out[node.name] = ("class", [], [ast.unparse(b) for b in node.bases])
            for m in node.body:
                if isinstance(m, ast.FunctionDef):
                    fun(node.name + ".", m)
    return out


def unbound_globals(py):
    """names read at module level or inside functions that are neither bound in the module nor builtins"""
    import symtable
    tree = ast.parse(py)
    bound = set()
    for node in ast.walk(tree):
        if isinstance(node, (ast.FunctionDef, ast.ClassDef)):
            bound.add(node.name)
        elif isinstance(node, ast.Import):
            for a in node.names:
                bound.add((a.asname or a.name).split(".")[0])
        elif isinstance(node, ast.ImportFrom):
            for a in node.names:
                bound.add(a.asname or a.name)
        elif isinstance(node, ast.Name) and isinstance(node.ctx, (ast.Store, ast.Del)):
            bound.add(node.id)
        elif isinstance(node, ast.arg):
            bound.add(node.arg)
        elif isinstance(node, ast.ExceptHandler) and node.name:
            bound.add(node.name)
        elif isinstance(node, ast.MatchAs) and node.name:
            bound.add(node.name)
    used = {n.id for n in ast.walk(tree) if isinstance(n, ast.Name) and isinstance(n.ctx, ast.Load)}
    return sorted(u for u in used if u not in bound and not hasattr(builtins, u))


def import_report(py):
    """(list of (module, member) imports in order, index of first non-import statement, duplicates)"""
    tree = ast.parse(py)
    imports, first_other = [], None
    late = []
    for i, node in enumerate(tree.body):
        if isinstance(node, ast.Import):
            for a in node.names:
                imports.append((a.name, None))
            if first_other is not None:
                late.append(a.name)
        elif isinstance(node, ast.ImportFrom):
            for a in node.names:
                imports.append((node.module, a.name))
            if first_other is not None:
                late.append(node.module)
        elif isinstance(node, ast.Expr) and isinstance(node.value, ast.Constant) and isinstance(node.value.value, str) and first_other is None:
            continue
        elif first_other is None:
            first_other = i
    dups = sorted({x for x in imports if imports.count(x) > 1})
    return imports, late, dups
