#!/usr/bin/env python3
"""prints the brief for a seeding sub-agent: seed_prompt.py <Cxx> <round letter>   (worktree /tmp/seed-<Cxx><letter>)
The property text comes from /verif/properties.jsonl, the list of earlier attempts from /verif/seeded/<Cxx>*/meta.json.
The agent gets NOTHING else from /verif.  Create the worktree first:
  git -C /repo worktree add --detach /tmp/seed-<Cxx><letter> HEAD ; mkdir -p /tmp/seed-<Cxx><letter>-out"""
import json,sys,glob,os
pid=sys.argv[1]
rnd=sys.argv[2] if len(sys.argv)>2 else ''
wt=pid+rnd
prop=None
for l in open('/verif/properties.jsonl'):
    p=json.loads(l)
    if p['id']==pid: prop=json.dumps(p,indent=1)
rows=[]
for m in sorted(glob.glob('/verif/seeded/%s*/meta.json'%pid)):
    try: d=json.load(open(m))
    except Exception: continue
    fc=d.get('files_changed',[])
    rows.append("- %s [files: %s]" % (" ".join(str(d.get('summary','')).split())[:600], ", ".join(fc if isinstance(fc,list) else [str(fc)])))
avoid="\n".join(rows) if rnd else ''
print(f"""You are helping to evaluate how sensitive a verification setup is. You will play the role of a developer who introduces a realistic regression into a code base.

Code base: JSAbrahams/mamba, a Rust transpiler from the Mamba language (statically typed, Python-like) to Python 3 (lexer -> parser -> type checker -> Python code generator). You have your OWN scratch git worktree of it at /tmp/seed-{wt} (detached HEAD). Work ONLY inside /tmp/seed-{wt} and write results ONLY to /tmp/seed-{wt}-out/. Do NOT read, list or modify anything under /verif or /repo, and do not use other /tmp/seed-* directories. There is no network: always pass --offline to cargo (e.g. `CARGO_NET_OFFLINE=true cargo build --offline`).

The semantic property under study (JSON, the anchors name the relevant code):

{prop}

YOUR TASK: make ONE small, realistic source change to the Rust code in /tmp/seed-{wt}/src (the kind of thing a plausible refactor, optimisation, feature tweak or off-by-one would introduce; at most ~30 changed lines; no changes to tests, no new dependencies, no cfg tricks, no randomness, no environment/time dependence) such that:
  1. the crate still compiles;
  2. the existing test suite still passes: every test named in the `stable_pass` list of /root/.vp/BASELINE.json must still pass. Run `cd /tmp/seed-{wt} && CARGO_NET_OFFLINE=true cargo test --workspace --no-fail-fast --offline 2>&1 | tail -n 80` (the first build takes a few minutes; some tests outside stable_pass already fail on the unchanged tree, that is expected — compare the set of failing test names against stable_pass, e.g. with a small python script reading the `test ... FAILED` lines). If a stable_pass test fails, revise your change;
  3. the property above is now VIOLATED, but only for inputs with some specific feature (a particular construct, name, nesting, size, combination…) — not for every input, so that a handful of sample programs would not notice;
  4. you can demonstrate it: a concrete Mamba input (or small project directory) on which the changed build misbehaves with respect to the property, together with the behaviour of the unchanged build (do NOT use `git stash`: the stash is shared by all worktrees of the repository and other people work in sibling worktrees; instead save `git diff > /tmp/seed-{wt}-out/p.diff`, `git apply -R` it to build the unchanged tree, and `git apply` it again; or reason from the diff) — run the real binary (see README / `cargo run --offline -- --help`; the CLI transpiles a file or directory: e.g. `cargo run --offline -- -i in.mamba -o outdir`) and, where relevant, run the emitted Python with python3.

{('ALREADY TRIED by others (do something with a DIFFERENT mechanism and a different trigger, ideally in a different file or function; cover another clause of the property statement):' + chr(10) + avoid + chr(10)) if avoid else ''}{('ROUND3 GUIDANCE: earlier authors mostly changed the type checker and the expression printer. Look for your change in a stage nobody touched for this property yet: the PARSER (src/parse/*.rs: operator precedence loops, statement/expression dispatch, blocks and indentation, match/handle arms, argument lists, definitions), the DESUGARING (src/generate/convert/*.rs: State flags, where returns and assignments are inserted, class and constructor synthesis, control flow, calls, collections), the CONSTRAINT BUILDER / UNIFIER (src/check/constrain/constraint/*.rs, unify/*.rs), CONTEXT building from several files (src/check/context/*.rs), or the pipeline glue (src/lib.rs, src/io.rs, src/pipeline). A change spread over two files that belongs together is fine.' + chr(10)) if rnd == 'c' else ''}{('ROUND GUIDANCE: several authors have already attacked this property (listed above). Re-read the property STATEMENT clause by clause and pick a clause, a language construct or a code path none of them touched. Constructs that were rarely exercised so far: match patterns and tuple destructuring, with-resources, for loops over ranges / slices / collections, while loops with break / continue, handle blocks nested in functions, class constructors with parent arguments, top-level script code versus code inside functions and methods, type aliases and conditions, generics (List / Set / Dict / Tuple of user classes), anonymous functions, string interpolation, imports between files of a project, the std-lib stubs under src/check/resource, the CLI and file handling in src/io.rs / src/lib.rs / src/main.rs. A change spread over two files that belongs together is fine.' + chr(10)) if rnd in ('d', 'e') else ''}Prefer a change in the code the anchors point at, and prefer subtle over blatant: it should look like an honest mistake. Do not merely revert one of the most recent commits of the history wholesale (you may look at `git log` for inspiration about what kind of thing goes wrong).

DELIVERABLES (all under /tmp/seed-{wt}-out/):
  - patch.diff : output of `git -C /tmp/seed-{wt} diff` (source change only; must apply with `git apply` to the same commit);
  - demonstration.md : the concrete input(s), the exact commands you ran, observed output of the changed build vs the unchanged build, and one paragraph on why this violates the property and what specific feature an input needs to trigger it;
  - demo/ : the input files used in the demonstration;
  - meta.json : {{"property": "{pid}", "summary": "...", "files_changed": [...], "trigger": "what an input needs", "stable_pass_still_passing": true/false, "demonstrated": true/false}}.
Do not commit anything. Leave the worktree with the change applied. When finished, reply with a 5-line summary (what you changed, the trigger, whether tests pass, whether demonstrated). If after serious effort you cannot find such a change, say so and explain in meta.json ("demonstrated": false).""")
