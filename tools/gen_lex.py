"""G-lex: generators of lexer inputs (all random choices from the rng passed in)."""
import re
from mvlib import repo_samples, REPO
import os

PAYLOAD_TOKENS = ["x", "foo_1", "_a", "A", "Int", "0", "12", "007", "1.5", "0.", "2E3", "1.5E10", "3E",
                  "\"s\"", "\"\"", "\"a{b}c\"", "\"a\\\"b\"", "# c", "#", "\"é\"", "\"{x + 1} and {y}\"",
                  "\"{a != b}\"", "\"{a!r}\"", "\"{x <= y} {z}\"", "\"{f(a, b)[0]}\"", "\"{a.b!= c}:{d}\"", "\"{f(\\y => y + 1)} {z}\"", "\"{a\\_b}\""]


def vocabulary():
    """token spellings regenerated from the Rust Display impl (via the generated Lean table's source)"""
    src = open(os.path.join(REPO, "src/parse/lex/token.rs"), encoding="utf-8").read()
    sp = []
    for m in re.finditer(r'Token::([A-Za-z0-9]+)\s*=>\s*write!\(f,\s*"((?:[^"\\]|\\.)*)"\)', src):
        s = m.group(2).replace("{{", "{").replace("}}", "}").replace("\\\\", "\\").replace('\\"', '"')
        if s.strip():
            sp.append(s)
    return sorted(set(sp))


def pairs(full):
    voc = vocabulary() + PAYLOAD_TOKENS
    out = []
    for a in voc:
        for b in voc:
            out.append(a + b)
            out.append(a + " " + b)
    return out


ALPHABET = list("abzAZ_09 .:=<>+-*/^!?#\"{}\\()[]|,\n") + ["\r\n", "    ", "  ", "E", "é", "\t", "def ", "if ", "\"\"\"", "..", "::", "'"]


def random_text(rng, n):
    return "".join(rng.choice(ALPHABET) for _ in range(n))


WORDS = ["x", "y", "foo", "def", "if", "then", "else", "class", "1", "2.5", ":=", "+", "(", ")", "\"s\"", "\"a{b}\"", "# note",
         "<<", ">>", "<=", "..=", "::", "->", "=>", "match", "while", "do", "for", "in", "print", ",", "\"\"", "\"\"\"doc\"\"\"",
         "\"é\"", "[", "]", "{", "}", "not", "_and_", "return", "self", ".", "?", "3E2", "handle", "raise", "!="]


def indented_program(rng, lines):
    """random lines with arbitrary indentation widths (incl. non-multiples of four), blanks, comments, CRLF"""
    out = []
    indent = 0
    for _ in range(lines):
        r = rng.random()
        if r < 0.12:
            out.append(" " * rng.choice([0, 0, 1, 4, 7]))
            continue
        if r < 0.55:
            indent = max(0, indent + rng.choice([-8, -4, -4, 0, 0, 4, 4, 4, -3, -2, -1, 1, 2, 3, 5, 8]))
        n = rng.randint(1, 6)
        sep = lambda: " " * rng.choice([0, 1, 1, 1, 2])
        line = " " * indent + "".join(rng.choice(WORDS) + sep() for _ in range(n))
        if rng.random() < 0.15:
            line += "\"multi\n" + " " * rng.randint(0, 6) + "line{q}\"" + sep() + rng.choice(WORDS)
        out.append(line)
    nl = "\r\n" if rng.random() < 0.15 else "\n"
    text = nl.join(out)
    if rng.random() < 0.5:
        text += nl
    return text


def literal_layouts():
    """every layout of a multi-line literal the position arithmetic distinguishes: opening column, number and width
    of the inner lines, column of the closing quotes (before, at, after the opening column), what follows it"""
    out = []
    for quote in ('"""', '"'):
        for lead in ("", "    ", "def s := ", "        x "):
            for inner in ([], ["ab"], ["", "  long inner line here"], ["      deep"]):
                for close_indent in (0, 2, 4, 9, 14):
                    for last in ("", "t"):
                        for follow in ("", " y", "\nz", "\n    w\n"):
                            body = "first" + "".join("\n" + l for l in inner) + "\n" + " " * close_indent + last
                            out.append(lead + quote + body + quote + follow)
    return out


def mutate(rng, text):
    """token/character-level mutation: delete/insert/replace/swap/duplicate a slice"""
    if not text:
        return rng.choice(WORDS)
    i = rng.randrange(len(text))
    j = min(len(text), i + rng.randint(1, 6))
    op = rng.randrange(5)
    if op == 0:
        return text[:i] + text[j:]
    if op == 1:
        return text[:i] + rng.choice(WORDS + ALPHABET) + text[i:]
    if op == 2:
        return text[:i] + rng.choice(WORDS + ALPHABET) + text[j:]
    if op == 3:
        k = min(len(text), j + (j - i))
        return text[:i] + text[j:k] + text[i:j] + text[k:]
    return text[:j] + text[i:j] + text[j:]


def samples_text():
    return [t for _, t in repo_samples("valid")] + [t for _, t in repo_samples("invalid")]
