#!/usr/bin/env python3
"""Translator: regenerates Lean tables from /repo's current Rust source (run on every check).

Each table is extracted from a *named* Rust block with a fixed shape. If a block is missing or an
arm cannot be parsed the translator raises TranslateError: the tie between model and code is then
broken and the calling check reports it (it never silently produces a smaller table).
"""
import hashlib, json, os, re, sys

REPO = os.environ.get("MV_REPO", "/repo")
OUT = os.path.join(os.path.dirname(os.path.abspath(__file__)), "..", "lean", "MambaVerif", "Generated")


class TranslateError(Exception):
    pass


def read(rel):
    with open(os.path.join(REPO, rel), encoding="utf-8") as f:
        return f.read()


def block_after(src, header_re, what):
    """Text of the brace-balanced block that follows the first match of header_re."""
    m = re.search(header_re, src)
    if not m:
        raise TranslateError(f"cannot find {what} ({header_re})")
    i = src.index("{", m.end() - 1)
    depth, j = 0, i
    in_str = False
    while j < len(src):
        c = src[j]
        if in_str:
            if c == "\\":
                j += 1
            elif c == '"':
                in_str = False
        else:
            if c == '"':
                in_str = True
            elif c == "'" and j + 2 < len(src) and (src[j + 2] == "'" or (src[j + 1] == "\\" and src[j + 3] == "'")):
                j += 3 if src[j + 1] == "\\" else 2
            elif c == "{":
                depth += 1
            elif c == "}":
                depth -= 1
                if depth == 0:
                    return src[i + 1:j]
        j += 1
    raise TranslateError(f"unbalanced block for {what}")


def rust_str(s):
    """Decode a Rust string literal body (between the quotes) incl. format! brace escapes."""
    out, i = [], 0
    while i < len(s):
        c = s[i]
        if c == "\\":
            n = s[i + 1]
            out.append({"n": "\n", "t": "\t", "\\": "\\", '"': '"', "r": "\r", "'": "'"}[n])
            i += 2
        else:
            out.append(c)
            i += 1
    return "".join(out)


def lean_chars(s):
    def one(c):
        if c == "\\":
            return "'\\\\'"
        if c == "'":
            return "'\\''"
        if c == "\n":
            return "'\\n'"
        return f"'{c}'"
    return "[" + ", ".join(one(c) for c in s) + "]"


# ------------------------------------------------------------------------------------------------
# Lexer tables
# ------------------------------------------------------------------------------------------------
PAYLOAD_KINDS = {"Id": 1, "Real": 1, "Int": 1, "ENum": 2, "Str": 2, "DocStr": 1, "Comment": 1}


def lex_tables():
    tok = read("src/parse/lex/token.rs")
    body = block_after(tok, r"pub enum Token\s*\{", "enum Token")
    kinds, payload = [], {}
    for line in body.splitlines():
        line = line.strip().rstrip(",")
        if not line or line.startswith("//"):
            continue
        m = re.fullmatch(r"([A-Z][A-Za-z0-9]*)(\((.*)\))?", line)
        if not m:
            raise TranslateError(f"enum Token: cannot parse variant line {line!r}")
        kinds.append(m.group(1))
        if m.group(2):
            payload[m.group(1)] = m.group(3)
    if set(payload) != set(PAYLOAD_KINDS):
        raise TranslateError(f"enum Token: payload-carrying variants changed: {sorted(payload)}")
    # Display spellings
    disp = block_after(tok, r"impl fmt::Display for Token\s*\{", "Display for Token")
    arms = block_after(disp, r"match self\.clone\(\)\s*\{", "Display match")
    spelling, templates = {}, {}
    for line in arms.splitlines():
        line = line.strip()
        if not line or line.startswith("//"):
            continue
        m = re.fullmatch(r'Token::([A-Za-z0-9]+)(\(([^)]*)\))?\s*=>\s*write!\(f,\s*"((?:[^"\\]|\\.)*)"\),?', line)
        if not m:
            raise TranslateError(f"Display for Token: cannot parse arm {line!r}")
        k, binders, fmt = m.group(1), m.group(3), rust_str(m.group(4))
        if binders is None:
            spelling[k] = fmt.replace("{{", "{").replace("}}", "}")
        else:
            templates[k] = (binders, fmt)
    want_templates = {"Id": "{id}", "Real": "{real}", "Int": "{int}", "ENum": "{base}E{exp}",
                      "Str": "\"{string}\"", "DocStr": "##{docstr}", "Comment": "#{comment}"}
    got = {k: v[1] for k, v in templates.items()}
    if got != want_templates:
        raise TranslateError(f"Display for Token: payload templates differ from the model's: {got}")
    missing = [k for k in kinds if k not in spelling and k not in templates]
    if missing:
        raise TranslateError(f"Display for Token: no arm for {missing}")
    # keyword table
    tz = read("src/parse/lex/tokenize.rs")
    kw = block_after(tz, r"fn as_op_or_id\(string: String\) -> Token\s*\{", "as_op_or_id")
    kwm = block_after(kw, r"match string\.as_ref\(\)\s*\{", "as_op_or_id match")
    keywords, default_seen = [], False
    for line in kwm.splitlines():
        line = line.strip()
        if not line or line.startswith("//"):
            continue
        m = re.fullmatch(r'"([A-Za-z_0-9]+)"\s*=>\s*Token::([A-Za-z0-9]+),', line)
        if m:
            keywords.append((m.group(1), m.group(2)))
            continue
        if re.fullmatch(r"_\s*=>\s*Token::Id\(string\),", line):
            default_seen = True
            continue
        raise TranslateError(f"as_op_or_id: cannot parse arm {line!r}")
    if not default_seen:
        raise TranslateError("as_op_or_id: default arm `_ => Token::Id(string)` not found")
    for s, k in keywords:
        if k not in kinds:
            raise TranslateError(f"as_op_or_id: unknown token {k}")
    out = ["-- GENERATED by tools/translate.py from /repo/src/parse/lex/{token,tokenize}.rs — do not edit",
           "namespace MV", "",
           "/-- Token kinds: the variants of `parse::lex::token::Token` (payloads live in `Tok.text`). -/",
           "inductive Kind where"]
    out += [f"  | {k}" for k in kinds]
    out += ["  deriving DecidableEq, Repr, Inhabited", "",
            "def Kind.name : Kind → String"]
    out += [f"  | .{k} => \"{k}\"" for k in kinds]
    out += ["", "/-- `as_op_or_id`: identifier-shaped lexemes that are keywords. -/",
            "def keywordTable : List (List Char × Kind) := ["]
    out += [",\n".join(f"  ({lean_chars(s)}, .{k})" for s, k in keywords), "]", "",
            "/-- `Display for Token` of the payload-free kinds (`none` for kinds with a payload). -/",
            "def Kind.spelling : Kind → Option (List Char)"]
    for k in kinds:
        if k in spelling:
            out.append(f"  | .{k} => some {lean_chars(spelling[k])}")
        else:
            out.append(f"  | .{k} => none")
    out += ["", "end MV", ""]
    return "\n".join(out), {"kinds": len(kinds), "keywords": len(keywords), "spellings": len(spelling)}



# ------------------------------------------------------------------------------------------------
# Core printer tables (generate/ast/mod.rs): operator spellings, precedence, operand minima
# ------------------------------------------------------------------------------------------------
def core_tables():
    src = read("src/generate/ast/mod.rs")
    consts = {m.group(1): int(m.group(2)) for m in re.finditer(r"const (PREC_[A-Z]+): u8 = (\d+);", src)}
    for need in ("PREC_LAMBDA", "PREC_NOT", "PREC_ATOM"):
        if need not in consts:
            raise TranslateError(f"generate/ast/mod.rs: constant {need} not found")

    def val(tok):
        tok = tok.strip()
        if tok in consts:
            return consts[tok]
        if re.fullmatch(r"\d+", tok):
            return int(tok)
        raise TranslateError(f"cannot evaluate precedence value {tok!r}")

    to_py = block_after(src, r"fn to_py\(core: &Core, ind: usize\) -> String\s*\{", "to_py")
    binops = re.findall(r'Core::([A-Za-z]+) \{ left, right \} => binary\(core, left, "([^"]+)", right, ind\),', to_py)
    if len(binops) < 20:
        raise TranslateError(f"to_py: expected the binary operator arms `binary(core, left, \"op\", right, ind)`, found {len(binops)}")
    unops = re.findall(r'Core::([A-Za-z]+) \{ expr \} => format!\("([^"{]*)\{\}", operand\(expr, ind, prec\(core\)\)\),', to_py)
    if sorted(u for u, _ in unops) != ["AddU", "BOneCmpl", "Not", "SubU"]:
        raise TranslateError(f"to_py: unary operator arms changed: {unops}")
    m = re.search(r'Core::Ternary \{ cond, then, el \} => format!\(\s*"\{\} if \{\} else \{\}",\s*operand\(then, ind, ([^)]*\)?[^,)]*)\),\s*operand\(cond, ind \+ 1, ([^)]*\)?[^,)]*)\),\s*operand\(el, ind \+ 1, ([A-Z_a-z0-9() +]+)\)\s*\),', to_py)
    if not m:
        raise TranslateError("to_py: ternary arm not in the expected shape")
    prec_body = block_after(src, r"fn prec\(core: &Core\) -> u8\s*\{", "prec")
    prec_match = block_after(prec_body, r"match core\s*\{", "prec match")
    prec = {}
    default = None
    for line in prec_match.splitlines():
        line = line.strip()
        if not line or line.startswith("//"):
            continue
        mm = re.fullmatch(r"((?:Core::[A-Za-z]+ \{ \.\. \}(?: \| )?)+) => ([A-Z_0-9]+),", line)
        if mm:
            for v in re.findall(r"Core::([A-Za-z]+)", mm.group(1)):
                prec[v] = val(mm.group(2))
            continue
        mm = re.fullmatch(r"_ => ([A-Z_0-9]+),", line)
        if mm:
            default = val(mm.group(1))
            continue
        raise TranslateError(f"prec: cannot parse arm {line!r}")
    if default is None:
        raise TranslateError("prec: no default arm")
    P = lambda v: prec.get(v, default)

    def tern(expr):
        expr = expr.strip()
        mm = re.fullmatch(r"prec\(core\)(?: \+ (\d+))?", expr)
        if mm:
            return P("Ternary") + int(mm.group(1) or 0)
        return val(expr)
    ternary = (tern(m.group(1)), tern(m.group(2)), tern(m.group(3)))
    sides_body = block_after(src, r"fn sides\(core: &Core\) -> \(u8, u8\)\s*\{", "sides")
    sides_match = block_after(sides_body, r"match core\s*\{", "sides match")
    arms = []
    for line in sides_match.splitlines():
        line = line.strip()
        if not line or line.startswith("//"):
            continue
        mm = re.fullmatch(r"(.+?) => \((p(?: [+-] \d+)?), (p(?: [+-] \d+)?)\),", line)
        if not mm:
            raise TranslateError(f"sides: cannot parse arm {line!r}")
        arms.append((mm.group(1), mm.group(2), mm.group(3)))

    def ev(e, p):
        mm = re.fullmatch(r"p(?: ([+-]) (\d+))?", e)
        if not mm.group(1):
            return p
        return p + int(mm.group(2)) if mm.group(1) == "+" else p - int(mm.group(2))

    def sides(v):
        p = P(v)
        for pat, l, r in arms:
            if pat == "_":
                return ev(l, p), ev(r, p)
            mm = re.fullmatch(r"_ if p == (\d+)", pat)
            if mm:
                if p == int(mm.group(1)):
                    return ev(l, p), ev(r, p)
                continue
            vs = re.findall(r"Core::([A-Za-z]+) \{ \.\. \}", pat)
            if not vs:
                raise TranslateError(f"sides: cannot parse pattern {pat!r}")
            if v in vs:
                return ev(l, p), ev(r, p)
        raise TranslateError("sides: no arm applies")
    # primary / comprehension condition minima
    if not re.search(r"Core::Int \{ \.\. \} => format!\(\"\(\{\}\)\", to_py\(core, ind\)\),\s*_ => operand\(core, ind, PREC_ATOM\),", src):
        raise TranslateError("primary: not in the expected shape")
    if "operand(cond, ind, PREC_NOT)" not in src:
        raise TranslateError("comprehension conditions: not in the expected shape")
    out = ["-- GENERATED by tools/translate.py from /repo/src/generate/ast/mod.rs — do not edit", "namespace MV", "",
           "/-- binary operators of `Core` printed by `binary(core, left, op, right, ind)` -/", "inductive BinOp where"]
    out += [f"  | {v}" for v, _ in binops]
    out += ["  deriving DecidableEq, Repr, Inhabited", "", "def BinOp.all : List BinOp := [" + ", ".join("." + v for v, _ in binops) + "]", "",
            "def BinOp.name : BinOp → String"] + [f'  | .{v} => "{v}"' for v, _ in binops]
    out += ["", "def BinOp.spelling : BinOp → String"] + [f'  | .{v} => "{o}"' for v, o in binops]
    out += ["", "/-- `prec` of the node -/", "def BinOp.prec : BinOp → Nat"] + [f"  | .{v} => {P(v)}" for v, _ in binops]
    out += ["", "/-- `sides`: weakest binding strength of the (left, right) operand printed without parentheses -/",
            "def BinOp.sides : BinOp → Nat × Nat"] + [f"  | .{v} => ({sides(v)[0]}, {sides(v)[1]})" for v, _ in binops]
    out += ["", "inductive UnOp where"] + [f"  | {v}" for v, _ in unops] + ["  deriving DecidableEq, Repr, Inhabited", "",
            "def UnOp.all : List UnOp := [" + ", ".join("." + v for v, _ in unops) + "]", "",
            "def UnOp.name : UnOp → String"] + [f'  | .{v} => "{v}"' for v, _ in unops]
    out += ["", "def UnOp.spelling : UnOp → String"] + [f'  | .{v} => "{o}"' for v, o in unops]
    out += ["", "/-- `prec` of the node; the operand is printed with the same minimum -/", "def UnOp.prec : UnOp → Nat"] + [f"  | .{v} => {P(v)}" for v, _ in unops]
    out += ["", f"def precLambda : Nat := {P('AnonFun')}", f"def precTernary : Nat := {P('Ternary')}", f"def precAtom : Nat := {default}",
            f"def precCompCond : Nat := {consts['PREC_NOT']}",
            "/-- minima of the (then, cond, else) operands of a ternary -/",
            f"def ternaryMins : Nat × Nat × Nat := ({ternary[0]}, {ternary[1]}, {ternary[2]})", "", "end MV", ""]
    return "\n".join(out), {"binops": len(binops), "unops": len(unops), "levels": sorted(set(P(v) for v, _ in binops))}


# ------------------------------------------------------------------------------------------------
# Conversion tables (generate/convert/range_slice.rs): the range / slice end adjustment
# ------------------------------------------------------------------------------------------------
def convert_tables():
    src = read("src/generate/convert/range_slice.rs")

    def arm(kind, cond_re):
        m = re.search(r"NodeTy::%s \{.*?\} => Ok\(Core::FunctionCall \{(.*?)\n        \}\)," % kind, src, re.S)
        if not m:
            raise TranslateError(f"range_slice.rs: {kind} arm not found")
        body = m.group(1)
        mm = re.search(r"if (!?\*?inclusive) \{\s*Core::(Add|Sub) \{\s*left: Box::from\(convert_node\(to, imp, state, ctx\)\?\),\s*right: Box::from\(Core::Int \{\s*int: String::from\(\"(\d+)\"\),\s*\}\),\s*\}\s*\} else \{\s*convert_node\(to, imp, state, ctx\)\?\s*\}", body)
        if not mm:
            raise TranslateError(f"range_slice.rs: {kind}: end adjustment not in the expected shape")
        when_inclusive = not mm.group(1).startswith("!")
        sign = 1 if mm.group(2) == "Add" else -1
        ds = re.search(r"else \{\s*Core::Int \{\s*int: String::from\(\"(\d+)\"\),\s*\}\s*\},\s*\],", body)
        if not ds:
            raise TranslateError(f"range_slice.rs: {kind}: default step not found")
        fn = re.search(r"lit: String::from\(clss::python::([A-Z]+)\)", body)
        return when_inclusive, sign * int(mm.group(3)), int(ds.group(1)), fn.group(1) if fn else "?"
    r_inc, r_adj, r_step, r_fn = arm("Range", None)
    s_inc, s_adj, s_step, s_fn = arm("Slice", None)
    out = ["-- GENERATED by tools/translate.py from /repo/src/generate/convert/range_slice.rs — do not edit", "namespace MV", "",
           "/-- the end of a range is adjusted when `inclusive` has this value … -/", f"def rangeAdjustWhenInclusive : Bool := {'true' if r_inc else 'false'}",
           "/-- … by adding this number -/", f"def rangeAdjust : Int := {r_adj}", f"def rangeDefaultStep : Int := {r_step}",
           f"def sliceAdjustWhenInclusive : Bool := {'true' if s_inc else 'false'}", f"def sliceAdjust : Int := {s_adj}",
           f"def sliceDefaultStep : Int := {s_step}", "", "end MV", ""]
    return "\n".join(out), {"range": [r_inc, r_adj, r_step, r_fn], "slice": [s_inc, s_adj, s_step, s_fn]}


# ------------------------------------------------------------------------------------------------
# Where the generate stage reads the `annotate` option (generate/**): every read must be one of the
# modelled guards of a *type annotation field*; any other read breaks the tie.
# ------------------------------------------------------------------------------------------------
ANNOTATE_ALLOWED = [
    (r"pub annotate: bool,", "decl"),
    (r"annotate: gen_arguments\.annotate,", "init"),
    (r"annotate: pipeline_args\.annotate,", "init"),
    (r"annotate: false,", "init"),
    (r"let annotate =", "VarDefOrArgGuard"),
    (r"state\.annotate && state\.expand_ty && !matches!\(var, Core::TupleLiteral \{ \.\. \}\);", "VarDefGuard"),
    (r"let annotate = state\.annotate", "FunArgGuard"),
    (r"\(Some\(ty\), _\) if annotate => Some\(Box::from\(ty\.to_py\(imp\)\)\),", "VarDefTyDeclared"),
    (r"\(_, Some\(expr\)\) if annotate => \{", "VarDefTyInferred"),
    (r"Some\(ret_ty\) if state\.annotate => Some\(Box::from\(ret_ty\.to_py\(imp\)\)\),", "FunRetTy"),
    (r"ty: if annotate \{", "FunArgTy"),
]


def annotate_tables():
    import glob as _glob
    sites = []
    for path in sorted(_glob.glob(os.path.join(REPO, "src", "generate", "**", "*.rs"), recursive=True)):
        rel = os.path.relpath(path, REPO)
        text = open(path, encoding="utf-8").read()
        # drop test modules
        cut = text.find("#[cfg(test)]")
        body = text if cut < 0 else text[:cut]
        for ln, line in enumerate(body.splitlines(), 1):
            if "annotate" not in line or line.strip().startswith("//"):
                continue
            kinds = [k for pat, k in ANNOTATE_ALLOWED if re.search(pat, line)]
            if not kinds:
                raise TranslateError(f"{rel}:{ln}: unmodelled use of the annotate option: {line.strip()!r}")
            sites.append((rel, ln, kinds[-1]))
    need = {"VarDefGuard", "FunArgGuard", "VarDefTyDeclared", "VarDefTyInferred", "FunRetTy", "FunArgTy"}
    have = {k for _, _, k in sites}
    if not need <= have:
        raise TranslateError(f"annotate: expected guards missing: {sorted(need - have)}")
    d = read("src/generate/convert/definition.rs")
    m = re.search(r"is_last_must_be_ret\(([a-z_]+)\.is_some\(\)\)", d)
    if not m:
        raise TranslateError("definition.rs: is_last_must_be_ret(<x>.is_some()) not found")
    src_var = m.group(1)
    if src_var not in ("ret_ty", "ty"):
        raise TranslateError(f"definition.rs: is_last_must_be_ret decided from unknown value {src_var}")
    # FunArg guard: self is never annotated
    if not re.search(r"let annotate = state\.annotate\s*&& state\.expand_ty\s*&& var\s*!= Core::Id \{\s*lit: String::from\(SELF\),\s*\};", d):
        raise TranslateError("definition.rs: FunArg annotate guard not in the expected shape")
    outside = []
    for path in sorted(_glob.glob(os.path.join(REPO, "src", "**", "*.rs"), recursive=True)):
        rel = os.path.relpath(path, REPO)
        if rel.startswith("src/generate/") or rel in ("src/lib.rs", "src/main.rs"):
            continue
        text = open(path, encoding="utf-8").read()
        code = "\n".join(l.split("//")[0] for l in text.splitlines())
        if re.search(r"\bannotate\b", code):
            outside.append(rel)
    if outside:
        raise TranslateError(f"the annotate option is mentioned outside the generate stage: {outside}")
    out = ["-- GENERATED by tools/translate.py from /repo/src/generate/**/*.rs — do not edit", "namespace MV", "",
           "/-- what decides whether the last expression of a function body becomes a `return` -/",
           "inductive RetDecision where", "  | declared   -- the declared return type of the source (`ret_ty.is_some()`)",
           "  | rendered   -- the rendered annotation (`ty.is_some()`), absent when annotate is off",
           "  deriving DecidableEq, Repr", "",
           f"def retDecision : RetDecision := .{'declared' if src_var == 'ret_ty' else 'rendered'}",
           f"/-- number of places of the generate stage that read the option; each guards a type annotation field only -/",
           f"def annotateReadSites : Nat := {len([1 for _, _, k in sites if k not in ('decl', 'init')])}", "", "end MV", ""]
    return "\n".join(out), {"sites": [f"{r}:{l}:{k}" for r, l, k in sites], "ret_decision": src_var}


# ------------------------------------------------------------------------------------------------
# Order of class members (generate/convert/class.rs): position offsets and tie ranks
# ------------------------------------------------------------------------------------------------
def class_tables():
    src = read("src/generate/convert/class.rs")
    def off(pat, what):
        m = re.search(pat, src, re.S)
        if not m:
            raise TranslateError(f"class.rs: position of {what} not in the expected shape")
        return int(m.group(1) or 0)
    fun_off = off(r"Core::FunDef \{ id, \.\. \} => \(i(?: \+ (\d+))?, Core::Id", "FunDef")
    funop_off = off(r"Core::FunDefOp \{ op, \.\. \} => \(\s*i(?: \+ (\d+))?,", "FunDefOp")
    var_off = off(r"Core::VarDef \{ var, \.\. \} => \(i(?: \+ (\d+))?, var", "VarDef")
    other_off = off(r"_ => \(\s*i(?: \+ (\d+))?,\s*Core::Id \{\s*lit: String::from\(\"@\"\)", "other statements")
    if fun_off != funop_off:
        raise TranslateError("class.rs: FunDef and FunDefOp positions differ")
    m = re.search(r"\.map\(\|\(pos, _\)\| \*pos \+ (\d+)\)\s*\.max\(\)\s*\.unwrap_or\((\d+)\)", src)
    if not m:
        raise TranslateError("class.rs: position of the synthesised constructor not in the expected shape")
    init_after, init_default = int(m.group(1)), int(m.group(2))
    m = re.search(r"let rank = \|stmt: &Core\| match stmt \{(.*?)\};", src, re.S)
    ranks = {}
    if m:
        body = m.group(1)
        pats = {"var": r"Core::VarDef \{ \.\. \} => (\d+),", "init": r"Core::FunDef \{ id, \.\. \} if id == function::python::INIT => (\d+),",
                "fun": r"Core::FunDef \{ \.\. \} \| Core::FunDefOp \{ \.\. \} => (\d+),", "other": r"_ => (\d+),"}
        for k, pat in pats.items():
            mm = re.search(pat, body)
            if not mm:
                raise TranslateError(f"class.rs: rank of {k} not found")
            ranks[k] = int(mm.group(1))
        if not re.search(r"\.sorted_by_key\(\|\(pos, stmt\)\| \(\*pos, rank\(stmt\)\)\)", src):
            raise TranslateError("class.rs: members are not sorted by (position, rank)")
    else:
        # no tie-breaking rank: every member has rank 0 (order of ties is the map's iteration order)
        if not re.search(r"\.sorted_by_key\(\|\(pos, _\)\| \*pos\)", src):
            raise TranslateError("class.rs: member sort not in a known shape")
        ranks = {"var": 0, "init": 0, "fun": 0, "other": 0}
    out = ["-- GENERATED by tools/translate.py from /repo/src/generate/convert/class.rs — do not edit", "namespace MV", "",
           f"def classFunOffset : Nat := {fun_off}", f"def classVarOffset : Nat := {var_off}", f"def classOtherOffset : Nat := {other_off}",
           f"def classInitAfterVar : Nat := {init_after}", f"def classInitDefault : Nat := {init_default}",
           f"def rankVar : Nat := {ranks['var']}", f"def rankInit : Nat := {ranks['init']}", f"def rankOther : Nat := {ranks['other']}", f"def rankFun : Nat := {ranks['fun']}",
           "", "end MV", ""]
    return "\n".join(out), {"offsets": [fun_off, var_off, other_off], "init": [init_after, init_default], "ranks": ranks}


# ------------------------------------------------------------------------------------------------
# Operator definitions -> Python special method names (parse/definition.rs, parse/ast/node_op.rs,
# check/context/function/python.rs, generate/ast/node.rs)
# ------------------------------------------------------------------------------------------------
def op_tables():
    consts = dict(re.findall(r'pub const ([A-Z_]+): &str = "([^"]*)";', read("src/check/context/function/python.rs")))
    consts.update(dict(re.findall(r'pub const ([A-Z_]+): &str = "([^"]*)";', read("src/check/context/function/mod.rs"))))
    tok = read("src/parse/lex/token.rs")
    spell = dict(re.findall(r'Token::([A-Za-z0-9]+)\s*=>\s*write!\(f,\s*"((?:[^"\\]|\\.)*)"\)', tok))
    d = read("src/parse/definition.rs")
    arms = re.findall(r"Token::([A-Za-z]+) => op!\(it, ([A-Za-z]+)\),", d)
    if len(arms) < 8:
        raise TranslateError("definition.rs: operator definition arms not found")
    nop = read("src/parse/ast/node_op.rs")
    disp = dict(re.findall(r'NodeOp::([A-Za-z]+) => write!\(f, "\{([A-Z_]+)\}"\),', nop))
    node = read("src/generate/ast/node.rs")
    fun_from = dict((c, v) for c, v in re.findall(r"function::python::([A-Z_]+) => CoreFunOp::([A-Za-z]+),", node))
    fun_disp = dict((v, c) for v, c in re.findall(r"CoreFunOp::([A-Za-z]+) => function::python::([A-Z_]+),", node))
    rows = []
    for token, nodeop in arms:
        if token not in spell:
            raise TranslateError(f"definition.rs: unknown token {token}")
        if nodeop not in disp:
            raise TranslateError(f"node_op.rs: no Display constant for NodeOp::{nodeop}")
        const = disp[nodeop]
        if const not in consts:
            raise TranslateError(f"function/python.rs: constant {const} not found")
        ident = consts[const]                      # the identifier of the parsed definition
        # generate stage: CoreFunOp::from(identifier) and its Display
        emitted = ident
        for c, v in fun_from.items():
            if consts.get(c) == ident:
                emitted = consts[fun_disp[v]] if v in fun_disp else ident
        rows.append((spell[token].replace("{{", "{").replace("}}", "}"), emitted))
    out = ["-- GENERATED by tools/translate.py from parse/definition.rs, parse/ast/node_op.rs, check/context/function/{python,mod}.rs, generate/ast/node.rs — do not edit",
           "namespace MV", "", "/-- operator spelling in a Mamba definition ↦ name of the emitted Python method -/",
           "def opMethodTable : List (String × String) := ["]
    out += [",\n".join(f'  ("{a}", "{b}")' for a, b in rows), "]", "", "end MV", ""]
    return "\n".join(out), {"rows": rows}


# ------------------------------------------------------------------------------------------------
# Operator signatures of the primitive stubs (check/resource/primitive/*.py)
# ------------------------------------------------------------------------------------------------
STUB_TAGS = ["int", "float", "complex", "bool", "str"]


def stub_tables():
    import glob as _glob
    rows = []
    for path in sorted(_glob.glob(os.path.join(REPO, "src", "check", "resource", "primitive", "*.py"))):
        cls = None
        for line in open(path, encoding="utf-8"):
            m = re.match(r"class (\w+)(?:\((\w+)\))?:", line)
            if m:
                cls = m.group(1)
                continue
            if line.strip().startswith("#") or cls not in STUB_TAGS:
                continue
            m = re.match(r"\s+def (__\w+__)\(self(?:, (\w+): ([^,)]+(?:\[[^\]]*\])?)(?:, \w+=None)?)?\) -> ([\w\[\], ]+?):\s*pass", line)
            if not m:
                if re.match(r"\s+def __\w+__\(", line) and "__init__" not in line and "__iter__" not in line and "__getitem__" not in line and "__next__" not in line:
                    raise TranslateError(f"{os.path.basename(path)}: cannot parse stub line {line.strip()!r}")
                continue
            name, _, pty, ret = m.group(1), m.group(2), m.group(3), m.group(4)
            if name in ("__init__", "__iter__", "__getitem__", "__next__"):
                continue

            def tags(t):
                if t is None:
                    return []
                t = t.strip()
                mm = re.fullmatch(r"Union\[(.*)\]", t)
                parts = [x.strip() for x in mm.group(1).split(",")] if mm else [t]
                for x in parts:
                    if x not in STUB_TAGS:
                        raise TranslateError(f"{os.path.basename(path)}: unknown type {x!r} in {line.strip()!r}")
                return parts
            rows.append((cls, name, tags(pty), tags(ret)))
    if len(rows) < 40:
        raise TranslateError(f"primitive stubs: only {len(rows)} operator rows found")
    out = ["-- GENERATED by tools/translate.py from /repo/src/check/resource/primitive/*.py — do not edit", "namespace MV", "",
           "inductive Tag where", "  | int | float | complex | bool | str", "  deriving DecidableEq, Repr", "",
           "/-- an operator method of a primitive stub: class, method, admitted declared types of the operand (empty: unary), declared result -/",
           "structure StubRow where", "  cls : Tag", "  method : String", "  param : List Tag", "  ret : List Tag", "  deriving DecidableEq, Repr", "",
           "def stubRows : List StubRow := ["]
    out += [",\n".join("  ⟨.%s, \"%s\", [%s], [%s]⟩" % (c, n, ", ".join("." + x for x in p), ", ".join("." + x for x in r)) for c, n, p, r in rows), "]", "", "end MV", ""]
    return "\n".join(out), {"rows": len(rows)}


# ------------------------------------------------------------------------------------------------
# Names the generate/check stages recognise by spelling (C15)
# ------------------------------------------------------------------------------------------------
def name_tables():
    def consts_of(rel):
        return dict(re.findall(r'pub const ([A-Z_]+): &str = "([^"]*)";', read(rel)))
    fpy, fmb = consts_of("src/check/context/function/python.rs"), consts_of("src/check/context/function/mod.rs")
    cpy, cmb = consts_of("src/check/context/clss/python.rs"), consts_of("src/check/context/clss/mod.rs")
    d = read("src/generate/convert/definition.rs")
    m = re.search(r"Core::Id \{ ref lit, \.\. \} => match lit\.as_str\(\) \{(.*?)\n\s*\},", d, re.S)
    if not m:
        raise TranslateError("definition.rs: the match on the function identifier was not found")
    fun_arms, default_seen = [], False
    for pat, res in re.findall(r"\n\s*([^\n=]+?) => String::from\(([^)]*)\),", m.group(1)):
        pat, res = pat.strip(), res.strip()
        if re.fullmatch(r"[a-z_]+", pat):
            if res != pat:
                raise TranslateError(f"definition.rs: default arm maps {pat} to {res}")
            default_seen = True
            continue
        if pat.startswith('"'):
            key = rust_str(pat[1:-1])
        elif pat.startswith("function::python::"):
            key = fpy.get(pat.split("::")[-1])
        elif pat.startswith("function::"):
            key = fmb.get(pat.split("::")[-1])
        else:
            key = None
        if key is None or not res.startswith('"'):
            raise TranslateError(f"definition.rs: cannot resolve function-name arm {pat} => {res}")
        fun_arms.append((key, rust_str(res[1:-1])))
    if not default_seen:
        raise TranslateError("definition.rs: function-name match has no identity default arm")
    body = block_after(read("src/check/context/clss/mod.rs"), r"pub fn concrete_to_python\(name: &str\) -> String \{", "concrete_to_python")
    ty_arms, default_seen = [], False
    for pat, res in re.findall(r"\n\s*([A-Za-z_:]+) => String::from\(([^)]*)\),", body):
        if re.fullmatch(r"[a-z_]+", pat):
            default_seen = res == pat
            continue
        if pat not in cmb or not res.startswith("python::") or res.split("::")[-1] not in cpy:
            raise TranslateError(f"clss/mod.rs: cannot resolve concrete_to_python arm {pat} => {res}")
        ty_arms.append((cmb[pat], cpy[res.split("::")[-1]]))
    if not default_seen or len(ty_arms) < 10:
        raise TranslateError("clss/mod.rs: concrete_to_python arms not understood")
    b = read("src/check/constrain/constraint/builder.rs")
    fm = re.search(r"pub fn format_var_map\(var: &str, offset: &usize\) -> String \{\s*if \*offset == 0_usize \{\s*String::from\(var\)\s*\} else \{\s*format!\(\"\{var\}([^{}\"]+)\{offset\}\"\)\s*\}\s*\}", b)
    if not fm:
        raise TranslateError("builder.rs: format_var_map is not `var` / `{var}<sep>{offset}`")
    sep = fm.group(1)
    # identifiers the checker recognises by spelling in a call or an expression
    spelled = [("print", fmb.get("PRINT")), ("self", consts_of("src/check/context/arg/mod.rs").get("SELF")), ("super", fpy.get("SUPER"))]
    if any(v is None for _, v in spelled):
        raise TranslateError("function/mod.rs / arg/mod.rs: PRINT, SELF or SUPER constant not found")
    # every identifier-like string literal of the stages that look at spellings (candidates for the failing-input search)
    import glob as _glob
    spell = set()
    for pat in ("src/check/constrain/generate/*.rs", "src/check/constrain/unify/*.rs", "src/generate/convert/*.rs", "src/generate/*.rs", "src/check/context/**/*.rs", "src/check/name/**/*.rs", "src/parse/*.rs"):
        for path in _glob.glob(os.path.join(REPO, pat), recursive=True):
            src = re.sub(r"//[^\n]*", "", open(path, encoding="utf-8").read())
            src = src.split("#[cfg(test)]")[0]
            spell.update(re.findall(r'"([A-Za-z_][A-Za-z0-9_]{1,24})"', src))
    out = ["-- GENERATED by tools/translate.py from generate/convert/definition.rs, check/context/clss/{mod,python}.rs, check/constrain/constraint/builder.rs — do not edit",
           "namespace MV", "",
           "/-- `match lit.as_str()` of the FunDef arm: spelling of a defined function ↦ emitted name (others: unchanged) -/",
           "def funDefNameArms : List (String × String) := [" + ", ".join(f'("{a}", "{b}")' for a, b in fun_arms) + "]", "",
           "/-- `concrete_to_python`: spelling of a type identifier ↦ emitted name (others: unchanged) -/",
           "def typeNameArms : List (String × String) := [", ",\n".join(f'  ("{a}", "{b}")' for a, b in ty_arms), "]", "",
           "/-- separator of `format_var_map` (`{var}<sep>{offset}` for a shadowing offset > 0) -/",
           "def shadowSep : List Char := " + lean_chars(sep), "",
           "/-- identifiers recognised by spelling in calls and expressions -/",
           "def spelledNames : List (String × String) := [" + ", ".join(f'("{a}", "{b}")' for a, b in spelled) + "]", "",
           "end MV", ""]
    return "\n".join(out), {"rows": len(fun_arms) + len(ty_arms), "fun_arms": fun_arms, "type_arms": len(ty_arms), "type_keys": [a for a, _ in ty_arms], "shadow_sep": sep, "source_spellings": sorted(spell)}



# ------------------------------------------------------------------------------------------------
# Tail transformations of the desugaring stage (append_assign / append_ret)
# ------------------------------------------------------------------------------------------------
def tail_tables():
    src = re.sub(r"//[^\n]*", "", read("src/generate/convert/mod.rs"))

    def arms(fname, sig):
        body = block_after(src, r"fn %s\(%s\) -> Core \{" % (fname, sig), fname)
        # variants with an arm that calls the function recursively
        desc = []
        fields = []
        for m in re.finditer(r"Core::([A-Za-z]+) \{[^}]*\} =>", body):
            # the text of this arm: up to the next `Core::X {..} =>` at arm level or the guard arm
            start = m.end()
            nxt = re.search(r"\n        (Core::[A-Za-z]+ \{|[a-z_]+ if |_ =>)", body[start:])
            arm = body[start:start + nxt.start()] if nxt else body[start:]
            if re.search(r"\b%s\b" % fname, arm) and m.group(1) not in desc:
                desc.append(m.group(1))
                # which CHILDREN of the variant the transformation is applied to: the fields of the rebuilt value whose
                # initialiser calls the function (for Block: the last statement)
                fs = []
                built = re.search(r"Core::%s \{(.*)\}" % m.group(1), arm, re.S)
                if m.group(1) == "Block":
                    if re.search(r"let last = %s\(last\b" % fname, arm):
                        fs = ["last"]
                elif built:
                    depth, cur, parts = 0, "", []
                    for ch in built.group(1):
                        if ch in "([{":
                            depth += 1
                        elif ch in ")]}":
                            depth -= 1
                        if ch == "," and depth == 0:
                            parts.append(cur)
                            cur = ""
                        else:
                            cur += ch
                    parts.append(cur)
                    for part in parts:
                        fm = re.match(r"\s*(\w+)\s*:(.*)", part, re.S)
                        if fm and re.search(r"\b%s\b" % fname, fm.group(2)):
                            fs.append(fm.group(1))
                fields.append((m.group(1), fs))
        guard = re.search(r"\n        (\w+) if (skip_\w+)\(\1\) => \w+\.clone\(\),", body)
        if not guard:
            raise TranslateError("convert/mod.rs: %s has no skip guard arm" % fname)
        if not re.search(r"\n        _ => Core::(VarDef|Return) \{", body):
            raise TranslateError("convert/mod.rs: %s has no wrapping default arm" % fname)
        return desc, guard.group(2), fields
    a_desc, a_guard, a_fields = arms("append_assign", r"core: &Core, assign_to: &Core, name: &Option<Name>, imp: &mut Imports")
    r_desc, r_guard, r_fields = arms("append_ret", r"core: &Core")

    def skips(fn):
        m = re.search(r"fn %s\(core: &Core\) -> bool \{(.*?)\n\}" % fn, src, re.S)
        if not m:
            raise TranslateError("convert/mod.rs: %s not found" % fn)
        out = re.findall(r"Core::([A-Za-z]+) \{", m.group(1))
        for inner in re.findall(r"\b(skip_\w+)\(core\)", m.group(1)):
            if inner != fn:
                out = skips(inner) + out
        return out
    a_skips, r_skips = skips(a_guard), skips(r_guard)
    if len(a_desc) < 3 or len(r_desc) < 3:
        raise TranslateError("convert/mod.rs: recursive arms of append_assign / append_ret not understood")
    lst = lambda xs: "[" + ", ".join('"%s"' % x for x in xs) + "]"
    out = ["-- GENERATED by tools/translate.py from generate/convert/mod.rs (append_assign, append_ret, skip_assign, skip_return) — do not edit",
           "namespace MV", "",
           "/-- Core variants `append_assign` descends into (arms that call it recursively), in source order -/",
           "def assignDescends : List String := " + lst(a_desc),
           "/-- Core variants `append_ret` descends into -/",
           "def retDescends : List String := " + lst(r_desc),
           "/-- variants `append_assign` leaves alone (`skip_assign`) -/",
           "def assignSkips : List String := " + lst(a_skips),
           "/-- variants `append_ret` leaves alone (`skip_return`) -/",
           "def retSkips : List String := " + lst(r_skips),
           "/-- per variant, the children `append_assign` is applied to (fields of the rebuilt value whose initialiser calls it) -/",
           "def assignChildren : List (String × List String) := [" + ", ".join('("%s", %s)' % (v, lst(fs)) for v, fs in a_fields) + "]",
           "/-- per variant, the children `append_ret` is applied to -/",
           "def retChildren : List (String × List String) := [" + ", ".join('("%s", %s)' % (v, lst(fs)) for v, fs in r_fields) + "]", "", "end MV", ""]
    return "\n".join(out), {"rows": len(a_desc) + len(r_desc), "assign_descends": a_desc, "ret_descends": r_desc, "assign_skips": a_skips, "ret_skips": r_skips, "assign_children": a_fields, "ret_children": r_fields}


TABLES = {"TailTables": tail_tables, "NameTables": name_tables, "StubTables": stub_tables, "OpTables": op_tables, "ClassTables": class_tables, "LexTables": lex_tables, "CoreTables": core_tables, "ConvertTables": convert_tables, "AnnotateTables": annotate_tables}


def main(argv):
    want = argv[1:] or list(TABLES)
    os.makedirs(OUT, exist_ok=True)
    report = {}
    for name in want:
        text, stats = TABLES[name]()
        path = os.path.join(OUT, name + ".lean")
        old = open(path, encoding="utf-8").read() if os.path.exists(path) else None
        if old != text:
            with open(path, "w", encoding="utf-8") as f:
                f.write(text)
        stats["sha256"] = hashlib.sha256(text.encode()).hexdigest()[:16]
        stats["changed"] = old != text
        report[name] = stats
    print(json.dumps(report))


if __name__ == "__main__":
    try:
        main(sys.argv)
    except TranslateError as e:
        print(json.dumps({"error": str(e)}))
        sys.exit(3)
