#!/usr/bin/env python3
"""playground: mamba_run.py file.mamba [-a]  -> prints emitted python (or errors) and runs it"""
import sys, subprocess, os
sys.path.insert(0, os.path.dirname(os.path.abspath(__file__)))
from mvlib import HARNESS_BIN, hexs, unhex
src = open(sys.argv[1]).read() if sys.argv[1] != "-" else sys.stdin.read()
ann = "1" if "-a" in sys.argv else "0"
p = subprocess.run([HARNESS_BIN, "pipe"], input="x\t%s %s\n" % (ann, hexs(src)), capture_output=True, text=True)
r = p.stdout.strip().split("\t", 1)[1]
parts = r.split(" ")
if parts[0] == "ok":
    py = unhex(parts[1])
    print(py)
    print("-----")
    q = subprocess.run([sys.executable, "-c", py], capture_output=True, text=True, timeout=10)
    print(q.stdout, q.stderr[-600:])
elif parts[0] == "err":
    for e in parts[2:]:
        print(unhex(e))
else:
    print(r[:300]); 
    if parts[0]=="PANIC": print(unhex(parts[1]))
