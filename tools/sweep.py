"""Shared end-to-end sweep: transpile programs with the real pipeline (both annotate settings) and
run the emitted Python under CPython in parallel worker processes."""
import os, subprocess, sys, tempfile
from concurrent.futures import ThreadPoolExecutor
from mvlib import hexs, unhex, WORK


def transpile(chk, texts, annotate_both=True):
    """-> list of dicts {0: result, 1: result}; result = ('ok', py) | ('err', [msgs]) | ('crash', raw)"""
    ids = []
    for i, t in enumerate(texts):
        ids.append(("p%d_0" % i, "0 " + hexs(t)))
        if annotate_both:
            ids.append(("p%d_1" % i, "1 " + hexs(t)))
    res = chk.harness("pipe", ids, timeout=1800)
    out = []
    for i in range(len(texts)):
        d = {}
        for a in ((0, 1) if annotate_both else (0,)):
            r = res.get("p%d_%d" % (i, a), "MISSING")
            parts = r.split(" ")
            if parts[0] == "ok":
                d[a] = ("ok", unhex(parts[1]) if len(parts) > 1 else "")
            elif parts[0] == "err":
                d[a] = ("err", [unhex(p) for p in parts[2:]])
            else:
                d[a] = ("crash", r[:300])
        out.append(d)
    return out


def _run_one(py):
    try:
        q = subprocess.run([sys.executable, "-I", "-c", py], capture_output=True, text=True, timeout=10)
    except subprocess.TimeoutExpired:
        return [], "timeout"
    lines = q.stdout.split("\n")
    if lines and lines[-1] == "":
        lines = lines[:-1]
    if q.returncode == 0:
        return lines, "ok"
    err = q.stderr.strip().split("\n")[-1] if q.stderr.strip() else "?"
    cls = err.split(":")[0].strip().split(".")[-1]
    return lines, "uncaught " + cls


def _run_one_msg(py):
    try:
        q = subprocess.run([sys.executable, "-I", "-c", py], capture_output=True, text=True, timeout=10)
    except subprocess.TimeoutExpired:
        return [], "timeout", ""
    lines = q.stdout.split("\n")
    if lines and lines[-1] == "":
        lines = lines[:-1]
    if q.returncode == 0:
        return lines, "ok", ""
    err = q.stderr.strip().split("\n")[-1] if q.stderr.strip() else "?"
    return lines, "uncaught " + err.split(":")[0].strip().split(".")[-1], err


def run_python_msg(pys, workers=16):
    """like run_python, with the last line of the traceback"""
    with ThreadPoolExecutor(max_workers=workers) as ex:
        return list(ex.map(_run_one_msg, pys))


def run_python(pys, workers=16):
    """-> list of (printed lines, outcome) for each python source"""
    with ThreadPoolExecutor(max_workers=workers) as ex:
        return list(ex.map(_run_one, pys))


def compiles(py):
    try:
        compile(py, "<emitted>", "exec")
        return None
    except SyntaxError as e:
        return "%s (line %s)" % (e.msg, e.lineno)
    except ValueError as e:
        return str(e)
