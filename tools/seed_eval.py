#!/usr/bin/env python3
"""seed_eval.py <seed-id> <check ids...> [--thorough]: apply /verif/seeded/<seed-id>/patch.diff to /repo, run the given
checks, record which of them report a VIOLATION, and restore /repo.  Never commits anything to /repo."""
import json, os, subprocess, sys, time

VERIF = os.path.dirname(os.path.dirname(os.path.abspath(__file__)))


def main():
    sid = sys.argv[1]
    thorough = "--thorough" in sys.argv
    pids = [a for a in sys.argv[2:] if not a.startswith("--")]
    d = os.path.join(VERIF, "seeded", sid)
    st = subprocess.run(["git", "-C", "/repo", "status", "--porcelain"], capture_output=True, text=True).stdout.strip()
    if st:
        sys.exit("/repo is not clean:\n" + st)
    subprocess.run(["git", "-C", "/repo", "apply", os.path.join(d, "patch.diff")], check=True)
    res = {}
    try:
        for pid in pids:
            for tier in (["quick", "thorough"] if thorough else ["quick"]):
                t0 = time.time()
                p = subprocess.run([os.path.join(VERIF, "check"), pid, "--tier", tier], capture_output=True, text=True, cwd=VERIF)
                vio = [l for l in p.stdout.split("\n") if l.startswith("VIOLATION")]
                details = []
                for l in vio[:3]:
                    path = l.split("replay=")[1].split()[0]
                    try:
                        b = json.load(open(path))
                        details.append({"kind": b.get("kind"), "detail": " ".join(str(b.get("detail")).split())[:300], "no_input": l.endswith("no-failing-input-found")})
                    except Exception as e:
                        details.append({"error": str(e)})
                res["%s/%s" % (pid, tier)] = {"rc": p.returncode, "violations": len(vio), "first": details, "wall_s": round(time.time() - t0, 1)}
                print(pid, tier, "rc=%d" % p.returncode, "violations=%d" % len(vio), details[:1], flush=True)
                if vio:
                    break
    finally:
        subprocess.run(["git", "-C", "/repo", "checkout", "--", "."], check=True)
        subprocess.run(["git", "-C", "/repo", "clean", "-fdq", "src", "tests"], check=False)
        # evidence and replays written while the tree was changed must not survive
        subprocess.run(["git", "-C", VERIF, "checkout", "--", "evidence"], check=False)
    out = os.path.join(d, "result.json")
    old = json.load(open(out)) if os.path.exists(out) else {}
    old.update(res)
    json.dump(old, open(out, "w"), indent=1)


if __name__ == "__main__":
    main()
