"""Line-based delta debugging: smallest text (by lines) on which `pred` still holds."""


def shrink_lines(text, pred, max_rounds=6):
    lines = text.split("\n")
    for _ in range(max_rounds):
        changed = False
        n = max(1, len(lines) // 2)
        while n >= 1:
            i = 0
            while i < len(lines):
                cand = lines[:i] + lines[i + n:]
                if cand and pred("\n".join(cand)):
                    lines = cand
                    changed = True
                else:
                    i += n
            n //= 2
        if not changed:
            break
    return "\n".join(lines)
