"""Shared machinery for /verif/check: builds, translator, Lean proof build + axiom audit,
harness/driver line protocol, evidence, replays, known findings."""
import glob, hashlib, json, os, random, re, subprocess, sys, time

VERIF = os.path.dirname(os.path.dirname(os.path.abspath(__file__)))
REPO = os.environ.get("MV_REPO", "/repo")
LEAN = os.path.join(VERIF, "lean")
HARNESS = os.path.join(VERIF, "harness")
HARNESS_BIN = os.path.join(HARNESS, "target", "debug", "mv_harness")
DRIVER_BIN = os.path.join(LEAN, ".lake", "build", "bin", "mvdrv")
WORK = os.path.join(VERIF, "work")
REPLAYS = os.path.join(VERIF, "replays")
EVIDENCE = os.path.join(VERIF, "evidence")
ALLOWED_AXIOMS = {"propext", "Classical.choice", "Quot.sound"}
TRUSTED_BASE = [
    "Lean 4.33.0 kernel (leanchecker re-check in the thorough tier)",
    "axioms allowed: propext, Classical.choice, Quot.sound (audited per theorem with collectAxioms); no sorry/admit/native_decide/bv_decide/own axioms",
    "translator tools/translate.py (regex extraction of named Rust tables; refuses on unknown shapes)",
    "correspondence check: Rust harness /verif/harness (links /repo, feature verif), Lean driver mvdrv, orchestrator tools/*.py, canonical dump formats",
    "modelled rather than verified: the Rust source itself, std collections, python_parser crate, CPython",
]

ENV = dict(os.environ, CARGO_NET_OFFLINE="true", PIP_NO_INDEX="1", GOPROXY="off")


def sh(cmd, cwd=None, timeout=None, inp=None):
    p = subprocess.run(cmd, cwd=cwd, env=ENV, input=inp, stdout=subprocess.PIPE, stderr=subprocess.STDOUT,
                       text=True, timeout=timeout)
    return p.returncode, p.stdout


def hexs(s):
    return s.encode("utf-8").hex()


def unhex(h):
    return bytes.fromhex(h).decode("utf-8", "replace")


class Violation(Exception):
    def __init__(self, kind, detail, case=None, found_input=True, theorem=None):
        super().__init__(detail)
        self.kind, self.detail, self.case, self.found_input, self.theorem = kind, detail, case, found_input, theorem


class Check:
    """One run of one property's check. Collects counters, violations, known findings, evidence."""

    def __init__(self, pid, tier, seed):
        self.pid, self.tier, self.seed = pid, tier, seed
        self.t0 = time.time()
        self.rng = random.Random(seed * 1000003 + int(pid[1:]))
        self.violations = []          # (replay_path, found_input)
        self.known_printed = []
        self.cov = {"obligations": 0, "discharged": 0, "checker_cmd": "", "trusted_base": list(TRUSTED_BASE),
                    "samples": [], "theorems": [], "tables": {}, "correspondence": {}, "oracle": {},
                    "known_findings_printed": [], "not_proved": ""}
        self.assumptions = []
        self.proof_broken = None      # description if proof/translator broke
        os.makedirs(os.path.join(WORK, pid), exist_ok=True)
        os.makedirs(REPLAYS, exist_ok=True)
        os.makedirs(EVIDENCE, exist_ok=True)
        # replays of earlier runs of this property are stale by definition
        if os.path.isdir(REPLAYS):
            for fn in os.listdir(REPLAYS):
                if fn.startswith(pid + "-"):
                    os.remove(os.path.join(REPLAYS, fn))
        self.findings = [f for f in load_known_findings() if f["property"] == pid]

    # -------------------------------------------------------------------------- building
    MODE_FILES = {"lexmode": "m_lex", "pipemode": "m_pipe", "coremode": "m_core", "tymode": "m_ty", "impmode": "m_imports",
                  "projmode": "m_proj", "rendermode": "m_render"}
    MODE_FEATURE = {"lex": "m_lex", "pipe": "m_pipe", "multi": "m_pipe", "core": "m_core", "tysup": "m_ty", "tyunion": "m_ty", "tyclasses": "m_ty",
                    "imports": "m_imports", "proj": "m_proj", "render": "m_render"}

    def build_harness(self):
        """builds the harness against /repo's working tree.  When the sources of some modes no longer compile (an internal
        API they call was changed), the harness is rebuilt without those modes: the checks that use them report the broken
        correspondence when they ask for the mode, all other checks run as usual."""
        self.missing_modes = {}
        lock_src = os.path.join(REPO, "Cargo.lock")
        rc, out = sh(["cargo", "build", "--offline", "--quiet"], cwd=HARNESS, timeout=1800)
        if rc != 0:
            # the lock file may be stale relative to /repo's: refresh once from /repo's and retry
            try:
                with open(lock_src) as f:
                    data = f.read()
                with open(os.path.join(HARNESS, "Cargo.lock"), "w") as f:
                    f.write(data)
                rc, out = sh(["cargo", "build", "--offline", "--quiet"], cwd=HARNESS, timeout=1800)
            except OSError:
                pass
        if rc != 0:
            bad = set()
            for block in re.split(r"\n\s*\n", out):
                if block.lstrip().startswith("error"):
                    for m in re.finditer(r"--> src/(\w+)\.rs:", block):
                        bad.add(m.group(1))
            if bad and all(b in self.MODE_FILES for b in bad):
                drop = {self.MODE_FILES[b] for b in bad}
                keep = sorted(set(self.MODE_FILES.values()) - drop)
                rc2, out2 = sh(["cargo", "build", "--offline", "--quiet", "--no-default-features", "--features", ",".join(keep)], cwd=HARNESS, timeout=1800)
                if rc2 == 0:
                    errs = "\n".join(b for b in re.split(r"\n\s*\n", out) if b.lstrip().startswith("error"))[-2500:]
                    for f in drop:
                        self.missing_modes[f] = errs
                    return True
        if rc != 0:
            self.broken("harness-build", "cargo build of /verif/harness against /repo (feature verif) failed:\n" + out[-3000:])
            return False
        return True

    def translate(self, tables):
        rc, out = sh([sys.executable, os.path.join(VERIF, "tools", "translate.py")] + tables, timeout=300)
        try:
            rep = json.loads(out.strip().splitlines()[-1])
        except Exception:
            rep = {"error": out[-2000:]}
        if rc != 0 or "error" in rep:
            self.broken("translator", "translator could not regenerate tables %s: %s" % (tables, rep.get("error")))
            return False
        self.cov["tables"].update(rep)
        return True

    def lake_build(self, targets):
        cmd = ["lake", "build"] + targets
        self.cov["checker_cmd"] = "cd /verif/lean && " + " ".join(cmd) + " && lake env lean <generated audit: collectAxioms per theorem>"
        rc, out = sh(cmd, cwd=LEAN, timeout=3600)
        if rc != 0:
            errs = "\n".join(l for l in out.splitlines() if "error" in l.lower())[:3000]
            self.broken("proof-build", "lake build %s failed:\n%s\n...\n%s" % (targets, errs, out[-2500:]))
            return False
        return True

    def audit(self, module):
        """Enumerate the theorems declared in `module` from the environment and collect their axioms."""
        src = AUDIT_TEMPLATE.replace("%MODULE%", module)
        path = os.path.join(WORK, self.pid, "Audit_%s.lean" % module.replace(".", "_"))
        with open(path, "w") as f:
            f.write(src)
        rc, out = sh(["lake", "env", "lean", path], cwd=LEAN, timeout=1800)
        thms = []
        for line in out.splitlines():
            m = re.match(r".*AUDIT (\S+) \[(.*)\]\s*$", line)
            if m:
                axs = [a.strip() for a in m.group(2).split(",") if a.strip()]
                name = m.group(1)
                # only the property's own theorems: skip auto-generated equation/match lemmas
                if re.search(r"\.(eq_\d+|eq_def|match_\d+.*|proof_\d+|congr_simp|sizeOf_spec|injEq|inj)$", name):
                    continue
                if not name.startswith("MV.%s." % self.pid):
                    continue
                thms.append((name, axs))
        if rc != 0 or not thms:
            self.broken("audit", "axiom audit of %s failed (rc=%s):\n%s" % (module, rc, out[-2000:]))
            return False
        bad = [(n, [a for a in axs if a not in ALLOWED_AXIOMS]) for n, axs in thms]
        bad = [(n, b) for n, b in bad if b]
        self.cov["obligations"] += len(thms)
        self.cov["discharged"] += len(thms) - len(bad)
        self.cov["theorems"] += [{"name": n, "axioms": axs} for n, axs in thms]
        # textual scan of the proof sources
        rc2, out2 = sh(["grep", "-rnE", r"\bsorry\b|\badmit\b|^axiom |native_decide|bv_decide|implemented_by|unsafe |maxHeartbeats 0",
                        os.path.join(LEAN, "MambaVerif")], timeout=60)
        hits = [l for l in out2.splitlines() if not re.search(r":\s*(--|/-)", l) and "Generated" not in l]
        if bad or hits:
            self.broken("audit", "disallowed axioms %s / forbidden tokens %s" % (bad, hits[:5]))
            return False
        return True

    def leanchecker(self, modules):
        for m in modules:
            rc, out = sh(["lake", "env", "leanchecker", m], cwd=LEAN, timeout=3600)
            self.cov.setdefault("leanchecker", {})[m] = "ok" if rc == 0 else out[-500:]
            if rc != 0:
                self.broken("leanchecker", "leanchecker rejected %s: %s" % (m, out[-1500:]))
                return False
        return True

    def broken(self, what, detail):
        """proof / translator / build broke: remember; the caller then searches for a failing input."""
        if self.proof_broken is None:
            self.proof_broken = (what, detail)

    # -------------------------------------------------------------------------- line protocol
    def run_lines(self, binary, mode, cases, timeout=1800, extra_args=(), case_timeout=120):
        """cases: list of (id, payload) -> dict id -> result.  Survives crashes and hangs of the binary: a case that
        produces no answer within `case_timeout` seconds is recorded as TIMEOUT and the run resumes behind it."""
        import tempfile, select, time as _time
        results = {}
        pending = list(cases)
        t_end = _time.time() + timeout
        while pending:
            with tempfile.TemporaryFile(mode="w+", dir=WORK) as tf:
                tf.write("".join("%s\t%s\n" % (i, p) for i, p in pending))
                tf.flush()
                tf.seek(0)
                proc = subprocess.Popen([binary, mode, *extra_args], stdin=tf, stdout=subprocess.PIPE, stderr=subprocess.DEVNULL, env=ENV)
                done, buf, hung = 0, b"", False
                fd = proc.stdout.fileno()
                while True:
                    r, _, _ = select.select([fd], [], [], case_timeout)
                    if not r or _time.time() > t_end:
                        hung = True
                        proc.kill()
                        break
                    chunk = os.read(fd, 1 << 16)
                    if not chunk:
                        break
                    buf += chunk
                    while b"\n" in buf:
                        line, buf = buf.split(b"\n", 1)
                        line = line.decode("utf-8", "replace")
                        if "\t" in line:
                            i, rr = line.split("\t", 1)
                            results[i] = rr
                            done += 1
                proc.wait()
                rc = proc.returncode
            if done >= len(pending):
                break
            cid = pending[done][0]
            results[cid] = "TIMEOUT" if hung else "CRASH rc=%s" % rc
            pending = pending[done + 1:]
            if _time.time() > t_end:
                for cid, _ in pending:
                    results[cid] = "TIMEOUT"
                break
        return results

    def harness(self, mode, cases, parallel=None, **kw):
        """runs the implementation on the cases; heavy modes are spread over worker processes"""
        feat = self.MODE_FEATURE.get(mode)
        if feat in getattr(self, "missing_modes", {}):
            self.broken("harness-build", "the harness mode `%s` no longer compiles against /repo (the internal API it calls changed); "
                        "its correspondence cannot be run:\n%s" % (mode, self.missing_modes[feat]))
            return {}
        if parallel is None:
            parallel = 16 if mode in ("pipe", "multi") and len(cases) > 8 else 1
        if parallel <= 1:
            return self.run_lines(HARNESS_BIN, mode, cases, **kw)
        from concurrent.futures import ThreadPoolExecutor
        chunks = [cases[i::parallel] for i in range(parallel)]
        out = {}
        with ThreadPoolExecutor(max_workers=parallel) as ex:
            for r in ex.map(lambda c: self.run_lines(HARNESS_BIN, mode, c, **kw) if c else {}, chunks):
                out.update(r)
        return out

    def driver(self, mode, cases, **kw):
        return self.run_lines(DRIVER_BIN, mode, cases, **kw)

    # -------------------------------------------------------------------------- reporting
    def known(self, case_text):
        """the open known finding (if any) whose trigger matches this failing case"""
        for f in self.findings:
            if f.get("status", "open") != "open":
                continue
            trig = f.get("trigger_regex")
            if trig and re.search(trig, case_text, re.S):
                return f
            pred = f.get("trigger_pred")
            if pred:
                import finding_preds
                if finding_preds.PREDS[pred](case_text):
                    return f
            if f.get("input") is not None and f["input"] == case_text:
                return f
        return None

    def report_known(self, f, what):
        key = f["key"]
        if key not in self.known_printed:
            self.known_printed.append(key)
            print("KNOWN-FINDING: property=%s %s: %s" % (self.pid, key, " ".join(str(what).split())[:400]), flush=True)
            self.cov["known_findings_printed"].append(key)

    def violation(self, kind, detail, case=None, found_input=True, theorem=None, expected=None, actual=None):
        body = {"property": self.pid, "kind": kind, "detail": detail, "case": case, "expected": expected,
                "actual": actual, "seed": self.seed, "tier": self.tier, "theorem": theorem,
                "how_to_replay": "cd /verif && ./check %s --replay <this file>" % self.pid}
        h = hashlib.sha256(json.dumps(body, sort_keys=True).encode()).hexdigest()[:12]
        path = os.path.join(REPLAYS, "%s-%s.json" % (self.pid, h))
        with open(path, "w") as f:
            json.dump(body, f, indent=1)
        self.violations.append((path, found_input))
        tail = "" if found_input else " no-failing-input-found"
        print("VIOLATION property=%s replay=%s%s" % (self.pid, path, tail), flush=True)

    def sample(self, s):
        if len(self.cov["samples"]) < 8:
            self.cov["samples"].append(s)

    def finish(self, level="proof"):
        # a broken proof/translator/correspondence with no concrete failing input found
        if self.proof_broken and not any(fi for _, fi in self.violations):
            what, detail = self.proof_broken
            self.violation(what, detail, found_input=False, theorem=what)
        ev = {"property_id": self.pid, "tier": self.tier, "seed": self.seed, "level": level,
              "coverage": self.cov, "assumptions": self.assumptions, "wall_s": round(time.time() - self.t0, 2),
              "violations": len(self.violations)}
        if not self.cov["samples"]:
            self.cov["samples"] = ["(no samples recorded)"]
        with open(os.path.join(EVIDENCE, self.pid + ".json"), "w") as f:
            json.dump(ev, f, indent=1)
        return 1 if self.violations else 0


AUDIT_TEMPLATE = r"""
import Lean
import %MODULE%
open Lean Elab Command

run_cmd do
  let env ← getEnv
  let some idx := env.getModuleIdx? `%MODULE% | throwError "module not found"
  let mut names : Array Name := #[]
  for (n, ci) in env.constants.toList do
    if env.getModuleIdxFor? n == some idx then
      match ci with
      | .thmInfo _ => if !n.isInternal then names := names.push n
      | _ => pure ()
  for n in names.qsort (fun a b => a.toString < b.toString) do
    let axs ← collectAxioms n
    logInfo m!"AUDIT {n} [{", ".intercalate (axs.toList.map toString)}]"
"""


def load_known_findings():
    p = os.path.join(VERIF, "known_findings.json")
    if not os.path.exists(p):
        return []
    with open(p) as f:
        data = json.load(f)
    return data.get("findings", [])


def repo_samples(kind="valid"):
    """(.mamba path, text) of the repository's sample files"""
    out = []
    for p in sorted(glob.glob(os.path.join(REPO, "tests", "resource", kind, "**", "*.mamba"), recursive=True)):
        try:
            with open(p, encoding="utf-8") as f:
                out.append((os.path.relpath(p, REPO), f.read()))
        except Exception:
            pass
    return out


def generic_replay(chk, body):
    """re-runs the recorded case of a replay file on the CURRENT tree and prints what the implementation does with it now
    (verdict, diagnostics, emitted Python, what the emitted Python prints).  Exit status: 0 = the case was re-run (the
    verdict on the property is given by running the check itself), 2 = nothing to re-run (a proof / tie is named instead)."""
    import sweep
    c = body.get("case") or {}
    print("property :", body.get("property"))
    print("detail   :", body.get("detail"))
    if body.get("theorem"):
        print("theorem / tie that no longer checks:", body.get("theorem"))
    if not c or not chk.build_harness():
        print("no input recorded: see `detail`; re-run ./check %s for the current state" % body.get("property"))
        return 2
    kind = c.get("kind")
    if kind in ("prog", "source", "rename"):
        text = c.get("text") or (c.get("prelude", "") + c.get("minimal", ""))
        if kind == "source" and "text" not in c:
            text = c.get("minimal", "")
        print("---- input\n" + text)
        r = sweep.transpile(chk, [text])[0]
        for a in (0, 1):
            print("---- annotate=%d: %s" % (a, r[a][0]))
            if r[a][0] == "ok":
                print(r[a][1])
                out = sweep.run_python_msg([r[a][1]])[0]
                print("---- running it:", out)
            else:
                print("\n".join(r[a][1]) if isinstance(r[a][1], list) else r[a][1])
        return 0
    if kind in ("proj", "multi"):
        import c13
        files = [tuple(f) for f in c.get("files", [])]
        pre = [tuple(x) for x in c.get("pre", [])]
        for rel, text in files:
            print("---- %s\n%s" % (rel, text))
        res = chk.harness("proj", [("r", c13.payload(files, pre))]).get("r", "MISSING")
        verdict, msgs, tree = c13.parse_result(res)
        print("---- verdict:", verdict)
        for m in msgs:
            print(m)
        for pth, cnt in sorted(tree.items()):
            print("---- output %s\n%s" % (pth, cnt))
        return 0
    if kind == "lex":
        text = c.get("text", "")
        print("---- input %r" % text)
        print(chk.harness("lex", [("r", hexs(text))]).get("r"))
        return 0
    print("case:", json.dumps(c, ensure_ascii=False)[:4000])
    return 0
