#!/usr/bin/env python3
"""re-applies every seeded change that still applies to /repo's HEAD, runs the quick check of its own property and records
whether it is (still) caught: seed_regression.py [--until HH:MM] [--skip C01,C12,C15]
Writes seeded/regression.json.  /repo is restored after every seed (git checkout -- .)."""
import json, os, subprocess, sys, time, glob, datetime
os.chdir(os.path.dirname(os.path.dirname(os.path.abspath(__file__))))
until = None
skip = set()
a = sys.argv[1:]
while a:
    k = a.pop(0)
    if k == "--until":
        until = a.pop(0)
    elif k == "--skip":
        skip = set(a.pop(0).split(","))
out = {}
path = "seeded/regression.json"
if os.path.exists(path):
    out = json.load(open(path))
head = subprocess.run(["git", "-C", "/repo", "log", "--format=%h", "-1"], capture_output=True, text=True).stdout.strip()
for d in sorted(glob.glob("seeded/*/")):
    name = os.path.basename(d.rstrip("/"))
    pid = name[:3]
    if pid in skip or name in out:
        continue
    if until and datetime.datetime.utcnow().strftime("%H:%M") >= until:
        break
    patch = os.path.abspath(os.path.join(d, "patch.diff"))
    if subprocess.run(["git", "-C", "/repo", "apply", "--check", patch], capture_output=True).returncode != 0:
        out[name] = {"head": head, "status": "patch no longer applies"}
        continue
    ev = "evidence/%s.json" % pid
    saved = open(ev).read() if os.path.exists(ev) else None
    t = time.time()
    try:
        subprocess.run(["git", "-C", "/repo", "apply", patch], check=True)
        p = subprocess.run(["./check", pid, "--tier", "quick"], capture_output=True, text=True, timeout=1500)
        viol = [l for l in p.stdout.split("\n") if l.startswith("VIOLATION")]
        with_input = [l for l in viol if not l.rstrip().endswith("no-failing-input-found")]
        out[name] = {"head": head, "rc": p.returncode, "violations": len(viol), "with_failing_input": len(with_input), "wall_s": round(time.time() - t, 1),
                     "status": "caught with input" if with_input else "reported without input" if viol else "MISSED"}
    except Exception as e:
        out[name] = {"head": head, "status": "error: %s" % e}
    finally:
        subprocess.run(["git", "-C", "/repo", "checkout", "--", "."])
        subprocess.run(["git", "-C", "/repo", "clean", "-fdq", "src"])
        if saved is not None:
            open(ev, "w").write(saved)
    json.dump(out, open(path, "w"), indent=1)
    print(name, out[name]["status"], flush=True)
s = {}
for v in out.values():
    s[v["status"]] = s.get(v["status"], 0) + 1
print(s)
