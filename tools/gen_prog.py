"""G-prog: type-directed generator of well-typed Mamba core-language programs.

A program is built as a tree first (the *reference tree*); the Mamba text is printed from it with every
compound operand parenthesised, and `Interp` evaluates the tree under the documented semantics
(operators as Python's, `a .. b` exclusive, `a ..= b` inclusive, block scoping, implicit return of a
function's last expression, class arguments become fields, handle arms select by class ancestry).
All random choices come from the rng passed in.
"""
from mvlib import repo_samples, hexs

_cache = {}


def accepted_samples(chk):
    if "acc" in _cache:
        return _cache["acc"]
    samples = [t for _, t in repo_samples("valid")]
    ids = [("s%d" % i, "0 " + hexs(t)) for i, t in enumerate(samples)]
    res = chk.harness("pipe", ids)
    acc = [t for i, t in enumerate(samples) if res.get("s%d" % i, "").startswith("ok")]
    rej = [t for i, t in enumerate(samples) if not res.get("s%d" % i, "").startswith("ok")]
    _cache["acc"], _cache["rej"] = acc, rej
    return acc


def programs(chk, n_generated=None):
    """accepted repository samples + some rejected ones + generated programs (texts)"""
    acc = accepted_samples(chk)
    if n_generated is None:
        n_generated = 120 if chk.tier == "thorough" else 30
    gen = [Gen(chk.rng).program().text for _ in range(n_generated)]
    return acc + _cache["rej"][:40] + gen


def tree_wire(t):
    """wire form of a block tree for the Lean model of the tail transformations (Model/Tail.lean)"""
    def block(b):
        stmts, tail = b
        return "B(" + ";".join(["E"] * len(stmts) + ["E" if tail[0] == "expr" else "T(E;H(E))" if tail[0] == "handle" else tree_wire(tail)]) + ")"
    if t[0] == "ifb":
        return "I(%s;%s)" % (block(t[2]), block(t[3]))
    if t[0] == "matchb":
        return "M(" + ";".join("C(%s)" % block(b) for _, b in t[2]) + ";C(%s))" % block(t[3])
    raise ValueError(t[0])


def uses_var(x, name):
    if isinstance(x, tuple):
        if x[0] == "var" and x[2] == name:
            return True
        return any(uses_var(y, name) for y in x[1:])
    if isinstance(x, list):
        return any(uses_var(y, name) for y in x)
    return False


# ---------------------------------------------------------------------------------------------------
# trees
# ---------------------------------------------------------------------------------------------------
INT, STR, BOOL = "Int", "Str", "Bool"
LINT, LSTR = "List[Int]", "List[Str]"
ELEM = {LINT: INT, LSTR: STR}


class Prog:
    def __init__(self, items, text, classes, funcs):
        self.items, self.text, self.classes, self.funcs = items, text, classes, funcs

    def expected(self):
        return Interp(self).run()


class Gen:
    def __init__(self, rng, size=None):
        self.rng = rng
        self.n = 0
        self.size = size or rng.randint(4, 11)
        self.classes = {}   # name -> dict(args=[(n,ty)], fields=[(n,ty,init,fin)], methods={name: fun}, parent=None, exc=False)
        self.funcs = {}     # name -> dict(params=[(n,ty,default)], ret=ty|None, body=[stmts], last=expr|None, raises=[cls])
        self.excs = []
        self.lists = {}     # literal list variable -> length
        self.ho = None      # name of the higher-order helper function, once used
        self.no_tern = 0    # > 0 while generating a position where the pinned tree mis-prints a conditional expression (finding C02)

    def fresh(self, prefix):
        self.n += 1
        return "%s%d" % (prefix, self.n)

    # ---------------------------------------------------------------- expressions (typed)
    def lit(self, ty):
        r = self.rng
        if ty == INT:
            return ("lit", INT, r.randint(0, 20))
        if ty == STR:
            return ("lit", STR, r.choice(["a", "bc", "x y", "", "Q"]))
        return ("lit", BOOL, r.random() < 0.5)

    def expr(self, ty, env, depth=2):
        r = self.rng
        vars_ = [v for v in env if v[1] == ty]
        if depth <= 0 or r.random() < 0.25:
            if vars_ and r.random() < 0.6:
                return ("var", ty, r.choice(vars_)[0])
            return self.lit(ty)
        sub = lambda t: self.expr(t, env, depth - 1)
        k = r.random()
        if ty in (INT, STR) and r.random() < 0.10:
            ls = [v for v in env if v[1] in ELEM and ELEM[v[1]] == ty and v[0] in self.lists]
            if ls:
                l = r.choice(ls)
                return ("index", ty, l[0], r.randrange(self.lists[l[0]]))
        if ty in (INT, STR) and r.random() < 0.08 and not self.no_tern:
            self.no_tern += 1
            # every conditional expression of a program is textually unique (finding C02 repeated-identical-conditional-untyped):
            # its condition carries a conjunct `K = K` with a fresh K
            self.n += 1
            uniq = ("bin", BOOL, "=", ("lit", INT, 100 + self.n), ("lit", INT, 100 + self.n))
            t = ("tern", ty, ("bin", BOOL, "and", self.expr(BOOL, env, depth - 1), uniq), sub(ty), sub(ty))
            self.no_tern -= 1
            return t
        if ty == INT and r.random() < 0.06:
            return ("pow", INT, sub(INT), r.choice([2, 2, 3]))
        if ty == INT and r.random() < 0.06 and depth >= 1:
            if self.ho is None:
                self.ho = self.fresh("ho")
            z = self.fresh("z")
            self.no_tern += 1
            body = self.expr(INT, list(env) + [(z, INT, False)], 1)
            self.no_tern -= 1
            if not uses_var(body, z):
                body = ("bin", INT, r.choice(["+", "*", "-"]), ("var", INT, z), body)
            return ("hocall", INT, self.ho, z, body, sub(INT))
        if ty == INT:
            if k < 0.55:
                op = r.choice(["+", "-", "*", "+", "-"])
                return ("bin", INT, op, sub(INT), sub(INT))
            if k < 0.65:
                return ("bin", INT, r.choice(["//", "mod"]), sub(INT), ("lit", INT, r.randint(1, 7)))
            if k < 0.80:
                fs = [f for f, d in self.funcs.items() if d["ret"] == INT and not d["raises"]]
                if fs:
                    return self.call(r.choice(fs), env, depth)
            if k < 0.92:
                objs = [v for v in env if v[1] in self.classes and not self.classes[v[1]]["exc"]]
                if objs:
                    o = r.choice(objs)
                    margs, mfields, mmethods = self.members(o[1])
                    choices = [("field", INT, o[0], a) for a, t in margs if t == INT]
                    choices += [("field", INT, o[0], f[0]) for f in mfields if f[1] == INT]
                    ms = [(m, d) for m, d in mmethods.items() if d["ret"] == INT and d["fin_self"]]
                    if ms and r.random() < 0.5:
                        m, d = r.choice(ms)
                        return ("mcall", INT, o[0], m, [self.expr(t, env, depth - 1) for _, t, _ in d["params"] if True][:len(d["params"])])
                    if choices:
                        return r.choice(choices)
            return ("bin", INT, "+", sub(INT), sub(INT))
        if ty == BOOL:
            if k < 0.5:
                return ("bin", BOOL, r.choice(["<", "<=", ">", ">=", "=", "!="]), sub(INT), sub(INT))
            if k < 0.7:
                return ("bin", BOOL, r.choice(["and", "or"]), sub(BOOL), sub(BOOL))
            if k < 0.8:
                return ("not", BOOL, sub(BOOL))
            return ("bin", BOOL, "<", sub(INT), sub(INT))
        if ty == STR:
            if k < 0.5:
                return ("bin", STR, "+", sub(STR), sub(STR))
            if k < 0.75:
                return ("fstr", STR, [r.choice(["n=", "", "v "]), self.expr(INT, env, 0), r.choice(["", ".", " end"])])
            fs = [f for f, d in self.funcs.items() if d["ret"] == STR and not d["raises"]]
            if fs:
                return self.call(r.choice(fs), env, depth)
            return self.lit(STR)
        return self.lit(ty)

    def call(self, f, env, depth):
        d = self.funcs[f]
        args = []
        for i, (n, t, default) in enumerate(d["params"]):
            if default is not None and self.rng.random() < 0.4:
                break
            args.append(self.expr(t, env, depth - 1))
        return ("call", d["ret"], f, args)

    # ---------------------------------------------------------------- statements
    def block(self, env, n, in_fun=None, depth=1):
        env = list(env)
        out = []
        for _ in range(n):
            s, env = self.stmt(env, in_fun, depth)
            out.append(s)
        return out, env

    def stmt(self, env, in_fun, depth):
        r = self.rng
        k = r.random()
        mut = [v for v in env if v[2] and v[1] in (INT, STR, BOOL)]
        if env and r.random() < 0.24:
            new = self.new_stmt(env, in_fun, depth)
            if new is not None:
                return new
        if k < 0.22 or not env:
            ty = r.choice([INT, INT, STR, BOOL])
            name = self.fresh("v")
            e = self.expr(ty, env)
            fin = r.random() < 0.25
            annotated = r.random() < 0.5 or e[0] in ("fstr",)
            return ("def", name, ty, e, fin, annotated), env + [(name, ty, not fin)]
        if k < 0.36 and mut:
            v = r.choice(mut)
            if v[1] == INT and r.random() < 0.3:
                return ("aug", v[0], r.choice(["+=", "-=", "*="]), self.expr(INT, env, 1)), env
            return ("set", v[0], self.expr(v[1], env)), env
        if k < 0.52:
            return ("print", self.expr(r.choice([INT, STR, BOOL, INT]), env)), env
        if k < 0.62 and depth > 0:
            then, _ = self.block(env, r.randint(1, 2), in_fun, depth - 1)
            el = None
            if r.random() < 0.6:
                el, _ = self.block(env, r.randint(1, 2), in_fun, depth - 1)
            return ("if", self.expr(BOOL, env), then, el), env
        if k < 0.70 and depth > 0:
            i = self.fresh("i")
            lo, hi = r.randint(0, 2), r.randint(2, 5)
            body, _ = self.block(env + [(i, INT, False)], r.randint(1, 2), in_fun, depth - 1)
            return ("for", i, lo, hi, r.random() < 0.4, body), env
        if k < 0.76 and depth > 1:
            c = self.fresh("w")
            body, _ = self.block(env + [(c, INT, False)], r.randint(1, 2), in_fun, depth - 1)
            return ("while", c, r.randint(1, 4), body), env
        if k < 0.82:
            name = self.fresh("m")
            ty = r.choice([INT, STR])
            self.no_tern += 1
            scrut = self.expr(INT, env, 1)
            self.no_tern -= 1
            arms = [(r.randint(0, 6), self.expr(ty, env, 1)) for _ in range(r.randint(1, 3))]
            seen, arms2 = set(), []
            for a in arms:
                if a[0] not in seen:
                    seen.add(a[0])
                    arms2.append(a)
            return ("matchdef", name, ty, scrut, arms2, self.expr(ty, env, 1)), env + [(name, ty, True)]
        if k < 0.87:
            name = self.fresh("t")
            ty = r.choice([INT, STR])
            self.no_tern += 1
            self.n += 1
            uniq = ("bin", BOOL, "=", ("lit", INT, 100 + self.n), ("lit", INT, 100 + self.n))
            st = ("ifdef", name, ty, ("bin", BOOL, "and", self.expr(BOOL, env, 1), uniq), self.expr(ty, env, 1), self.expr(ty, env, 1))
            self.no_tern -= 1
            return st, env + [(name, ty, True)]
        if k < 0.93 and not in_fun:
            cs = [c for c, d in self.classes.items() if not d["exc"]]
            if cs:
                c = r.choice(cs)
                name = self.fresh("o")
                args = [self.expr(t, env, 1) for _, t in self.classes[c]["args"]]
                return ("new", name, c, args), env + [(name, c, True)]
        objs = [v for v in env if v[1] in self.classes and not self.classes[v[1]]["exc"] and v[2]]
        if objs and not in_fun:
            o = r.choice(objs)
            _a, mfields, mmethods = self.members(o[1])
            c = dict(fields=mfields, methods=mmethods)
            ms = [(m, d) for m, d in c["methods"].items() if not d["fin_self"]]
            if ms:
                m, d = r.choice(ms)
                return ("print", ("mcall", d["ret"], o[0], m, [self.expr(t, env, 1) for _, t, _ in d["params"]])), env
            fl = [f for f in c["fields"] if not f[3] and f[1] == INT]
            if fl:
                return ("setfield", o[0], r.choice(fl)[0], self.expr(INT, env, 1)), env
        rs = [f for f, d in self.funcs.items() if d["raises"] and d["ret"] == INT]
        if rs and not in_fun:
            f = r.choice(rs)
            d = self.funcs[f]
            name = self.fresh("h")
            args = [self.expr(t, env, 1) for _, t, _ in d["params"]]
            return ("handledef", name, f, args, d["raises"][0], self.expr(INT, env, 0)), env + [(name, INT, True)]
        return ("print", self.expr(INT, env)), env

    def new_stmt(self, env, in_fun, depth):
        """tuples, list literals, list builders, iteration over lists, unary minus, isa"""
        r = self.rng
        k = r.random()
        if k < 0.2:
            tys = [r.choice([INT, STR, BOOL]) for _ in range(2)]
            names = [self.fresh("u"), self.fresh("u")]
            fin = r.random() < 0.3
            return ("tupledef", names, tys, [self.expr(t, env, 1) for t in tys], fin), env + [(n, t, not fin) for n, t in zip(names, tys)]
        if k < 0.4:
            ety = r.choice([INT, INT, STR])
            name = self.fresh("l")
            es = [self.expr(ety, env, 1) for _ in range(r.randint(1, 3))]
            self.lists[name] = len(es)
            return ("listdef", name, ety, es), env + [(name, LINT if ety == INT else LSTR, False)]
        ls = [v for v in env if v[1] in ELEM]
        if k < 0.6 and ls:
            src = r.choice(ls)
            bv, name = self.fresh("b"), self.fresh("l")
            inner = list(env) + [(bv, ELEM[src[1]], False)]
            self.no_tern += 1
            elem = self.expr(ELEM[src[1]], inner, 1)
            self.no_tern -= 1
            if not uses_var(elem, bv):
                elem = ("bin", ELEM[src[1]], "+", ("var", ELEM[src[1]], bv), elem)
            cond = None
            if r.random() < 0.6:
                cond = ("bin", BOOL, r.choice(["<", ">", "!=", "="]), ("var", INT, bv), self.expr(INT, env, 0)) if src[1] == LINT else ("bin", BOOL, "!=", ("var", STR, bv), self.lit(STR))
                if r.random() < 0.3:
                    cond = ("bin", BOOL, r.choice(["and", "or"]), cond, self.expr(BOOL, env, 0))
            return ("builddef", name, src[1], src[0], bv, elem, cond), env + [(name, src[1], False)]
        if k < 0.8 and ls and depth > 0:
            src = r.choice(ls)
            i = self.fresh("e")
            body, _ = self.block(env + [(i, ELEM[src[1]], False)], r.randint(1, 2), in_fun, depth - 1)
            return ("forin", i, src[0], body), env
        if k < 0.83:
            if r.random() < 0.4:
                # a nullable variable declared WITHOUT a value, read through a default before and after its first assignment
                # (truthy values only: see the known finding about `?` on falsy values)
                ty = r.choice([INT, STR])
                # (literals that occur nowhere else in the program: the checker identifies equal literal expressions with each
                # other, see the known finding inference-over-rejection)
                def truthy():
                    self.n += 1
                    return ("lit", INT, 1000 + self.n) if ty == INT else ("lit", STR, "z%d" % self.n)
                return ("nulldecl", self.fresh("z"), ty, truthy(), truthy(), self.fresh("y"), self.fresh("y")), env
            name = self.fresh("n")
            return ("negdef", name, self.expr(INT, env, 1)), env + [(name, INT, True)]
        if k < 0.93:
            name = self.fresh("d")
            ty = r.choice([INT, INT, STR])
            self.no_tern += 1
            self.handle_tail_ok = not in_fun
            tree = self.block_tree(ty, env, 2, top=True)
            self.handle_tail_ok = False
            self.no_tern -= 1
            return ("blockdef", name, ty, tree), env + [(name, ty, False)]
        objs = [v for v in env if v[1] in self.classes and not self.classes[v[1]]["exc"]]
        cs = [c for c, d in self.classes.items() if not d["exc"]]
        if objs and cs:
            name = self.fresh("q")
            return ("isadef", name, r.choice(objs)[0], r.choice(cs)), env + [(name, BOOL, True)]
        return None

    def block_tree(self, ty, env, depth, top=False):
        """a statement-form conditional or match whose branches are blocks (prints, then a tail that is an expression or another tree)"""
        r = self.rng

        def block():
            stmts = [("print", self.expr(r.choice([INT, STR]), env, 1)) for _ in range(r.randint(0, 2))]
            if depth > 0 and r.random() < 0.5:
                tail = self.block_tree(ty, env, depth - 1)
                if not stmts:
                    stmts = [("print", self.lit(STR))]
            else:
                rs = [f for f, d in self.funcs.items() if d["raises"] and d["ret"] == INT]
                if ty == INT and rs and getattr(self, "handle_tail_ok", False) and r.random() < 0.7:
                    # the tail is a handled call: the value of the attempt OR of the arm is what the definition binds
                    f = r.choice(rs)
                    d = self.funcs[f]
                    tail = ("handle", f, [self.expr(t, env, 1) for _, t, _ in d["params"]], d["raises"][0], self.expr(INT, env, 0))
                else:
                    tail = ("expr", self.expr(ty, env, 1))
            return (stmts, tail)
        if top or r.random() < 0.6:
            return ("ifb", self.expr(BOOL, env, 1), block(), block())
        vals = r.sample(range(0, 5), r.randint(1, 2))
        return ("matchb", self.expr(INT, env, 1), [(v, block()) for v in vals], block())

    # ---------------------------------------------------------------- definitions
    def fun(self, env0=()):
        r = self.rng
        name = self.fresh("f")
        params = []
        for i in range(r.randint(0, 3)):
            t = r.choice([INT, INT, STR, BOOL])
            default = self.lit(t) if (r.random() < 0.3 and (not params or params[-1][2] is not None or True) and i >= 1) else None
            params.append((self.fresh("a"), t, default))
        # defaults must be trailing
        seen_default = False
        fixed = []
        for n, t, d in params:
            if seen_default and d is None:
                d = self.lit(t)
            seen_default = seen_default or d is not None
            fixed.append((n, t, d))
        params = fixed
        ret = r.choice([INT, INT, STR, BOOL])
        env = [(n, t, False) for n, t, _ in params]
        raises = []
        body, env2 = self.block(env, r.randint(0, 2), in_fun=name, depth=1)
        if self.excs and ret == INT and r.random() < 0.4:
            e = r.choice(self.excs)
            raises = [e]
            ints = [p for p in params if p[1] == INT]
            cond = ("bin", BOOL, ">", ("var", INT, ints[0][0]) if ints else ("lit", INT, r.randint(0, 5)), ("lit", INT, r.randint(0, 8)))
            body.append(("raiseif", cond, e, "boom"))
        if body and r.random() < 0.3:
            body.insert(r.randrange(len(body) + 1) if not raises else 0, ("retif", self.expr(BOOL, env, 1), self.expr(ret, env, 1)))
        last = self.expr(ret, env2)
        lasttree = None
        if ret in (INT, STR) and r.random() < 0.25:
            self.no_tern += 1
            lasttree = self.block_tree(ret, env2, 2, top=r.random() < 0.7)
            self.no_tern -= 1
        self.funcs[name] = dict(params=params, ret=ret, body=body, last=last, lasttree=lasttree, raises=raises)
        return name

    def klass(self):
        r = self.rng
        name = self.fresh("K")
        args = [(self.fresh("c"), r.choice([INT, INT, STR])) for _ in range(r.randint(0, 2))]
        fields = []
        for _ in range(r.randint(0, 2)):
            t = r.choice([INT, STR])
            fields.append((self.fresh("g"), t, self.lit(t), r.random() < 0.3))
        d = dict(args=args, fields=fields, methods={}, parent=None, pargs=[], exc=False)
        # a parent among the classes defined so far: its Int arguments must come from own class arguments (the parser takes
        # no Int literal there), its Str arguments from own arguments or literals
        cands = []
        for pn, pd in self.classes.items():
            if pd["exc"]:
                continue
            if all(t == STR or any(t2 == INT for _, t2 in args) for _, t in pd["args"]):
                cands.append(pn)
        if cands and r.random() < 0.6:
            pn = r.choice(cands)
            d["parent"] = pn
            for _, t in self.classes[pn]["args"]:
                own = [a for a, t2 in args if t2 == t]
                if t == INT or (own and r.random() < 0.5):
                    d["pargs"].append(("var", t, r.choice(own)))
                else:
                    d["pargs"].append(self.lit(STR))
        self.classes[name] = d
        inh_args, inh_fields, _ = self.members(d["parent"]) if d["parent"] else ([], [], {})
        selfenv = [("self." + a, t, False) for a, t in inh_args + args] + [("self." + f[0], f[1], False) for f in inh_fields + fields]
        for _ in range(r.randint(1, 3)):
            m = self.fresh("m")
            fin_self = r.random() < 0.6
            params = [(self.fresh("p"), r.choice([INT, INT, STR]), None) for _ in range(r.randint(0, 2))]
            ret = r.choice([INT, INT, STR])
            env = selfenv + [(n, t, False) for n, t, _ in params]
            body = []
            if not fin_self:
                fl = [f for f in fields if not f[3]]
                if fl:
                    f = r.choice(fl)
                    body.append(("setfield", "self", f[0], self.expr(f[1], env, 1)))
            last = self.expr(ret, env, 1)
            d["methods"][m] = dict(params=params, ret=ret, body=body, last=last, fin_self=fin_self)
        return name

    def members(self, cname):
        """(class arguments, fields, methods) of a class including everything inherited"""
        d = self.classes[cname]
        a, f, m = self.members(d["parent"]) if d.get("parent") and d["parent"] in self.classes and not d["exc"] else ([], [], {})
        m = dict(m)
        m.update(d["methods"])
        return a + list(d["args"]), f + list(d["fields"]), m

    def exc(self):
        name = self.fresh("Err")
        parent = self.rng.choice(self.excs) if self.excs and self.rng.random() < 0.5 else "Exception"
        self.classes[name] = dict(args=[("msg" + name, STR)], fields=[], methods={}, parent=parent, exc=True)
        self.excs.append(name)
        return name

    def program(self):
        r = self.rng
        items = []
        for _ in range(r.randint(0, 2)):
            items.append(("exc", self.exc()))
        for _ in range(r.choice([0, 1, 1, 2, 3])):
            items.append(("class", self.klass()))
        for _ in range(r.randint(1, 2)):
            items.append(("fun", self.fun()))
        body, _ = self.block([], self.size, None, 2)
        items += [("stmt", s) for s in body]
        if self.ho is not None:
            items.insert(0, ("ho", self.ho))
        p = Prog(items, None, self.classes, self.funcs)
        p.ho = self.ho
        p.text = Printer(p).text()
        return p


# ---------------------------------------------------------------------------------------------------
# printing
# ---------------------------------------------------------------------------------------------------
class Printer:
    def __init__(self, prog):
        self.p = prog
        self.lines = []

    def text(self):
        for kind, x in self.p.items:
            if kind == "exc":
                d = self.p.classes[x]
                a = d["args"][0][0]
                self.lines.append("class %s(def %s: Str): %s(%s)" % (x, a, d["parent"], a))
            elif kind == "class":
                self.klass(x)
            elif kind == "fun":
                self.fun(x, self.p.funcs[x], 0, None)
            elif kind == "ho":
                self.lines.append("def %s(fn: Int -> Int, v: Int) -> Int => fn(v)" % x)
                self.lines.append("")
            else:
                self.stmt(x, 0)
        return "\n".join(self.lines) + "\n"

    def klass(self, name):
        d = self.p.classes[name]
        head = "class %s" % name
        if d["args"]:
            head += "(" + ", ".join("def %s: %s" % a for a in d["args"]) + ")"
        if d.get("parent"):
            head += ": " + d["parent"] + ("(" + ", ".join(self.e(a) for a in d["pargs"]) + ")" if d["pargs"] else "")
        self.lines.append(head)
        for f, t, init, fin in d["fields"]:
            self.lines.append("    def %s%s: %s := %s" % ("fin " if fin else "", f, t, self.e(init)))
        for m, md in d["methods"].items():
            self.lines.append("")
            self.fun(m, md, 1, "fin self" if md["fin_self"] else "self")
        self.lines.append("")

    def fun(self, name, d, ind, selfarg):
        pad = "    " * ind
        ps = [selfarg] if selfarg else []
        for n, t, default in d["params"]:
            ps.append("%s: %s%s" % (n, t, "" if default is None else " := " + self.e(default)))
        head = "%sdef %s(%s) -> %s" % (pad, name, ", ".join(ps), d["ret"])
        if d.get("raises"):
            head += " raise [%s]" % ", ".join(d["raises"])
        if d.get("lasttree") is not None:
            self.lines.append(head + " =>")
            for s in d["body"]:
                self.stmt(s, ind + 1)
            self.tree(d["lasttree"], ind + 1, pad + "    ")
        elif not d["body"]:
            self.lines.append(head + " => " + self.e(d["last"]))
        else:
            self.lines.append(head + " =>")
            for s in d["body"]:
                self.stmt(s, ind + 1)
            self.lines.append(pad + "    " + self.e(d["last"]))
        if ind == 0:
            self.lines.append("")

    def stmt(self, s, ind):
        pad = "    " * ind
        L = self.lines
        k = s[0]
        if k == "def":
            _, name, ty, e, fin, ann = s
            L.append("%sdef %s%s%s := %s" % (pad, "fin " if fin else "", name, ": " + ty if ann else "", self.e(e)))
        elif k == "set":
            L.append("%s%s := %s" % (pad, s[1], self.e(s[2])))
        elif k == "aug":
            L.append("%s%s %s %s" % (pad, s[1], s[2], self.e(s[3])))
        elif k == "setfield":
            L.append("%s%s.%s := %s" % (pad, s[1], s[2], self.e(s[3])))
        elif k == "print":
            L.append("%sprint(%s)" % (pad, self.e(s[1])))
        elif k == "if":
            L.append("%sif %s then" % (pad, self.e(s[1])))
            for t in s[2]:
                self.stmt(t, ind + 1)
            if s[3] is not None:
                L.append(pad + "else")
                for t in s[3]:
                    self.stmt(t, ind + 1)
        elif k == "for":
            _, i, lo, hi, incl, body = s
            L.append("%sfor %s in %d %s %d do" % (pad, i, lo, "..=" if incl else "..", hi))
            for t in body:
                self.stmt(t, ind + 1)
        elif k == "while":
            _, c, n, body = s
            L.append("%sdef %s := 0" % (pad, c))
            L.append("%swhile %s < %d do" % (pad, c, n))
            for t in body:
                self.stmt(t, ind + 1)
            L.append("%s    %s := %s + 1" % (pad, c, c))
        elif k == "matchdef":
            _, name, ty, scrut, arms, default = s
            L.append("%sdef %s: %s := match %s" % (pad, name, ty, self.e(scrut)))
            for v, e in arms:
                L.append("%s    %d => %s" % (pad, v, self.e(e)))
            L.append("%s    _ => %s" % (pad, self.e(default)))
        elif k == "ifdef":
            _, name, ty, c, a, b = s
            L.append("%sdef %s: %s := if %s then %s else %s" % (pad, name, ty, self.e(c), self.e(a), self.e(b)))
        elif k == "new":
            L.append("%sdef %s := %s(%s)" % (pad, s[1], s[2], ", ".join(self.e(a) for a in s[3])))
        elif k == "handledef":
            _, name, f, args, exc, alt = s
            L.append("%sdef %s := %s(%s) handle" % (pad, name, f, ", ".join(self.e(a) for a in args)))
            L.append("%s    err: %s => %s" % (pad, exc, self.e(alt)))
        elif k == "raiseif":
            L.append("%sif %s then" % (pad, self.e(s[1])))
            L.append("%s    raise %s(\"%s\")" % (pad, s[2], s[3]))
        elif k == "retif":
            L.append("%sif %s then return %s" % (pad, self.e(s[1]), self.e(s[2])))
        elif k == "tupledef":
            _, names, tys, es, fin = s
            L.append("%sdef %s(%s) := (%s)" % (pad, "fin " if fin else "", ", ".join(names), ", ".join(self.e(e) for e in es)))
        elif k == "listdef":
            L.append("%sdef %s := [%s]" % (pad, s[1], ", ".join(self.e(e) for e in s[3])))
        elif k == "builddef":
            _, name, lty, src, bv, elem, cond = s
            L.append("%sdef %s: %s := [%s | %s in %s%s]" % (pad, name, lty, self.e(elem), bv, src, "" if cond is None else ", " + self.e(cond)))
        elif k == "forin":
            L.append("%sfor %s in %s do" % (pad, s[1], s[2]))
            for t in s[3]:
                self.stmt(t, ind + 1)
        elif k == "nulldecl":
            _, z, ty, dflt, val, y1, y2 = s
            L.append("%sdef %s: %s?" % (pad, z, ty))
            L.append("%sdef %s: %s := %s ? %s" % (pad, y1, ty, z, self.e(dflt)))
            L.append("%sprint(%s)" % (pad, y1))
            L.append("%s%s := %s" % (pad, z, self.e(val)))
            L.append("%sdef %s: %s := %s ? %s" % (pad, y2, ty, z, self.e(dflt)))
            L.append("%sprint(%s)" % (pad, y2))
        elif k == "negdef":
            L.append("%sdef %s: Int := -(%s)" % (pad, s[1], self.e(s[2])))
        elif k == "blockdef":
            self.tree(s[3], ind, "%sdef %s: %s := " % (pad, s[1], s[2]))
        elif k == "isadef":
            L.append("%sdef %s: Bool := %s isa %s" % (pad, s[1], s[2], s[3]))
        else:
            raise ValueError(k)

    def tree(self, t, ind, head):
        """prints a block tree; `head` precedes the keyword on the first line (the definition, or just the indentation)"""
        pad = "    " * ind
        L = self.lines

        def block(b, n):
            stmts, tail = b
            for st in stmts:
                self.stmt(st, n)
            if tail[0] == "expr":
                L.append("    " * n + self.e(tail[1]))
            elif tail[0] == "handle":
                _, f, args, exc, alt = tail
                L.append("%s%s(%s) handle" % ("    " * n, f, ", ".join(self.e(a) for a in args)))
                L.append("%s    err: %s => %s" % ("    " * n, exc, self.e(alt)))
            else:
                self.tree(tail, n, "    " * n)
        if t[0] == "ifb":
            L.append("%sif %s then" % (head, self.e(t[1])))
            block(t[2], ind + 1)
            L.append(pad + "else")
            block(t[3], ind + 1)
        else:
            L.append("%smatch %s" % (head, self.e(t[1])))
            for v, b in t[2]:
                L.append("%s    %d =>" % (pad, v))
                block(b, ind + 2)
            L.append("%s    _ =>" % pad)
            block(t[3], ind + 2)

    def e(self, x, top=True):
        k = x[0]
        if k == "lit":
            if x[1] == INT:
                return str(x[2])
            if x[1] == STR:
                return '"%s"' % x[2]
            return "True" if x[2] else "False"
        if k == "var":
            return x[2]
        if k == "bin":
            s = "%s %s %s" % (self.e(x[3], False), x[2], self.e(x[4], False))
            return s if top else "(" + s + ")"
        if k == "not":
            s = "not %s" % self.e(x[2], False)
            return s if top else "(" + s + ")"
        if k == "call":
            return "%s(%s)" % (x[2], ", ".join(self.e(a) for a in x[3]))
        if k == "mcall":
            return "%s.%s(%s)" % (x[2], x[3], ", ".join(self.e(a) for a in x[4]))
        if k == "field":
            return "%s.%s" % (x[2], x[3])
        if k == "fstr":
            return '"%s{%s}%s"' % (x[2][0], self.e(x[2][1]), x[2][2])
        if k == "index":
            return "%s[%d]" % (x[2], x[3])
        if k == "tern":
            return "(if %s then %s else %s)" % (self.e(x[2]), self.e(x[3]), self.e(x[4]))
        if k == "pow":
            s = "%s ^ %d" % (self.e(x[2], False), x[3])
            return s if top else "(" + s + ")"
        if k == "hocall":
            return "%s(\\%s: Int => %s, %s)" % (x[2], x[3], self.e(x[4]), self.e(x[5]))
        raise ValueError(k)


# ---------------------------------------------------------------------------------------------------
# reference semantics
# ---------------------------------------------------------------------------------------------------
class Raised(Exception):
    def __init__(self, cls):
        self.cls = cls


class Returned(Exception):
    def __init__(self, value):
        self.value = value


class Obj:
    def __init__(self, cls):
        self.cls, self.f = cls, {}


class Interp:
    def __init__(self, prog):
        self.p = prog
        self.out = []

    def run(self):
        env = {}
        try:
            for kind, x in self.p.items:
                if kind == "stmt":
                    self.stmt(x, env)
            return self.out, "ok"
        except Raised as r:
            return self.out, "uncaught " + r.cls
        except ZeroDivisionError:
            return self.out, "uncaught ZeroDivisionError"

    def show(self, v):
        if isinstance(v, bool):
            return "True" if v else "False"
        return str(v)

    def stmt(self, s, env):
        k = s[0]
        if k == "def":
            env[s[1]] = self.e(s[3], env)
        elif k == "set":
            env[s[1]] = self.e(s[2], env)
        elif k == "aug":
            v = self.e(s[3], env)
            env[s[1]] = {"+=": env[s[1]] + v, "-=": env[s[1]] - v, "*=": env[s[1]] * v}[s[2]]
        elif k == "setfield":
            env[s[1]].f[s[2]] = self.e(s[3], env)
        elif k == "print":
            self.out.append(self.show(self.e(s[1], env)))
        elif k == "if":
            branch = s[2] if self.e(s[1], env) else s[3]
            if branch is not None:
                local = dict(env)
                for t in branch:
                    self.stmt(t, local)
                self.merge(env, local)
        elif k == "for":
            _, i, lo, hi, incl, body = s
            for v in range(lo, hi + 1 if incl else hi):
                local = dict(env)
                local[i] = v
                for t in body:
                    self.stmt(t, local)
                self.merge(env, local)
        elif k == "while":
            _, c, n, body = s
            env[c] = 0
            while env[c] < n:
                local = dict(env)
                for t in body:
                    self.stmt(t, local)
                self.merge(env, local)
                env[c] = env[c] + 1
        elif k == "matchdef":
            _, name, ty, scrut, arms, default = s
            v = self.e(scrut, env)
            for a, e in arms:
                if a == v:
                    env[name] = self.e(e, env)
                    break
            else:
                env[name] = self.e(default, env)
        elif k == "ifdef":
            env[s[1]] = self.e(s[4], env) if self.e(s[3], env) else self.e(s[5], env)
        elif k == "new":
            env[s[1]] = self.new(s[2], [self.e(a, env) for a in s[3]])
        elif k == "handledef":
            _, name, f, args, exc, alt = s
            try:
                env[name] = self.callf(f, [self.e(a, env) for a in args])
            except Raised as r:
                if self.is_a(r.cls, exc):
                    env[name] = self.e(alt, env)
                else:
                    raise
        elif k == "raiseif":
            if self.e(s[1], env):
                raise Raised(s[2])
        elif k == "retif":
            if self.e(s[1], env):
                raise Returned(self.e(s[2], env))
        elif k == "tupledef":
            vals = [self.e(e, env) for e in s[3]]
            for n, v in zip(s[1], vals):
                env[n] = v
        elif k == "listdef":
            env[s[1]] = [self.e(e, env) for e in s[3]]
        elif k == "builddef":
            _, name, lty, src, bv, elem, cond = s
            out = []
            for v in env[src]:
                local = dict(env)
                local[bv] = v
                if cond is None or self.e(cond, local):
                    out.append(self.e(elem, local))
            env[name] = out
        elif k == "forin":
            for v in list(env[s[2]]):
                local = dict(env)
                local[s[1]] = v
                for t in s[3]:
                    self.stmt(t, local)
                self.merge(env, local)
        elif k == "nulldecl":
            _, z, ty, dflt, val, y1, y2 = s
            self.out.append(self.show(self.e(dflt, env)))     # still None: the default
            self.out.append(self.show(self.e(val, env)))      # assigned: the value
        elif k == "negdef":
            env[s[1]] = -self.e(s[2], env)
        elif k == "blockdef":
            env[s[1]] = self.tree(s[3], env)
        elif k == "isadef":
            env[s[1]] = self.is_a(env[s[2]].cls, s[3])

    def tree(self, t, env):
        def block(b):
            stmts, tail = b
            for st in stmts:
                self.stmt(st, env)
            if tail[0] == "handle":
                _, f, args, exc, alt = tail
                try:
                    return self.callf(f, [self.e(a, env) for a in args])
                except Raised as r:
                    if self.is_a(r.cls, exc):
                        return self.e(alt, env)
                    raise
            return self.e(tail[1], env) if tail[0] == "expr" else self.tree(tail, env)
        if t[0] == "ifb":
            return block(t[2]) if self.e(t[1], env) else block(t[3])
        v = self.e(t[1], env)
        for val, b in t[2]:
            if val == v:
                return block(b)
        return block(t[3])

    def merge(self, env, local):
        """block scoping: definitions of the block vanish, reassignments of outer names persist"""
        for n in env:
            env[n] = local[n]

    def is_a(self, cls, anc):
        while cls is not None:
            if cls == anc:
                return True
            cls = self.p.classes[cls]["parent"] if cls in self.p.classes else None
        return anc == "Exception"

    def new(self, c, args, o=None):
        d = self.p.classes[c]
        o = o or Obj(c)
        own = {a: v for (a, _), v in zip(d["args"], args)}
        if d.get("parent") and not d["exc"]:
            self.new(d["parent"], [self.e(a, own) for a in d["pargs"]], o)
        o.f.update(own)
        for f, t, init, fin in d["fields"]:
            o.f[f] = self.e(init, {})
        return o

    def method(self, cls, name):
        while cls is not None:
            d = self.p.classes[cls]
            if name in d["methods"]:
                return d["methods"][name]
            cls = d.get("parent") if not d["exc"] else None
        raise KeyError(name)

    def callf(self, f, args, this=None, d=None):
        d = d or self.p.funcs[f]
        env = {}
        if this is not None:
            env["self"] = this
        for i, (n, t, default) in enumerate(d["params"]):
            env[n] = args[i] if i < len(args) else self.e(default, {})
        try:
            for s in d["body"]:
                self.stmt(s, env)
            if d.get("lasttree") is not None:
                return self.tree(d["lasttree"], env)
        except Returned as ret:
            return ret.value
        return self.e(d["last"], env)

    def e(self, x, env):
        k = x[0]
        if k == "lit":
            return x[2]
        if k == "var":
            if x[2].startswith("self."):
                return env["self"].f[x[2][5:]]
            return env[x[2]]
        if k == "not":
            return not self.e(x[2], env)
        if k == "bin":
            op = x[2]
            if op == "and":
                return self.e(x[3], env) and self.e(x[4], env)
            if op == "or":
                return self.e(x[3], env) or self.e(x[4], env)
            a, b = self.e(x[3], env), self.e(x[4], env)
            return {"+": lambda: a + b, "-": lambda: a - b, "*": lambda: a * b, "//": lambda: a // b, "mod": lambda: a % b,
                    "<": lambda: a < b, "<=": lambda: a <= b, ">": lambda: a > b, ">=": lambda: a >= b,
                    "=": lambda: a == b, "!=": lambda: a != b}[op]()
        if k == "call":
            return self.callf(x[2], [self.e(a, env) for a in x[3]])
        if k == "mcall":
            o = env["self"] if x[2] == "self" else env[x[2]]
            d = self.method(o.cls, x[3])
            return self.callf(x[3], [self.e(a, env) for a in x[4]], this=o, d=d)
        if k == "field":
            o = env["self"] if x[2] == "self" else env[x[2]]
            return o.f[x[3]]
        if k == "fstr":
            return x[2][0] + self.show(self.e(x[2][1], env)) + x[2][2]
        if k == "index":
            return env[x[2]][x[3]]
        if k == "tern":
            return self.e(x[3], env) if self.e(x[2], env) else self.e(x[4], env)
        if k == "pow":
            return self.e(x[2], env) ** x[3]
        if k == "hocall":
            arg = self.e(x[5], env)
            local = dict(env)
            local[x[3]] = arg
            return self.e(x[4], local)
        raise ValueError(k)
