"""G-prog: programs for end-to-end oracles. v0: accepted repository samples (generated programs are added by gen_core)."""
from mvlib import repo_samples, hexs

_cache = {}


def accepted_samples(chk):
    if "acc" in _cache:
        return _cache["acc"]
    samples = [t for _, t in repo_samples("valid")]
    ids = [("s%d" % i, "0 " + hexs(t)) for i, t in enumerate(samples)]
    res = chk.harness("pipe", ids)
    acc = [t for i, t in enumerate(samples) if res.get("s%d" % i, "").startswith("ok")]
    rej = [t for i, t in enumerate(samples) if not res.get("s%d" % i, "").startswith("ok")]
    _cache["acc"], _cache["rej"] = acc, rej
    return acc


def programs(chk):
    acc = accepted_samples(chk)
    return acc + _cache["rej"][:40]
