"""G-sl: programs of the core statement language SL (Model/Scope.lean) with their Mamba text.

A program is a tree; `sexp` gives the wire form for the Lean driver, `mamba` the source text.  All
values are Int, so the only faults are the ones injected: undefined / later / block-local uses,
reassignment of fin or undefined names, uncovered raises."""

# Expr: ("lit",) ("var", x) ("bin", a, b) ("call", f, arg) ("handle", e, [(cls, binder, body_stmt)])
# Stmt: ("skip",) ("seq", a, b) ("def", x, fin, e) ("assign", x, e) ("expr", e) ("if", c, t, e) ("while", c, b) ("for", x, e, b) ("raise", c)


def seq(stmts):
    if not stmts:
        return ("skip",)
    out = stmts[-1]
    for s in reversed(stmts[:-1]):
        out = ("seq", s, out)
    return out


def flat(s):
    if s[0] == "seq":
        return flat(s[1]) + flat(s[2])
    if s[0] == "skip":
        return []
    return [s]


def esx(e):
    k = e[0]
    if k == "lit":
        return "(lit)"
    if k == "var":
        return "(var %d)" % e[1]
    if k == "bin":
        return "(bin %s %s)" % (esx(e[1]), esx(e[2]))
    if k == "call":
        return "(call %d %s)" % (e[1], esx(e[2]))
    if k == "handle":
        return "(handle %s %s)" % (esx(e[1]), " ".join("(arm %d %d %s)" % (c, x, ssx(b)) for c, x, b in e[2]))
    raise ValueError(k)


def ssx(s):
    k = s[0]
    if k == "skip":
        return "(skip)"
    if k == "seq":
        return "(seq %s %s)" % (ssx(s[1]), ssx(s[2]))
    if k == "def":
        return "(def %d %d %s)" % (s[1], 1 if s[2] else 0, esx(s[3]))
    if k == "assign":
        return "(assign %d %s)" % (s[1], esx(s[2]))
    if k == "expr":
        return "(expr %s)" % esx(s[1])
    if k == "if":
        return "(if %s %s %s)" % (esx(s[1]), ssx(s[2]), ssx(s[3]))
    if k == "while":
        return "(while %s %s)" % (esx(s[1]), ssx(s[2]))
    if k == "for":
        return "(for %d %s %s)" % (s[1], esx(s[2]), ssx(s[3]))
    if k == "raise":
        return "(raise %d)" % s[1]
    raise ValueError(k)


class Prog:
    def __init__(self, classes, funs, main):
        self.classes, self.funs, self.main = classes, funs, main   # classes: [(c, parent|None)], funs: [(f, raises, params[(x, mutable)], body)]

    def sexp(self):
        cl = " ".join("(%d %s)" % (c, "-" if p is None else p) for c, p in self.classes)
        fs = " ".join("(%d (%s) (%s) %s)" % (f, " ".join(map(str, r)), " ".join("(%d %d)" % (x, 1 if m else 0) for x, m in ps), ssx(b)) for f, r, ps, b in self.funs)
        return "(prog (%s) (%s) %s)" % (cl, fs, ssx(self.main))

    def mamba(self):
        L = []
        for c, p in self.classes:
            L.append("class E%d(def m%d: Str): %s(m%d)" % (c, c, "Exception" if p is None else "E%d" % p, c))
        for f, raises, params, body in self.funs:
            head = "def f%d(%s) -> Int" % (f, ", ".join("%sv%d: Int" % ("" if m else "fin ", x) for x, m in params))
            if raises:
                head += " raise [%s]" % ", ".join("E%d" % c for c in raises)
            L.append(head + " =>")
            L += stmt_lines(body, 1)
            L.append("    0")
        L += stmt_lines(self.main, 0)
        return "\n".join(L) + "\n"


def etext(e):
    k = e[0]
    if k == "lit":
        return "1"
    if k == "var":
        return "v%d" % e[1]
    if k == "bin":
        return "(%s + %s)" % (etext(e[1]), etext(e[2]))
    if k == "call":
        return "f%d(%s)" % (e[1], etext(e[2]))
    raise ValueError("handle is only printed at statement level")


def stmt_lines(s, ind):
    pad = "    " * ind
    out = []
    for st in flat(s):
        k = st[0]
        if k == "def":
            e = st[3]
            pre = "%sdef %sv%d := " % (pad, "fin " if st[2] else "", st[1])
            if e[0] == "handle":
                out.append(pre + etext(e[1]) + " handle")
                out += arm_lines(e[2], ind + 1)
            else:
                out.append(pre + etext(e))
        elif k == "assign":
            out.append("%sv%d := %s" % (pad, st[1], etext(st[2])))
        elif k == "expr":
            e = st[1]
            if e[0] == "handle":
                out.append("%sdef h%d := %s handle" % (pad, id(st) % 100000, etext(e[1])))
                out += arm_lines(e[2], ind + 1)
            else:
                out.append("%sprint(%s)" % (pad, etext(e)))
        elif k == "if":
            out.append("%sif %s > 0 then" % (pad, etext(st[1])))
            out += stmt_lines(st[2], ind + 1) or [pad + "    print(0)"]
            if flat(st[3]):
                out.append(pad + "else")
                out += stmt_lines(st[3], ind + 1)
        elif k == "while":
            out.append("%swhile %s > 0 do" % (pad, etext(st[1])))
            out += stmt_lines(st[2], ind + 1) or [pad + "    print(0)"]
        elif k == "for":
            out.append("%sfor v%d in 0 .. 3 do" % (pad, st[1]))
            out += stmt_lines(st[3], ind + 1) or [pad + "    print(0)"]
        elif k == "raise":
            out.append("%sraise E%d(\"x\")" % (pad, st[1]))
    return out


def arm_lines(arms, ind):
    pad = "    " * ind
    out = []
    for c, x, body in arms:
        out.append("%sv%d: E%d =>" % (pad, x, c))
        out += stmt_lines(body, ind + 1)
        out.append(pad + "    0")
    return out


class Gen:
    def __init__(self, rng):
        self.rng = rng
        self.n = 10
        self.noshadow = set()      # parameters and loop variables are not re-defined (type inference of the checker is weak there)

    def fresh(self):
        self.n += 1
        return self.n

    def expr(self, vis, funs, depth=2, allow_raising=False):
        r = self.rng
        k = r.random()
        if depth <= 0 or k < 0.3:
            if vis and r.random() < 0.6:
                return ("var", r.choice(vis))
            return ("lit",)
        if k < 0.6:
            return ("bin", self.expr(vis, funs, depth - 1, allow_raising), self.expr(vis, funs, depth - 1, allow_raising))
        cand = [f for f, raises in funs if allow_raising or not raises]
        if cand:
            return ("call", r.choice(cand), self.expr(vis, funs, depth - 1, allow_raising))
        return ("lit",)

    def block(self, vis, mut, funs, n, depth, in_fun_caught=None):
        """vis: visible names; mut: the mutable ones; returns statements (well-formed by construction)"""
        r = self.rng
        vis, mut = list(vis), list(mut)
        out = []
        for _ in range(n):
            k = r.random()
            if k < 0.3 or not vis:
                x, fin = self.fresh(), r.random() < 0.35
                if [v for v in vis if v not in self.noshadow] and r.random() < 0.25:
                    x = r.choice([v for v in vis if v not in self.noshadow])   # shadowing re-definition
                out.append(("def", x, fin, self.expr(vis, funs)))
                if x not in vis:
                    vis.append(x)
                mut = [m for m in mut if m != x] + ([] if fin else [x])
            elif k < 0.45 and mut:
                out.append(("assign", r.choice(mut), self.expr(vis, funs)))
            elif k < 0.6:
                out.append(("expr", self.expr(vis, funs)))
            elif k < 0.72 and depth > 0:
                t = self.block(vis, mut, funs, r.randint(1, 2), depth - 1, in_fun_caught)
                e = self.block(vis, mut, funs, r.randint(0, 2), depth - 1, in_fun_caught)
                out.append(("if", self.expr(vis, funs, 1), seq(t), seq(e)))
            elif k < 0.8 and depth > 0:
                out.append(("while", self.expr(vis, funs, 1), seq(self.block(vis, mut, funs, r.randint(1, 2), depth - 1, in_fun_caught))))
            elif k < 0.88 and depth > 0:
                i = self.fresh()
                self.noshadow.add(i)
                out.append(("for", i, ("lit",), seq(self.block(vis + [i], mut, funs, r.randint(1, 2), depth - 1, in_fun_caught))))
            else:
                raising = [(f, rs) for f, rs in funs if rs]
                if raising:
                    f, rs = r.choice(raising)
                    x, b = self.fresh(), self.fresh()
                    arms = [(c, b, seq(self.block(vis, mut, funs, r.randint(0, 1), 0, in_fun_caught))) for c in rs]
                    out.append(("def", x, False, ("handle", ("call", f, self.expr(vis, funs, 1)), arms)))
                    vis.append(x)
                    mut.append(x)
                else:
                    out.append(("expr", self.expr(vis, funs)))
        return out

    def program(self):
        r = self.rng
        classes = []
        for c in range(1, r.randint(2, 4)):
            classes.append((c, r.choice([None] + [d for d, _ in classes])))
        funs = []
        for _ in range(r.randint(1, 3)):
            f = self.fresh()
            raises = r.sample([c for c, _ in classes], r.randint(0, min(2, len(classes)))) if r.random() < 0.6 else []
            params = [(self.fresh(), r.random() < 0.7) for _ in range(1)]
            self.noshadow.update(x for x, _ in params)
            vis = [x for x, _ in params]
            mut = [x for x, m in params if m]
            body = self.block(vis, mut, [(g, rs) for g, rs, _, _ in funs], r.randint(1, 3), 1)
            for c in raises:
                if r.random() < 0.7:
                    body.append(("if", ("var", params[0][0]), ("raise", c), ("skip",)))
            funs.append((f, raises, params, seq(body)))
        main = self.block([], [], [(g, rs) for g, rs, _, _ in funs], r.randint(3, 7), 2)
        return Prog(classes, funs, seq(main))


# -------------------------------------------------------------------------------------------- mutators
def positions(s, path=()):
    """all (path, stmt) of the statements in a tree, flattened blocks"""
    out = []
    for i, st in enumerate(flat(s)):
        p = path + (i,)
        out.append((p, st))
        if st[0] == "if":
            out += positions(st[2], p + ("t",)) + positions(st[3], p + ("e",))
        elif st[0] in ("while",):
            out += positions(st[2], p + ("b",))
        elif st[0] == "for":
            out += positions(st[3], p + ("b",))
    return out


def insert_at(s, path, new, after=False):
    """insert statement `new` before (or after) the statement at `path`"""
    stmts = flat(s)
    i = path[0]
    if len(path) == 1:
        j = i + 1 if after else i
        return seq(stmts[:j] + [new] + stmts[j:])
    st = stmts[i]
    tag = path[1]
    if st[0] == "if":
        st = ("if", st[1], insert_at(st[2], path[2:], new, after), st[3]) if tag == "t" else ("if", st[1], st[2], insert_at(st[3], path[2:], new, after))
    elif st[0] == "while":
        st = ("while", st[1], insert_at(st[2], path[2:], new, after))
    elif st[0] == "for":
        st = ("for", st[1], st[2], insert_at(st[3], path[2:], new, after))
    return seq(stmts[:i] + [st] + stmts[i + 1:])
