#!/usr/bin/env python3
"""Rewrites the two tables of DESIGN.md §6 (repaired / open findings) from known_findings.json."""
import json, os, re
HERE = os.path.dirname(os.path.dirname(os.path.abspath(__file__)))


def main():
    d = json.load(open(os.path.join(HERE, "known_findings.json")))
    p = os.path.join(HERE, "DESIGN.md")
    s = open(p).read()
    rows = []
    for f in d["fixed"]:
        m = re.match(r"fixed: property=(C\d+) (\w+) (.*)", f, re.S)
        rows.append("| %s | %s | %s |" % (m.group(2), m.group(1), " ".join(m.group(3).split())[:260].replace("|", "\\|")))
    open_rows = []
    for f in d["findings"]:
        open_rows.append("| %s | %s | %s | %s |" % (f["property"], f["key"], " ".join(f["observed"].split())[:220].replace("|", "\\|"),
                                                 " ".join(f["why_not_fixed"].split())[:150].replace("|", "\\|")))
    a = s.index("| commit | property | what failed |")
    b = s.index("\n\n", a)
    s = s[:a] + "| commit | property | what failed |\n|---|---|---|\n" + "\n".join(rows) + s[b:]
    a = s.index("| property | key | observed | why not repaired |")
    b = s.index("\n\n", a)
    s = s[:a] + "| property | key | observed | why not repaired |\n|---|---|---|---|\n" + "\n".join(open_rows) + s[b:]
    n_fix, n_open = len(d["fixed"]), len(d["findings"])
    s = re.sub(r"exposed \d+ genuine defects in the\npinned tree: \d+ `fix:` commits in `/repo` repair \d+ of them \(the pinned suite still passes, 538/538\), \d+ are recorded\nas open known findings",
               "exposed %d genuine defects in the\npinned tree: %d `fix:` commits in `/repo` repair %d of them (the pinned suite still passes, 538/538), %d are recorded\nas open known findings" % (n_fix - 1 + n_open, n_fix, n_fix - 1, n_open), s)
    open(p, "w").write(s)
    print("fixed rows:", n_fix, "open rows:", n_open)


if __name__ == "__main__":
    main()
