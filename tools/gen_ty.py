"""G-ty: the finite type universe of C20 and its S-expression wire format."""

CLASS_SRC = """class A
class B: A
class C: B
class D: A
class E: C, D
class X
class Y: X
class MyErr(def msg: Str): Exception(msg)
class SubErr(def msg2: Str): MyErr(msg2)
"""

ANCESTORS = {"A": [], "B": ["A"], "C": ["B", "A"], "D": ["A"], "E": ["C", "D", "B", "A"], "X": [], "Y": ["X"],
             "MyErr": ["Exception"], "SubErr": ["MyErr", "Exception"], "Int": ["Float", "Complex"], "Float": ["Complex"],
             "Complex": [], "Bool": [], "Str": [], "Exception": [], "Range": [], "Slice": []}
BASES = list(ANCESTORS)


def T(base, nullable=False, mutable=True, gens=()):
    return ("T", nullable, mutable, base, tuple(gens))


def N(*members, inter=False):
    return ("N", inter, tuple(members))


def sexp(x):
    if x[0] == "N":
        return "(N %d%s)" % (1 if x[1] else 0, "".join(" " + sexp(m) for m in x[2]))
    return "(T %d %d %s%s)" % (1 if x[1] else 0, 1 if x[2] else 0, x[3] if x[3] else '""', "".join(" " + sexp(g) for g in x[4]))


def single(base, nullable=False, gens=()):
    return N(T(base, nullable, True, gens))


def universe(rng, thorough):
    """list of (label, name, info) ; info: dict with kind and components for the law checks"""
    U = []
    add = lambda label, name, **info: U.append((label, name, info))
    for b in BASES:
        add(b, single(b), kind="class", base=b)
        add(b + "?", single(b, True), kind="nullable", base=b)
    add("Any", single("Any"), kind="any")
    add("None", single("None"), kind="none")
    # unions of two members (both storage orders)
    pairs = [(a, b) for i, a in enumerate(BASES) for b in BASES[i + 1:]]
    if not thorough:
        pairs = rng.sample(pairs, 28)
    for a, b in pairs:
        add("%s|%s" % (a, b), N(T(a), T(b)), kind="union", members=(a, b))
        add("%s|%s'" % (b, a), N(T(b), T(a)), kind="union", members=(b, a), perm_of="%s|%s" % (a, b))
    # unions with a nullable member (mixed nullability), both storage orders
    mixed = [("Int", "Str"), ("A", "Str"), ("B", "X"), ("Str", "Int"), ("C", "D"), ("Float", "Bool")]
    for a, b in (mixed if thorough else mixed[:4]):
        add("%s?|%s" % (a, b), N(T(a, True), T(b)), kind="union", members=(a + "?", b))
        add("%s|%s?'" % (b, a), N(T(b), T(a, True)), kind="union", members=(b, a + "?"), perm_of="%s?|%s" % (a, b))
    add("Int?|Str?", N(T("Int", True), T("Str", True)), kind="union", members=("Int?", "Str?"))
    # generic instantiations, depth 1 and 2
    # argument classes related directly, through an ancestor two steps away, through one of two parents, and unrelated
    args = ["Int", "Float", "Complex", "Str", "C", "B", "A", "E", "D", "X"]
    for g in ("List", "Set"):
        for a in args:
            add("%s[%s]" % (g, a), single(g, gens=[single(a)]), kind="generic", ctor=g, args=(a,))
    for a in ("Int", "Float", "A"):
        add("List[List[%s]]" % a, single("List", gens=[single("List", gens=[single(a)])]), kind="generic2", ctor="List", args=(a,))
        add("Set[%s?]" % a, single("Set", gens=[single(a, True)]), kind="generic-nullable-arg", ctor="Set", args=(a,))
    for a, b in (("Int", "Str"), ("Float", "Str"), ("Complex", "Str"), ("Int", "Int"), ("C", "X"), ("B", "X"), ("A", "X")):
        add("Tuple[%s,%s]" % (a, b), single("Tuple", gens=[single(a), single(b)]), kind="tuple", args=(a, b))
        add("Dict[%s,%s]" % (a, b), single("Dict", gens=[single(a), single(b)]), kind="dict", args=(a, b))
    for a in ("Int", "Float"):
        add("Tuple[%s]" % a, single("Tuple", gens=[single(a)]), kind="tuple", args=(a,))
        add("Tuple[%s,Str,Int]" % a, single("Tuple", gens=[single(a), single("Str"), single("Int")]), kind="tuple", args=(a, "Str", "Int"))
    add("Collection[Int]", single("Collection", gens=[single("Int")]), kind="generic", ctor="Collection", args=("Int",))
    add("Collection[Float]", single("Collection", gens=[single("Float")]), kind="generic", ctor="Collection", args=("Float",))
    # function types: reflexivity only
    add("Callable[[Int],Str]", single("Callable", gens=[N(T("", gens=[single("Int")])), single("Str")]), kind="callable")
    add("Callable[[],Int]", single("Callable", gens=[N(T("")), single("Int")]), kind="callable")
    add("()", N(), kind="empty")
    return U


def syntax(x):
    """Mamba source syntax of a name of the universe; None when the grammar cannot spell it
    (nested generics, nullable generic arguments, one-element tuples, callables, the empty name)"""
    if x[0] == "N":
        ms = [syntax(m) for m in x[2]]
        if not ms or any(m is None for m in ms):
            return None
        return ms[0] if len(ms) == 1 else "{" + ", ".join(ms) + "}"
    _, nullable, _mutable, base, gens = x
    if base in ("", "Callable"):
        return None
    gs = [syntax(g) for g in gens]
    if any(g is None or "[" in g or "?" in g for g in gs):
        return None
    if base == "Tuple":
        if len(gs) < 2:
            return None
        s = "(" + ", ".join(gs) + ")"
    else:
        s = base + ("[" + ", ".join(gs) + "]" if gs else "")
    return s + ("?" if nullable else "")
