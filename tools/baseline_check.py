#!/usr/bin/env python3
"""Run /repo's pinned suite (guard OFF) and compare with BASELINE.json stable_pass.
usage: baseline_check.py [repo_dir]   exit 0 iff every stable_pass test passes."""
import json, subprocess, sys, re, os
repo = sys.argv[1] if len(sys.argv) > 1 else "/repo"
base = json.load(open("/root/.vp/BASELINE.json"))
want = set(base["stable_pass"])
env = dict(os.environ, CARGO_NET_OFFLINE="true")
p = subprocess.run(["cargo", "nextest", "run", "--workspace", "--no-fail-fast", "--offline",
                    "--test-threads", "16", "--status-level", "all", "--final-status-level", "none",
                    "--failure-output", "never", "--success-output", "never"],
                   cwd=repo, env=env, stdout=subprocess.PIPE, stderr=subprocess.STDOUT, text=True)
passed = set()
for line in p.stdout.splitlines():
    m = re.match(r"\s*PASS \[[^\]]*\]\s*(?:\(\s*\d+/\d+\)\s*)?(\S+)\s+(\S+)\s*$", line)
    if m:
        passed.add(m.group(1) + "::" + m.group(2))
missing = sorted(want - passed)
print(f"stable_pass={len(want)} passed_now={len(passed)} missing={len(missing)}")
for m in missing[:40]:
    print("  MISSING", m)
sys.exit(1 if missing else 0)
