#!/usr/bin/env python3
"""Writes /verif/MANIFEST.json from the table below (single source of truth for claimed checks)."""
import json, os
HERE = os.path.dirname(os.path.dirname(os.path.abspath(__file__)))
COMMON_NOTE = ("Trusted base: Lean 4.33 kernel; axioms propext/Classical.choice/Quot.sound only (audited per theorem); "
               "translator tools/translate.py; correspondence harness (Rust, links /repo with feature verif) + Lean driver mvdrv + python orchestrator; "
               "the Rust code is modelled, not verified: the theorem is about the Lean model, the tie is the regenerated tables and the correspondence run. ")
CLAIMS = {
    "C18": dict(
        text="Unbounded Lean theorems on an executable model of the lexer, for every input text and every lexer for interpolated expressions: indent_balanced, eof_single, and spans_exact — the caret ends at the start caret advanced over the whole text, and every token that carries source text (identifiers, keywords, operators, numbers incl. E-notation, strings incl. multi-line / non-ASCII / interpolated, comments) IS a slice of the text: the text splits as pre ++ mid ++ post with the token's text equal to mid, its start the start caret advanced over pre and its end the start caret advanced over pre ++ mid (CRLF one line break). "
             "The model is tied to the code by regenerated keyword/spelling tables and a token-stream correspondence (kind, text, all four coordinates, nested streams) on vocabulary pairs, random texts, indentation programs, samples and mutants; ordering/disjointness of the spans, the doc-string fold and canonical re-lexing are evaluated by an oracle on the implementation's stream for the same inputs.",
        note="Proved: balance, single Eof, exact spans of the raw token stream (Lemmas/LexSpan.lean). Oracle+correspondence only: span order and disjointness, spans after the doc-string pass, canonical re-lexing, positions of tokens inside interpolations (re-based copies). Synthetic NL/Indent/Dedent tokens carry no text and are re-ordered by design.",
        technique="Lean 4 proof over lexer model + regenerated tables + differential correspondence",
        design="§5 C18"),
}
CLAIMS["C14"] = dict(
    text="Unbounded Lean theorems on the lexer model, in suffix form (for every lexer state and every remaining text): CRLF lexes exactly like LF; trailing spaces, a final newline and a trailing comment do not change the token stream the parser consumes; position-independence of the token stream (run_shape). "
         "Tied by regenerated tables and the token-stream correspondence on every trivia variant; the end-to-end clause (verdict and emitted text unchanged) is decided by a metamorphic oracle on the implementation.",
    note="Proved: crlf_inert, trailing_space(_eof)_inert, final_newline_inert, trailing_comment_inert, run_shape. Oracle+correspondence only: inserted blank/comment lines, parser insensitivity to NL counts, redundant parentheses, lifting of the suffix-form theorems to arbitrary insertion points.",
    technique="Lean 4 proof over lexer model + differential correspondence + metamorphic oracle",
    design="§5 C14")
CLAIMS["C03"] = dict(
    text="Unbounded Lean theorem lex_total on the lexer model: for every input text the lexer returns tokens or a lexical error and no Rust panic site of the modelled code (byte slicing of interpolated expressions; the model's own nesting fuel) is reachable. "
         "The model is tied to the code by the token-stream correspondence on the same inputs. The remaining stages (parser, context, unifier, generator, rendering), stack depth and wall time are decided by a crash/hang oracle that runs the real pipeline in a worker process on adversarial structures, deep nesting, random text and token-level mutants.",
    note="Proved: lexer stage only (lex_total, lex_ok_or_err). Explored, not proved: every other stage, stack overflow, time bound (runtime behaviour no model exhibits); bounds: inputs <= 16 KiB, nesting <= 40, dev profile with overflow checks.",
    technique="Lean 4 proof over lexer model + crash/hang oracle on the real pipeline",
    design="§5 C03")
CLAIMS["C10"] = dict(
    text="Unbounded Lean theorem print_parse_roundtrip_full: for EVERY expression the printer model can print — names, literals, all 23 binary and 4 unary operators, conditional expressions, lambdas, calls, attribute access and method calls, subscripts, isinstance, math.sqrt, E-notation, tuple/list/set displays, nested in any way and to any depth — a model of the Python 3 expression grammar parses the printed tokens back to exactly the tree the expression denotes, and to no other (roundtrip_unique_full). The fragment excludes only one-element tuples and the empty set display, for which the statement is false (one_tuple_witness proves `(x,)` is printed as `(x)` and parsed as `x`), property accesses that are neither a name nor a call of a name, and lambda parameters that are not names. print_parse_roundtrip / operand_roundtrip are the operator-fragment special cases. "
         "The printer's operator spellings, precedence table, operand minima and ternary minima are regenerated from the Rust source on every run, so the proof is re-checked against the current tables; the print model is tied to format!(core) by an exact-text correspondence on generated Core trees, and the grammar model is validated against CPython ast.parse on the real printed texts and on parenthesis-free texts. Builders (comprehensions), where the printer adds an `and` chain of its own, and the composition with the real text tokeniser are decided by the CPython oracle on the implementation (exhaustive to depth 2, sampled deeper, every ordered pair of condition forms).",
    note="Proved: the whole expression language of the printer model (Lemmas/PyFull.lean, PyExt.lean on top of the operator fragment). Not a theorem: builders/comprehensions and dictionaries (oracle), Python tokenisation of the rendered text (validated by ast.parse of the real text on every run).",
    technique="Lean 4 proof (printer vs Python grammar round trip, full expression language) + regenerated tables + CPython-validated spec",
    design="§5 C10")
CLAIMS["C20"] = dict(
    text="Unbounded Lean theorems on the model of Name/TrueName::is_superset_of over an arbitrary variant relation (hence every class table and every type depth): member-wise characterisation, union<=U iff each member, order independence of stored members, and the nullable rules (T? never <= T, None <= T?, T <= T? when variants relate); reflexivity and transitivity lift from the variant relation to every nullable variant and every union of any size (nameSup_refl, nameSup_trans); forming unions is commutative, idempotent and associative on the set of members for names without a None member (union_comm/idem/assoc_partial). "
         "The class-table recursion (Context::class with generic substitution, has_parent for names and string names) is an executable Lean model tied by an exhaustive correspondence over the property's finite universe on the class table dumped from the real Context; reflexivity, transitivity over all triples, Any-top, ancestors/unrelated and union laws are decided exhaustively on the implementation's answers over that universe.",
    note="Proved for all inputs: Name/TrueName layers. Exhaustive over the finite universe (as the property quantifies), not proved for arbitrary tables: reflexivity/transitivity/ancestor laws of the class-table recursion (the hypotheses of the lifting theorems), the None-folding branch of Name::union, and the end-to-end agreement of unify_type with the relation (15 000 programs). Function types: reflexivity only.",
    technique="Lean 4 proof over name-lattice model + exhaustive correspondence/law check on the finite universe",
    design="§5 C20")
CLAIMS["C01"] = dict(
    text="Unbounded Lean theorems on two mechanisms of the desugaring. (1) range_enumerates_partial on the range desugaring (end adjustment and default step regenerated from range_slice.rs on every run): for every start, end, inclusiveness and positive step CPython's range over the emitted arguments enumerates exactly what the Mamba range means; the negation for negative steps is proved on a witness and recorded as a known finding. (2) definition_binds_on_every_path / definition_assigns_the_tail_expression / implicit_return_on_every_path on the model of append_assign and append_ret (generate/convert/mod.rs): for EVERY statement tree — any nesting of blocks, conditionals, match arms, try/except handlers — exactly the statements in tail position change, and after the transformation no path ends in a bare expression (every path binds the defined variable, or returns, or raises); the lists of Core variants the Rust functions descend into and skip are regenerated from the source on every run and must equal the model's (tail_tables_match), and the model's prediction of how every path ends is compared with the emitted Python of generated nested block-form definitions and function bodies. return_of_definition_witness reproduces a recorded finding. "
         "All other constructs (operators, if/match/while/for, constructors and inheritance, field updates, raise/handle, lambdas, builders, both annotate settings) are decided by executing the emitted module under CPython against a reference interpreter of the generated program tree.",
    note="Proved: range desugaring; the tail transformations (where assignments and returns land). Decided by execution oracle, not by a theorem: conversion of every other construct. The reference interpreter (tools/gen_prog.py Interp) is part of the trusted base.",
    technique="Lean 4 proof (range desugaring, tail transformations; regenerated constants and arm lists) + correspondence + CPython execution oracle vs reference interpreter",
    design="§5 C01")
CLAIMS["C11"] = dict(
    text="Lean theorems on a model of how convert_def consumes the option (annotate_inert_fun, return_decision_inert, off_emits_no_annotation): for every function/definition shape the two conversions agree once annotations are erased and the implicit-return decision does not depend on the option. "
         "What that decision reads (retDecision) and the complete list of places where the generate stage reads the option are regenerated from the Rust source on every run; the translator refuses any read that is not one of the modelled annotation-field guards and any mention of the option outside the generate stage. End to end, verdict equality and equality of the Python ASTs after erasing annotations and typing imports are decided by an oracle on generated programs and repository samples.",
    note="The model covers exactly the three annotation guards and the return decision of definition.rs; the claim that nothing else reads the option rests on the translator's syntactic scan (trusted) and the end-to-end oracle.",
    technique="Lean 4 proof over regenerated model of the option's read sites + erased-AST oracle",
    design="§5 C11")
CLAIMS["C02"] = dict(
    text="CPython's acceptance of the emitted text cannot be replaced by a Lean model; it is decided by compile() of every module emitted for repository samples, generated programs and their token-level mutants, both annotate settings. The Lean part proves the separator mechanism every list in the printer goes through (comma_delimited_spec: for all item lists without empty or white-space-terminated items the remove-and-trim trick yields exactly the items separated by ', '; the empty item is a proved witness that the guard is needed), "
         "and the model of that function is tied to the real one by a correspondence through Core::TupleLiteral on item lists that include the excluded shapes.",
    note="Proved: comma_delimited only. Decided by the CPython oracle, not proved: layout (indentation, pass insertion), literal validity, statement grammar. Known shapes outside the guard are exercised by the correspondence.",
    technique="CPython compile() oracle + Lean 4 proof of the printer's separator mechanism + correspondence",
    design="§5 C02")
CLAIMS["C16"] = dict(
    text="Unbounded Lean theorems on the model of the generator's import collector (Imports in state.rs), for every sequence of add_import/add_from_import calls: each plain module, each from-module and each member appears once (imports_inv), and every name ever registered is provided by the final collector (imports_cover). "
         "The model is tied to the real collector (reached through a guarded re-export) by a correspondence on random call sequences comparing the rendered import statements. That each generator-introduced name is registered where it is emitted, and that imports precede first use, is decided by a free-name/placement oracle (python ast) on emitted modules from templates for every support import in top-level/function/class positions, generated programs and samples, both annotate settings.",
    note="Proved: the collector. Oracle only: registration at every emission site (imports_cover's premise) and prepending to the module (gen_arguments). The key order of from-imports (BTreeMap order) is checked by the correspondence, not proved.",
    technique="Lean 4 proof (invariant over call sequences) + correspondence on the real collector + free-name oracle",
    design="§5 C16")
CLAIMS["C06"] = dict(
    text="Unbounded Lean theorems on the models of TrueName::is_superset_of and Name::union over an arbitrary variant relation (every class table, every depth): a non-nullable T never accepts a nullable type, accepts None only if its class does, T? accepts None and accepts T/T? whenever the variants relate, and a union with None has only nullable non-None members. "
         "The model is the one tied by C20's exhaustive correspondence. The flow positions are decided by a verdict oracle over type (Int, Str, Bool, Float, user class) x position (initialiser, reassignment, function/constructor/method argument, return, field, operand, receiver, ? default) x context (top level, function, branch, else, loop, method), in both directions.",
    note="Proved: name layer. Oracle only: that each consuming position generates the constraint (constraint generation and the unifier are not modelled).",
    technique="Lean 4 proof over name-lattice model + exhaustive verdict matrix oracle",
    design="§5 C06")
CLAIMS["C12"] = dict(
    text="Unbounded Lean theorem class_body_order_perm on the model of extract_class's member ordering: for every well-formed class body and every iteration order of the HashMap the members are stored in, the emitted order is the same, because the (position, rank) sort key is injective (keys_distinct); the position offsets and tie ranks are regenerated from class.rs on every run (without the tie ranks the proof fails). Order independence of the name lattice is theorem C20.order_indep on the model tied by C20's correspondence. "
         "The member-order model is tied to the code by comparing its predicted order with the emitted class for generated classes. The unifier's order sensitivity is not modelled: verdict and bytes are compared over repetitions in one process (fresh hash seeds per map), after shuffled other workloads, across processes and under concurrency.",
    note="Proved: class member order, name-lattice order independence. Explored, not proved: determinism of unification and of context building. The wording of diagnostics is outside the property (only the verdict is compared on rejection).",
    technique="Lean 4 proof (permutation invariance via injective sort key, regenerated constants) + correspondence + repetition oracle",
    design="§5 C12")
CLAIMS["C17"] = dict(
    text="Lean theorems over the REGENERATED table of the names under which operator definitions are emitted (derived from the parser's operator arms, NodeOp's Display, the string constants of function/python.rs and CoreFunOp): every definable operator is emitted as the special method the Python data model prescribes, distinct operators never share a method, and the language's arithmetic and comparison operators are all definable. "
         "Names, parameter names/order/defaults/variadic markers, constructors (__init__ from class arguments or explicit), base lists and abstract types are decided by a signature oracle comparing python ast signatures of emitted modules with the definitions of generated programs and templates, both annotate settings.",
    note="Proved (finite regenerated table, decide): operator naming. Oracle only: all other signature clauses (the Convert model is not built).",
    technique="Lean 4 proof over regenerated operator table + python-ast signature oracle",
    design="§5 C17")
CLAIMS["C13"] = dict(
    text="Unbounded Lean theorems on the model of transpile_dir/mamba_to_python with abstract per-file stage outcomes, for every project and every prior content of the output directory: all_or_nothing (any lexical/syntax/type/generation/context error gives a non-empty error list and writes nothing), errors_name_their_file, outputs_mirror_files and mirror_layout (exactly the mirrored .py paths are (over)written, every other path untouched). "
         "The model is tied to lib::transpile_dir by running the real function on scratch directories for generated projects of 1-5 files in nested directories with cross-file use: verdict, files named by diagnostics and the output tree are compared with the model fed with the per-file fault labels. Independence of the file order (all permutations through mamba_to_python), of a populated output directory and of an added unrelated file is decided by the oracle.",
    note="Proved: partition/write structure. Oracle only: that a file's stage outcome does not depend on file order or unrelated files (context building and checking are not modelled); I/O failures in the middle of the write loop are outside the model.",
    technique="Lean 4 proof over pipeline model + correspondence on real transpile_dir runs + metamorphic oracle",
    design="§5 C13")
CLAIMS["C19"] = dict(
    text="Unbounded Lean theorems on the model of format_err/format_location: render_no_panic (rendering succeeds for every message, source and cause list whenever each position is invisible or has a start column >= 1, the only underflowing arithmetic; a column-0 witness shows the guard is sharp), render_quotes_verbatim (a non-empty reported line is quoted exactly with its number; an empty one is shown as <unknown>, proved), caret_under_column (the caret run starts under the reported column and is get_width wide). "
         "The model is tied to the real Display of TypeErr by a byte-for-byte correspondence on generated error descriptions (positions incl. invisible and out-of-range, CRLF and non-ASCII sources, causes). That every rejection carries non-empty diagnostics naming the file, with positions inside the text, verbatim quoted lines and a position on the faulty line is decided by an oracle on single-fault mutants (lexical, syntax, type faults on a recorded line).",
    note="Proved: renderer. Oracle only: that errors of all stages carry path/source (with_source in lib.rs), and fault localisation. Context-building errors carry no path (<unknown>): exercised by C03/C13, not part of this check's mutants.",
    technique="Lean 4 proof over renderer model + byte-exact correspondence + fault-localisation oracle",
    design="§5 C19")
CLAIMS["C09"] = dict(
    text="Unbounded Lean soundness theorem no_undefined_read on a core statement language with the generate stage's name discipline (persistent environments: definitions visible to later statements of their block only) against the dynamic semantics of the emitted Python (function-level binding, every branch choice and iteration count): a block accepted in an environment whose names are bound never reaches a read of an unbound name, for all programs, nestings and execution paths; plus undefined_read_rejected, branch_defs_do_not_escape, shadow_latest. "
         "Attributes in constructors: theorem constructor_assigns_every_attribute on a model of the unassigned-attribute analysis (assignment, if with and without else, loops, match with and without a catch-all arm, handle arms, bare return): an accepted constructor body has assigned to every attribute declared without a value when it ends, on every path (every stream of choices), with witnesses that each rule is needed; conversely (constructor_rejection_is_justified, constructor_analysis_exact) a body is rejected only if some path ends, by falling through or by return, with an attribute unassigned, so acceptance is exactly 'every path assigns every attribute'; tied to the code by a verdict correspondence on generated constructor bodies. "
         "The static model is tied to the code by a verdict-class correspondence on generated programs (functions, nested if/while/for, handle, shadowing) and single-point mutants inserting uses of arbitrary names at arbitrary positions, the model supplying the expected verdict.",
    note="Modelled: variables, parameters, loop variables, handler binders, blocks. Not modelled (DESIGN.md, known findings): top-level functions/classes used before their definition, class-level fields read as bare names in methods, reassignment of a global inside a function. Inference failures of the checker on accepted-by-model programs are counted as inconclusive, not as agreement.",
    technique="Lean 4 soundness proof (static discipline vs operational semantics) + verdict-class correspondence",
    design="§5 C09")
CLAIMS["C08"] = dict(
    text="Unbounded Lean soundness theorem accepted_body_raises_declared on the same language with the generate stage's raises_caught discipline (handle arms cover the handled expression only; a body is checked under its declared classes; top level unchecked) against the dynamic semantics of try/except (first clause matching by class ancestry; a call may raise any subclass of what its callee declares): on every execution path an exception escaping an accepted function body is a subclass of a declared class; plus uncovered_raise_rejected, uncovered_call_rejected, arms_not_covered_by_own_handle, top_level_unchecked. "
         "Tied to the code by the verdict-class correspondence on generated programs with exception hierarchies and mutants inserting raises/raising calls at arbitrary positions and dropping declared classes.",
    note="Hypothesis FuelSuffices: the ancestor test's fuel is at least the height of the class table (shown for a concrete table). Not modelled: method calls (the checker ignores the raises of a method callee: known finding), that declared classes descend from Exception, generic exception classes.",
    technique="Lean 4 soundness proof (checked exceptions vs operational semantics) + verdict-class correspondence",
    design="§5 C08")
CLAIMS["C07"] = dict(
    text="Lean theorems on the same model's mutability discipline (the flags of the innermost visible definition decide): fin_reassign_rejected, undefined_reassign_rejected, mutable_reassign_ok, shadow_decides (after a re-definition the new flag decides whatever the older ones were), definition_scope / outer_flag_inside_loop (a definition inside a branch or loop does not change what the outer name is afterwards; an outer fin stays fin inside), for every environment and nesting. "
         "Tied to the code by the verdict-class correspondence on generated programs and mutants inserting reassignments of arbitrary names (fin, mutable, shadowed, out-of-scope, undefined) at arbitrary positions.",
    note="Modelled: plain definitions, parameters (fin or not), loop variables, shadowing, nesting; compound assignment is treated like := (as the checker does). Not modelled: tuple components, class fields and receivers (fin field through a mutable receiver is accepted by the checker: known finding), the two-map shadow bookkeeping of Environment/ConstrBuilder (only its lookup result).",
    technique="Lean 4 proof over environment model + verdict-class correspondence with mutants",
    design="§5 C07")
CLAIMS["C05"] = dict(
    text="Unbounded Lean theorems on the model of call_parameters/unify_fun_arg for every signature, argument list and assignability relation: call_iff_conforms (accepted exactly when no extra argument, every parameter without argument has a default, and each argument is assignable to its parameter), arity_iff, and the single-fault theorems (an extra argument, a missing required argument, or one non-assignable argument anywhere makes the call rejected). "
         "The model, instantiated with the assignability model tied by C20 on the class table dumped from the real Context, is compared with the checker's verdict (accept / arity error / type error) on generated calls of functions, methods and constructors with 0-3 parameters and trailing defaults, conforming or with one fault, at the positions top level, function body, method call, constructor call, nested argument, branch and loop. The positive half on whole programs is decided by acceptance of well-typed generated programs.",
    note="Proved: calls against signatures. Oracle only: definitions/returns/initialisers (covered with nullability by C06's matrix), the constraint builder and unifier. Over-rejections by inference are a recorded known finding.",
    technique="Lean 4 proof over call-conformance model + verdict correspondence with single-fault mutants",
    design="§5 C05")
CLAIMS["C04"] = dict(
    text="Lean theorems over the REGENERATED table of operator methods of the primitive stubs (check/resource/primitive/*.py) against a specification of CPython's operators by type tag: stubs_sound_partial (for every row outside five listed exceptions, for every runtime tag the declared operand type admits under Int <: Float <: Complex, the Python operator is defined and its result is admitted by the declared result type), exceptions_are_unsound (each exception is proved unsound, none is a blanket exemption), int_float_arithmetic_sound; the NameError half is theorem C09.no_undefined_read. "
         "The specification pyOp is exercised against CPython, and the property decided end to end, by executing under CPython every accepted program of an operator matrix over Int/Float/Str/Bool, generated programs and their single-literal type-changing mutants: no TypeError, AttributeError, NameError or UnboundLocalError.",
    note="Proved (finite regenerated table, decide): operator stubs of the primitives. Execution oracle only: methods/fields of user classes, collections, generics, first-use inference (the TypeConf model of DESIGN §4 is not built). Known unsound rows are recorded findings with their runtime message as trigger.",
    technique="Lean 4 proof over regenerated stub table vs CPython operator spec + execution oracle with type-changing mutants",
    design="§5 C04")
CLAIMS["C15"] = dict(
    text="Lean theorems, for every name: identifier_lexed_uniformly / rename_preserves_token (the lexer's dispatch yields an Id token carrying the whole spelling for EVERY legal non-keyword name and consumes exactly the name, so only the regenerated keyword table can tell two names apart), id_payload_chars + shadow_key_not_a_name + shadow_key_injective (an Id token only carries identifier characters, hence the shadowing key `x@1` of format_var_map — separator regenerated from builder.rs — never equals a user name and is injective in (name, offset)), fun_name_commutes / type_name_commutes / ordinary_names_unchanged (the two spelling-indexed tables of the generate stage, regenerated from definition.rs and clss/mod.rs, are the identity outside their keys and commute with every renaming avoiding the keys), and the witnesses undocumented_function_specials = [size], type_table_collisions (Slice/slice, Enum) which ARE the recorded findings. "
         "End to end the property is decided on the implementation by a metamorphic oracle: verdict(P) = verdict(rho P), ast(out(rho P)) = ast(rho(out P)) for both annotate settings, and equal CPython behaviour when rho uses a colliding name, over all-ordinary, mixed, derived (x_1, x1, _x) and systematic single-name renamings into ordinary names, names resembling internal/Python-special names, and every identifier-like string literal the translator finds in the stages that inspect spellings.",
    note="Proved for every name: lexer dispatch, generate-stage name tables, shadowing key. Oracle only: that no other code of the checker/generator inspects spellings (that is what the source-derived candidate pool targets). Four open findings (definition named size, type table applied to user names, user class merging with an internal stub class, generated import/builtin shadowed by a user name).",
    technique="Lean 4 proof over lexer model and regenerated name tables + metamorphic renaming oracle",
    design="§5 C15")
NOT_YET = {}
ALL = ["C%02d" % i for i in range(1, 21)]


def main():
    checks = []
    for pid in ALL:
        if pid not in CLAIMS:
            continue
        c = CLAIMS[pid]
        checks.append({
            "property_id": pid,
            "quick_cmd": "./check %s --tier quick" % pid,
            "thorough_cmd": "./check %s --tier thorough" % pid,
            "evidence_file": "evidence/%s.json" % pid,
            "replay_cmd_template": "./check %s --replay {path}" % pid,
            "engine": "lean4-model+correspondence",
            "level_claimed": {"category": c.get("category", "proof"), "text": c["text"], "design_ref": c["design"]},
            "level_note": COMMON_NOTE + c["note"],
            "technique": c["technique"],
        })
    na = [{"property_id": p, "reason": NOT_YET.get(p, "not claimed yet: model and theorems for this property are not built at this commit (planned, see DESIGN.md §5); no other technique is substituted")}
          for p in ALL if p not in CLAIMS]
    m = {
        "version": 1,
        "setup_cmd": "./setup.sh",
        "hooks": {
            "guard": "cargo feature `verif` (off by default)",
            "enable": "the harness crate /verif/harness depends on mamba = { path = \"/repo\", features = [\"verif\"] }",
            "baseline_off_cmd": "python3 /verif/tools/baseline_check.py /repo",
            "source_commits": ["4d90eb1", "39ec960"],
            "add_only": True,
        },
        "engines": [{"name": "lean4-model+correspondence", "path": "/verif/lean, /verif/harness, /verif/tools",
                     "serves_properties": sorted(CLAIMS),
                     "kind_free_text": "Lean 4 theorems over executable models; tables regenerated from Rust source each run; differential correspondence model vs implementation; property oracle on the implementation as failing-input search"}],
        "checks": checks,
        "not_applicable": na,
        "notes": "See DESIGN.md. known_findings.json lists recorded findings and fixed: entries.",
    }
    with open(os.path.join(HERE, "MANIFEST.json"), "w") as f:
        json.dump(m, f, indent=1)
    print("claimed:", sorted(CLAIMS), "unclaimed:", len(na))


if __name__ == "__main__":
    main()
