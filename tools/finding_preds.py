"""Triggers of known findings that a regular expression cannot express safely (nested quantifiers backtrack
exponentially on some programs): plain python predicates over the failing case's text, named by the finding's
`trigger_pred` field in known_findings.json."""
import re


def annotation_forward_reference(text):
    """an annotation (`: T` or `-> T`) names a class / type that is defined LATER in the file, or the class inside whose
    own body the annotation stands"""
    lines = text.split("\n")
    defined_at = {}
    for i, l in enumerate(lines):
        m = re.match(r"(?:class|type) (\w+)\b", l)
        if m and m.group(1) not in defined_at:
            defined_at[m.group(1)] = i
    if not defined_at:
        return False
    current, cur_start = None, -1
    for i, l in enumerate(lines):
        m = re.match(r"(?:class|type) (\w+)\b", l)
        if m:
            current, cur_start = m.group(1), i
        elif l and not l[0] in " \t":
            current = None
        for a in re.finditer(r"(?:: |-> )([A-Z]\w*)\b", l):
            t = a.group(1)
            if t in defined_at and (defined_at[t] > i or (t == current and i > cur_start)):
                return True
    return False


PREDS = {"annotation_forward_reference": annotation_forward_reference}
