"""C18 — token positions exact, indentation balanced, single Eof, canonical re-lexing."""
import gen_lex
from lexfmt import parse_dump
from mvlib import hexs

SYNTH = {"NL", "Indent", "Dedent", "Eof"}
WS = " \n\r"


def src_text(t):
    return '"""' + t.text[2:] + '"""' if t.kind == "DocStr" else t.text


def advance(pos, text):
    l, c = pos
    for ch in text:
        if ch == "\n":
            l, c = l + 1, 1
        else:
            c += 1
    return (l, c)


def oracle(src, toks):
    """the C18 spec evaluated on the implementation's token stream; returns None or a description"""
    kinds = [t.kind for t in toks]
    if not kinds or kinds[-1] != "Eof" or kinds.count("Eof") != 1:
        return "stream does not end with exactly one Eof: %s" % kinds[-3:]
    depth = 0
    for t in toks:
        if t.kind == "Indent":
            depth += 1
        elif t.kind == "Dedent":
            depth -= 1
            if depth < 0:
                return "dedent at depth 0 at %d:%d" % (t.l1, t.c1)
    if depth != 0:
        return "indentation depth %d at end of input" % depth
    # tiling of the source by the lexical tokens
    cur, pos = 0, (1, 1)
    for t in toks:
        if t.kind in SYNTH:
            continue
        while cur < len(src) and src[cur] in WS:
            pos = advance(pos, src[cur])
            cur += 1
        text = src_text(t)
        if src[cur:cur + len(text)] != text:
            return "token %r is not the source text at offset %d (%r)" % (t, cur, src[cur:cur + len(text) + 3])
        if (t.l1, t.c1) != pos:
            return "token %r starts at %s in the source" % (t, pos)
        end = advance(pos, text)
        if (t.l2, t.c2) != end:
            return "token %r ends at %s in the source" % (t, end)
        cur += len(text)
        pos = end
        # interpolated expressions (depth 1) of single-line strings sit inside the literal
        if t.kind == "Str" and "\n" not in t.text:
            for grp in t.nested:
                for n in grp:
                    if n.kind in SYNTH:
                        continue
                    off = cur - len(text) + (n.c1 - t.c1)
                    if n.l1 != t.l1 or src[off:off + len(n.text)] != n.text:
                        return "interpolated token %r is not at its position inside %r" % (n, t)
    while cur < len(src) and src[cur] in WS:
        cur += 1
    if cur != len(src):
        return "source text after offset %d is covered by no token" % cur
    return None


def relex_input(toks):
    """canonical spelling of the token sequence (one line), or None when not applicable"""
    lex = [t for t in toks if t.kind not in SYNTH]
    if not lex or any(t.kind in ("Comment", "DocStr") or "\n" in t.text or "\r" in t.text for t in lex):
        return None
    return " ".join(t.text for t in lex), [t.kind for t in lex]


def gen_cases(chk, thorough):
    rng = chk.rng
    cases = []
    corpus = [c["input"] for c in CORPUS]
    cases += [("corpus", t) for t in corpus]
    lay = gen_lex.literal_layouts()
    cases += [("layout", t) for t in (lay if thorough else rng.sample(lay, 500))]
    prs = gen_lex.pairs(True)
    if not thorough:
        prs = rng.sample(prs, min(len(prs), 6000))
    cases += [("pair", t) for t in prs]
    n_rand = 4000 if thorough else 800
    cases += [("random", gen_lex.random_text(rng, rng.randint(1, 40))) for _ in range(n_rand)]
    n_ind = 6000 if thorough else 1200
    cases += [("indent", gen_lex.indented_program(rng, rng.randint(1, 14))) for _ in range(n_ind)]
    samples = gen_lex.samples_text()
    cases += [("sample", t) for t in samples]
    n_mut = 8000 if thorough else 1500
    for _ in range(n_mut):
        t = rng.choice(samples)
        for _ in range(rng.randint(1, 3)):
            t = gen_lex.mutate(rng, t)
        cases.append(("mutant", t))
    return cases


CORPUS = [
    {"input": 'def s := ""\nx', "note": "D3 empty string moved later tokens one line up (fixed 71e8fa8)"},
    {"input": "1<<2 + 3 >> 4", "note": "D4 shift swallowed the next character (fixed 356d04b)"},
    {"input": "   b", "note": "D4b dedent without indent (fixed)"},
    {"input": "if a\n    b\n  c", "note": "D4b indent never closed (fixed)"},
    {"input": '"""doc"""\nx', "note": "doc-string span / overflow panic (fixed)"},
    {"input": '"é" x', "note": "byte width vs char columns (fixed)"},
    {"input": '"a\nb" x', "note": "column after multi-line string (fixed)"},
    {"input": 'x "abc', "note": "unterminated string returned as complete token (fixed)"},
    {"input": 'a\r\n    b\r\n', "note": "CRLF"},
    {"input": '"your name is {you\\_name}"\n', "note": "character after a backslash dropped from an interpolated expression (fixed fc8db46)"},
    {"input": 'print("{f(\\y => y + 1)} {z}")\n', "note": "anonymous function inside an interpolation (fixed fc8db46)"},
]


def run(chk):
    thorough = chk.tier == "thorough"
    ok = chk.build_harness()
    chk.translate(["LexTables"])
    if chk.lake_build(["MambaVerif.Props.C18", "mvdrv"]):
        chk.audit("MambaVerif.Props.C18")
        if thorough:
            chk.leanchecker(["MambaVerif.Props.C18"])
    if not ok:
        return
    search_more = chk.proof_broken is not None
    cases = gen_cases(chk, thorough or search_more)
    ids = [("c%d" % i, hexs(t)) for i, (_, t) in enumerate(cases)]
    impl = chk.harness("lex", ids)
    have_model = chk.proof_broken is None or chk.proof_broken[0] not in ("proof-build", "translator")
    model = chk.driver("lex", ids) if have_model else {}
    dist = {}
    n_ok = n_err = 0
    disagreements = []
    relex = []
    distinct = set()
    for i, (gen, text) in enumerate(cases):
        cid = "c%d" % i
        r = impl.get(cid, "MISSING")
        kind, val = parse_dump(r)
        dist[gen] = dist.get(gen, 0) + 1
        if kind == "ok":
            n_ok += 1
            if len([t for t in val if t.kind not in SYNTH]) >= 2:
                distinct.add(text)
            why = oracle(text, val)
            if why:
                report(chk, text, why, r)
            ri = relex_input(val)
            if ri:
                relex.append((text, ri[0], ri[1]))
        elif kind == "err":
            n_err += 1
        else:
            report(chk, text, "lexer did not return (crash/panic): %s" % r[:200], r)
        if model and model.get(cid) != r:
            disagreements.append((text, r, model.get(cid)))
        if i % 997 == 0:
            chk.sample({"generator": gen, "input": text[:120], "impl": r[:160]})
    # canonical re-lexing on the implementation
    rids = [("r%d" % i, hexs(s)) for i, (_, s, _) in enumerate(relex)]
    rres = chk.harness("lex", rids)
    n_relex = 0
    for i, (orig, s, kinds) in enumerate(relex):
        kind, val = parse_dump(rres.get("r%d" % i, "MISSING"))
        n_relex += 1
        got = [t.kind for t in val if t.kind not in SYNTH] if kind == "ok" else None
        if got != kinds:
            report(chk, orig, "re-lexing the canonical spelling %r gives kinds %s, expected %s" % (s, got, kinds), str(got))
    for text, r, m in disagreements[:5]:
        chk.broken("correspondence", "Lex model and implementation disagree on input %r:\n impl : %s\n model: %s" % (text, r[:600], (m or "")[:600]))
    chk.cov["correspondence"] = {"model": "MV.tokenize (Model/Lex.lean) via mvdrv lex", "evaluations": len(cases) if model else 0,
                                 "disagreements": len(disagreements)}
    chk.cov["oracle"] = {"evaluations": n_ok, "lex_errors": n_err, "relex_checked": n_relex, "by_generator": dist,
                         "spec": "single Eof; indent balance; lexical tokens tile the source exactly (start/end/lines); depth-1 interpolation offsets; canonical re-lexing"}
    chk.cov["evaluations"] = len(cases)
    chk.cov["distinct_nontrivial"] = len(distinct)
    chk.cov["rule"] = "distinct accepted inputs with >=2 lexical tokens; generators: corpus, vocabulary pairs (with/without space), random alphabet strings, random indentation programs, repository samples and their mutants"
    chk.cov["not_proved"] = "spans_exact (tiling) and relex_canonical are checked by the oracle on the implementation and by the model correspondence, theorems in progress; synthetic NL tokens are buffered and re-ordered, no ordering is claimed for them"


def report(chk, text, why, actual):
    f = chk.known(text)
    if f:
        chk.report_known(f, why)
        return
    if len(chk.violations) < 5:
        chk.violation("input", why, case={"kind": "lex", "text": text, "payload": hexs(text)}, actual=actual[:2000])
