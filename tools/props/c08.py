"""C08 — see DESIGN.md; shared machinery in scope_common.py.

Besides the SL correspondence a verdict + execution matrix covers what the SL language does not contain: method callees,
method bodies, match arms, the Exception-only rule for declared classes, and what the emitted try/except really catches.
Expected verdicts are read off the property statement: a raising call / raise statement inside a body is accepted iff the
raised class is (a descendant of) a declared class or of a class of an arm of an enclosing handle."""
import scope_common, sweep

PRELUDE = '''class E1(def msg: Str): Exception(msg)
class E2(def msg: Str): E1(msg)
class E3(def msg: Str): Exception(msg)
class NotE(def a: Int)
def g1(x: Int) -> Int raise [E1] =>
    if x > 0 then raise E1("p")
    x
def g2(x: Int) -> Int raise [E2] =>
    if x > 0 then raise E2("q")
    x
def ap(fn: Int -> Int, v: Int) -> Int => fn(v)
class K
    def mr(self, x: Int) -> Int raise [E1] =>
        if x > 0 then raise E1("p")
        x
'''
ANC = {"E1": ["E1", "Exception"], "E2": ["E2", "E1", "Exception"], "E3": ["E3", "Exception"]}
CALLEES = {"fun-E1": ("g1(x)", "E1"), "fun-E2": ("g2(x)", "E2"), "method-E1": ("K().mr(x)", "E1")}
COVERS = [("none", None, None), ("decl-exact", "decl", "="), ("decl-ancestor", "decl", "Exception"), ("decl-E2", "decl", "E2"), ("decl-E3", "decl", "E3"),
          ("handle-exact", "handle", "="), ("handle-ancestor", "handle", "Exception"), ("handle-E2", "handle", "E2"), ("handle-E3", "handle", "E3"),
          ("handle-E3-then-E1", "handle2", "E1"),
          # a later arm naming an ANCESTOR of an earlier arm's class: both arms are needed
          ("handle-E2-then-E1", "arms", ("E2", "E1")), ("handle-E2-then-Exception", "arms", ("E2", "Exception")),
          ("handle-E1-then-Exception", "arms", ("E1", "Exception")), ("handle-E3-then-Exception", "arms", ("E3", "Exception")),
          ("handle-E2-then-E3", "arms", ("E2", "E3"))]
POSITIONS = ["init", "if", "else", "for", "while", "match-arm", "nested-if-for", "lambda-body"]


def body_lines(pos, expr, arms):
    """lines of the function body (relative indentation) that evaluate expr at the position, printing its value"""
    core = ["def r: Int := " + expr + (" handle" if arms else "")] + ["    " + a for a in arms] + ["print(r)"]
    ind = lambda ls, n=1: ["    " * n + l for l in ls]
    if pos == "lambda-body":
        # the raising call stands in the body of an anonymous function that is passed on (and called) inside the function
        lam = "ap(\\z: Int => %s, x)" % expr.replace("(x)", "(z)")
        return ["def r: Int := " + lam + (" handle" if arms else "")] + ["    " + a for a in arms] + ["print(r)"]
    if pos == "init":
        return core
    if pos == "if":
        return ["if x >= 0 then"] + ind(core)
    if pos == "else":
        return ["if x < 0 then", "    print(0)", "else"] + ind(core)
    if pos == "for":
        return ["for i in 0 .. 2 do"] + ind(core)
    if pos == "while":
        return ["def go := True", "while go do"] + ind(core + ["go := False"])
    if pos == "match-arm":
        if arms:
            return ["def r: Int := match x", "    5 => 5", "    _ => " + expr + " handle"] + ["        " + a for a in arms] + ["print(r)"]
        return ["def r: Int := match x", "    5 => 5", "    _ => " + expr, "print(r)"]
    if pos == "nested-if-for":
        return ["for i in 0 .. 1 do", "    if x >= 0 then"] + ind(core, 2)
    raise ValueError(pos)


def matrix():
    """-> [(label, text, expected verdict, expected (prints, outcome) | None)]"""
    out = []
    for cname, (expr, raised) in CALLEES.items():
        for cov, kind, cls in COVERS:
            cls = raised if cls == "=" else cls
            for pos in POSITIONS:
                for encl in ("function", "method"):
                    arms = []
                    armval = "7"
                    if kind == "handle":
                        arms = ["err: %s => 7" % cls]
                    elif kind == "handle2":
                        arms = ["err: E3 => 8", "err: %s => 7" % cls]
                    elif kind == "arms":
                        arms = ["err: %s => %d" % (c, 8 - j) for j, c in enumerate(cls)]
                    decl = " raise [%s]" % cls if kind == "decl" else ""
                    if kind == "arms":
                        hit = [j for j, c in enumerate(cls) if c in ANC[raised]]
                        covered = bool(hit)
                        armval = str(8 - hit[0]) if hit else "7"
                    else:
                        covered = kind is not None and cls in ANC[raised]
                    body = body_lines(pos, expr, arms) + ["x"]
                    if encl == "function":
                        text = PRELUDE + "def ff(x: Int) -> Int%s =>\n" % decl + "".join("    " + l + "\n" for l in body) + "print(ff(0))\nprint(ff(1))\n"
                    else:
                        text = PRELUDE + "class J\n    def ff(self, x: Int) -> Int%s =>\n" % decl + "".join("        " + l + "\n" for l in body) + "def j := J()\nprint(j.ff(0))\nprint(j.ff(1))\n"
                    n = {"for": 2}.get(pos, 1)
                    if covered and kind in ("handle", "handle2", "arms"):
                        exp = (["0"] * n + ["0"] + [armval] * n + ["1"], "ok")
                    elif covered:
                        exp = (["0"] * n + ["0"], "uncaught " + raised)
                    else:
                        exp = None
                    out.append(("%s/%s/%s/%s" % (cname, cov, pos, encl), text, "accept" if covered else "reject", exp))
    # raise statements
    for raised in ("E1", "E2"):
        for cov, kind, cls in COVERS:
            if kind in ("handle", "handle2", "arms"):
                continue
            cls = raised if cls == "=" else cls
            covered = kind is not None and cls in ANC[raised]
            decl = " raise [%s]" % cls if kind == "decl" else ""
            for form in ("stmt", "if", "for"):
                st = {"stmt": ["raise %s(\"z\")" % raised], "if": ["if x > 0 then raise %s(\"z\")" % raised], "for": ["for i in 0 .. 2 do", "    if x > 0 then raise %s(\"z\")" % raised]}[form]
                text = PRELUDE + "def ff(x: Int) -> Int%s =>\n" % decl + "".join("    " + l + "\n" for l in st + ["x"]) + ("print(ff(0))\n" if form != "stmt" else "") + "print(ff(1))\n"
                exp = ((["0"] if form != "stmt" else []), "uncaught " + raised) if covered else None
                out.append(("raise-%s/%s/%s" % (raised, cov, form), text, "accept" if covered else "reject", exp))
    # a handle restores what was caught before it: declared classes stay covered after the handle and inside its arms,
    # classes of an outer handle stay covered inside an inner one
    for raised, decl in (("E1", "E1"), ("E2", "E1"), ("E1", "Exception"), ("E2", "E2")):
        gname = {"E1": "g1", "E2": "g2"}[raised]
        for arm in ("E1", "E2", "E3", "Exception"):
            if arm not in ANC[raised]:
                continue          # the guarded call itself must be covered by the arm or the declaration; keep it simple: arm covers it
            t1 = PRELUDE + "def ff(x: Int) -> Int raise [%s] =>\n    def r: Int := %s(x) handle\n        err: %s => 7\n    print(r)\n    %s(x)\nprint(ff(0))\n" % (decl, gname, arm, gname)
            out.append(("after-handle/%s/decl-%s/arm-%s" % (raised, decl, arm), t1, "accept", (["0", "0"], "ok")))
            t2 = PRELUDE + "def ff(x: Int) -> Int raise [%s] =>\n    def r: Int := %s(x) handle\n        err: %s => %s(0)\n    r\nprint(ff(0))\nprint(ff(1))\n" % (decl, gname, arm, gname)
            out.append(("inside-arm/%s/decl-%s/arm-%s" % (raised, decl, arm), t2, "accept", (["0", "0"], "ok")))
            t3 = PRELUDE + ("def ff(x: Int) -> Int =>\n    def r: Int := %s(x) handle\n        err: %s =>\n            def q: Int := %s(0) handle\n                err2: %s => 8\n            q\n    r\nprint(ff(0))\nprint(ff(1))\n" % (gname, arm, gname, arm))
            out.append(("handle-in-arm/%s/arm-%s" % (raised, arm), t3, "accept", (["0", "0"], "ok")))
            t4 = PRELUDE + "def ff(x: Int) -> Int =>\n    def r: Int := %s(x) handle\n        err: %s => 7\n    print(r)\n    %s(x)\n" % (gname, arm, gname)
            out.append(("after-handle-undeclared/%s/arm-%s" % (raised, arm), t4, "reject", None))
    # callees that declare SEVERAL classes: every one of them has to be covered, by an arm or by the declaration
    multi = ('def g13(x: Int) -> Int raise [E1, E3] =>\n    if x > 0 then raise E1("p")\n    if x < 0 then raise E3("n")\n    x\n'
             'def g23(x: Int) -> Int raise [E3, E2] =>\n    if x > 0 then raise E2("p")\n    if x < 0 then raise E3("n")\n    x\n'
             'class K2\n    def mr(self, x: Int) -> Int raise [E1, E3] =>\n        if x > 0 then raise E1("p")\n        if x < 0 then raise E3("n")\n        x\n')
    for cname, expr, raised2 in (("fun-E1+E3", "g13(x)", ("E1", "E3")), ("fun-E3+E2", "g23(x)", ("E2", "E3")), ("method-E1+E3", "K2().mr(x)", ("E1", "E3"))):
        for decl_l in ((), ("E1",), ("E2",), ("E3",), ("E1", "E3"), ("E3", "E1"), ("Exception",), ("E2", "E3")):
            for arms_l in ((), ("E1",), ("E2",), ("E3",), ("E1", "E3"), ("E3", "E2"), ("Exception",)):
                cover = set(decl_l) | set(arms_l)
                covered = all(any(a in cover for a in ANC[r]) for r in raised2)
                if cname.startswith("method-") and not covered:
                    continue        # the raises of METHOD callees are ignored altogether: known finding method-callee-raises-ignored
                for pos in ("init", "for"):
                    for encl in ("function", "method"):
                        arms = ["err: %s => %d" % (c, 7 + j) for j, c in enumerate(arms_l)]
                        decl = " raise [%s]" % ", ".join(decl_l) if decl_l else ""
                        body = body_lines(pos, expr, arms) + ["x"]
                        if encl == "function":
                            text = PRELUDE + multi + "def ff(x: Int) -> Int%s =>\n" % decl + "".join("    " + l + "\n" for l in body) + "print(ff(0))\n"
                        else:
                            text = PRELUDE + multi + "class J\n    def ff(self, x: Int) -> Int%s =>\n" % decl + "".join("        " + l + "\n" for l in body) + "print(J().ff(0))\n"
                        n = {"for": 2}.get(pos, 1)
                        out.append(("%s/decl-%s/arms-%s/%s/%s" % (cname, "+".join(decl_l) or "none", "+".join(arms_l) or "none", pos, encl), text,
                                    "accept" if covered else "reject", (["0"] * n + ["0"], "ok") if covered else None))
    # only subclasses of Exception may be declared
    for cls, ok in (("NotE", False), ("Int", False), ("Str", False), ("K", False), ("E2", True), ("Exception", True)):
        out.append(("declare/%s" % cls, PRELUDE + "def ff(x: Int) -> Int raise [%s] => x\nprint(ff(0))\n" % cls, "accept" if ok else "reject", (["0"], "ok") if ok else None))
    # lists with several entries: every entry must descend from Exception, wherever it stands; any entry may cover
    import itertools
    good, bad = ["E1", "E2", "E3", "Exception"], ["NotE", "Int", "K"]
    for n in (2, 3):
        for combo in itertools.product(good + bad, repeat=n):
            if len(set(combo)) < n or (n == 3 and sum(c in bad for c in combo) != 1):
                continue
            ok_ = all(c in good for c in combo)
            out.append(("declare-list/%s" % "-".join(combo), PRELUDE + "def ff(x: Int) -> Int raise [%s] => x\nprint(ff(0))\n" % ", ".join(combo),
                        "accept" if ok_ else "reject", (["0"], "ok") if ok_ else None))
    for combo in (("E3", "E1"), ("E1", "E3"), ("E3", "Exception"), ("E3", "E2")):
        covered = any(c in ANC["E1"] for c in combo)
        out.append(("cover-by-list/%s" % "-".join(combo), PRELUDE + "def ff(x: Int) -> Int raise [%s] =>\n    def r: Int := g1(x)\n    r\nprint(ff(0))\n" % ", ".join(combo),
                    "accept" if covered else "reject", (["0"], "ok") if covered else None))
    # top level is unchecked
    out.append(("top-level/call", PRELUDE + "print(g1(0))\n", "accept", (["0"], "ok")))
    return out


def run(chk):
    thorough = chk.tier == "thorough"
    ok = chk.build_harness()
    if chk.lake_build(["MambaVerif.Props.C08", "mvdrv"]):
        chk.audit("MambaVerif.Props.C08")
        if thorough:
            chk.leanchecker(["MambaVerif.Props.C08"])
    if not ok:
        return
    scope_common.run_scope(chk, ["raise"], "Raise", 400 if thorough else 30, 8 if thorough else 4)
    cases = matrix()
    if not thorough:
        keep = [c for c in cases if "/init/" in c[0] or c[0].startswith(("raise-", "declare/", "declare-list/", "cover-by-list/", "top-level", "after-handle", "inside-arm", "handle-in-arm"))]
        rest = [c for c in cases if c not in keep]
        cases = keep + chk.rng.sample(rest, min(len(rest), 120))
    res = sweep.transpile(chk, [c[1] for c in cases], annotate_both=False)
    stats = {"accept_ok": 0, "reject_ok": 0, "executed": 0}
    jobs = []
    for (label, text, exp, run_exp), r in zip(cases, res):
        got = "accept" if r[0][0] == "ok" else ("reject" if r[0][0] == "err" else "crash")
        why = None
        if got == "crash":
            why = "%s: the checker crashes" % label
        elif exp == "reject" and got == "accept":
            why = ("%s: a class that does not descend from Exception is ACCEPTED in a raise list" if label.startswith("declare") else "%s: an uncovered raise is ACCEPTED") % label
        elif exp == "accept" and got == "reject" and scope_common.impl_class(r[0]) == "reject Other":
            stats["inconclusive_other_type_error"] = stats.get("inconclusive_other_type_error", 0) + 1   # inference limitation (finding class of C05), not a raise verdict
        elif exp == "accept" and got == "reject":
            why = "%s: a declared or handled raise is REJECTED: %s" % (label, " ".join(r[0][1][0].split())[:200])
        elif exp == "reject" and label.split("/")[0] not in ("declare", "declare-list") and scope_common.impl_class(r[0]) != "reject Raise":
            why = "%s: rejected, but not for the uncovered raise: %s" % (label, " ".join(r[0][1][0].split())[:200])
        else:
            stats["accept_ok" if got == "accept" else "reject_ok"] += 1
            if got == "accept" and run_exp is not None:
                jobs.append((label, text, r[0][1], run_exp))
        if why:
            f = chk.known(label)
            if f:
                chk.report_known(f, why)
            elif len(chk.violations) < 5:
                chk.violation("input", why, case={"kind": "prog", "label": label, "text": text}, expected=exp, actual=str(r[0])[:600])
    outs = sweep.run_python([j[2] for j in jobs])
    for (label, text, py, (exp_lines, exp_outcome)), (lines, outcome) in zip(jobs, outs):
        stats["executed"] += 1
        if lines != exp_lines or outcome != exp_outcome:
            why = "%s: the emitted try/except does not catch exactly the listed classes: prints %s / %s, expected %s / %s" % (label, lines, outcome, exp_lines, exp_outcome)
            f = chk.known(label)
            if f:
                chk.report_known(f, why)
            elif len(chk.violations) < 5:
                chk.violation("input", why, case={"kind": "prog", "label": label, "text": text, "python": py}, expected={"prints": exp_lines, "outcome": exp_outcome},
                              actual={"prints": lines, "outcome": outcome})
    chk.cov["oracle"]["matrix"] = {"spec": "callee (function, method) x cover (none, declared exact/ancestor/descendant/unrelated, handled exact/ancestor/descendant/unrelated, two arms) x position x enclosing (function, method); raise statements; declared classes must descend from Exception; accepted programs executed: the arm runs exactly for covered classes",
                                   "cases": len(cases), "stats": stats}
    chk.cov["evaluations"] += len(cases)
    chk.cov["distinct_nontrivial"] += len(cases)
    chk.cov["rule"] += "; + verdict/execution matrix over callee kinds, covers, positions (init, if, else, for, while, match arm, nested) and enclosing function/method"
