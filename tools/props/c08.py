"""C08 — see DESIGN.md; shared machinery in scope_common.py"""
import scope_common


def run(chk):
    thorough = chk.tier == "thorough"
    ok = chk.build_harness()
    if chk.lake_build(["MambaVerif.Props.C08", "mvdrv"]):
        chk.audit("MambaVerif.Props.C08")
        if thorough:
            chk.leanchecker(["MambaVerif.Props.C08"])
    if not ok:
        return
    scope_common.run_scope(chk, ["raise"], "Raise", 60 if thorough else 14, 6 if thorough else 4)
