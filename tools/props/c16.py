"""C16 — emitted modules are self-contained: generator-used names are imported once."""
import gen_prog, sweep, pyast

TEMPLATES = [
    "def x: Int? := None\nprint(x)\n",
    "def f(a: Int?) -> Int? => a\nprint(f(None))\n",
    "def t: (Int, Str) := (1, \"a\")\nprint(t)\n",
    "def r := sqrt 16\nprint(r)\n",
    "def f(a: Int) -> Float => sqrt a\nprint(f(4))\n",
    "class A\n    def m(fin self, a: Int) -> Float => sqrt a\ndef a := A()\nprint(a.m(9))\n",
    "def x: Int? := None\ndef y: Str? := None\ndef t: (Int, Int) := (1, 2)\nprint(sqrt 4)\nprint(sqrt 9)\n",
    "class B(def v: Int?)\n    def g(fin self) -> Int? => self.v\ndef b := B(None)\nprint(b.g())\n",
    "def f(a: Int, b: Str) -> (Int, Str) => (a, b)\nprint(f(1, \"x\"))\n",
    "def g(x: Int) -> Int =>\n    def y: Int? := None\n    print(sqrt x)\n    x\nprint(g(4))\n",
    "type Shape\n    def area(fin self) -> Int\nclass Sq(def s: Int): Shape\n    def area(fin self) -> Int => self.s * self.s\ndef q := Sq(3)\nprint(q.area())\n",
    "def a: Any := 10\nprint(a)\n",
    "from math import floor\nimport os\ndef v := floor(2.5)\nprint(v)\n",
    # the source imports, in its own way, the very module / name the generator needs: the support import is still required
    "import math as m\ndef a: Float := sqrt 16.0\nprint(a)\n",
    "def a: Float := sqrt 16.0\nprint(a)\nimport math\ndef b := 10\nprint(b)\n",
    "import math\ndef a: Float := sqrt 16.0\nprint(a)\n",
    "from math import floor\ndef a: Float := sqrt 16.0\nprint(a)\n",
    "from math import sqrt as root\ndef a: Float := sqrt 16.0\nprint(a)\n",
    "from typing import Optional as Opt\ndef f(x: Int?) -> Int => 1\nprint(f(None))\n",
    "from typing import Optional\ndef f(x: Int?) -> Int => 1\nprint(f(None))\n",
    "def f(x: Int?) -> Int => 1\nprint(f(None))\nfrom typing import Optional\n",
    "from typing import Union\ndef f(x: Int?) -> Int => 1\ndef t: (Int, Str) := (1, \"a\")\nprint(f(None))\n",
    "import abc as a\ntype Shape\n    def area(fin self) -> Int\nclass Sq(def s: Int): Shape\n    def area(fin self) -> Int => self.s\nprint(Sq(3).area())\n",
    "from abc import ABC as Base\ntype Shape\n    def area(fin self) -> Int\nclass Sq(def s: Int): Shape\n    def area(fin self) -> Int => self.s\nprint(Sq(3).area())\n",
    "import typing\ntype Small: Int when self < 10\ndef z: Int := 3\nprint(z)\n",
    # modules that need 2, 3, 4, 5 and 6 names of ONE module at once (every name is used, so every one must be imported)
    "def f(a: Int?, b: {Int, Str}) -> Int => 1\nprint(f(None, 1))\n",
    "def f(a: Int?, b: {Int, Str}, c: (Int, Str)) -> Int => 1\nprint(f(None, 1, (1, \"a\")))\n",
    "def f(a: Int?, b: {Int, Str}, c: (Int, Str), d: Int -> Int) -> Int => 1\nprint(f(None, 1, (1, \"a\"), \\q: Int => q))\n",
    "def f(a: Int?, b: {Int, Str}, c: (Int, Str), d: Int -> Int, e: Any) -> Int => 1\nprint(f(None, 1, (1, \"a\"), \\q: Int => q, 2))\n",
    "type Small: Int when self < 10\ndef f(a: Int?, b: {Int, Str}, c: (Int, Str), d: Int -> Int, e: Any) -> Int => 1\nprint(f(None, 1, (1, \"a\"), \\q: Int => q, 2))\n",
    "type Sh\n    def area(fin self) -> Int\nclass Sq(def s: Int): Sh\n    def area(fin self) -> Int => self.s\ndef f(a: Int?, b: {Int, Str}, c: (Int, Str), d: Int -> Int) -> Float => sqrt 4.0\nprint(Sq(2).area())\n",
]


# every form of type expression, alone in a program (another type in the same file could import the name it needs), in
# every position whose type is emitted: (type, a value of it)
TYPE_FORMS = [("Int?", "None"), ("{Int, Str}", "1"), ("{Int?, Str?}", "None"), ("{Int?, Str}", "\"s\""), ("{Int, Str, Bool}", "True"), ("(Int, Str)", "(1, \"a\")"),
              ("(Int?, Str)", "(None, \"a\")"), ("({Int, Str}, Int)", "(1, 2)"), ("(Int, (Str, Int))", "(1, (\"a\", 2))"), ("{(Int, Int), Str}", "\"s\""),
              ("{(Int, Int)?, Str?}", "None"), ("Int -> Int", "\\q: Int => q + 1"), ("(Int, Int) -> Int", "\\q: Int, w: Int => q + w"), ("List[Int]", "[1]"),
              ("List[(Int, Str)]", "[(1, \"a\")]"), ("Set[Int]", "{1}"), ("Dict[Int, Str]", "{1 => \"a\"}"), ("Any", "1"), ("List[{Int, Str}]", "[1]"), ("{List[Int], Str}", "\"s\""),
              ("{Int?, Str?, Bool?}", "None"), ("({Int?, Str?}, Int)", "(None, 1)")]
TYPE_POSITIONS = {
    "definition": "def x: {T} := {V}\nprint(\"done\")\n",
    "parameter": "def f(a: {T}) -> Int => 1\nprint(f({V}))\n",
    "return": "def f() -> {T} => {V}\ndef r := f()\nprint(\"done\")\n",
    "field": "class K\n    def fld: {T} := {V}\ndef k := K()\nprint(\"done\")\n",
    "class-argument": "class K(def c: {T})\ndef k := K({V})\nprint(\"done\")\n",
    "method-parameter": "class K\n    def m(fin self, a: {T}) -> Int => 1\nprint(K().m({V}))\n",
    "local-definition": "def f() -> Int =>\n    def x: {T} := {V}\n    1\nprint(f())\n",
    "handle-definition": "class MyErr(msg: Str): Exception(msg)\ndef g(x: Int) -> Int raise [MyErr] => x\ndef h9() -> {T} => {V}\ndef x: {T} := h9() handle\n    err: MyErr => {V}\nprint(\"done\")\n".replace("h9() handle", "h9() handle") ,
}


def type_grid():
    out = []
    for t, v in TYPE_FORMS:
        for pos, tmpl in TYPE_POSITIONS.items():
            out.append(tmpl.replace("{T}", t).replace("{V}", v))
    return out


def with_docstrings(t):
    """the template with a doc-string statement (and a comment) placed before, between and after its top-level statements:
    whatever stands in the module, the support imports come first"""
    lines = t.rstrip("\n").split("\n")
    tops = [i for i, l in enumerate(lines) if l and not l.startswith((" ", "else"))] + [len(lines)]
    out = []
    for doc in ('"""note"""', '"""two\nlines"""', "# remark"):
        for i in sorted(set([tops[0], tops[len(tops) // 2], tops[-1]])):
            out.append("\n".join(lines[:i] + [doc] + lines[i:]) + "\n")
        if len(tops) > 2:
            out.append("\n".join([doc] + lines[:tops[1]] + [doc] + lines[tops[1]:]) + "\n")
    return out


N_BASE = len(TEMPLATES)


def run(chk):
    global TEMPLATES
    if len(TEMPLATES) == N_BASE:
        TEMPLATES = TEMPLATES + [v for t in TEMPLATES[:N_BASE] for v in with_docstrings(t)] + type_grid()
    thorough = chk.tier == "thorough"
    ok = chk.build_harness()
    if chk.lake_build(["MambaVerif.Props.C16", "mvdrv"]):
        chk.audit("MambaVerif.Props.C16")
        if thorough:
            chk.leanchecker(["MambaVerif.Props.C16"])
    if not ok:
        return
    rng = chk.rng
    # correspondence of the collector model with the real Imports on random call sequences
    mods = {"typing": ["Optional", "Union", "Tuple", "Callable", "Any", "NewType"], "abc": ["ABC", "abstractmethod"], "zeta": ["b", "a", "B"]}
    seqs = []
    for _ in range(3000 if thorough else 500):
        ops = []
        for _ in range(rng.randint(0, 10)):
            if rng.random() < 0.3:
                ops.append("i:" + rng.choice(["math", "os", "abc", "math"]))
            else:
                m = rng.choice(list(mods))
                ops.append("f:%s:%s" % (m, rng.choice(mods[m])))
        seqs.append(" ".join(ops))
    ids = [("s%d" % i, s) for i, s in enumerate(seqs)]
    impl = chk.harness("imports", ids)
    have_model = chk.proof_broken is None or chk.proof_broken[0] not in ("proof-build",)
    mod = chk.driver("imports", ids) if have_model else {}
    dis = 0
    for cid, sq in ids:
        if mod and mod.get(cid) != impl.get(cid):
            dis += 1
            if dis <= 3:
                chk.broken("correspondence", "Imports model and implementation disagree on the calls %r:\n impl : %s\n model: %s" % (sq, impl.get(cid), mod.get(cid)))
        r = impl.get(cid, "")
        if r.startswith("ok"):
            lines = [l for l in r[3:].split("|") if l]
            if len(lines) != len(set(lines)):
                chk.violation("input", "a module is imported twice by the collector: %s" % lines, case={"kind": "imports", "ops": sq})
    chk.cov["correspondence"] = {"model": "MV.Imp.run/render (Model/Imports.lean) vs generate::convert::state::Imports", "evaluations": len(ids) if mod else 0, "disagreements": dis}
    # oracle on emitted modules
    texts = TEMPLATES + [gen_prog.Gen(rng).program().text for _ in range(150 if thorough else 30)] + gen_prog.accepted_samples(chk)
    res = sweep.transpile(chk, texts)
    n_mod, distinct = 0, set()
    for t, r in zip(texts, res):
        for a in (0, 1):
            if r[a][0] != "ok":
                continue
            py = r[a][1]
            try:
                imports, late, dups = pyast.import_report(py)
                unbound = pyast.unbound_globals(py)
            except SyntaxError:
                continue
            n_mod += 1
            if imports:
                distinct.add((t, a))
            src_unbound = set(source_unbound(t))
            user_modules = set(__import__("re").findall(r"^\s*(?:from\s+(\w+)|import\s+(\w+))", t, __import__("re").M) and
                               [x for pair in __import__("re").findall(r"^\s*(?:from\s+(\w+)|import\s+(\w+))", t, __import__("re").M) for x in pair if x])
            dups = [d for d in dups if d[0] not in user_modules]     # user imports are reproduced as written
            late = [m for m in late if m not in user_modules]
            why = None
            if dups:
                why = "imported more than once: %s" % dups
            elif late:
                why = "support import after the first statement: %s" % late
            elif [u for u in unbound if u not in src_unbound]:
                why = "names used but neither imported nor defined: %s" % [u for u in unbound if u not in src_unbound]
            if why:
                f = chk.known(t)
                if f:
                    chk.report_known(f, why)
                elif len(chk.violations) < 5:
                    chk.violation("input", "annotate=%d: %s" % (a, why), case={"kind": "prog", "annotate": a, "text": t}, actual=py[:2500])
    # the templates are also executed: a name the generator uses must be bound when it is used (the static analysis above is
    # blind to the ORDER of bindings and to aliases chosen by the source)
    jobs = [(t, a, r[a][1]) for t, r in list(zip(texts, res))[:len(TEMPLATES)] for a in (0, 1) if r[a][0] == "ok"]
    outs = sweep.run_python_msg([j[2] for j in jobs])
    n_exec = 0
    for (t, a, py), (lines, outcome, message) in zip(jobs, outs):
        n_exec += 1
        if outcome.endswith(("NameError", "ImportError", "ModuleNotFoundError")) or ("is not defined" in message):
            f = chk.known(t)
            why = "annotate=%d: the emitted module fails on a name it should have imported: %s" % (a, message[:200])
            if f:
                chk.report_known(f, why)
            elif len(chk.violations) < 5:
                chk.violation("input", why, case={"kind": "prog", "annotate": a, "text": t}, actual=py[:2500])
    chk.sample({"calls": seqs[0], "collector": impl.get("s0")})
    chk.cov["oracle"] = {"spec": "every emitted module: no import twice, support imports before the first statement, unbound globals subset of the source's unbound names and builtins",
                         "modules": n_mod, "with_imports": len(distinct), "templates": len(TEMPLATES), "templates_executed": n_exec}
    chk.cov["evaluations"] = len(ids) + n_mod
    chk.cov["distinct_nontrivial"] = len(distinct) + len(set(seqs))
    chk.cov["rule"] = "distinct call sequences on the collector + distinct emitted modules that carry at least one import (templates for sqrt/Optional/Union/Tuple/Any/ABC in top-level, function, class positions; generated programs; samples)"


def source_unbound(text):
    """names the Mamba source itself leaves unbound: imported user modules are bound; nothing else is expected"""
    import re
    names = set()
    for m in re.finditer(r"^\s*(?:from\s+\w+\s+)?import\s+([\w, ]+)", text, re.M):
        names.update(x.strip() for x in m.group(1).split(","))
    return names
