"""C17 — interoperability: the output's Python API mirrors the Mamba definitions."""
import gen_prog, sweep, pyast

OPS = {"+": "__add__", "-": "__sub__", "*": "__mul__", "/": "__truediv__", "//": "__floordiv__", "mod": "__mod__", "^": "__pow__",
       "=": "__eq__", ">": "__gt__", "<": "__lt__"}


def template(rng, k):
    """classes with class arguments, explicit init, parents with arguments, abstract types, operators, defaults, varargs"""
    ops = rng.sample(list(OPS), rng.randint(1, 4))
    cmp_ops = {"=", ">", "<"}
    lines = ["class V%d(def a: Int, def b: Int := 2)" % k]
    exp = {"V%d" % k: ("class", [], []), "V%d.__init__" % k: ("fun", [("self", False, False), ("a", False, False), ("b", True, False)], [])}
    for o in ops:
        ret = "Bool" if o in cmp_ops else "Int"
        body = "self.a %s o.a" % o if o not in ("/",) else "1"
        if o == "/":
            ret = "Int"
        lines.append("    def %s(fin self, o: V%d) -> %s => %s" % (o, k, ret, body))
        exp["V%d.%s" % (k, OPS[o])] = ("fun", [("self", False, False), ("o", False, False)], [])
    lines.append("    def plain(fin self, x: Int, y: Str := \"d\") -> Int => x")
    exp["V%d.plain" % k] = ("fun", [("self", False, False), ("x", False, False), ("y", True, False)], [])
    lines += ["class W%d(def c: Int): V%d(c, c)" % (k, k), "    def more(fin self) -> Int => self.c"]
    exp["W%d" % k] = ("class", [], ["V%d" % k])
    exp["W%d.__init__" % k] = ("fun", [("self", False, False), ("c", False, False)], [])
    exp["W%d.more" % k] = ("fun", [("self", False, False)], [])
    lines += ["type Sh%d" % k, "    def area(fin self) -> Int", "class Sq%d(def s: Int): Sh%d" % (k, k), "    def area(fin self) -> Int => self.s * self.s"]
    exp["Sh%d" % k] = ("class", [], ["ABC"])
    exp["Sh%d.area" % k] = ("fun", [("self", False, False)], [])
    exp["Sq%d" % k] = ("class", [], ["Sh%d" % k])
    exp["Sq%d.__init__" % k] = ("fun", [("self", False, False), ("s", False, False)], [])
    exp["Sq%d.area" % k] = ("fun", [("self", False, False)], [])
    lines += ["class E%d" % k, "    def v: Int := 0", "    def __init__(self, start: Int) => self.v := start"]
    exp["E%d" % k] = ("class", [], [])
    exp["E%d.__init__" % k] = ("fun", [("self", False, False), ("start", False, False)], [])
    lines += ["def top%d(p: Int, q: Str := \"z\", r: Bool := True) -> Int => p" % k, "def va%d(vararg zs: Int) -> Int => 1" % k]
    exp["top%d" % k] = ("fun", [("p", False, False), ("q", True, False), ("r", True, False)], [])
    exp["va%d" % k] = ("fun", [("zs", False, True)], [])
    return "\n".join(lines) + "\n", exp


def layouts():
    """every ORDER in which fields (f), methods (m), operators (o) and a doc string (d) can follow each other in a class body
    of up to four members, with and without class arguments / a parent / an explicit constructor: each definition of the body
    is a definition of the emitted class, whatever stands around it"""
    import itertools
    out = []
    k = 0
    for n in (2, 3, 4):
        for shape in itertools.product("fmod", repeat=n):
            if shape.count("d") > 1 or shape.count("o") > 1 or ("m" not in shape and "o" not in shape):
                continue
            for head in ("plain", "args", "parent", "init"):
                if head != "plain" and (n == 4 or k % 3):      # the other class heads on a third of the shapes
                    k += 1
                    continue
                k += 1
                name = "L%d" % k
                lines, exp = [], {}
                if head == "parent":
                    lines += ["class P%d(def pz: Int)" % k]
                lines.append({"plain": "class %s" % name, "args": "class %s(def ca: Int, def cb: Int := 2)" % name,
                              "parent": "class %s(def ca: Int): P%d(ca)" % (name, k), "init": "class %s" % name}[head])
                exp[name] = ("class", [], ["P%d" % k] if head == "parent" else [])
                if head in ("args", "parent"):
                    exp[name + ".__init__"] = ("fun", [("self", False, False), ("ca", False, False)] + ([("cb", True, False)] if head == "args" else []), [])
                for i, c in enumerate(shape):
                    if c == "f":
                        lines.append("    def f%d: Int := %d" % (i, i))
                    elif c == "m":
                        lines.append("    def m%d(self, by: Int := 1) -> Int => by + %d" % (i, i))
                        exp["%s.m%d" % (name, i)] = ("fun", [("self", False, False), ("by", True, False)], [])
                    elif c == "o":
                        lines.append("    def +(fin self, o: %s) -> Int => 1" % name)
                        exp[name + ".__add__"] = ("fun", [("self", False, False), ("o", False, False)], [])
                    else:
                        lines.append('    """about %s"""' % name)
                if head == "init":
                    lines.append("    def __init__(self, start: Int) => print(start)")
                    exp[name + ".__init__"] = ("fun", [("self", False, False), ("start", False, False)], [])
                out.append(("\n".join(lines) + "\n", exp))
    return out


def parent_orders():
    """inheritance lists with several parents — with and without constructor arguments, classes and abstract types — in
    every order: the base list of the emitted class is the list as written"""
    import itertools
    out = []
    pre = ("class Pa(def pz: Int)\n    def who(fin self) -> Str => \"a\"\nclass Pb\n    def who(fin self) -> Str => \"b\"\nclass Pc\n    def other(fin self) -> Int => 1\n"
           "type Pt\n    def area(fin self) -> Int\nclass Pd(def pw: Str)\n    def dd(fin self) -> Str => self.pw\n")
    spell = {"Pa": "Pa(ca)", "Pb": "Pb", "Pc": "Pc", "Pt": "Pt", "Pd": "Pd(\"w\")"}
    k = 0
    for n in (2, 3):
        for combo in itertools.permutations(["Pa", "Pb", "Pc", "Pt", "Pd"], n):
            if "Pa" in combo and "Pb" in combo and n == 3:
                continue
            k += 1
            name = "Q%d" % k
            lines = [pre + "class %s(def ca: Int): %s" % (name, ", ".join(spell[c] for c in combo))]
            lines.append("    def area(fin self) -> Int => self.ca" if "Pt" in combo else "    def extra(fin self) -> Int => self.ca")
            exp = {name: ("class", [], list(combo)), name + ".__init__": ("fun", [("self", False, False), ("ca", False, False)], [])}
            out.append(("\n".join(lines) + "\n", exp))
    return out


def expected_of(prog):
    exp = {}
    for kind, x in prog.items:
        if kind == "fun":
            d = prog.funcs[x]
            exp[x] = ("fun", [(n, default is not None, False) for n, t, default in d["params"]], [])
        elif kind in ("class", "exc"):
            d = prog.classes[x]
            exp[x] = ("class", [], [d["parent"]] if d["parent"] else [])
            if d["args"]:
                exp[x + ".__init__"] = ("fun", [("self", False, False)] + [(a, False, False) for a, _ in d["args"]], [])
            for m, md in d["methods"].items():
                exp[x + "." + m] = ("fun", [("self", False, False)] + [(n, False, False) for n, t, _ in md["params"]], [])
    return exp


def run(chk):
    thorough = chk.tier == "thorough"
    ok = chk.build_harness()
    chk.translate(["OpTables"])
    if chk.lake_build(["MambaVerif.Props.C17"]):
        chk.audit("MambaVerif.Props.C17")
        if thorough:
            chk.leanchecker(["MambaVerif.Props.C17"])
    if not ok:
        return
    rng = chk.rng
    cases = [template(rng, k) for k in range(60 if thorough else 12)]
    lay = layouts()
    cases += lay if thorough else rng.sample(lay, 120)
    po = parent_orders()
    cases += po if thorough else rng.sample(po, 25)
    for _ in range(200 if thorough else 30):
        p = gen_prog.Gen(rng).program()
        cases.append((p.text, expected_of(p)))
    for f in chk.findings:
        if f.get("input") and f.get("expected_api"):
            cases.append((f["input"], {k: (v[0], [tuple(x) for x in v[1]], list(v[2])) for k, v in f["expected_api"].items()}))
    res = sweep.transpile(chk, [c[0] for c in cases])
    n_defs, distinct, rej = 0, set(), 0
    for (text, exp), r in zip(cases, res):
        for a in (0, 1):
            if r[a][0] != "ok":
                rej += 1
                continue
            try:
                got = pyast.signatures(r[a][1])
            except SyntaxError:
                continue
            for name, want in exp.items():
                n_defs += 1
                distinct.add((text, name))
                have = got.get(name)
                why = None
                if have is None:
                    why = "definition %s is missing from the emitted module" % name
                elif have[0] != want[0] or have[1] != want[1] or (want[0] == "class" and have[2] != want[2]):
                    why = "definition %s is emitted as %s, the Mamba definition reads %s" % (name, have, want)
                if why:
                    f = chk.known(text) or chk.known(name)
                    if f:
                        chk.report_known(f, why)
                    elif len(chk.violations) < 5:
                        chk.violation("input", "annotate=%d: %s" % (a, why), case={"kind": "prog", "annotate": a, "text": text}, expected=str(want), actual=r[a][1][:2500])
    chk.sample({"program": cases[0][0][:500], "expected_api": {k: str(v) for k, v in list(cases[0][1].items())[:6]}})
    chk.cov["correspondence"] = {"model": "MV.opMethodTable (regenerated) vs MV.C17.pythonDataModel", "tie": "translator over parse/definition.rs, parse/ast/node_op.rs, check/context/function/python.rs, generate/ast/node.rs", "rows": chk.cov["tables"].get("OpTables", {}).get("rows")}
    chk.cov["oracle"] = {"spec": "python ast signatures of the emitted module == definitions of the program: names, parameter names/order/defaults/varargs, __init__ from class arguments or init, operator dunders, base lists",
                         "programs": len(cases), "definitions_compared": n_defs, "rejected_runs": rej}
    chk.cov["evaluations"] = n_defs
    chk.cov["distinct_nontrivial"] = len(distinct)
    chk.cov["rule"] = "distinct (program, definition) pairs; programs: templates with class arguments/defaults, explicit init, parents with arguments, abstract types, operator definitions, varargs + G-prog programs; both annotate settings"
