"""C17 — interoperability: the output's Python API mirrors the Mamba definitions."""
import gen_prog, sweep, pyast

OPS = {"+": "__add__", "-": "__sub__", "*": "__mul__", "/": "__truediv__", "//": "__floordiv__", "mod": "__mod__", "^": "__pow__",
       "=": "__eq__", ">": "__gt__", "<": "__lt__"}


def template(rng, k):
    """classes with class arguments, explicit init, parents with arguments, abstract types, operators, defaults, varargs"""
    ops = rng.sample(list(OPS), rng.randint(1, 4))
    cmp_ops = {"=", ">", "<"}
    lines = ["class V%d(def a: Int, def b: Int := 2)" % k]
    exp = {"V%d" % k: ("class", [], []), "V%d.__init__" % k: ("fun", [("self", False, False), ("a", False, False), ("b", True, False)], [])}
    for o in ops:
        ret = "Bool" if o in cmp_ops else "Int"
        body = "self.a %s o.a" % o if o not in ("/",) else "1"
        if o == "/":
            ret = "Int"
        lines.append("    def %s(fin self, o: V%d) -> %s => %s" % (o, k, ret, body))
        exp["V%d.%s" % (k, OPS[o])] = ("fun", [("self", False, False), ("o", False, False)], [])
    lines.append("    def plain(fin self, x: Int, y: Str := \"d\") -> Int => x")
    exp["V%d.plain" % k] = ("fun", [("self", False, False), ("x", False, False), ("y", True, False)], [])
    lines += ["class W%d(def c: Int): V%d(c, c)" % (k, k), "    def more(fin self) -> Int => self.c"]
    exp["W%d" % k] = ("class", [], ["V%d" % k])
    exp["W%d.__init__" % k] = ("fun", [("self", False, False), ("c", False, False)], [])
    exp["W%d.more" % k] = ("fun", [("self", False, False)], [])
    lines += ["type Sh%d" % k, "    def area(fin self) -> Int", "class Sq%d(def s: Int): Sh%d" % (k, k), "    def area(fin self) -> Int => self.s * self.s"]
    exp["Sh%d" % k] = ("class", [], ["ABC"])
    exp["Sh%d.area" % k] = ("fun", [("self", False, False)], [])
    exp["Sq%d" % k] = ("class", [], ["Sh%d" % k])
    exp["Sq%d.__init__" % k] = ("fun", [("self", False, False), ("s", False, False)], [])
    exp["Sq%d.area" % k] = ("fun", [("self", False, False)], [])
    lines += ["class E%d" % k, "    def v: Int := 0", "    def __init__(self, start: Int) => self.v := start"]
    exp["E%d" % k] = ("class", [], [])
    exp["E%d.__init__" % k] = ("fun", [("self", False, False), ("start", False, False)], [])
    lines += ["def top%d(p: Int, q: Str := \"z\", r: Bool := True) -> Int => p" % k, "def va%d(vararg zs: Int) -> Int => 1" % k]
    exp["top%d" % k] = ("fun", [("p", False, False), ("q", True, False), ("r", True, False)], [])
    exp["va%d" % k] = ("fun", [("zs", False, True)], [])
    return "\n".join(lines) + "\n", exp


def expected_of(prog):
    exp = {}
    for kind, x in prog.items:
        if kind == "fun":
            d = prog.funcs[x]
            exp[x] = ("fun", [(n, default is not None, False) for n, t, default in d["params"]], [])
        elif kind in ("class", "exc"):
            d = prog.classes[x]
            exp[x] = ("class", [], [d["parent"]] if d["parent"] else [])
            if d["args"]:
                exp[x + ".__init__"] = ("fun", [("self", False, False)] + [(a, False, False) for a, _ in d["args"]], [])
            for m, md in d["methods"].items():
                exp[x + "." + m] = ("fun", [("self", False, False)] + [(n, False, False) for n, t, _ in md["params"]], [])
    return exp


def run(chk):
    thorough = chk.tier == "thorough"
    ok = chk.build_harness()
    chk.translate(["OpTables"])
    if chk.lake_build(["MambaVerif.Props.C17"]):
        chk.audit("MambaVerif.Props.C17")
        if thorough:
            chk.leanchecker(["MambaVerif.Props.C17"])
    if not ok:
        return
    rng = chk.rng
    cases = [template(rng, k) for k in range(60 if thorough else 12)]
    for _ in range(200 if thorough else 30):
        p = gen_prog.Gen(rng).program()
        cases.append((p.text, expected_of(p)))
    for f in chk.findings:
        if f.get("input") and f.get("expected_api"):
            cases.append((f["input"], {k: (v[0], [tuple(x) for x in v[1]], list(v[2])) for k, v in f["expected_api"].items()}))
    res = sweep.transpile(chk, [c[0] for c in cases])
    n_defs, distinct, rej = 0, set(), 0
    for (text, exp), r in zip(cases, res):
        for a in (0, 1):
            if r[a][0] != "ok":
                rej += 1
                continue
            try:
                got = pyast.signatures(r[a][1])
            except SyntaxError:
                continue
            for name, want in exp.items():
                n_defs += 1
                distinct.add((text, name))
                have = got.get(name)
                why = None
                if have is None:
                    why = "definition %s is missing from the emitted module" % name
                elif have[0] != want[0] or have[1] != want[1] or (want[0] == "class" and have[2] != want[2]):
                    why = "definition %s is emitted as %s, the Mamba definition reads %s" % (name, have, want)
                if why:
                    f = chk.known(text) or chk.known(name)
                    if f:
                        chk.report_known(f, why)
                    elif len(chk.violations) < 5:
                        chk.violation("input", "annotate=%d: %s" % (a, why), case={"kind": "prog", "annotate": a, "text": text}, expected=str(want), actual=r[a][1][:2500])
    chk.sample({"program": cases[0][0][:500], "expected_api": {k: str(v) for k, v in list(cases[0][1].items())[:6]}})
    chk.cov["correspondence"] = {"model": "MV.opMethodTable (regenerated) vs MV.C17.pythonDataModel", "tie": "translator over parse/definition.rs, parse/ast/node_op.rs, check/context/function/python.rs, generate/ast/node.rs", "rows": chk.cov["tables"].get("OpTables", {}).get("rows")}
    chk.cov["oracle"] = {"spec": "python ast signatures of the emitted module == definitions of the program: names, parameter names/order/defaults/varargs, __init__ from class arguments or init, operator dunders, base lists",
                         "programs": len(cases), "definitions_compared": n_defs, "rejected_runs": rej}
    chk.cov["evaluations"] = n_defs
    chk.cov["distinct_nontrivial"] = len(distinct)
    chk.cov["rule"] = "distinct (program, definition) pairs; programs: templates with class arguments/defaults, explicit init, parents with arguments, abstract types, operator definitions, varargs + G-prog programs; both annotate settings"
