"""C14 — layout trivia never changes meaning."""
import gen_lex
from lexfmt import parse_dump
from mvlib import hexs, unhex, repo_samples

SYNTH = {"NL", "Indent", "Dedent", "Eof"}
EDITS = ["trailing_comment", "comment_line_next", "comment_line_prev", "blank_line", "ws_line", "trailing_spaces",
         "final_newline", "crlf", "parens", "comment_line_last", "ws_line_last"]


def safe_lines(text, toks):
    """0-based indices of lines not inside a multi-line token"""
    lines = text.split("\n")
    bad = set()
    for t in toks:
        if t.l2 > t.l1:
            bad.update(range(t.l1 - 1, t.l2))
    return [i for i in range(len(lines)) if i not in bad], lines, bad


def indent_of(line):
    return len(line) - len(line.lstrip(" "))


def apply_edit(rng, kind, text, toks):
    """returns the edited text or None when the edit is not applicable"""
    safe, lines, bad = safe_lines(text, toks)
    code = [i for i in safe if lines[i].strip() and not lines[i].lstrip().startswith("#")]
    if kind == "final_newline":
        return text[:-1] if text.endswith("\n") and not text.endswith("\n\n") else text + "\n"
    if kind == "crlf":
        if bad or "\r" in text:
            return None
        return text.replace("\n", "\r\n")
    if not code:
        return None
    if kind in ("comment_line_last", "ws_line_last"):
        # a comment / white-space line AFTER the last code line, at the indentation of that line, of its block's head, or none
        last = code[-1]
        if last in bad or any(lines[j].strip() for j in range(last + 1, len(lines))):
            return None
        ind = rng.choice([indent_of(lines[last]), indent_of(lines[last]), 0, max(0, indent_of(lines[last]) - 4)])
        new = " " * ind + ("# the end" if kind == "comment_line_last" else " " * rng.choice([0, 1, 4]))
        body = lines[:last + 1] + [new] * rng.choice([1, 1, 2])
        tail = rng.choice(["", "\n", "\n\n"])
        return "\n".join(body) + tail
    i = rng.choice(code)
    if kind == "trailing_comment":
        if any(t.kind == "Comment" and t.l1 == i + 1 for t in toks):
            return None
        lines[i] = lines[i] + rng.choice([" # note", "  #", " # x := 1 \"q\""])
    elif kind == "trailing_spaces":
        lines[i] = lines[i] + " " * rng.randint(1, 3)
    elif kind in ("blank_line", "ws_line", "comment_line_next", "comment_line_prev"):
        # insert a line before code line i (i>0: between two lines; i==0: at the top)
        if i in bad or (i > 0 and (i - 1) in bad):
            return None
        if kind == "blank_line":
            new = ""
        elif kind == "ws_line":
            new = " " * rng.choice([1, 4, indent_of(lines[i])])
        elif kind == "comment_line_next":
            new = " " * indent_of(lines[i]) + "# about the next line"
        else:
            prev = [j for j in range(i - 1, -1, -1) if lines[j].strip()]
            if not prev or prev[0] in bad:
                return None
            new = " " * indent_of(lines[prev[0]]) + "# about the previous line"
        lines.insert(i, new)
    elif kind == "parens":
        cands = []
        for k, t in enumerate(toks):
            if t.kind in ("Int", "Real") and t.l1 == t.l2 and k > 0 and \
                    toks[k - 1].kind in ("Assign", "Add", "Sub", "Mul", "LRBrack", "Comma", "Eq", "Le", "Ge", "Ret", "BTo") and \
                    (t.l1 - 1) in safe:
                cands.append(t)
        if not cands:
            return None
        t = rng.choice(cands)
        ln = lines[t.l1 - 1]
        lines[t.l1 - 1] = ln[:t.c1 - 1] + "(" + ln[t.c1 - 1:t.c2 - 1] + ")" + ln[t.c2 - 1:]
    else:
        return None
    return "\n".join(lines)


def consumed(toks, squeeze):
    """what the parser consumes: kinds+texts, comments dropped; NL tokens dropped when `squeeze`"""
    out = [(t.kind, t.text) for t in toks if t.kind != "Comment"]
    if squeeze:
        out = [x for x in out if x[0] != "NL"]
    return out


def programs(chk):
    from gen_prog import programs as gp
    return gp(chk)


def run(chk):
    thorough = chk.tier == "thorough"
    ok = chk.build_harness()
    chk.translate(["LexTables"])
    if chk.lake_build(["MambaVerif.Props.C14", "mvdrv"]):
        chk.audit("MambaVerif.Props.C14")
        if thorough:
            chk.leanchecker(["MambaVerif.Props.C14"])
    if not ok:
        return
    rng = chk.rng
    progs = programs(chk)
    # originals: tokens + pipeline result
    ids = [("p%d" % i, hexs(t)) for i, t in enumerate(progs)]
    lexed = chk.harness("lex", ids)
    piped = chk.harness("pipe", [(i, "0 " + h) for i, h in ids])
    per_prog = 12 if thorough else 3
    variants = []
    for i, text in enumerate(progs):
        kind, toks = parse_dump(lexed.get("p%d" % i, ""))
        if kind != "ok":
            continue
        for _ in range(per_prog):
            ek = rng.choice(EDITS)
            v = apply_edit(rng, ek, text, toks)
            if v is None or v == text:
                continue
            variants.append((i, ek, v))
    vids = [("v%d" % k, hexs(v)) for k, (_, _, v) in enumerate(variants)]
    vlex = chk.harness("lex", vids)
    vpipe = chk.harness("pipe", [(i, "0 " + h) for i, h in vids])
    have_model = chk.proof_broken is None or chk.proof_broken[0] not in ("proof-build", "translator")
    vmodel = chk.driver("lex", vids) if have_model else {}
    n_eval = n_acc = 0
    dist = {}
    disagreements = []
    for k, (i, ek, v) in enumerate(variants):
        vid = "v%d" % k
        n_eval += 1
        dist[ek] = dist.get(ek, 0) + 1
        orig, var = piped.get("p%d" % i, "MISSING"), vpipe.get(vid, "MISSING")
        o_ok, v_ok = orig.startswith("ok"), var.startswith("ok")
        why = None
        if not (orig.startswith("ok") or orig.startswith("err")) or not (var.startswith("ok") or var.startswith("err")):
            why = "pipeline crashed: %s / %s" % (orig[:80], var[:80])
        elif o_ok != v_ok:
            why = "verdict changed by %s: original %s, variant %s" % (ek, "accepted" if o_ok else "rejected", "accepted" if v_ok else "rejected: " + unhex(var.split(" ")[2])[:300] if len(var.split(" ")) > 2 else "")
        elif o_ok and orig != var:
            why = "emitted Python changed by %s" % ek
        if o_ok:
            n_acc += 1
        # lexer level: consumed stream equal (NL tokens ignored for line insertions)
        k1, t1 = parse_dump(lexed.get("p%d" % i, ""))
        k2, t2 = parse_dump(vlex.get(vid, ""))
        if why is None and ek != "parens":
            if k1 != k2:
                why = "lexer verdict changed by %s" % ek
            elif k1 == "ok":
                sq = ek in ("blank_line", "ws_line", "comment_line_next", "comment_line_prev", "comment_line_last", "ws_line_last")
                if consumed(t1, sq) != consumed(t2, sq):
                    why = "token stream consumed by the parser changed by %s" % ek
        if why:
            f = chk.known(v)
            if f:
                chk.report_known(f, why)
            elif len(chk.violations) < 5:
                chk.violation("input", why, case={"kind": "trivia", "edit": ek, "original": progs[i], "variant": v},
                              expected=orig[:1500], actual=var[:1500])
        if vmodel and vmodel.get(vid) != vlex.get(vid):
            disagreements.append((v, vlex.get(vid), vmodel.get(vid)))
        if k % 211 == 0:
            chk.sample({"edit": ek, "variant": v[:200], "verdict": "accept" if v_ok else "reject"})
    for text, r, m in disagreements[:5]:
        chk.broken("correspondence", "Lex model and implementation disagree on input %r:\n impl : %s\n model: %s" % (text, (r or "")[:600], (m or "")[:600]))
    chk.cov["correspondence"] = {"model": "MV.tokenize via mvdrv lex on every trivia variant", "evaluations": len(variants) if vmodel else 0, "disagreements": len(disagreements)}
    chk.cov["oracle"] = {"spec": "verdict and emitted text of variant == original (end to end); parser-consumed token stream equal (NL counts ignored for inserted lines)",
                         "evaluations": n_eval, "on_accepted_programs": n_acc, "by_edit": dist, "programs": len(progs)}
    chk.cov["evaluations"] = n_eval
    chk.cov["distinct_nontrivial"] = len(set(v for _, _, v in variants))
    chk.cov["rule"] = "distinct (program, trivia edit, placement) variants; programs = accepted repository samples + generated programs; placement random among lines outside multi-line tokens"
    chk.cov["not_proved"] = "theorems are lexer-level and in suffix form (any state, any remaining text); inserted blank/comment lines (NL-count changes), the parser's insensitivity to NL counts, redundant parentheses and lifting to arbitrary insertion points are covered by the oracle and the model correspondence only"
