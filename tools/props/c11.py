"""C11 — the annotate option is semantically inert."""
import gen_prog, sweep, pyast


def run(chk):
    thorough = chk.tier == "thorough"
    ok = chk.build_harness()
    chk.translate(["AnnotateTables"])
    if chk.lake_build(["MambaVerif.Props.C11"]):
        chk.audit("MambaVerif.Props.C11")
        if thorough:
            chk.leanchecker(["MambaVerif.Props.C11"])
    if not ok:
        return
    texts = gen_prog.programs(chk, 400 if thorough else 60) + [f["input"] for f in chk.findings if f.get("input")]
    res = sweep.transpile(chk, texts)
    n_acc = n_rej = 0
    distinct = set()
    for t, r in zip(texts, res):
        why = None
        if r[0][0] != r[1][0]:
            why = "verdict depends on the option: off=%s on=%s" % (r[0][0], r[1][0])
        elif r[0][0] == "ok":
            n_acc += 1
            a, b = pyast.erased(r[0][1]), pyast.erased(r[1][1])
            if a is not None and b is not None and a != b:
                why = "outputs differ after erasing annotations and typing imports"
            if r[0][1] != r[1][1]:
                distinct.add(t)
        else:
            n_rej += 1
        if why:
            f = chk.known(t)
            if f:
                chk.report_known(f, why)
            elif len(chk.violations) < 5:
                chk.violation("input", why, case={"kind": "prog", "text": t}, expected=r[0][1][:3000] if r[0][0] == "ok" else str(r[0])[:500],
                              actual=r[1][1][:3000] if r[1][0] == "ok" else str(r[1])[:500])
    chk.sample({"program": texts[-1][:300]})
    chk.cov["correspondence"] = {"model": "MV.convFun / varDefTy / funArgTy (Model/Annotate.lean)", "tie": "translator: every read of the option in src/generate is one of the modelled guards; retDecision regenerated", "read_sites": chk.cov["tables"].get("AnnotateTables", {}).get("sites")}
    chk.cov["oracle"] = {"spec": "same verdict; same Python AST after erasing variable/parameter/return annotations and typing imports",
                         "programs": len(texts), "accepted": n_acc, "rejected": n_rej, "outputs_differing_in_annotations": len(distinct)}
    chk.cov["evaluations"] = len(texts)
    chk.cov["distinct_nontrivial"] = len(distinct)
    chk.cov["rule"] = "distinct accepted programs whose two outputs differ textually (i.e. the option did add annotations); programs = repository samples + G-prog"
    chk.cov["not_proved"] = "the model covers convert_def's consumption of the option; that no other conversion code depends on it is checked syntactically by the translator (it refuses unknown reads) and end-to-end by the oracle"
