"""C11 — the annotate option is semantically inert."""
import gen_prog, sweep, pyast


# programs whose un-annotated output still needs names the generator imports for types (typing.NewType for a type alias;
# Optional/Union/Tuple in the set-up annotation of definitions fed by statement-form if/match/handle)
TEMPLATES = [
    "class Account(def balance: Int)\n    def deposit(self, amount: Int) -> Int => self.balance + amount\ntype Solvent: Account when self.balance >= 0\nprint(Account(5).deposit(1))\n",
    "def limit: Int := 10\ndef size := if limit > 5 then\n    limit\nelse\n    \"none\"\nprint(size)\n",
    "def limit: Int := 10\ndef size: Int? := if limit > 5 then\n    limit\nelse\n    None\nprint(1)\n",
    "def limit: Int := 3\ndef pair := match limit\n    3 =>\n        (1, \"a\")\n    _ =>\n        (2, \"b\")\nprint(limit)\n",
    "class E(def m: Str): Exception(m)\ndef g(x: Int) -> Int raise [E] =>\n    if x > 0 then raise E(\"b\")\n    x\ndef h := g(1) handle\n    err: E =>\n        print(0)\n        0\nprint(h)\n",
    "type Shape\n    def area(fin self) -> Int\nclass Sq(def s: Int): Shape\n    def area(fin self) -> Int => self.s * self.s\nprint(Sq(3).area())\n",
    "def root := sqrt 16.0\nprint(root)\ndef f(a: Int?) -> Int? => a\nprint(1)\n",
    "def fn: Int -> Int := \\x: Int => x + 1\nprint(fn(2))\n",
]


def run(chk):
    thorough = chk.tier == "thorough"
    ok = chk.build_harness()
    chk.translate(["AnnotateTables"])
    if chk.lake_build(["MambaVerif.Props.C11"]):
        chk.audit("MambaVerif.Props.C11")
        if thorough:
            chk.leanchecker(["MambaVerif.Props.C11"])
    if not ok:
        return
    texts = TEMPLATES + gen_prog.programs(chk, 400 if thorough else 60) + [f["input"] for f in chk.findings if f.get("input")]
    res = sweep.transpile(chk, texts)
    n_acc = n_rej = 0
    distinct = set()
    for t, r in zip(texts, res):
        why = None
        if r[0][0] != r[1][0]:
            why = "verdict depends on the option: off=%s on=%s" % (r[0][0], r[1][0])
        elif r[0][0] == "ok":
            n_acc += 1
            a, b = pyast.erased(r[0][1]), pyast.erased(r[1][1])
            if a is not None and b is not None and a != b:
                why = "outputs differ after erasing annotations and typing imports"
            if r[0][1] != r[1][1]:
                distinct.add(t)
        else:
            n_rej += 1
        if why:
            f = chk.known(t)
            if f:
                chk.report_known(f, why)
            elif len(chk.violations) < 5:
                chk.violation("input", why, case={"kind": "prog", "text": t}, expected=r[0][1][:3000] if r[0][0] == "ok" else str(r[0])[:500],
                              actual=r[1][1][:3000] if r[1][0] == "ok" else str(r[1])[:500])
    # behaviour: the two outputs of an accepted program run alike (what the erased comparison cannot see: an import or a
    # definition that is only dropped or added in one mode)
    both = [(t, r) for t, r in zip(texts, res) if r[0][0] == "ok" and r[1][0] == "ok"]
    both = both[:len(TEMPLATES)] + (both[len(TEMPLATES):] if thorough else rng_sample(chk, both[len(TEMPLATES):], 40))
    runs_off = sweep.run_python([r[0][1] for _, r in both])
    runs_on = sweep.run_python([r[1][1] for _, r in both])
    n_run = 0
    for (t, r), a, b in zip(both, runs_off, runs_on):
        n_run += 1
        if a != b:
            f = chk.known(t)
            why = "the two outputs behave differently under CPython: off %s / %s, on %s / %s" % (a[0][:6], a[1], b[0][:6], b[1])
            if f:
                chk.report_known(f, why)
            elif len(chk.violations) < 5:
                chk.violation("input", why, case={"kind": "prog", "text": t}, expected=r[1][1][:3000], actual=r[0][1][:3000])
    chk.sample({"program": texts[-1][:300]})
    chk.cov["correspondence"] = {"model": "MV.convFun / varDefTy / funArgTy (Model/Annotate.lean)", "tie": "translator: every read of the option in src/generate is one of the modelled guards; retDecision regenerated", "read_sites": chk.cov["tables"].get("AnnotateTables", {}).get("sites")}
    chk.cov["oracle"] = {"spec": "same verdict; same Python AST after erasing variable/parameter/return annotations and typing imports",
                         "programs": len(texts), "accepted": n_acc, "rejected": n_rej, "outputs_differing_in_annotations": len(distinct), "pairs_executed": n_run}
    chk.cov["evaluations"] = len(texts)
    chk.cov["distinct_nontrivial"] = len(distinct)
    chk.cov["rule"] = "distinct accepted programs whose two outputs differ textually (i.e. the option did add annotations); programs = repository samples + G-prog"
    chk.cov["not_proved"] = "the model covers convert_def's consumption of the option; that no other conversion code depends on it is checked syntactically by the translator (it refuses unknown reads) and end-to-end by the oracle"


def rng_sample(chk, xs, n):
    return chk.rng.sample(xs, min(n, len(xs)))
