"""C10 — printed expressions keep their structure."""
import gen_core
from mvlib import unhex


def run(chk):
    thorough = chk.tier == "thorough"
    ok = chk.build_harness()
    chk.translate(["CoreTables"])
    if chk.lake_build(["MambaVerif.Props.C10", "mvdrv"]):
        chk.audit("MambaVerif.Props.C10")
        if thorough:
            chk.leanchecker(["MambaVerif.Props.C10"])
    if not ok:
        return
    rng = chk.rng
    search_more = chk.proof_broken is not None
    trees = [("depth1", t) for t in gen_core.depth1()] + [("depth2", t) for t in gen_core.depth2()]
    n3 = 60000 if thorough else (20000 if search_more else 3000)
    trees += [("depth3", t) for t in gen_core.depth3_sample(rng, n3)]
    nr = 20000 if thorough else 2500
    trees += [("random", gen_core.random_tree(rng, rng.randint(2, 6))) for _ in range(nr)]
    ids = [("t%d" % i, gen_core.sexp(t)) for i, (_, t) in enumerate(trees)]
    impl = chk.harness("core", ids)
    have_model = chk.proof_broken is None or chk.proof_broken[0] not in ("proof-build", "translator")
    model = chk.driver("core", ids) if have_model else {}
    pymodel = chk.driver("pyparse", ids) if have_model else {}
    grammar_dis = []
    dist, n_ok, dis = {}, 0, []
    distinct = set()
    for i, (gen, t) in enumerate(trees):
        cid = "t%d" % i
        r = impl.get(cid, "MISSING")
        dist[gen] = dist.get(gen, 0) + 1
        if not r.startswith("ok "):
            if len(chk.violations) < 5:
                chk.violation("input", "printer did not return: %s" % r[:200], case={"kind": "core", "sexp": ids[i][1]}, actual=r[:300])
            continue
        text = unhex(r[3:])
        got = gen_core.parse_expr(text)
        want = gen_core.expected(t)
        n_ok += 1
        distinct.add(ids[i][1])
        if got != want:
            f = chk.known(ids[i][1])
            if f:
                chk.report_known(f, "printed text parses to a different tree")
            elif len(chk.violations) < 5:
                chk.violation("input", "Python parses the printed text %r to a different tree" % text.strip(),
                              case={"kind": "core", "sexp": ids[i][1], "text": text}, expected=repr(want)[:1500], actual=repr(got)[:1500])
        if pymodel:
            # spec-side validation: the Lean Python-grammar model parses the model's tokens to the tree CPython gives for the text
            pm = pymodel.get(cid, "MISSING").split("\t")
            if got[0] != "SyntaxError" and (len(pm) != 2 or pm[0] != gen_core.dump_canon(got)):
                grammar_dis.append((ids[i][1], text, pm[0], gen_core.dump_canon(got)))
        if model and model.get(cid) != r:
            dis.append((ids[i][1], text, unhex(model.get(cid, "")[3:]) if model.get(cid, "").startswith("ok ") else model.get(cid)))
        if i % 1777 == 0:
            chk.sample({"generator": gen, "core": ids[i][1][:200], "printed": text.strip()[:200]})
    # builders (comprehensions): the printer adds operators of its own (the `and` chain over the conditions); every user
    # expression must stay one operand.  Decided on the implementation against CPython (the Lean model has no builders).
    comps = gen_core.comprehensions(rng, 3000 if thorough else 400)
    cids = [("c%d" % i, gen_core.sexp(t)) for i, t in enumerate(comps)]
    cres = chk.harness("core", cids)
    n_comp = 0
    for (cid, sx), t in zip(cids, comps):
        r = cres.get(cid, "MISSING")
        if not r.startswith("ok "):
            if len(chk.violations) < 5:
                chk.violation("input", "printer did not return: %s" % r[:200], case={"kind": "core", "sexp": sx}, actual=r[:300])
            continue
        text = unhex(r[3:])
        got, want = gen_core.parse_expr(text), gen_core.expected(t)
        n_comp += 1
        distinct.add(sx)
        if got != want:
            f = chk.known(sx)
            if f:
                chk.report_known(f, "printed builder parses to a different tree")
            elif len(chk.violations) < 5:
                chk.violation("input", "Python parses the printed builder %r to a different tree" % text.strip(), case={"kind": "core", "sexp": sx, "text": text},
                              expected=repr(want)[:1500], actual=repr(got)[:1500])
    dist["builders"] = n_comp
    for sx, a, b in dis[:5]:
        chk.broken("correspondence", "Print model and implementation disagree on %s:\n impl : %r\n model: %r" % (sx[:400], a, b))
    # grammar model vs CPython on unparenthesised prints (texts the real printer never emits)
    n_flat = 0
    if have_model:
        flat = [(cid, sx) for (cid, sx), (g, t) in zip(ids, trees) if g in ("random", "depth3", "depth2")][: (20000 if thorough else 4000)]
        fres = chk.driver("pyflat", flat)
        for cid, sx in flat:
            parts = fres.get(cid, "").split("\t")
            if len(parts) != 2:
                continue
            text = unhex(parts[0])
            got = gen_core.parse_expr(text)
            n_flat += 1
            want = "noparse" if got[0] == "SyntaxError" else gen_core.dump_canon(got)
            if " is not " in text:
                continue  # `is` followed by a prefix `not` is one operator token for CPython: token-level ambiguity of the flat text only
            if got[0] == "Chain" or "Chain" in repr(got):
                continue  # chains are represented differently; compared only as 'is a chain'
            if parts[1] != want:
                grammar_dis.append((sx, text, parts[1], want))
    for sx, text, a, b in grammar_dis[:3]:
        chk.broken("spec-validation", "the Lean model of the Python grammar and CPython disagree on %r (from %s):\n model : %s\n cpython: %s" % (text, sx[:300], a[:500], b[:500]))
    chk.cov["spec_validation"] = {"what": "MV.pyParse (Model/PyExpr.lean) on the model's tokens vs CPython ast.parse on the implementation's text", "evaluations": (len(trees) if pymodel else 0) + n_flat, "unparenthesised_texts": n_flat, "disagreements": len(grammar_dis)}
    chk.cov["correspondence"] = {"model": "MV.pr/renderToks (Model/CoreExpr.lean) via mvdrv core vs format!(\"{core}\")", "evaluations": len(trees) if model else 0, "disagreements": len(dis)}
    chk.cov["oracle"] = {"spec": "ast.parse(format!(core)) == tree denoted by the Core expression (BoolOp flattened to left-nested, comparison chains distinguished)",
                         "evaluations": n_ok, "by_generator": dist, "exhaustive_depth": 2}
    chk.cov["evaluations"] = len(trees)
    chk.cov["distinct_nontrivial"] = len(distinct)
    chk.cov["rule"] = "distinct Core expression trees with at least one operator; exhaustive depth<=2 over the complete operator set (23 binary, 4 unary, ternary, lambda, call, attribute, index, isinstance, sqrt, E-notation, tuple/list/set) in every operand position, sampled depth 3, random deeper trees"
