"""C10 — printed expressions keep their structure."""
import gen_core
from mvlib import unhex


# ---------------------------------------------------------------------------------------------------------------
# end to end from Mamba source text: the grouping chosen by the Mamba parser (and explicit parentheses) survive.
# REF is the operator grammar of src/parse/operation.rs as it stands (level 7 loosest): and/or right-nested on one level,
# comparisons right-nested, + - and * // mod left-nested, unary minus over a power, `not` taking everything to its right,
# ^ right-nested over primaries.  A program is printed twice — with the fewest parentheses REF allows and fully
# parenthesised — and both must come out as the same Python tree and compute the value the tree denotes.
# ---------------------------------------------------------------------------------------------------------------
SRC_PRE = "def a := 7\ndef b := 3\ndef c := 2\ndef d := 5\ndef p := True\ndef q := False\ndef t := True\n"
SRC_ENV = {"a": 7, "b": 3, "c": 2, "d": 5, "p": True, "q": False, "t": True, "2": 2, "3": 3, "10": 10, "0": 0}
SRC_OPS = {"and": (7, "R"), "or": (7, "R"), "<": (6, "R"), "<=": (6, "R"), ">": (6, "R"), ">=": (6, "R"), "=": (6, "R"), "!=": (6, "R"),
           "+": (4, "L"), "-": (4, "L"), "*": (3, "L"), "//": (3, "L"), "mod": (3, "L"), "^": (1, "R")}


def src_tree(rng, ty, depth):
    if depth <= 0 or rng.random() < 0.2:
        if ty == "I" and rng.random() < 0.3:
            return ("v", rng.choice(["2", "3", "10", "0"]))
        return ("v", rng.choice("abcd")) if ty == "I" else ("v", rng.choice("pqt"))
    r = rng.random()
    if ty == "I":
        if r < 0.35:
            return ("b", rng.choice(["+", "-"]), src_tree(rng, "I", depth - 1), src_tree(rng, "I", depth - 1))
        if r < 0.6:
            return ("b", "*", src_tree(rng, "I", depth - 1), src_tree(rng, "I", depth - 1))
        if r < 0.75:
            return ("b", rng.choice(["//", "mod"]), src_tree(rng, "I", depth - 1), ("v", rng.choice(["a", "b", "c", "d", "3", "2"])))
        if r < 0.88:
            return ("b", "^", src_tree(rng, "I", depth - 1), ("v", rng.choice(["c", "2"])))
        return ("neg", src_tree(rng, "I", depth - 1))
    if r < 0.35:
        return ("b", rng.choice(["<", "<=", ">", ">=", "=", "!="]), src_tree(rng, "I", depth - 1), src_tree(rng, "I", depth - 1))
    if r < 0.75:
        return ("b", rng.choice(["and", "or"]), src_tree(rng, "B", depth - 1), src_tree(rng, "B", depth - 1))
    if r < 0.9:
        return ("not", src_tree(rng, "B", depth - 1))
    return ("b", rng.choice(["=", "!="]), src_tree(rng, "B", depth - 1), src_tree(rng, "B", depth - 1))


def src_level(t):
    return {"v": 0, "neg": 2, "not": 2}.get(t[0]) if t[0] != "b" else SRC_OPS[t[1]][0]


def src_full(t):
    if t[0] == "v":
        return t[1]
    if t[0] == "neg":
        return "(-%s)" % src_full(t[1])
    if t[0] == "not":
        return "(not %s)" % src_full(t[1])
    return "(%s %s %s)" % (src_full(t[2]), t[1], src_full(t[3]))


def src_min(t, tail=True):
    """fewest parentheses under REF; `tail`: nothing follows this sub-expression inside its parenthesis group"""
    if t[0] == "v":
        return t[1]
    if t[0] == "neg":
        x = t[1]
        return "-" + (src_min(x, tail) if src_level(x) <= 2 and x[0] != "not" else "(" + src_min(x, True) + ")")
    if t[0] == "not":
        body = "not " + src_min(t[1], True)
        return body if tail else "(" + body + ")"
    lvl, assoc = SRC_OPS[t[1]]
    lmax = lvl if assoc == "L" else lvl - 1
    rmax = lvl if assoc == "R" else lvl - 1
    if t[1] == "^":
        lmax = 0
    l, r = t[2], t[3]
    ls = src_min(l, False) if src_level(l) <= lmax and l[0] != "not" else "(" + src_min(l, True) + ")"
    if l[0] == "not" and src_level(l) <= lmax:
        ls = "(" + src_min(l, True) + ")"
    rs = src_min(r, tail) if src_level(r) <= rmax else "(" + src_min(r, True) + ")"
    return "%s %s %s" % (ls, t[1], rs)


def src_eval(t):
    if t[0] == "v":
        return SRC_ENV[t[1]]
    if t[0] == "neg":
        return -src_eval(t[1])
    if t[0] == "not":
        return not src_eval(t[1])
    a, b = src_eval(t[2]), src_eval(t[3])
    return {"and": lambda: a and b, "or": lambda: a or b, "<": lambda: a < b, "<=": lambda: a <= b, ">": lambda: a > b, ">=": lambda: a >= b,
            "=": lambda: a == b, "!=": lambda: a != b, "+": lambda: a + b, "-": lambda: a - b, "*": lambda: a * b, "//": lambda: a // b,
            "mod": lambda: a % b, "^": lambda: a ** b}[t[1]]()


def rhs_of_r(py):
    import ast
    try:
        m = ast.parse(py)
    except SyntaxError:
        return None
    for st in m.body:
        if isinstance(st, ast.Assign) and isinstance(st.targets[0], ast.Name) and st.targets[0].id == "r":
            return gen_core.canon(st.value)
        if isinstance(st, ast.AnnAssign) and isinstance(st.target, ast.Name) and st.target.id == "r" and st.value is not None:
            return gen_core.canon(st.value)
    return None


def source_oracle(chk, n):
    import sweep
    rng = chk.rng
    trees = []
    for _ in range(n):
        t = src_tree(rng, rng.choice("IB"), rng.randint(2, 4))
        try:
            v = src_eval(t)
        except (ZeroDivisionError, OverflowError):
            continue
        if isinstance(v, int) and not isinstance(v, bool) and abs(v) > 10 ** 12:
            continue
        trees.append((t, v))
    progs = []
    for t, v in trees:
        ann = ": Int" if not isinstance(v, bool) else ": Bool"
        progs.append(SRC_PRE + "def r%s := %s\nprint(r)\n" % (ann, src_min(t)))
        progs.append(SRC_PRE + "def r%s := %s\nprint(r)\n" % (ann, src_full(t)))
    res = sweep.transpile(chk, progs, annotate_both=False)
    runs = sweep.run_python([r[0][1] if r[0][0] == "ok" else "" for r in res])
    stats = {"trees": len(trees), "both_accepted": 0, "rejected": 0, "minimal_differs_from_full_text": 0}
    for i, (t, v) in enumerate(trees):
        rm, rf = res[2 * i][0], res[2 * i + 1][0]
        if rm[0] != "ok" or rf[0] != "ok":
            stats["rejected"] += 1
            if rm[0] != rf[0] and len(chk.violations) < 5:
                chk.violation("input", "source expression %r: the verdict depends on redundant parentheses (%s vs %s)" % (src_min(t), rm[0], rf[0]),
                              case={"kind": "source", "minimal": src_min(t), "full": src_full(t)}, actual=str(rm)[:500])
            continue
        stats["both_accepted"] += 1
        if src_min(t) != src_full(t):
            stats["minimal_differs_from_full_text"] += 1
        am, af = rhs_of_r(rm[1]), rhs_of_r(rf[1])
        want = "True" if v is True else "False" if v is False else str(v)
        got = runs[2 * i]
        why = None
        if am != af:
            why = "source expression %r and its fully parenthesised form %r are emitted as different Python trees" % (src_min(t), src_full(t))
        elif got[0] != [want] or got[1] != "ok":
            why = "source expression %r evaluates to %s in the emitted Python, the expression denotes %s" % (src_min(t), got, want)
        if why:
            f = chk.known(src_min(t))
            if f:
                chk.report_known(f, why)
            elif len(chk.violations) < 5:
                chk.violation("input", why, case={"kind": "source", "minimal": src_min(t), "full": src_full(t), "python": rm[1][-300:]}, expected=repr(af)[:800], actual=repr(am)[:800])
    return stats


GROUP_PRE = ("def idt(t: (Int, Int)) -> (Int, Int) => t\ndef fst(t: (Int, Int)) -> Int => 1\ndef two(p: Int, q: Int) -> Int => p * 10 + q\n"
             "class Bx(def t: (Int, Int))\n    def put(self, u: (Int, Int)) -> (Int, Int) => u\n    def put2(self, p: Int, q: Int) -> Int => p - q\n"
             "def a := 1\ndef b := 2\ndef bx := Bx((7, 8))\n")
# explicit parentheses that are NOT about operator precedence: a tuple as the only argument, nested tuples, a tuple as an
# element, a parenthesised single expression (source line, what it prints)
GROUPING = [
    ("print((a, b))", "(1, 2)"), ("print(a, b)", "1 2"), ("print(idt((a, b)))", "(1, 2)"), ("print(fst((a, b)))", "1"), ("print(two(a, b))", "12"),
    ("print(two((a), (b)))", "12"), ("print(bx.put((5, 3)))", "(5, 3)"), ("print(bx.put2(5, 3))", "2"), ("print(Bx((5, 3)).t)", "(5, 3)"),
    ("print(((a, b), 3))", "((1, 2), 3)"), ("print((a, (b, 3)))", "(1, (2, 3))"), ("print(((a, b)))", "(1, 2)"), ("print((a))", "1"), ("print(((a)))", "1"),
    ("print([(a, b)])", "[(1, 2)]"), ("print([(a, b), (b, a)])", "[(1, 2), (2, 1)]"), ("print({(a, b)})", "{(1, 2)}"), ("print(idt(((a, b))))", "(1, 2)"),
    ("print(idt((a + 1, b * 2)))", "(2, 4)"), ("print([a, b])", "[1, 2]"),
    ("print([[a, b]])", "[[1, 2]]"), ("print(((a, b), (b, a)))", "((1, 2), (2, 1))"), ("print(idt(idt((a, b))))", "(1, 2)"),
    ("def tq := (a, b)\nprint(idt(tq))", "(1, 2)"),
    # the same under an explicit `return`, as the value of a definition, as an argument of print inside a function
    ("def r1(p: Int, q: Int) -> (Int, Int) =>\n    return if p < q then (p, q) else (q, p)\nprint(r1(3, 1))", "(1, 3)"),
    ("def r2(p: Int, q: Int) -> List[(Int, Int)] =>\n    return [(p, q), (q, p)]\nprint(r2(3, 1))", "[(3, 1), (1, 3)]"),
    ("def r3(p: Int, q: Int) -> (Int, Int) =>\n    return idt((p, q))\nprint(r3(3, 1))", "(3, 1)"),
    ("def r4(p: Int, q: Int) -> (Int, Int) =>\n    return (p, q)\nprint(r4(3, 1))", "(3, 1)"),
    ("def r5(p: Int, q: Int) -> ((Int, Int), Int) =>\n    return ((p, q), 3)\nprint(r5(3, 1))", "((3, 1), 3)"),
    ("def r6(p: Int, q: Int) -> Int =>\n    return fst((p, q)) + two(p, q)\nprint(r6(3, 1))", "32"),
    ("def r7(p: Int, q: Int) -> (Int, Int) => if p < q then (p, q) else (q, p)\nprint(r7(3, 1))", "(1, 3)"),
    ("def r8(p: Int, q: Int) -> (Int, Int) =>\n    def t := if p < q then (p, q) else (q, p)\n    t\nprint(r8(3, 1))", "(1, 3)"),
    ("def r9(p: Int, q: Int) -> (Int, (Int, Int)) =>\n    print((p, q))\n    return (p, (q, p))\nprint(r9(3, 1))", "(3, 1)|(3, (1, 3))"),
    ("def t1 := if a < b then (a, b) else (b, a)\nprint(t1)", "(1, 2)"),
    ("def l1 := [(a, b), (b, a)]\nprint(l1)", "[(1, 2), (2, 1)]"), ("print((a, b), 3)", "(1, 2) 3"), ("print(3, (a, b))", "3 (1, 2)"), ("print(two(fst((a, b)), b))", "12"),
]


def grouping_oracle(chk):
    import sweep
    progs = [GROUP_PRE + src + "\n" for src, _ in GROUPING]
    res = sweep.transpile(chk, progs, annotate_both=False)
    runs = sweep.run_python([r[0][1] if r[0][0] == "ok" else "" for r in res])
    n = 0
    for (src, want), r, run_ in zip(GROUPING, res, runs):
        why = None
        if r[0][0] != "ok":
            why = "source %r is rejected: %s" % (src, (r[0][1][0].splitlines()[0] if r[0][0] == "err" and r[0][1] else r[0][0]))
        elif run_[0] != want.split("|") or run_[1] != "ok":
            why = "source %r prints %s in the emitted Python, it denotes %r" % (src, run_, want)
        n += 1
        if why:
            f = chk.known(src)
            if f:
                chk.report_known(f, why)
            elif len(chk.violations) < 5:
                chk.violation("input", why, case={"kind": "source", "minimal": src, "full": src, "python": r[0][1][-300:] if r[0][0] == "ok" else ""}, expected=want, actual=str(run_))
    return n


def run(chk):
    thorough = chk.tier == "thorough"
    ok = chk.build_harness()
    chk.translate(["CoreTables"])
    if chk.lake_build(["MambaVerif.Props.C10", "mvdrv"]):
        chk.audit("MambaVerif.Props.C10")
        if thorough:
            chk.leanchecker(["MambaVerif.Props.C10"])
    if not ok:
        return
    rng = chk.rng
    search_more = chk.proof_broken is not None
    trees = [("depth1", t) for t in gen_core.depth1()] + [("depth2", t) for t in gen_core.depth2()]
    n3 = 60000 if thorough else (20000 if search_more else 3000)
    trees += [("depth3", t) for t in gen_core.depth3_sample(rng, n3)]
    nr = 20000 if thorough else 2500
    trees += [("random", gen_core.random_tree(rng, rng.randint(2, 6))) for _ in range(nr)]
    ids = [("t%d" % i, gen_core.sexp(t)) for i, (_, t) in enumerate(trees)]
    impl = chk.harness("core", ids)
    have_model = chk.proof_broken is None or chk.proof_broken[0] not in ("proof-build", "translator")
    model = chk.driver("core", ids) if have_model else {}
    pymodel = chk.driver("pyparse", ids) if have_model else {}
    grammar_dis = []
    dist, n_ok, dis = {}, 0, []
    distinct = set()
    for i, (gen, t) in enumerate(trees):
        cid = "t%d" % i
        r = impl.get(cid, "MISSING")
        dist[gen] = dist.get(gen, 0) + 1
        if not r.startswith("ok "):
            if len(chk.violations) < 5:
                chk.violation("input", "printer did not return: %s" % r[:200], case={"kind": "core", "sexp": ids[i][1]}, actual=r[:300])
            continue
        text = unhex(r[3:])
        got = gen_core.parse_expr(text)
        want = gen_core.expected(t)
        n_ok += 1
        distinct.add(ids[i][1])
        if got != want:
            f = chk.known(ids[i][1])
            if f:
                chk.report_known(f, "printed text parses to a different tree")
            elif len(chk.violations) < 5:
                chk.violation("input", "Python parses the printed text %r to a different tree" % text.strip(),
                              case={"kind": "core", "sexp": ids[i][1], "text": text}, expected=repr(want)[:1500], actual=repr(got)[:1500])
        if pymodel:
            # spec-side validation: the Lean Python-grammar model parses the model's tokens to the tree CPython gives for the text
            pm = pymodel.get(cid, "MISSING").split("\t")
            if got[0] != "SyntaxError" and (len(pm) != 2 or pm[0] != gen_core.dump_canon(got)):
                grammar_dis.append((ids[i][1], text, pm[0], gen_core.dump_canon(got)))
        if model and model.get(cid) != r:
            dis.append((ids[i][1], text, unhex(model.get(cid, "")[3:]) if model.get(cid, "").startswith("ok ") else model.get(cid)))
        if i % 1777 == 0:
            chk.sample({"generator": gen, "core": ids[i][1][:200], "printed": text.strip()[:200]})
    # builders (comprehensions): the printer adds operators of its own (the `and` chain over the conditions); every user
    # expression must stay one operand.  Decided on the implementation against CPython (the Lean model has no builders).
    comps = gen_core.comprehensions(rng, 3000 if thorough else 400)
    cids = [("c%d" % i, gen_core.sexp(t)) for i, t in enumerate(comps)]
    cres = chk.harness("core", cids)
    n_comp = 0
    for (cid, sx), t in zip(cids, comps):
        r = cres.get(cid, "MISSING")
        if not r.startswith("ok "):
            if len(chk.violations) < 5:
                chk.violation("input", "printer did not return: %s" % r[:200], case={"kind": "core", "sexp": sx}, actual=r[:300])
            continue
        text = unhex(r[3:])
        got, want = gen_core.parse_expr(text), gen_core.expected(t)
        n_comp += 1
        distinct.add(sx)
        if got != want:
            f = chk.known(sx)
            if f:
                chk.report_known(f, "printed builder parses to a different tree")
            elif len(chk.violations) < 5:
                chk.violation("input", "Python parses the printed builder %r to a different tree" % text.strip(), case={"kind": "core", "sexp": sx, "text": text},
                              expected=repr(want)[:1500], actual=repr(got)[:1500])
    dist["builders"] = n_comp
    chk.cov["oracle_source"] = source_oracle(chk, 3000 if thorough else 500)
    chk.cov["oracle_grouping"] = {"programs": grouping_oracle(chk), "spec": "explicit parentheses outside operator precedence (a tuple as the only argument, nested tuples, tuple elements, parenthesised single expressions) keep their meaning: the emitted Python prints what the source denotes"}
    for sx, a, b in dis[:5]:
        chk.broken("correspondence", "Print model and implementation disagree on %s:\n impl : %r\n model: %r" % (sx[:400], a, b))
    # grammar model vs CPython on unparenthesised prints (texts the real printer never emits)
    n_flat = 0
    if have_model:
        flat = [(cid, sx) for (cid, sx), (g, t) in zip(ids, trees) if g in ("random", "depth3", "depth2")][: (20000 if thorough else 4000)]
        fres = chk.driver("pyflat", flat)
        for cid, sx in flat:
            parts = fres.get(cid, "").split("\t")
            if len(parts) != 2:
                continue
            text = unhex(parts[0])
            got = gen_core.parse_expr(text)
            n_flat += 1
            want = "noparse" if got[0] == "SyntaxError" else gen_core.dump_canon(got)
            if " is not " in text:
                continue  # `is` followed by a prefix `not` is one operator token for CPython: token-level ambiguity of the flat text only
            if got[0] == "Chain" or "Chain" in repr(got):
                continue  # chains are represented differently; compared only as 'is a chain'
            if parts[1] != want:
                grammar_dis.append((sx, text, parts[1], want))
    for sx, text, a, b in grammar_dis[:3]:
        chk.broken("spec-validation", "the Lean model of the Python grammar and CPython disagree on %r (from %s):\n model : %s\n cpython: %s" % (text, sx[:300], a[:500], b[:500]))
    chk.cov["spec_validation"] = {"what": "MV.pyParse (Model/PyExpr.lean) on the model's tokens vs CPython ast.parse on the implementation's text", "evaluations": (len(trees) if pymodel else 0) + n_flat, "unparenthesised_texts": n_flat, "disagreements": len(grammar_dis)}
    chk.cov["correspondence"] = {"model": "MV.pr/renderToks (Model/CoreExpr.lean) via mvdrv core vs format!(\"{core}\")", "evaluations": len(trees) if model else 0, "disagreements": len(dis)}
    chk.cov["oracle"] = {"spec": "ast.parse(format!(core)) == tree denoted by the Core expression (BoolOp flattened to left-nested, comparison chains distinguished)",
                         "evaluations": n_ok, "by_generator": dist, "exhaustive_depth": 2}
    chk.cov["evaluations"] = len(trees)
    chk.cov["distinct_nontrivial"] = len(distinct)
    chk.cov["rule"] = "distinct Core expression trees with at least one operator; exhaustive depth<=2 over the complete operator set (23 binary, 4 unary, ternary, lambda, call, attribute, index, isinstance, sqrt, E-notation, tuple/list/set) in every operand position, sampled depth 3, random deeper trees"
