"""C01 — accepted programs keep their meaning when run as the emitted Python."""
import gen_prog, sweep
from mvlib import hexs


def run(chk):
    thorough = chk.tier == "thorough"
    ok = chk.build_harness()
    chk.translate(["ConvertTables", "TailTables"])
    if chk.lake_build(["MambaVerif.Props.C01", "mvdrv"]):
        chk.audit("MambaVerif.Props.C01")
        if thorough:
            chk.leanchecker(["MambaVerif.Props.C01"])
    if not ok:
        return
    rng = chk.rng
    n = 1500 if thorough else 220
    corpus = [(f["input"], f.get("expected")) for f in chk.findings if f.get("input")]
    progs = [gen_prog.Gen(rng).program() for _ in range(n)]
    progs += range_programs(rng, 60 if thorough else 20)
    progs += hierarchy_programs(rng, 6 if thorough else 2)
    progs += [FixedProg(f["input"], f["expected_prints"]) for f in chk.findings if f.get("input") and f.get("expected_prints")]
    res = sweep.transpile(chk, [p.text for p in progs])
    jobs, meta = [], []
    n_rej = 0
    for i, (p, r) in enumerate(zip(progs, res)):
        if r[0][0] != r[1][0]:
            chk.violation("input", "verdict depends on the annotate option", case={"kind": "prog", "text": p.text}, expected=str(r[0])[:500], actual=str(r[1])[:500])
            continue
        if r[0][0] == "err":
            n_rej += 1
            continue
        if r[0][0] == "crash":
            chk.violation("input", "pipeline crashed: " + r[0][1], case={"kind": "prog", "text": p.text})
            continue
        for a in (0, 1):
            jobs.append(r[a][1])
            meta.append((i, a))
    outs = sweep.run_python(jobs)
    n_exec, distinct, stats = 0, set(), {"prints": 0, "raised": 0}
    for (i, a), (lines, outcome) in zip(meta, outs):
        p = progs[i]
        exp_lines, exp_outcome = p.expected()
        n_exec += 1
        stats["prints"] += len(exp_lines)
        stats["raised"] += exp_outcome != "ok"
        if len(exp_lines) >= 2:
            distinct.add(p.text)
        if lines != exp_lines or outcome != exp_outcome:
            f = chk.known(p.text)
            why = "emitted Python (annotate=%d) prints %s / %s, the program means %s / %s" % (a, lines[:12], outcome, exp_lines[:12], exp_outcome)
            if f:
                chk.report_known(f, why)
            elif len(chk.violations) < 5:
                chk.violation("input", why, case={"kind": "prog", "annotate": a, "text": p.text, "python": jobs[meta.index((i, a))]},
                              expected={"prints": exp_lines, "outcome": exp_outcome}, actual={"prints": lines, "outcome": outcome})
        if i % 53 == 0 and a == 0:
            chk.sample({"program": p.text[:300], "prints": exp_lines[:6], "outcome": exp_outcome})
    range_model(chk)
    tail_correspondence(chk, progs, res)
    chk.cov["oracle"] = {"spec": "CPython output of the emitted module (both annotate settings) == reference semantics of the generated tree (printed values, class of uncaught exception)",
                         "programs": len(progs), "rejected_by_checker": n_rej, "python_executions": n_exec, "stats": stats}
    chk.cov["evaluations"] = n_exec
    chk.cov["distinct_nontrivial"] = len(distinct)
    chk.cov["rule"] = "distinct accepted generated programs printing >= 2 values; generator G-prog: functions with defaults/raises, classes with class arguments/fields/methods, exception hierarchies, if/while/for over ranges, match and if expressions, handle, tuples; plus range/step programs"
    chk.cov["not_proved"] = "the theorems cover the range desugaring (inclusive end, positive step) as extracted from range_slice.rs; the conversion of the other constructs is decided by the execution oracle against the reference interpreter (tools/gen_prog.py Interp), not by a theorem"


class FixedProg:
    """corpus entry: a program text with the prints it means"""
    def __init__(self, text, prints):
        self.text, self.prints = text, prints

    def expected(self):
        return list(self.prints), "ok"


class RangeProg:
    def __init__(self, lo, hi, incl, step):
        self.lo, self.hi, self.incl, self.step = lo, hi, incl, step
        rng_txt = "%d %s %d" % (lo, "..=" if incl else "..", hi) + ("" if step is None else " .. %d" % step)
        self.text = "for i in %s do\n    print(i)\nprint(\"done\")\n" % rng_txt

    def expected(self):
        st = 1 if self.step is None else self.step
        out, i = [], self.lo
        while (i <= self.hi if self.incl else i < self.hi):
            out.append(str(i))
            i += st
        return out + ["done"], "ok"


def py_leaves(stmts, var):
    """kinds of the statements in tail position of an emitted statement list, one per path, in source order"""
    import ast
    if not stmts:
        return ["empty"]
    last = stmts[-1]
    if isinstance(last, ast.If):
        return py_leaves(last.body, var) + py_leaves(last.orelse, var)
    if isinstance(last, ast.Match):
        return [k for c in last.cases for k in py_leaves(c.body, var)]
    if isinstance(last, ast.Try):
        return py_leaves(last.body, var) + [k for h in last.handlers for k in py_leaves(h.body, var)]
    if isinstance(last, (ast.Assign, ast.AnnAssign)):
        tgt = last.targets[0] if isinstance(last, ast.Assign) else last.target
        return ["assign" if var is None or (isinstance(tgt, ast.Name) and tgt.id == var) else "assign-elsewhere"]
    if isinstance(last, ast.Return):
        return ["return"]
    if isinstance(last, ast.Raise):
        return ["raise"]
    if isinstance(last, ast.Pass):
        return ["empty"]
    return ["expr"]


def tail_correspondence(chk, progs, res):
    """the Lean model of append_assign / append_ret (Model/Tail.lean) predicts, for every definition fed by a block tree and
    every function body that ends in one, the kind of statement each path ends in; the emitted Python must show the same"""
    import ast
    reqs, impl = [], {}
    for i, (p, r) in enumerate(zip(progs, res)):
        if not hasattr(p, "items") or r[0][0] != "ok":
            continue
        try:
            mod = ast.parse(r[0][1])
        except SyntaxError:
            continue
        trees = []

        def collect(stmts):
            for st in stmts:
                if isinstance(st, tuple) and st and st[0] == "blockdef":
                    trees.append(("assign", st[1], st[3]))
                if isinstance(st, tuple):
                    for x in st[1:]:
                        if isinstance(x, list):
                            collect(x)
        collect([x for k, x in p.items if k == "stmt"])
        for f, d in p.funcs.items():
            collect(d["body"])
            if d.get("lasttree") is not None:
                trees.append(("ret", f, d["lasttree"]))
        for c, cd in p.classes.items():
            for m, md in cd["methods"].items():
                collect(md["body"])
        for k, (which, name, tree) in enumerate(trees):
            cid = "t%d_%d" % (i, k)
            wire = gen_prog.tree_wire(tree)
            if which == "ret":
                fd = [n for n in ast.walk(mod) if isinstance(n, ast.FunctionDef) and n.name == name]
                if not fd:
                    continue
                got = py_leaves(fd[0].body, None)
                # the model sees the function body as a block that ends in the tree
                reqs.append((cid, "ret B(%s)" % wire))
            else:
                # the statement that binds `name`: the outermost if/match one of whose paths assigns it
                def assigns(n):
                    return [x for x in ast.walk(n) if (isinstance(x, ast.Assign) and isinstance(x.targets[0], ast.Name) and x.targets[0].id == name)
                            or (isinstance(x, ast.AnnAssign) and isinstance(x.target, ast.Name) and x.target.id == name and x.value is not None)]
                total = len(assigns(mod))
                cand, size = None, None
                for n in ast.walk(mod):
                    if isinstance(n, (ast.If, ast.Match)) and total and len(assigns(n)) == total:
                        sz = sum(1 for _ in ast.walk(n))
                        if size is None or sz < size:
                            cand, size = n, sz
                if cand is None:
                    got = ["no-binding-statement"]
                else:
                    got = py_leaves([cand], name)
                reqs.append((cid, "assign %s" % wire))
            impl[cid] = (" ".join(got), p.text, name)
    have_model = chk.proof_broken is None or chk.proof_broken[0] not in ("proof-build", "translator")
    mod_out = chk.driver("tail", reqs) if (have_model and reqs) else {}
    dis = 0
    for cid, payload in reqs:
        want = mod_out.get(cid)
        got, text, name = impl[cid]
        if want is not None and want != got:
            dis += 1
            if dis <= 3:
                chk.broken("correspondence", "tail transformation of %s: the model predicts the paths end in [%s], the emitted Python shows [%s] for\n%s" % (name, want, got, text[:1500]))
    chk.cov["correspondence_tail"] = {"model": "MV.appendAssign / appendRet / leaves (Model/Tail.lean) vs the last statement of every path of the emitted if/match/function body",
                                      "evaluations": len(reqs) if mod_out else 0, "disagreements": dis}


def hierarchy_programs(rng, n):
    """class hierarchies in which a constructor up the chain has an effect the child relies on: an argument-less middle
    class passing arguments on, an explicit constructor in the parent, two parents, three levels"""
    out = []
    for k in range(n):
        lit, num, v = rng.choice(["dog", "x y", "Q"]), rng.randint(1, 9), rng.randint(1, 9)
        out.append(FixedProg(
            "class G%d(def s%d: Str)\n    def gs(fin self) -> Str => self.s%d + \"!\"\n"
            "class P%d: G%d(\"%s\")\n    def h%d: Int := %d\n"
            "class C%d(def c%d: Int): P%d\n    def mc(fin self) -> Int => self.c%d + self.h%d\n"
            "def o := C%d(%d)\nprint(o.s%d)\nprint(o.gs())\nprint(o.mc())\n" % (k, k, k, k, k, lit, k, num, k, k, k, k, k, k, v, k),
            [lit, lit + "!", str(v + num)]))
        out.append(FixedProg(
            "class M%d\n    def ticks: Int := 0\n    def __init__(self) =>\n        self.ticks := %d\n"
            "class F%d(def stride: Int): M%d\n    def jump(self) -> Int =>\n        self.ticks := self.ticks + self.stride\n        self.ticks\n"
            "def f := F%d(%d)\nprint(f.jump())\nprint(f.jump())\n" % (k, num, k, k, k, v), [str(num + v), str(num + 2 * v)]))
        out.append(FixedProg(
            "class A%d(def a: Int)\n    def ga(fin self) -> Int => self.a\n"
            "class B%d(def b: Int): A%d(b)\n    def gb(fin self) -> Int => self.b + self.a\n"
            "class D%d(def d: Int, def e: Int): B%d(e)\n    def gd(fin self) -> Int => self.d + self.b + self.a\n"
            "def o := D%d(%d, %d)\nprint(o.ga())\nprint(o.gb())\nprint(o.gd())\n" % (k, k, k, k, k, k, v, num), [str(num), str(2 * num), str(v + 2 * num)]))
        out.append(FixedProg(
            "class X%d\n    def x: Int := 0\n    def __init__(self) =>\n        self.x := %d\n"
            "class Y%d\n    def y: Int := 0\n    def __init__(self) =>\n        self.y := %d\n"
            "class Z%d(def z: Int): X%d, Y%d\n    def total(fin self) -> Int => self.x + self.y + self.z\n"
            "print(Z%d(1).total())\n" % (k, num, k, v, k, k, k, k), [str(num + v + 1)]))
    return out


def range_programs(rng, n):
    """the complete grid of small ranges (start, length class, inclusiveness, step incl. absent) plus n random ones"""
    out = []
    for lo in (-2, 0, 1):
        for d in (-1, 0, 1, 4, 5, 6):
            for incl in (False, True):
                for step in (None, 1, 2, 3, 4):
                    out.append(RangeProg(lo, lo + d, incl, step))
    for _ in range(n):
        lo, hi = rng.randint(-3, 4), rng.randint(-3, 12)
        out.append(RangeProg(lo, hi, rng.random() < 0.5, rng.choice([None, 1, 2, 3, 5])))
    return out


def range_model(chk):
    """correspondence of the Lean range model (Model/Range.lean) with the implementation: for range
    parameters (lo, hi, inclusive, step>0) the emitted python `range(...)` arguments must equal the model's"""
    rng = chk.rng
    cases = [(rng.randint(-5, 5), rng.randint(-5, 9), rng.random() < 0.5, rng.choice([1, 1, 2, 3, 4])) for _ in range(120)]
    texts = ["def r := %d %s %d .. %d\n" % (lo, "..=" if inc else "..", hi, st) for lo, hi, inc, st in cases]
    res = sweep.transpile(chk, texts, annotate_both=False)
    req = [("r%d" % i, "%d %d %d %d" % (lo, hi, 1 if inc else 0, st)) for i, (lo, hi, inc, st) in enumerate(cases)]
    have_model = chk.proof_broken is None or chk.proof_broken[0] not in ("proof-build", "translator")
    mod = chk.driver("range", req) if have_model else {}
    dis = 0
    import re
    for i, (c, r) in enumerate(zip(cases, res)):
        if r[0][0] != "ok":
            continue
        m = re.search(r"r = range\((.*)\)", r[0][1])
        got = m.group(1).replace(" ", "") if m else r[0][1]
        if mod and mod.get("r%d" % i, "").replace(" ", "") != got:
            dis += 1
            if dis <= 3:
                chk.broken("correspondence", "range desugaring: implementation emits range(%s), model %s for %s" % (got, mod.get("r%d" % i), c))
    chk.cov["correspondence"] = {"model": "MV.rangeArgs (Model/Range.lean) vs emitted range(...) arguments", "evaluations": len(cases) if mod else 0, "disagreements": dis}
