"""Shared by C07/C08/C09: verdict-class correspondence between the SL model (Model/Scope.lean) and the
implementation on generated programs and single-point mutants; the model is the source of the expected
verdict (its soundness w.r.t. the dynamic semantics is the Lean theorem)."""
import gen_sl, sweep


def impl_class(r):
    if r[0] == "ok":
        return "accept"
    if r[0] != "err":
        return "crash"
    m = r[1][0]
    if m.startswith("Undefined variable") or m.startswith("Cannot reassign to undefined"):
        return "reject Undefined"
    if m.startswith("Cannot change mutability"):
        return "reject Mutability"
    if m.startswith("Exception not caught"):
        return "reject Raise"
    return "reject Other"


def all_names(p):
    names = set()

    def walk(s):
        for _, st in gen_sl.positions(s):
            if st[0] == "def":
                names.add(st[1])
            elif st[0] == "for":
                names.add(st[1])
    for f, rs, ps, b in p.funs:
        names.update(x for x, _ in ps)
        walk(b)
    walk(p.main)
    return sorted(names)


def mutate(rng, p, kind):
    """one single-point edit; returns a new Prog (or None)"""
    names = all_names(p) + [999]
    local = []
    # choose a body: a function or main
    bodies = [("fun", i) for i in range(len(p.funs))] + [("main", None)] * 2
    where = rng.choice(bodies)
    body = p.funs[where[1]][3] if where[0] == "fun" else p.main
    pos = gen_sl.positions(body)
    if not pos:
        return None
    path, _ = rng.choice(pos)
    local = [st[1] for _, st in pos if st[0] in ("def", "for")] + ([x for x, _ in p.funs[where[1]][2]] if where[0] == "fun" else [])
    if local and rng.random() < 0.7:
        names = local
    after = rng.random() < 0.5
    if kind == "use":
        new = ("expr", ("var", rng.choice(names)))
    elif kind == "assign":
        new = ("assign", rng.choice(names), ("lit",))
    elif kind == "raise":
        if not p.classes:
            return None
        raising = [f for f, rs, _, _ in p.funs if rs and (where[0] == "main" or f != p.funs[where[1]][0]) and (where[0] == "main" or [g for g, _, _, _ in p.funs].index(f) < where[1])]
        if raising and rng.random() < 0.5:
            new = ("expr", ("call", rng.choice(raising), ("lit",)))
        else:
            new = ("raise", rng.choice(p.classes)[0])
    else:
        raise ValueError(kind)
    nb = gen_sl.insert_at(body, path, new, after)
    funs = list(p.funs)
    if where[0] == "fun":
        f, rs, ps, _ = funs[where[1]]
        if kind == "raise" and rng.random() < 0.3 and rs:
            rs = rs[:-1]                      # also drop a declared class
        funs[where[1]] = (f, rs, ps, nb)
        return gen_sl.Prog(p.classes, funs, p.main)
    return gen_sl.Prog(p.classes, funs, nb)


def corpus():
    """hand-made programs around the repaired defects and the corners of the three disciplines"""
    S = gen_sl.seq
    cl = [(1, None), (2, 1)]
    g = (20, [1], [(21, True)], S([("if", ("var", 21), ("raise", 1), ("skip",))]))          # def f20(v21) raise [E1]
    handle = ("def", 30, False, ("handle", ("call", 20, ("lit",)), [(1, 31, ("skip",))]))
    out = []
    # a bare raising call after / inside the arm of / before a handle for the same class, in a function without raises
    out.append(gen_sl.Prog(cl, [g, (40, [], [(41, True)], S([handle, ("expr", ("call", 20, ("lit",)))]))], ("skip",)))
    out.append(gen_sl.Prog(cl, [g, (40, [], [(41, True)], S([("def", 30, False, ("handle", ("call", 20, ("lit",)), [(1, 31, S([("expr", ("call", 20, ("lit",)))]))]))]))], ("skip",)))
    out.append(gen_sl.Prog(cl, [g, (40, [], [(41, True)], S([("expr", ("call", 20, ("lit",))), handle]))], ("skip",)))
    out.append(gen_sl.Prog(cl, [g, (40, [], [(41, True)], S([handle, ("raise", 2)]))], ("skip",)))
    # covered: declared ancestor, handled by ancestor arm, top level
    out.append(gen_sl.Prog(cl, [g, (40, [1], [(41, True)], S([("expr", ("call", 20, ("lit",))), ("raise", 2)]))], ("skip",)))
    out.append(gen_sl.Prog(cl, [g], S([("expr", ("call", 20, ("lit",)))])))
    # fin / shadowing / scoping corners
    out.append(gen_sl.Prog([], [], S([("def", 50, True, ("lit",)), ("if", ("lit",), S([("def", 50, False, ("lit",)), ("assign", 50, ("lit",))]), ("skip",)), ("assign", 50, ("lit",))])))
    out.append(gen_sl.Prog([], [], S([("def", 50, False, ("lit",)), ("def", 50, True, ("lit",)), ("assign", 50, ("lit",))])))
    out.append(gen_sl.Prog([], [], S([("if", ("lit",), S([("def", 51, False, ("lit",))]), S([("def", 51, False, ("lit",))])), ("expr", ("var", 51))])))
    out.append(gen_sl.Prog([], [], S([("for", 52, ("lit",), S([("def", 53, False, ("var", 52))])), ("expr", ("var", 53))])))
    return out


def run_scope(chk, kinds, relevant, n_base, n_mut):
    """kinds: mutator kinds; relevant: the error class this property is about"""
    rng = chk.rng
    progs = [("corpus", p) for p in corpus()]
    for _ in range(n_base):
        base = gen_sl.Gen(rng).program()
        progs.append(("base", base))
        for _ in range(n_mut):
            m = mutate(rng, base, rng.choice(kinds))
            if m is not None:
                progs.append(("mutant", m))
    res = sweep.transpile(chk, [p.mamba() for _, p in progs], annotate_both=False)
    have_model = chk.proof_broken is None or chk.proof_broken[0] not in ("proof-build",)
    mod = chk.driver("scope", [("p%d" % i, p.sexp()) for i, (_, p) in enumerate(progs)]) if have_model else {}
    stats = {"agree_accept": 0, "agree_reject": 0, "inconclusive_other_type_error": 0, "relevant_rejections": 0}
    dis = 0
    for i, ((kind, p), r) in enumerate(zip(progs, res)):
        ic = impl_class(r[0])
        mc = mod.get("p%d" % i, "")
        if not mod:
            continue
        if ic == "reject Other" and mc == "accept":
            stats["inconclusive_other_type_error"] += 1      # inference limitations of the checker (a different finding class)
            continue
        if ic == mc:
            stats["agree_accept" if ic == "accept" else "agree_reject"] += 1
            if ic == "reject " + relevant:
                stats["relevant_rejections"] += 1
            continue
        text = p.mamba()
        f = chk.known(text)
        # the implementation accepts what the model (whose soundness is proved) rejects: a concrete violation
        if ic == "accept" and mc.startswith("reject"):
            why = "the checker ACCEPTS a program the %s discipline rejects (%s)" % (relevant, mc)
            if f:
                chk.report_known(f, why)
            elif len(chk.violations) < 5:
                chk.violation("input", why, case={"kind": "prog", "text": text, "sl": p.sexp()}, expected=mc, actual=ic)
        elif ic.startswith("reject") and mc == "accept":
            why = "the checker REJECTS (%s) a program the disciplines accept" % ic
            if f:
                chk.report_known(f, why)
            elif len(chk.violations) < 5:
                chk.violation("input", why, case={"kind": "prog", "text": text, "sl": p.sexp()}, expected=mc, actual=r[0][1][0][:600] if r[0][0] == "err" else ic)
        else:
            dis += 1
            if dis <= 3:
                chk.broken("correspondence", "Scope model and implementation give different error classes: impl %s, model %s for\n%s" % (ic, mc, text))
    if progs:
        chk.sample({"program": progs[1][1].mamba()[:600], "model": mod.get("p1"), "impl": impl_class(res[1][0])})
    chk.cov["correspondence"] = {"model": "MV.SL.Prog.check (Model/Scope.lean) via mvdrv scope vs verdict class of mamba_to_python", "evaluations": len(progs) if mod else 0,
                                 "class_disagreements": dis, "stats": stats}
    chk.cov["oracle"] = {"spec": "implementation verdict class == model verdict class on every generated program and single-point mutant (the model's acceptance is proved sound w.r.t. the dynamic semantics)",
                         "programs": len(progs), "mutator_kinds": kinds}
    chk.cov["evaluations"] = len(progs)
    chk.cov["distinct_nontrivial"] = len(set(p.sexp() for _, p in progs))
    chk.cov["rule"] = "distinct SL programs (functions with declared raises, exception hierarchies, nested if/while/for, handle with arms, shadowing) and single-point mutants: " + ", ".join(kinds)
