"""C07 — see DESIGN.md; shared machinery in scope_common.py.

Besides the SL correspondence (variables, parameters, loop variables, shadowing, nesting) a verdict matrix covers the
definition forms the SL language does not contain: annotated definitions, tuple destructuring, class arguments, class body
fields, `fin` receivers, `fin self`, undefined fields, compound assignment operators, in several contexts.  The expected
verdict is read off the property statement: reject iff the target (or its receiver) is `fin` or undefined."""
import scope_common, sweep

OPS = [":=", "+=", "-=", "*="]


def wrap(ctx, prelude, body):
    """body: list of statement lines; returns program text"""
    ind = lambda ls, n: ["    " * n + l for l in ls]
    if ctx == "top":
        return "\n".join(prelude + body) + "\n"
    if ctx == "function":
        return "\n".join(prelude + ["def ff() -> Int =>"] + ind(body + ["0"], 1)) + "\n"
    if ctx == "if":
        return "\n".join(prelude + ["def cnd := True", "if cnd then"] + ind(body, 1)) + "\n"
    if ctx == "else":
        return "\n".join(prelude + ["def cnd := True", "if cnd then", "    print(1)", "else"] + ind(body, 1)) + "\n"
    if ctx == "while":
        return "\n".join(prelude + ["def cnd := True", "while cnd do"] + ind(body + ["cnd := False"], 1)) + "\n"
    if ctx == "for":
        return "\n".join(prelude + ["for iq in 0 .. 2 do"] + ind(body, 1)) + "\n"
    if ctx == "method":
        return "\n".join(prelude + ["class Ctx", "    def mm(self) -> Int =>"] + ind(body + ["0"], 2)) + "\n"
    raise ValueError(ctx)


def matrix(thorough):
    """-> [(label, text, expected 'accept'|'reject')]"""
    out = []
    ctxs = ["top", "function", "if", "else", "while", "for", "method"]
    klass = lambda fc, fg: ["class K(def %sc: Int)" % ("fin " if fc else ""), "    def %sg: Int := 0" % ("fin " if fg else "")]
    for ctx in ctxs:
        for op in OPS:
            for fin in (False, True):
                f, exp = ("fin " if fin else ""), ("reject" if fin else "accept")
                tag = "fin" if fin else "mut"
                out.append(("plain/%s/%s/%s" % (tag, op, ctx), wrap(ctx, [], ["def %sx := 1" % f, "x %s 2" % op]), exp))
                out.append(("annotated/%s/%s/%s" % (tag, op, ctx), wrap(ctx, [], ["def %sx: Int := 1" % f, "x %s 2" % op]), exp))
                for comp in ("x", "y"):
                    out.append(("tuple-%s/%s/%s/%s" % (comp, tag, op, ctx), wrap(ctx, [], ["def %s(x, y) := (1, 2)" % f, "%s %s 3" % (comp, op)]), exp))
                # receiver
                out.append(("receiver/%s/%s/%s" % (tag, op, ctx), wrap(ctx, klass(False, False), ["def %so := K(1)" % f, "o.g %s 2" % op]), exp))
                out.append(("receiver-arg/%s/%s/%s" % (tag, op, ctx), wrap(ctx, klass(False, False), ["def %so := K(1)" % f, "o.c %s 2" % op]), exp))
                # fields through a mutable receiver
                out.append(("field-body/%s/%s/%s" % (tag, op, ctx), wrap(ctx, klass(False, fin), ["def o := K(1)", "o.g %s 2" % op]), exp))
                out.append(("field-arg/%s/%s/%s" % (tag, op, ctx), wrap(ctx, klass(fin, False), ["def o := K(1)", "o.c %s 2" % op]), exp))
                # shadowing: the innermost definition decides
                out.append(("shadow-then-%s/%s/%s" % (tag, op, ctx), wrap(ctx, [], ["def %sx := 1" % ("" if fin else "fin "), "def %sx := 5" % f, "x %s 2" % op]), exp))
            out.append(("undefined/%s/%s" % (op, ctx), wrap(ctx, [], ["zq %s 2" % op]), "reject"))
            out.append(("undefined-field/%s/%s" % (op, ctx), wrap(ctx, klass(False, False), ["def o := K(1)", "o.zq %s 2" % op]), "reject"))
    # the value of the (re-)definition in every expression form: the mutability of the NEW definition decides
    pre = ["def rg(v: Int) -> Int raise [Exception] => if v > 10 then raise Exception(\"e\") else v", "def idq(v: Int) -> Int => v", "def cnd2 := True"]
    # (conditional values are annotated: without the annotation the checker cannot infer the type in time for `+=`, which is
    # the recorded C05 finding inference-over-rejection and says nothing about mutability)
    forms = {
        "handle": lambda f: ["def %sx := rg(5) handle" % f, "    err: Exception => 0"],
        "if-expression": lambda f: ["def %sx: Int := if cnd2 then 1 else 2" % f],
        "match": lambda f: ["def %sx: Int := match 3" % f, "    1 => 5", "    _ => 6"],
        "call": lambda f: ["def %sx := idq(4)" % f],
        "block-if": lambda f: ["def %sx: Int := if cnd2 then" % f, "    1", "else", "    2"],
        "annotated-handle": lambda f: ["def %sx: Int := rg(5) handle" % f, "    err: Exception => 0"],
    }
    for ctx in ("top", "function", "if", "for", "method"):
        for op in (":=", "+="):
            for fin in (False, True):
                f, exp, tag = ("fin " if fin else ""), ("reject" if fin else "accept"), ("fin" if fin else "mut")
                for name, form in forms.items():
                    out.append(("value-%s/%s/%s/%s" % (name, tag, op, ctx), wrap(ctx, pre, form(f) + ["x %s 2" % op]), exp))
                    out.append(("shadow-value-%s-then-%s/%s/%s" % (name, tag, op, ctx),
                                wrap(ctx, pre, ["def %sx := 1" % ("" if fin else "fin ")] + form(f) + ["x %s 2" % op]), exp))
    # parameters and self
    for op in OPS:
        for fin in (False, True):
            f, exp, tag = ("fin " if fin else ""), ("reject" if fin else "accept"), ("fin" if fin else "mut")
            out.append(("param/%s/%s" % (tag, op), "def ff(%sa: Int) -> Int =>\n    a %s 2\n    a\n" % (f, op), exp))
            out.append(("param-nested/%s/%s" % (tag, op), "def ff(%sa: Int) -> Int =>\n    if a > 0 then\n        a %s 2\n    a\n" % (f, op), exp))
            out.append(("self/%s/%s" % (tag, op), "class K(def c: Int)\n    def g: Int := 0\n    def mm(%sself) -> Int =>\n        self.g %s 3\n        1\n" % (f, op), exp))
            out.append(("self-arg/%s/%s" % (tag, op), "class K(def c: Int)\n    def g: Int := 0\n    def mm(%sself) -> Int =>\n        self.c %s 3\n        1\n" % (f, op), exp))
            out.append(("self-field-body/%s/%s" % (tag, op), "class K(def c: Int)\n    def %sg: Int := 0\n    def mm(self) -> Int =>\n        self.g %s 3\n        1\n" % (f, op), exp))
            out.append(("self-field-arg/%s/%s" % (tag, op), "class K(def %sc: Int)\n    def g: Int := 0\n    def mm(self) -> Int =>\n        self.c %s 3\n        1\n" % (f, op), exp))
            out.append(("param-receiver/%s/%s" % (tag, op), "class K(def c: Int)\n    def g: Int := 0\ndef ff(%so: K) -> Int =>\n    o.g %s 2\n    1\n" % (f, op), exp))
    # `fin` on ONE component of a destructuring definition (if the parser takes it at all, it must be enforced)
    for op in OPS:
        for ctx in ("top", "function", "if"):
            out.append(("tuple-element-fin/%s/%s" % (op, ctx), wrap(ctx, [], ["def (x, fin y) := (1, 2)", "y %s 3" % op]), "reject"))
            out.append(("tuple-element-fin-first/%s/%s" % (op, ctx), wrap(ctx, [], ["def (fin x, y) := (1, 2)", "x %s 3" % op]), "reject"))
            out.append(("tuple-element-fin-typed/%s/%s" % (op, ctx), wrap(ctx, [], ["def (x: Int, fin y: Int) := (1, 2)", "y %s 3" % op]), "reject"))
        out.append(("for-tuple-element-fin/%s" % op, "for (x, fin y) in [(1, 2)] do\n    y %s 3\n" % op, "reject"))
        out.append(("for-variable/%s" % op, "for i in 0 .. 3 do\n    i %s 5\n    print(i)\n" % op, "accept"))
    # binders of match arms: `fin` before the pattern (a name, a tuple of names) is enforced inside the arm
    for op in OPS:
        for ctx in ("top", "function", "method"):
            out.append(("arm-binder-mut/%s/%s" % (op, ctx), wrap(ctx, ["def pq := 3"], ["match pq", "    x =>", "        x %s 4" % op, "        print(x)"]), "accept"))
            out.append(("arm-binder-fin/%s/%s" % (op, ctx), wrap(ctx, ["def pq := 3"], ["match pq", "    fin x =>", "        x %s 4" % op, "        print(x)"]), "reject"))
            out.append(("arm-tuple-binder-fin/%s/%s" % (op, ctx), wrap(ctx, ["def pq := (1, 2)"], ["match pq", "    fin (x, y) =>", "        x %s 4" % op, "        print(x + y)"]), "reject"))
            out.append(("arm-tuple-binder-fin-second/%s/%s" % (op, ctx), wrap(ctx, ["def pq := (1, 2)"], ["match pq", "    fin (x, y) =>", "        y %s 4" % op, "        print(x + y)"]), "reject"))
            out.append(("arm-binder-fin-after-literal-arm/%s/%s" % (op, ctx), wrap(ctx, ["def pq := 3"], ["match pq", "    1 => print(1)", "    fin x =>", "        x %s 4" % op]), "reject"))
    # reassignment with a value of another type stays rejected, of the same type accepted
    out.append(("type/same", "def x: Int := 1\nx := 2\n", "accept"))
    out.append(("type/other", "def x: Int := 1\nx := \"s\"\n", "reject"))
    return out


def run(chk):
    thorough = chk.tier == "thorough"
    ok = chk.build_harness()
    if chk.lake_build(["MambaVerif.Props.C07", "mvdrv"]):
        chk.audit("MambaVerif.Props.C07")
        if thorough:
            chk.leanchecker(["MambaVerif.Props.C07"])
    if not ok:
        return
    scope_common.run_scope(chk, ["assign"], "Mutability", 400 if thorough else 30, 8 if thorough else 4)
    cases = matrix(thorough)
    res = sweep.transpile(chk, [t for _, t, _ in cases], annotate_both=False)
    stats = {"accept_ok": 0, "reject_ok": 0, "reject_for_other_reason": 0}
    for (label, text, exp), r in zip(cases, res):
        got = "accept" if r[0][0] == "ok" else ("reject" if r[0][0] == "err" else "crash")
        why = None
        if got == "crash":
            why = "%s: the checker crashes" % label
        elif exp == "reject" and got == "accept":
            why = "%s: an assignment to a fin or undefined target is ACCEPTED" % label
        elif exp == "accept" and got == "reject":
            why = "%s: reassigning a mutable definition with a value of its type is REJECTED: %s" % (label, r[0][1][0][:200])
        else:
            stats["accept_ok" if got == "accept" else "reject_ok"] += 1
            if got == "reject" and not label.startswith(("type/", "undefined-field")) and not scope_common.impl_class(r[0]) in ("reject Mutability", "reject Undefined"):
                stats["reject_for_other_reason"] += 1
        if why:
            f = chk.known(label)
            if f:
                chk.report_known(f, why)
            elif len(chk.violations) < 5:
                chk.violation("input", why, case={"kind": "prog", "label": label, "text": text}, expected=exp, actual=str(r[0])[:600])
    chk.cov["oracle"]["matrix"] = {"spec": "definition form x mutability x assignment operator x context: reject iff the target or its receiver is fin or undefined",
                                   "cases": len(cases), "stats": stats}
    chk.cov["evaluations"] += len(cases)
    chk.cov["distinct_nontrivial"] += len(cases)
    chk.cov["rule"] += "; + verdict matrix over definition forms (plain, annotated, tuple components, class argument, class body field, parameter, receiver, self, undefined, shadowed) x {:=,+=,-=,*=} x {top, function, if, else, while, for, method}"
