"""C04 — accepted programs do not go wrong: no type/attribute/name errors at run time."""
import gen_prog, sweep

VALUES = {"Int": ["3", "0", "7"], "Float": ["2.5", "1.0"], "Str": ["\"s\"", "\"\""], "Bool": ["True", "False"]}
OPS = ["+", "-", "*", "/", "//", "mod", "^", "<", "<=", ">", ">=", "=", "!="]
BAD = ("TypeError", "AttributeError", "NameError", "UnboundLocalError")


def matrix():
    out = []
    for t1, v1s in VALUES.items():
        for t2, v2s in VALUES.items():
            for op in OPS:
                v1, v2 = v1s[0], v2s[0]
                if op in ("/", "//", "mod") and v2 in ("0", "0.0"):
                    v2 = v2s[-1]
                out.append(("%s %s %s" % (t1, op, t2), "def a := %s\ndef b := %s\ndef r := a %s b\nprint(r)\n" % (v1, v2, op)))
        out.append(("- %s" % t1, "def a := %s\ndef r := -a\nprint(r)\n" % v1s[0]))
        out.append(("str %s" % t1, "def a := %s\nprint(\"{a}\")\n" % v1s[0]))
    out.append(("Str.is_digit", "def a := \"12\"\ndef r := a.is_digit()\nprint(r)\n"))
    out.append(("Int.sqrt", "def a := 16\ndef r := sqrt a\nprint(r)\n"))
    return out


def type_mutants(rng, prog, k):
    """replace one Int/Str/Bool literal occurrence of the program text by a literal of another type"""
    import re
    text = prog.text
    lits = [(m.start(), m.end(), "Int") for m in re.finditer(r"(?<![\w.\"])\d+(?![\w.\"])", text)]
    lits += [(m.start(), m.end(), "Str") for m in re.finditer(r"\"[^\"{}\n]*\"", text)]
    lits += [(m.start(), m.end(), "Bool") for m in re.finditer(r"\b(True|False)\b", text)]
    out = []
    for _ in range(k):
        if not lits:
            break
        a, b, ty = rng.choice(lits)
        other = rng.choice([t for t in ("Int", "Str", "Bool", "Float") if t != ty])
        out.append(("mutant %s->%s" % (ty, other), text[:a] + rng.choice(VALUES[other]) + text[b:]))
    return out


def structural_mutants(rng, prog, k):
    """type-changing edits other than literals: drop / add / swap an argument of a call, rename a use to another (or an
    undefined) name, replace a receiver, change a declared type"""
    import re
    text = prog.text
    names = sorted(set(re.findall(r"\b(?:[vutonlqhmeb]\d+|a\d+|p\d+|c\d+|g\d+)\b", text)))
    calls = [m for m in re.finditer(r"(?<![\w\\])((?:\w+\.)?\w+)\(([^()\n]*)\)", text) if not m.group(1).startswith(("print", "def")) and "def " not in text[max(0, m.start() - 4):m.start()]
             and not text[text.rfind("\n", 0, m.start()) + 1:m.start()].startswith("class ")]     # parent arguments: open finding parent-arguments-unchecked
    out = []
    for _ in range(k):
        kind = rng.choice(["drop-arg", "add-arg", "swap-arg", "rename-use", "receiver", "declared-type"])
        if kind in ("drop-arg", "add-arg", "swap-arg") and calls:
            m = rng.choice(calls)
            args = [a.strip() for a in m.group(2).split(",")] if m.group(2).strip() else []
            if kind == "drop-arg" and args:
                del args[rng.randrange(len(args))]
            elif kind == "add-arg":
                args.insert(rng.randint(0, len(args)), rng.choice(["1", "\"s\"", "True"] + names[:3]))
            elif kind == "swap-arg" and len(args) >= 2:
                i, j = rng.sample(range(len(args)), 2)
                args[i], args[j] = args[j], args[i]
            else:
                continue
            out.append(("mutant " + kind, text[:m.start(2)] + ", ".join(args) + text[m.end(2):]))
        elif kind == "rename-use" and names:
            uses = [m for m in re.finditer(r"\b(?:[vutonlqhmeb]\d+|a\d+|p\d+)\b", text) if not re.search(r"(def (fin )?|\(|, |for )$", text[max(0, m.start() - 8):m.start()]) and text[m.end():m.end() + 1] != ":"]
            if uses:
                m = rng.choice(uses)
                new = rng.choice([n for n in names if n != m.group(0)] + ["zz9"])
                out.append(("mutant rename-use", text[:m.start()] + new + text[m.end():]))
        elif kind == "receiver":
            recs = list(re.finditer(r"\b(o\d+|self)\.(\w+)", text))
            if recs and names:
                m = rng.choice(recs)
                new = rng.choice(names + ["5", "\"s\""])
                out.append(("mutant receiver", text[:m.start(1)] + new + text[m.end(1):]))
        elif kind == "declared-type":
            tys = list(re.finditer(r"(: |-> )(Int|Str|Bool)\b", text))
            if tys:
                m = rng.choice(tys)
                new = rng.choice([t for t in ("Int", "Str", "Bool", "Float") if t != m.group(2)])
                out.append(("mutant declared-type", text[:m.start(2)] + new + text[m.end(2):]))
    return out


USE = {"Int": "{x} + 1", "Float": "{x} + 1.5", "Str": "{x} + \"t\"", "Bool": "{x} and True"}


def container_flows():
    """values whose declared container type has one wrong-typed component, flowing through an annotated definition, a
    parameter, a return type and a method parameter, then destructured / indexed and used at the declared component type.
    Either the checker rejects, or the program runs without a type error."""
    out = []
    prims = ["Int", "Str", "Bool", "Float"]
    val = {t: VALUES[t][0] for t in prims}
    for arity in (2, 3):
        for decl in ([("Int", "Str"), ("Str", "Int"), ("Int", "Int"), ("Bool", "Str"), ("Float", "Str")] if arity == 2 else [("Int", "Str", "Int"), ("Str", "Str", "Int"), ("Int", "Bool", "Str")]):
            for wrong_at in [None] + list(range(arity)):
                for wrong_ty in prims:
                    actual = list(decl)
                    if wrong_at is not None:
                        if wrong_ty == decl[wrong_at] or (wrong_ty == "Int" and decl[wrong_at] == "Float"):
                            continue
                        actual[wrong_at] = wrong_ty
                    elif wrong_ty != "Int":
                        continue
                    ty = "(" + ", ".join(decl) + ")"
                    v = "(" + ", ".join(val[t] for t in actual) + ")"
                    names = ["c%d" % i for i in range(arity)]
                    uses = "".join("print(%s)\n" % USE[t].replace("{x}", n) for n, t in zip(names, decl))
                    tag = "tuple%d/%s/wrong@%s=%s" % (arity, "-".join(decl), wrong_at, wrong_ty if wrong_at is not None else "-")
                    out.append((tag + "/def", "def t: %s := %s\ndef (%s) := t\n%s" % (ty, v, ", ".join(names), uses)))
                    out.append((tag + "/param", "def f(t: %s) -> Int =>\n    def (%s) := t\n%s    0\ndef r := f(%s)\n" % (ty, ", ".join(names), "".join("    " + l + "\n" for l in uses.strip().split("\n")), v)))
                    out.append((tag + "/return", "def f() -> %s => %s\ndef (%s) := f()\n%s" % (ty, v, ", ".join(names), uses)))
                    out.append((tag + "/method", "class K\n    def m(self, t: %s) -> Int =>\n        def (%s) := t\n%s        0\ndef r := K().m(%s)\n" % (ty, ", ".join(names), "".join("        " + l + "\n" for l in uses.strip().split("\n")), v)))
                    out.append((tag + "/local", "def w := %s\ndef t: %s := w\ndef (%s) := t\n%s" % (v, ty, ", ".join(names), uses)))
    for coll, lit in (("List", "[%s]"), ("Set", "{%s}")):
        for decl in prims:
            for actual in prims:
                if actual == "Int" and decl == "Float":
                    continue
                tag = "%s/%s/elem=%s" % (coll, decl, actual)
                v = lit % ", ".join([val[actual]] * 2)
                use = "for e in c do print(%s)\n" % USE[decl].replace("{x}", "e")
                out.append((tag + "/def", "def c: %s[%s] := %s\n%s" % (coll, decl, v, use)))
                out.append((tag + "/param", "def f(c: %s[%s]) -> Int =>\n    %s    0\ndef r := f(%s)\n" % (coll, decl, use, v)))
                out.append((tag + "/return", "def f() -> %s[%s] => %s\ndef c := f()\n%s" % (coll, decl, v, use)))
    return out


def interpolation_faults():
    """an undefined name, an operand of the wrong type or a missing attribute INSIDE an interpolated string, on either side
    of every operator: rejected, or the program runs (what is checked must be what Python will evaluate)"""
    out = []
    pre = "class P(def x: Int)\n    def m(fin self) -> Int => self.x\ndef a := 3\ndef b := 4\ndef s := \"t\"\ndef p := P(1)\n"
    ok_ops = ["+", "-", "*", "<", "<=", ">", ">=", "!=", "="]
    faults = {"undefined-name": "zz9", "wrong-type": "s", "missing-attribute": "p.nofield", "missing-method": "p.nomethod()"}
    for op in ok_ops:
        for fk, fx in faults.items():
            out.append(("interp/%s/right/%s" % (op, fk), pre + "print(\"v={a %s %s}\")\n" % (op, fx)))
            out.append(("interp/%s/left/%s" % (op, fk), pre + "print(\"v={%s %s a}\")\n" % (fx, op)))
            out.append(("interp/%s/second-interpolation/%s" % (op, fk), pre + "print(\"v={a} w={b %s %s}\")\n" % (op, fx)))
        out.append(("interp/%s/fine" % op, pre + "print(\"v={a %s b}\")\n" % op))
    for fk, fx in faults.items():
        out.append(("interp/alone/%s" % fk, pre + "print(\"v={%s}\")\n" % fx))
        out.append(("interp/call-argument/%s" % fk, pre + "def g(z: Int) -> Int => z\nprint(\"v={g(%s)}\")\n" % fx))
    return out


def arity_flows():
    """calls with one argument dropped or added, for every kind of callee and 1-3 declared parameters (the last one with
    and without a default): either rejected, or the program runs"""
    out = []
    vals = ["1", "2", "3", "4"]
    for n in (1, 2, 3):
        for with_default in (False, True):
            params = ["p%d: Int" % i for i in range(n)]
            if with_default:
                params[-1] += " := 9"
            sig = ", ".join(params)
            for given in range(0, n + 2):
                args = ", ".join(vals[:given])
                tag = "arity/n=%d%s/given=%d" % (n, "d" if with_default else "", given)
                out.append((tag + "/function", "def f(%s) -> Int => p0\nprint(f(%s))\n" % (sig, args)))
                out.append((tag + "/method", "class K\n    def m(self, %s) -> Int => p0\ndef o := K()\nprint(o.m(%s))\n" % (sig, args)))
                out.append((tag + "/method-fin-self", "class K\n    def m(fin self, %s) -> Int => p0\ndef o := K()\nprint(o.m(%s))\n" % (sig, args)))
                out.append((tag + "/self-method", "class K\n    def m(self, %s) -> Int => p0\n    def go(self) -> Int => self.m(%s)\nprint(K().go())\n" % (sig, args)))
                out.append((tag + "/constructor", "class K(%s)\n    def z: Int := 0\ndef o := K(%s)\nprint(o.z)\n" % (", ".join("def " + p for p in params), args)))
                out.append((tag + "/in-function", "def f(%s) -> Int => p0\ndef g() -> Int => f(%s)\nprint(g())\n" % (sig, args)))
    return out


def inheritance_flows():
    """a member (method, field) that several parents define with DIFFERENT types, parents written in every order, the
    member used at each of the types: whichever definition the checker believes in must be the one Python finds"""
    out = []
    tys = {"Int": ("2", "{x} + 1"), "Str": ("\"s\"", "{x} + \"t\""), "Bool": ("True", "{x} and True")}
    names = ["Ka", "Kb", "Kc"]
    for (t1, t2) in (("Int", "Str"), ("Str", "Int"), ("Bool", "Str"), ("Str", "Bool")):
        for order in ((0, 1), (1, 0)):
            for use_ty in (t1, t2):
                for kind in ("method", "field"):
                    decls = []
                    for n, t in zip(names, (t1, t2)):
                        if kind == "method":
                            decls.append("class %s\n    def m(fin self) -> %s => %s\n" % (n, t, tys[t][0]))
                        else:
                            decls.append("class %s\n    def m: %s := %s\n" % (n, t, tys[t][0]))
                    ps = ", ".join(names[i] for i in order)
                    acc = "o.m()" if kind == "method" else "o.m"
                    body = "class Kz: %s\n    def z: Int := 0\ndef o := Kz()\ndef r: %s := %s\nprint(%s)\n" % (ps, use_ty, acc, tys[use_ty][1].format(x="r"))
                    out.append(("inherit/%s/%s-%s/order=%s/use=%s" % (kind, t1, t2, "".join(map(str, order)), use_ty), "".join(decls) + body))
                    # the parents listed in the other textual order in the file
                    out.append(("inherit/%s/%s-%s/order=%s/use=%s/decl-rev" % (kind, t1, t2, "".join(map(str, order)), use_ty), "".join(reversed(decls)) + body))
    return out


def constructor_flows():
    """a field declared without a value is assigned by the constructor on SOME paths; the object is built along a path
    that skips the assignment and the field is used at its declared type: either rejected, or the program runs"""
    out = []
    tys = {"Int": ("7", "{x} + 1"), "Str": ("\"s\"", "{x} + \"t\""), "Bool": ("True", "{x} and True")}
    shapes = {
        "straight": ("", "        self.f := {V}\n", "0"),
        "both-branches": ("", "        if n > 0 then\n            self.f := {V}\n        else\n            self.f := {V}\n", "0"),
        "one-branch": ("", "        if n > 0 then\n            self.f := {V}\n", "0"),
        "else-branch-only": ("", "        if n > 0 then\n            print(n)\n        else\n            self.f := {V}\n", "1"),
        "for-body": ("", "        for i in 0 .. n do\n            self.f := {V}\n", "0"),
        "for-body-inclusive": ("", "        for i in 1 ..= n do\n            self.f := {V}\n", "0"),
        "while-body": ("", "        def k := 0\n        while k < n do\n            self.f := {V}\n            k := k + 1\n", "0"),
        "for-body-then-break": ("", "        for i in 0 .. 3 do\n            if i >= n then\n                break\n            self.f := {V}\n", "0"),
        "match-arm": ("", "        match n\n            1 => self.f := {V}\n            _ => print(n)\n", "0"),
        "nested-one-branch": ("", "        if n >= 0 then\n            if n > 0 then\n                self.f := {V}\n        else\n            self.f := {V}\n", "0"),
        "after-early-return": ("", "        if n = 0 then\n            return\n        self.f := {V}\n", "0"),
        "assigned-before-handle": ("def risky(n: Int) -> Int raise [Exception] => if n > 0 then n else raise Exception(\"no\")\n",
                                   "        self.f := {V}\n        def r := risky(n) handle\n            err: Exception =>\n                self.g := 1\n                0\n", "0"),
        "in-helper-method-only": ("    def fill(self) => self.f := {V}\n", "        print(n)\n", "0"),
        "handle-arm-only": ("def risky(n: Int) -> Int raise [Exception] => if n > 0 then n else raise Exception(\"no\")\n",
                            "        def r := risky(1) handle\n            err: Exception =>\n                self.f := {V}\n                0\n", "0"),
    }
    for t, (val, use) in tys.items():
        for name, (pre, body, arg) in shapes.items():
            helper = pre if pre.startswith("    ") else ""
            top = pre if not pre.startswith("    ") else ""
            text = (top + "class K\n    def f: %s\n    def g: Int := 0\n" % t + "    def __init__(self, n: Int) =>\n" + body.replace("{V}", val) + helper.replace("{V}", val)
                    + "def o := K(%s)\ndef r: %s := o.f\nprint(%s)\n" % (arg, t, use.format(x="r")))
            out.append(("ctor-flow/%s/%s" % (name, t), text))
    return out


def run(chk):
    thorough = chk.tier == "thorough"
    ok = chk.build_harness()
    chk.translate(["StubTables"])
    if chk.lake_build(["MambaVerif.Props.C04"]):
        chk.audit("MambaVerif.Props.C04")
        if thorough:
            chk.leanchecker(["MambaVerif.Props.C04"])
    if not ok:
        return
    rng = chk.rng
    cases = matrix()
    cases += arity_flows()
    cases += interpolation_faults()
    cases += inheritance_flows()
    cases += constructor_flows()
    # names that escape their binder (C09's matrix, top-level placements): whatever the checker accepts of them is executed
    import c09 as _c09
    esc = [(label, text) for label, text, _exp in _c09.matrix() if label.startswith("escape/") and label.endswith("/top")]
    cases += esc if thorough else [c for c in esc if "/typed-" in c[0] or "/returned/" in c[0]] + rng.sample(esc, 60)
    flows = container_flows()
    cases += flows if thorough else [c for c in flows if c[0].endswith(("/def", "/param"))] + rng.sample(flows, 150)
    progs = [gen_prog.Gen(rng).program() for _ in range(120 if thorough else 25)]
    # programs with definitions fed by nested statement-form if/match blocks (every path must bind the variable)
    extra = [q for q in (gen_prog.Gen(rng).program() for _ in range(400 if thorough else 120)) if "blockdef" in str(q.items)][: (60 if thorough else 15)]
    progs += extra
    cases += [("generated", p.text) for p in progs]
    for p in progs:
        cases += type_mutants(rng, p, 6 if thorough else 3)
        cases += structural_mutants(rng, p, 12 if thorough else 8)
    cases += [("corpus " + f["key"], f["input"]) for f in chk.findings if f.get("input")]
    res = sweep.transpile(chk, [c[1] for c in cases], annotate_both=False)
    jobs, idx = [], []
    n_rej = 0
    for i, r in enumerate(res):
        if r[0][0] == "ok":
            jobs.append(r[0][1])
            idx.append(i)
        else:
            n_rej += 1
    outs = sweep.run_python_msg(jobs)
    stats = {"executed": len(jobs), "rejected_by_checker": n_rej, "outcomes": {}}
    distinct = set()
    for i, (lines, outcome, message) in zip(idx, outs):
        name, text = cases[i]
        stats["outcomes"][outcome.split(" ")[-1] if outcome != "ok" else "ok"] = stats["outcomes"].get(outcome.split(" ")[-1] if outcome != "ok" else "ok", 0) + 1
        distinct.add(text)
        if any(outcome.endswith(b) for b in BAD):
            f = chk.known(name) or chk.known(message) or chk.known(text)
            why = "accepted program raises %s at run time (%s)" % (message[:120], name)
            if f:
                chk.report_known(f, why)
            elif len(chk.violations) < 6:
                chk.violation("input", why, case={"kind": "prog", "name": name, "text": text}, actual=jobs[idx.index(i)][:2000])
    chk.sample({"case": cases[0][0], "text": cases[0][1]})
    chk.cov["correspondence"] = {"model": "MV.stubRows (regenerated from check/resource/primitive/*.py) vs MV.C04.pyOp", "tie": "translator; the specification pyOp is exercised against CPython by the operator matrix of this check", "rows": chk.cov["tables"].get("StubTables", {}).get("rows")}
    chk.cov["oracle"] = {"spec": "no accepted program raises TypeError, AttributeError, NameError or UnboundLocalError under CPython: operator matrix over primitive types, generated programs, type-changing mutants the checker accepts",
                         "cases": len(cases), "stats": stats}
    chk.cov["evaluations"] = len(cases)
    chk.cov["distinct_nontrivial"] = len(distinct)
    chk.cov["rule"] = "distinct accepted programs executed: (type, operator, type) matrix over Int/Float/Str/Bool, unary minus, interpolation, generated programs, their single-literal type-changing mutants and their structural mutants (drop/add/swap an argument, rename a use, replace a receiver, change a declared type); calls with one argument too few or too many for every kind of callee; tuple/list/set values with one wrong-typed component flowing through definitions, parameters, returns and method parameters"
