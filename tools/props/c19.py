"""C19 — diagnostics are well-formed and point into the offending file and line."""
import re
import gen_prog, gen_lex, sweep
from mvlib import hexs, unhex

FAULT_LINES = {
    # (an unbalanced quote is not a local fault: it re-pairs every later quote of the file, so it is not injected here)
    "lex": ["def q9 := 1 ! 2", "def q9 := 3 $ 4", "def q9 := 1 ~ 2"],
    "syntax": ["def := 3", "def q9 := )", "if then else", "def q9 := (1 + ", "class 7"],
    "type": ["def q9: Int := \"text\"", "def q9: Str := 5", "print(undefined_name_q9)", "def q9 := 1 + \"s\"", "q8 := 3"],
    # faults whose construct (and hence the reported position or a cause) spans several lines
    "type-multiline": ["def q9: Int := if 1 < 2 then\n    1\nelse\n    \"text\"", "def q9: Str := match 3\n    1 => \"a\"\n    _ => 5",
                       "def q7(x9: Int) -> Int =>\n    print(x9)\n    \"s\"", "if 1 < 2 then\n    def q6: Int := 1\n    q6 := \"s\"\nelse\n    print(2)",
                       "def q5 := [1,\n    2] + 3", "class Q4\n    def f4: Int := 1\n    def m4(self) -> Str =>\n        self.f4\ndef q3 := Q4()"],
}


# what may stand before the fault: literals and trivia whose text spans several lines (every later position depends
# on the lexer counting their line breaks), in every spelling the lexer distinguishes
PRELUDES = {
    "none": "def a9 := 1\n",
    "string-1-break": "def s9 := \"two\nlines\"\n",
    "string-3-breaks": "def s9 := \"a\n\n  b\nc\"\nprint(s9)\n",
    "string-interpolated": "def n9 := 2\ndef s9 := \"a {n9}\nb {n9 + 1}\"\n",
    "docstring-toplevel": "\"\"\"Module\n\ndoc\n\"\"\"\ndef a9 := 1\n",
    "docstring-dedented-close": "class K9\n    \"\"\"Doc of K9.\n\nMore text.\n\"\"\"\n    def f9: Int := 1\n",
    "docstring-in-function": "def g9(x9: Int) -> Int =>\n    \"\"\"Adds one\n    to x9.\"\"\"\n    x9 + 1\n",
    "docstring-one-line": "\"\"\"doc\"\"\"\ndef a9 := 1\n",
    "comments-and-blanks": "# one\n\n# two\n   \ndef a9 := 1  # trailing\n\n",
    "crlf": "def a9 := 1\r\ndef b9 := \"x\"\r\n",
    "two-literals": "def s9 := \"a\nb\"\n\"\"\"d\n\"\"\"\ndef t9 := \"c\nd\ne\"\n",
}


def prelude_cases():
    out = []
    for pname, pre in PRELUDES.items():
        for kind, faults in FAULT_LINES.items():
            for fault in faults:
                for tail in ("", "def z9 := 0\n"):
                    first = pre.count("\n") + 1
                    out.append((pre + fault + "\n" + tail, (first, first + fault.count("\n")), kind + "/after-" + pname, fault))
    return out


def inject(rng, text):
    """insert one fault line at a random top-level position; returns (new text, line number, kind)"""
    lines = text.rstrip("\n").split("\n")
    # lines inside a multi-line string or doc-string are not statements, whatever their indentation
    inside, in_str = set(), False
    for i, l in enumerate(lines):
        if in_str:
            inside.add(i)
        if (l.count('"""') % 2 == 1) or (l.replace('"""', "").count('"') % 2 == 1):
            in_str = not in_str
    tops = [i for i, l in enumerate(lines) if l and i not in inside and not l.startswith(" ") and not l.startswith("else")] + [len(lines)]
    # only between top-level statements whose previous line does not open a block
    cands = [i for i in tops if i == 0 or not (lines[i - 1].rstrip().endswith(("=>", "then", "do", "handle", "else")) or lines[i - 1].startswith("class ") and i < len(lines) and lines[i].startswith(" "))]
    cands = [i for i in cands if i == len(lines) or not lines[i].startswith(" ")]
    i = rng.choice(cands)
    kind = rng.choice(list(FAULT_LINES))
    fault = rng.choice(FAULT_LINES[kind])
    lines[i:i] = fault.split("\n")
    return "\n".join(lines) + "\n", (i + 1, i + fault.count("\n") + 1), kind, fault


LOC = re.compile(r" ──→ (\S+?)(?::(\d+):(\d+))?\n")
QUOTED = re.compile(r"^\s*(\d+) \| (.*)$", re.M)


def run(chk):
    thorough = chk.tier == "thorough"
    ok = chk.build_harness()
    if chk.lake_build(["MambaVerif.Props.C19", "mvdrv"]):
        chk.audit("MambaVerif.Props.C19")
        if thorough:
            chk.leanchecker(["MambaVerif.Props.C19"])
    if not ok:
        return
    rng = chk.rng
    # ---- renderer correspondence on generated error descriptions
    srcs = ["def a := 1\ndef bcd := 2\n\nlast line", "x", "", "one\r\ntwo\r\n", "é := 1\n    indented\n", "a\n\n\nb\n"]
    reqs = []
    for k in range(1500 if thorough else 400):
        src = rng.choice(srcs + [None])
        nl = (src.count("\n") + 2) if src else 3
        def pos():
            if rng.random() < 0.1:
                return (0, 0, 0, 0)
            l = rng.randint(1, nl)
            c = rng.randint(1, 12)
            return (l, c, l + rng.choice([0, 0, 1]), max(1, c + rng.randint(-2, 6)))
        p = pos()
        causes = [(pos(), rng.choice(["because", "In print", "while parsing é"])) for _ in range(rng.randint(0, 3))]
        if rng.random() < 0.3 and causes:
            causes[0] = (p, causes[0][1])
        path = rng.choice([None, "src/x.mamba", "proj/dir/", "a b.mamba"])
        haspos = rng.random() < 0.9
        payload = "%d %d %d %d %d %s %s %s %d" % (1 if haspos else 0, p[0], p[1], p[2], p[3], hexs(rng.choice(["Bad thing", "Expected a Str", "é"])),
                                                  hexs(path) if path else "-", hexs(src) if src else "-", len(causes))
        for cp, cm in causes:
            payload += " %d %d %d %d %s" % (cp[0], cp[1], cp[2], cp[3], hexs(cm))
        reqs.append(("r%d" % k, payload))
    impl = chk.harness("render", reqs)
    have_model = chk.proof_broken is None or chk.proof_broken[0] not in ("proof-build",)
    mod = chk.driver("render", reqs) if have_model else {}
    dis = 0
    for cid, pl in reqs:
        if mod and mod.get(cid) != impl.get(cid):
            dis += 1
            if dis <= 3:
                a, b = impl.get(cid, ""), mod.get(cid, "")
                chk.broken("correspondence", "Diag model and implementation render differently for %s:\n impl : %r\n model: %r" % (
                    pl[:200], unhex(a[3:]) if a.startswith("ok ") else a, unhex(b[3:]) if b.startswith("ok ") else b))
        if impl.get(cid, "").startswith("PANIC") and len(chk.violations) < 3:
            chk.violation("input", "rendering a diagnostic panicked: " + unhex(impl[cid].split(" ")[1])[:200], case={"kind": "render", "payload": pl})
    chk.cov["correspondence"] = {"model": "MV.formatErr (Model/Diag.lean) vs Display of check::result::TypeErr (format_err/format_location)", "evaluations": len(reqs) if mod else 0, "disagreements": dis}
    # ---- oracle: single faults on a known line of otherwise valid programs
    base = [t for t in gen_prog.accepted_samples(chk) if 3 <= t.count("\n") <= 40]
    base = rng.sample(base, min(len(base), 40 if thorough else 12)) + [gen_prog.Gen(rng).program().text for _ in range(60 if thorough else 10)]
    cases = []
    for t in base:
        for _ in range(6 if thorough else 4):
            try:
                cases.append(inject(rng, t))
            except IndexError:
                pass
    pc = prelude_cases()
    cases += pc
    res = sweep.transpile(chk, [c[0] for c in cases], annotate_both=False)
    stats = {"rejected": 0, "localised": 0, "by_kind": {}, "after_multi_line_literals_and_trivia": len(pc)}
    for (text, line, kind, fault), r in zip(cases, res):
        why = None
        lines = text.split("\n")
        if r[0][0] == "ok":
            continue      # the injected line happened to be acceptable here (not a rejection: outside this property)
        if r[0][0] == "crash":
            why = "pipeline crashed instead of reporting: " + r[0][1]
        else:
            msgs = r[0][1]
            stats["rejected"] += 1
            stats["by_kind"][kind] = stats["by_kind"].get(kind, 0) + 1
            if not msgs or any(not m.strip() for m in msgs):
                why = "rejected with an empty diagnostic"
            on_line = False
            for m in msgs:
                for mm in LOC.finditer(m):
                    path, l, c = mm.group(1), mm.group(2), mm.group(3)
                    if path != "proj/main.mamba":
                        why = why or "diagnostic names %s instead of the file it belongs to" % path
                    if l is not None:
                        l, c = int(l), int(c)
                        if not (1 <= l <= len(lines)) or c < 1 or c > len(lines[l - 1]) + 2:
                            why = why or "position %d:%d lies outside the file's text" % (l, c)
                        on_line = on_line or line[0] <= l <= line[1]
                for q in QUOTED.finditer(m):
                    n, quoted = int(q.group(1)), q.group(2)
                    if not (1 <= n <= len(lines)) or lines[n - 1].rstrip("\r") != quoted:
                        why = why or "quoted line %d %r is not the line of the source" % (n, quoted)
                    on_line = on_line or line[0] <= n <= line[1]
            if why is None and not on_line:
                why = "no reported position is on the faulty lines %d-%d (%s fault %r)" % (line[0], line[1], kind, fault)
            if why is None:
                stats["localised"] += 1
        if why:
            f = chk.known(fault) or chk.known(text) or (chk.known("diagnostic: " + r[0][1][0]) if r[0][0] == "err" and r[0][1] else None)
            if f:
                chk.report_known(f, why)
            elif len(chk.violations) < 6:
                chk.violation("input", why, case={"kind": "prog", "text": text, "fault_lines": list(line), "fault": fault}, actual=(r[0][1][0][:1500] if r[0][0] == "err" else r[0][1]))
    # ---- projects: a fault in one file of several; the diagnostic names THAT file and quotes ITS lines
    import c13 as _c13
    pcases = []
    for k in range(40 if thorough else 12):
        files = _c13.project(rng, 700 + k)
        if len(files) < 2:
            continue
        for _ in range(2):
            fi = rng.randrange(len(files))
            kind = rng.choice(["lex", "syntax", "type", "type"])
            fault = rng.choice(FAULT_LINES[kind])
            rel, text = files[fi]
            faulty = list(files)
            faulty[fi] = (rel, text + fault + "\n")
            pcases.append((faulty, fi, kind, fault))
    pres = chk.harness("proj", [("q%d" % i, _c13.payload(c[0])) for i, c in enumerate(pcases)], parallel=16)
    pstats = {"rejected": 0, "right_file": 0}
    for i, (files, fi, kind, fault) in enumerate(pcases):
        verdict, msgs, _tree = _c13.parse_result(pres.get("q%d" % i, "MISSING"))
        if verdict != "err":
            continue
        pstats["rejected"] += 1
        rel, text = files[fi]
        flines = text.split("\n")
        why = None
        named = False
        for m in msgs:
            for mm in LOC.finditer(m):
                path = mm.group(1)
                if path.endswith(rel):
                    named = True
                elif path != "<unknown>" and any(path.endswith(r) for r, _ in files):
                    why = why or "a diagnostic for the fault in %s names %s" % (rel, path)
            for q in QUOTED.finditer(m):
                n, quoted = int(q.group(1)), q.group(2)
                if not (1 <= n <= len(flines)) or flines[n - 1].rstrip("\r") != quoted:
                    why = why or "quoted line %d %r is not a line of the faulty file %s" % (n, quoted, rel)
        if why is None and not named:
            why = "no diagnostic names the faulty file %s" % rel
        if why is None:
            pstats["right_file"] += 1
        elif len(chk.violations) < 6:
            chk.violation("input", why + " (%s fault %r in file %d of %d)" % (kind, fault, fi + 1, len(files)), case={"kind": "proj", "files": files, "faulty": rel}, actual=msgs[0][:1500] if msgs else "")
    chk.cov["oracle_projects"] = {"spec": "a single fault in one file of a project: every diagnostic names that file and quotes its lines", "cases": len(pcases), "stats": pstats}
    chk.sample({"fault": cases[0][3], "lines": list(cases[0][1]), "diagnostic": (res[0][0][1][0][:300] if res[0][0][0] == "err" else res[0][0][0])})
    chk.cov["oracle"] = {"spec": "every rejection: non-empty diagnostics, path of the file, positions inside the text, quoted lines verbatim, and some position on the line of the injected fault",
                         "mutants": len(cases), "stats": stats}
    chk.cov["evaluations"] = len(reqs) + len(cases)
    chk.cov["distinct_nontrivial"] = len(set(c[0] for c in cases)) + len(set(p for _, p in reqs))
    chk.cov["rule"] = "distinct single-fault mutants (lexical / syntax / type fault on a recorded line of accepted samples and generated programs) + distinct renderer requests"
