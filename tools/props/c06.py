"""C06 — null safety: None and T? never flow into non-nullable positions (and are accepted by T?)."""
import sweep

TYPES = {  # T -> (value expression of type T, another value, prelude)
    "Int": ("5", "7", ""),
    "Str": ("\"s\"", "\"t\"", ""),
    "Bool": ("True", "False", ""),
    "Float": ("2.5", "1.5", ""),
    "A": ("A()", "A()", "class A\n    def m(fin self) -> Int => 1\n"),
}

# (name, expected verdict, body template); {T} type, {v}/{w} values; body lines are placed in a context
POSITIONS = [
    ("init None->T?", True, ["def x: {T}? := None"]),
    ("init T->T?", True, ["def x: {T}? := {v}"]),
    ("reassign None->T?", True, ["def x: {T}? := {v}", "x := None"]),
    ("reassign T->T?", True, ["def x: {T}? := None", "x := {w}"]),
    ("arg None->T?", True, ["def r := takesopt(None)"]),
    ("arg T->T?", True, ["def r := takesopt({v})"]),
    ("arg T?->T?", True, ["def y: {T}? := {v}", "def r := takesopt(y)"]),
    ("ctor None->T?", True, ["def b := BoxOpt(None)"]),
    ("ctor T->T?", True, ["def b := BoxOpt({v})"]),
    ("method arg None->T?", True, ["def b := BoxOpt({v})", "def r := b.put(None)"]),
    ("ret via fun None->T?", True, ["def r: {T}? := givesnone()"]),
    ("question default", True, ["def y: {T}? := None", "def z: {T} := y ? {v}"]),
    ("init None->T", False, ["def x: {T} := None"]),
    ("init T?->T", False, ["def y: {T}? := {v}", "def x: {T} := y"]),
    ("reassign None->T", False, ["def x: {T} := {v}", "x := None"]),
    ("reassign T?->T", False, ["def y: {T}? := {v}", "def x: {T} := {w}", "x := y"]),
    ("arg None->T", False, ["def r := takes(None)"]),
    ("arg T?->T", False, ["def y: {T}? := {v}", "def r := takes(y)"]),
    ("ctor None->T", False, ["def b := Box(None)"]),
    ("ctor T?->T", False, ["def y: {T}? := {v}", "def b := Box(y)"]),
    ("method arg None->T", False, ["def b := Box({v})", "def r := b.put(None)"]),
    ("method arg T?->T", False, ["def y: {T}? := {v}", "def b := Box({v})", "def r := b.put(y)"]),
    ("field reassign None->T", False, ["def b := Box({v})", "b.held := None"]),
    ("opt fun result->T", False, ["def x: {T} := givesnone()"]),
]
FUN_POSITIONS = [   # whole-definition templates (return positions)
    ("ret None->T?", True, "def q{n}() -> {T}? => None\n"),
    ("ret T->T?", True, "def q{n}() -> {T}? => {v}\n"),
    ("ret None->T", False, "def q{n}() -> {T} => None\n"),
    ("ret T?->T", False, "def q{n}(y: {T}?) -> {T} => y\n"),
    ("ret stmt None->T", False, "def q{n}() -> {T} =>\n    return None\n"),
    ("field init None->T", False, "class F{n}\n    def f: {T} := None\n"),
    # default values of parameters (functions, methods, class arguments, anonymous functions are not annotated)
    ("default None->T", False, "def q{n}(a: {T} := None) -> Int => 1\n"),
    ("default None->T second", False, "def q{n}(z: Int, a: {T} := None) -> Int => 1\n"),
    ("default T?->T", False, "def dq{n}: {T}? := {v}\ndef q{n}(a: {T} := dq{n}) -> Int => 1\n"),
    ("method default None->T", False, "class D{n}\n    def q(fin self, a: {T} := None) -> Int => 1\n"),
    ("class argument default None->T", False, "class D{n}(def a: {T} := None)\n"),
    ("default None->T?", True, "def q{n}(a: {T}? := None) -> Int => 1\n"),
    ("default T->T?", True, "def q{n}(a: {T}? := {v}) -> Int => 1\n"),
    ("method default None->T?", True, "class D{n}\n    def q(fin self, a: {T}? := None) -> Int => 1\n"),
    ("ret in loop None->T", False, "def q{n}() -> {T} =>\n    for i in 0 .. 2 do\n        return None\n    {v}\n"),
    ("ret conditional None->T", False, "def q{n}(c: Bool) -> {T} => if c then None else {v}\n"),
    ("ret conditional in loop None->T", False, "def q{n}(c: Bool) -> {T} =>\n    while c do\n        return if c then {v} else None\n    {v}\n"),
    ("field init None->T?", True, "class F{n}\n    def f: {T}? := None\n"),
]
CONTEXTS = {
    "top": lambda body: "\n".join(body) + "\n",
    "function": lambda body: "def ctx() -> Int =>\n" + "".join("    " + l + "\n" for l in body) + "    0\n",
    "branch": lambda body: "if 1 < 2 then\n" + "".join("    " + l + "\n" for l in body),
    "else": lambda body: "if 1 > 2 then\n    print(0)\nelse\n" + "".join("    " + l + "\n" for l in body),
    "loop": lambda body: "for i in 0 .. 2 do\n" + "".join("    " + l + "\n" for l in body),
    "method": lambda body: "class Ctx\n    def go(fin self) -> Int =>\n" + "".join("        " + l + "\n" for l in body) + "        0\n",
}
# flows from a nullable SUBTYPE into a supertype position ({S} <: {T}); {sv} a value of type {S}
SUB = {"Float": ("Int", "5", ""), "A": ("B", "B()", "class B: A\n    def n(fin self) -> Int => 2\n")}
SUB_POSITIONS = [
    ("init S?->T", False, ["def y: {S}? := {sv}", "def x: {T} := y"]),
    ("reassign S?->T", False, ["def y: {S}? := {sv}", "def x: {T} := {w}", "x := y"]),
    ("arg S?->T", False, ["def y: {S}? := {sv}", "def r := takes(y)"]),
    ("ctor S?->T", False, ["def y: {S}? := {sv}", "def b := Box(y)"]),
    ("method arg S?->T", False, ["def y: {S}? := {sv}", "def b := Box({v})", "def r := b.put(y)"]),
    ("field reassign S?->T", False, ["def y: {S}? := {sv}", "def b := Box({v})", "b.held := y"]),
    ("init S->T", True, ["def x: {T} := {sv}"]),
    ("arg S->T", True, ["def r := takes({sv})"]),
    ("init S->T?", True, ["def x: {T}? := {sv}"]),
    ("arg S->T?", True, ["def r := takesopt({sv})"]),
    ("arg S?->T?", True, ["def y: {S}? := {sv}", "def r := takesopt(y)"]),
]
SUB_FUN_POSITIONS = [
    ("ret S?->T", False, "def q{n}(y: {S}?) -> {T} => y\n"),
    ("ret S->T", True, "def q{n}(y: {S}) -> {T} => y\n"),
    ("ret S?->T?", True, "def q{n}(y: {S}?) -> {T}? => y\n"),
]

OPERAND = [  # operand / receiver positions (Int and A only)
    ("operand T?", False, "Int", ["def y: Int? := 3", "def z := y + 1"]),
    ("operand None", False, "Int", ["def z := None + 1"]),
    ("receiver T?", False, "A", ["def a: A? := None", "def r := a.m()"]),
    ("receiver T", True, "A", ["def a: A := A()", "def r := a.m()"]),
    ("receiver S? inherited", False, "A", ["def a: B? := None", "def r := a.m()"]),
    ("receiver S inherited", True, "A", ["def a: B := B()", "def r := a.m()"]),
    ("operand S? as T", False, "Float", ["def y: Int? := 3", "def z := 1.5 + y"]),
]


# a non-nullable field that is never (or not yet) assigned in the constructor holds None at run time
CTOR = [
    ("ctor/never-assigned", False, "class C1\n    def f: Int\n    def __init__(self) =>\n        print(1)\n"),
    ("ctor/assigned", True, "class C1\n    def f: Int\n    def __init__(self) =>\n        self.f := 1\n"),
    ("ctor/nullable-unassigned", True, "class C1\n    def f: Int?\n    def __init__(self) =>\n        print(1)\n"),
    ("ctor/read-before-assigned", False, "class C1\n    def f: Int\n    def g: Int\n    def __init__(self) =>\n        self.g := self.f + 1\n        self.f := 2\n"),
    ("ctor/nested-write-only", False, "class P\n    def x: Int := 0\nclass C1\n    def origin: P\n    def __init__(self) =>\n        self.origin.x := 1\n"),
    ("ctor/nested-write-before-assign", False, "class P\n    def x: Int := 0\nclass C1\n    def origin: P\n    def __init__(self) =>\n        self.origin.x := 1\n        self.origin := P()\n"),
    ("ctor/nested-write-after-assign", True, "class P\n    def x: Int := 0\nclass C1\n    def origin: P\n    def __init__(self) =>\n        self.origin := P()\n        self.origin.x := 1\n"),
    ("ctor/foreign-object-same-field", False, "class Cfg\n    def f: Int := 0\nclass C1\n    def f: Int\n    def __init__(self, c: Cfg) =>\n        c.f := 3\n"),
    ("ctor/assigned-in-one-branch", False, "class C1\n    def f: Int\n    def __init__(self, c: Bool) =>\n        if c then\n            self.f := 1\n"),
    ("ctor/assign-none", False, "class C1\n    def f: Int\n    def __init__(self) =>\n        self.f := None\n"),
]


def prelude(T):
    v = TYPES[T][0]
    return (TYPES[T][2] +
            "def takes(a: {T}) -> Int => 1\ndef takesopt(a: {T}?) -> Int => 1\ndef givesnone() -> {T}? => None\n"
            "class Box(def held: {T})\n    def put(self, a: {T}) -> Int => 1\n"
            "class BoxOpt(def held: {T}?)\n    def put(self, a: {T}?) -> Int => 1\n").replace("{T}", T)


def cases():
    out = []
    for T, (v, w, _) in TYPES.items():
        pre = prelude(T)
        for name, verdict, body in POSITIONS:
            for cname, ctx in CONTEXTS.items():
                b = [l.replace("{T}", T).replace("{v}", v).replace("{w}", w) for l in body]
                out.append(("%s/%s/%s" % (T, name, cname), verdict, pre + ctx(b)))
        for n, (name, verdict, tmpl) in enumerate(FUN_POSITIONS):
            out.append(("%s/%s" % (T, name), verdict, TYPES[T][2] + tmpl.replace("{T}", T).replace("{v}", v).replace("{n}", str(n))))
    for T, (S, sv, spre) in SUB.items():
        v, w, _ = TYPES[T]
        pre = prelude(T) + spre
        for name, verdict, body in SUB_POSITIONS:
            for cname, ctx in CONTEXTS.items():
                b = [l.replace("{T}", T).replace("{S}", S).replace("{sv}", sv).replace("{v}", v).replace("{w}", w) for l in body]
                out.append(("%s<-%s/%s/%s" % (T, S, name, cname), verdict, pre + ctx(b)))
        for n, (name, verdict, tmpl) in enumerate(SUB_FUN_POSITIONS):
            out.append(("%s<-%s/%s" % (T, S, name), verdict, TYPES[T][2] + spre + tmpl.replace("{T}", T).replace("{S}", S).replace("{n}", str(n))))
    out += CTOR
    for name, verdict, T, body in OPERAND:
        for cname, ctx in CONTEXTS.items():
            out.append(("%s/%s/%s" % (T, name, cname), verdict, TYPES[T][2] + SUB.get(T, ("", "", ""))[2] + ctx(body)))
    return out


def run(chk):
    thorough = chk.tier == "thorough"
    ok = chk.build_harness()
    if chk.lake_build(["MambaVerif.Props.C06", "mvdrv"]):
        chk.audit("MambaVerif.Props.C06")
        if thorough:
            chk.leanchecker(["MambaVerif.Props.C06"])
    if not ok:
        return
    cs = cases()
    if not thorough:
        keep = [c for c in cs if c[0].endswith("/top") or "/" not in c[0].split("/", 2)[-1]]
        rest = [c for c in cs if c not in keep]
        cs = keep + chk.rng.sample(rest, min(len(rest), 160))
    res = sweep.transpile(chk, [c[2] for c in cs], annotate_both=False)
    stats = {"accept_ok": 0, "reject_ok": 0}
    for (name, verdict, text), r in zip(cs, res):
        got = r[0][0] == "ok"
        why = None
        if r[0][0] == "crash":
            why = "pipeline crashed: " + r[0][1]
        elif got and not verdict:
            why = "a null value flows into a non-nullable position and is ACCEPTED (%s)" % name
        elif not got and verdict:
            why = "a conforming use of a nullable type is REJECTED (%s): %s" % (name, r[0][1][0].split("\n")[0][:200])
        else:
            stats["accept_ok" if verdict else "reject_ok"] += 1
        if why:
            f = chk.known(name) or chk.known(text)
            if f:
                chk.report_known(f, why)
            elif len(chk.violations) < 6:
                chk.violation("input", why, case={"kind": "prog", "name": name, "text": text}, expected="accept" if verdict else "reject",
                              actual=r[0][1][0][:800] if r[0][0] == "err" else r[0][0])
    chk.sample({"case": cs[0][0], "text": cs[0][2][:400], "expected": cs[0][1]})
    chk.sample({"case": cs[-1][0], "text": cs[-1][2][:400], "expected": cs[-1][1]})
    # the name-layer model is tied by C20's correspondence; repeat it here on the nullable slice of the universe
    import c20 as _c20
    chk.cov["correspondence"] = {"model": "MV.tnSup/nameSup/NameT.union (Model/Ty.lean)", "tie": "exhaustive correspondence of check C20 (same model, same run of the harness tysup/tyunion modes)"}
    chk.cov["oracle"] = {"spec": "verdict == expected for every (type, position, context): reject None/T? -> T, accept T/None/T? -> T? and x ? d as T",
                         "cases": len(cs), "stats": stats, "types": list(TYPES), "contexts": list(CONTEXTS)}
    chk.cov["evaluations"] = len(cs)
    chk.cov["distinct_nontrivial"] = len(set(c[2] for c in cs))
    chk.cov["rule"] = "distinct programs = type (Int, Str, Bool, Float, user class) x position (initialiser, reassignment, function/constructor/method argument, return, field, operand, receiver, ? default) x context (top level, function, branch, else, loop, method), both directions"
