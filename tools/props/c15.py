"""C15 — renaming user identifiers commutes with transpilation.

Metamorphic oracle on the implementation: for a program P and an injective renaming rho of its
user-chosen names, (a) verdict(P) = verdict(rho P), (b) the Python AST of out(rho P) equals the AST of
rho(out P), (c) when rho uses a name that collides with something the generator emits or special-cases,
the two outputs also behave alike under CPython (stdout and outcome), which is what exposes a user name
shadowing a generated import.  Every failing renaming is shrunk to the single (kind -> name) pairs that
fail on their own, so that a known finding is identified by the name that triggers it.
"""
import ast, re
import gen_prog, sweep
from mvlib import hexs

ORD_LOWER = ["alpha", "beta_2", "totalCount", "x", "n0", "_tmp", "value", "idx", "acc", "res_1", "q", "zz9", "left", "right_most",
             "counter", "item", "node", "buf", "k", "lhs", "rhs", "cur", "nxt", "lo", "hi", "mid", "tmp2", "flag", "name", "text",
             "width", "height", "depth", "delta", "gamma", "omega_", "u", "w", "y", "z"]
ORD_UPPER = ["Alpha", "Node", "Shape_A", "Point", "Matrix2", "Account", "Widget", "Parser", "Item", "Zed", "Queue", "Graph", "Tree",
             "Vec", "Cell", "Token", "Frame", "Page", "Row", "Leaf"]
# names that resemble internal or Python-special names, or that the generator emits itself
COLL_LOWER = ["size", "init", "super", "math", "typing", "abc", "enum", "optional", "union", "cls", "object", "id", "len",
              "isinstance", "abstractmethod", "sqrt", "re", "sys", "os", "__size__", "it", "other", "slice", "collection", "tuple"]
# (Union, Any, Callable, Tuple … are type names of the language itself, hence not fresh: they are exercised by C03)
COLL_UPPER = ["range_iterator", "collection_iter", "Optional", "ABC", "Math", "Typing", "Size", "Enum", "Generic", "Type", "Object", "Self", "NewType", "Init", "Super"]
# documented specials: a *method* called init is not an ordinary name
EXCLUDE = {("method", "init")}

# spellings that name something the language itself defines (types, primitives of the stubs, built-in functions, literals):
# a user definition with such a name is a redefinition, not a fresh name
NOT_FRESH = {"int", "float", "str", "bool", "complex", "list", "set", "dict", "range", "print", "self", "True", "False", "None", "Exception",
             "undefined", "CARGO_MANIFEST_DIR", "CARGO_PKG_VERSION"}

LANGUAGE_TYPES = ["Int", "Float", "Str", "Bool", "Enum", "Complex", "Collection", "Range", "Slice", "Set", "List", "Tuple", "Dict", "Callable", "None",
                  "Exception", "Union", "Any"]

TEMPLATES = [
    # shadowing next to other variables: a name derived from another one (x_1, x1, ...) must stay a different variable
    'def v1 := 3\ndef v5 := True\ndef v6 := 2\nprint(v1 + 1)\ndef v1 := "s"\nprint(v1 + "t")\nprint(v5 and True)\ndef v1 := 2.5\nprint(v1)\nprint(v6 + 1)\nprint(v5 or False)\n',
    # shadowing: var_mapping offsets (x@1)
    'def v1 := 3\nprint(v1 + 1)\ndef v1 := "s"\nprint(v1 + "t")\ndef f2(a3: Int) -> Int =>\n    def v4 := a3 + 1\n    def v4 := v4 * 2\n    v4\nprint(f2(4))\n',
    # generated imports: math, typing.Optional
    'def v1 := 16.0\ndef v2 := sqrt v1\nprint(v2)\ndef f3(a4: Int?) -> Int? => a4\ndef v5: Int? := f3(None)\ndef v6: Int? := f3(3)\nprint("done")\n',
    # generated imports: abc.ABC / abstractmethod, isinstance
    'type T1\n    def m2(fin self) -> Int\nclass K3(def c4: Int): T1\n    def m2(fin self) -> Int => self.c4 + 1\ndef o5 := K3(2)\nprint(o5.m2())\ndef v6: Bool := o5 isa K3\nprint(v6)\n',
    # class + abstract type + nullable annotations + sqrt in one program
    'type T1\n    def m2(fin self) -> Int\nclass K3(def c4: Int): T1\n    def m2(fin self) -> Int => self.c4 + 1\ndef f5(a6: Int?) -> Int? => a6\ndef v7: Int? := f5(None)\ndef o8 := K3(2)\nprint(o8.m2())\ndef v9 := sqrt 16.0\nprint(v9)\ndef v10: Bool := o8 isa K3\nprint(v10)\n',
    # fields, methods, inheritance, defaults, f-strings, for over a list
    'class K1(def c2: Int)\n    def g3: Int := 0\n    def m4(self, p5: Int) -> Int =>\n        self.g3 := self.g3 + p5\n        self.g3 + self.c2\n    def m6(fin self) -> Str => "obj of {self.c2}"\nclass K7(def c8: Int): K1(c8)\n    def m9(fin self) -> Int => self.c2 * 2\ndef o10 := K7(5)\nprint(o10.m4(2))\nprint(o10.m9())\nprint(o10.m6())\ndef v11 := [1, 2, 3]\nfor i12 in v11 do print(i12 + o10.c2)\ndef f13(a14: Int, a15: Str := "d") -> Str => "{a15}{a14}"\nprint(f13(1))\nprint(f13(2, "e"))\n',
]

TEMPLATES += [
    # several parents that define the same member: which one wins depends on the ORDER the parents are written in,
    # which a renaming must not change
    'class K1\n    def m2(fin self) -> Str => "first"\nclass K3\n    def m2(fin self) -> Str => "second"\n    def m4(fin self) -> Str => "bye"\nclass K5: K1, K3\n    def m6(fin self) -> Str => self.m2() + self.m2()\ndef o7 := K5()\nprint(o7.m2())\nprint(o7.m4())\nprint(o7.m6())\n',
    'class K3\n    def m2(fin self) -> Str => "first"\nclass K1\n    def m2(fin self) -> Str => "second"\nclass K2\n    def m2(fin self) -> Str => "third"\nclass K5: K3, K1, K2\ndef o7 := K5()\nprint(o7.m2())\ndef f8(a9: Int, a1: Int := 2, a5: Int := 3) -> Int => a9 * 100 + a1 * 10 + a5\nprint(f8(1))\nprint(f8(1, 5))\n',
]

TEMPLATES += [
    # a resource taken out of scope by `with`: a name that merely STARTS like the resource stays in scope
    'def f1(a2: Int) => print("value {a2}")\ndef v3 := 10\ndef v4 := 32\nwith v3 as w5: Int do\n    f1(w5)\n    f1(v4)\ndef f6(a7: Int, a8: Int) =>\n    with a7 as w9: Int do\n        f1(w9)\n        f1(a8)\nf6(1, 2)\n',
]
TEMPLATES += [
    # calls of user definitions INSIDE interpolations (the text between the braces is handled by its own code path)
    'class K1(def c2: Int)\n    def m3(self) -> Str => "[{self.c2}]"\ndef f4(a5: Int) -> Str => "<{a5}>"\ndef v6: Int := 5\ndef o7 := K1(7)\nprint("plain {f4(v6)}, boxed {K1(v6).m3()}, kept {o7.m3()}")\n',
]
INTERP_TEMPLATE = len(TEMPLATES) - 1
ALL_DERIVED = {len(TEMPLATES) - 2}      # templates for which more derived renamings are tried in the quick tier

NAME_RE = re.compile(r"\b(?:Err\d+|msgErr\d+|[KT]\d+|[vwmtohfacgpi]\d+)\b")


def kinds_of(text):
    """user-chosen names of a generated program with their kind (from the definition site)"""
    out = {}
    for n in sorted(set(NAME_RE.findall(text))):
        if re.search(r"(?m)^[ ]+def (fin )?%s\(" % n, text):
            k = "method"
        elif re.search(r"(?m)^def %s\(" % n, text):
            k = "function"
        elif re.search(r"(?m)^(class|type) %s\b" % n, text):
            k = "class"
        elif re.search(r"(?m)\(def %s:|, def %s:|^[ ]+def (fin )?%s:" % (n, n, n), text):
            k = "field"
        elif re.search(r"[(,] ?(vararg )?%s: " % n, text):
            k = "param"
        else:
            k = "var"
        out[n] = k
    return out


def rename(text, rho):
    if not rho:
        return text
    pat = re.compile(r"\b(?:%s)\b" % "|".join(sorted(map(re.escape, rho), key=len, reverse=True)))
    return pat.sub(lambda m: rho[m.group(0)], text)


def dump(py):
    try:
        return ast.dump(ast.parse(py))
    except (SyntaxError, ValueError, RecursionError):
        return None


def pool(kind, colliding):
    if kind == "class":
        return COLL_UPPER if colliding else ORD_UPPER
    return [n for n in (COLL_LOWER if colliding else ORD_LOWER) if (kind, n) not in EXCLUDE]


def random_rho(rng, kinds, p_coll):
    used, rho = set(), {}
    for n, k in kinds.items():
        for _ in range(20):
            cand = rng.choice(pool(k, rng.random() < p_coll))
            if cand not in used:
                used.add(cand)
                rho[n] = cand
                break
    return rho


def derived_rhos(rng, kinds):
    """renamings in which one variable's new name is derived from another's (x -> x_1, x1, x_, _x, x_2)"""
    out = []
    names = [n for n, k in kinds.items() if k in ("var", "param")]
    for a in names:
        for b in names:
            if a == b:
                continue
            for suffix in ("_1", "_2", "1", "_", "@"):
                rho = random_rho(rng, kinds, 0.0)
                base = rho[a]
                new = ("_" + base) if suffix == "@" else base + suffix
                if new in rho.values():
                    continue
                rho[b] = new
                out.append(rho)
    return out


def order_rhos(rng, kinds):
    """renamings that REVERSE (and that rotate) the alphabetical order of the names of each kind: anything the pipeline
    orders by name (parents, members, arguments, imports) comes out in another order under them"""
    out = []
    for mode in ("reverse", "rotate"):
        rho, used = {}, set()
        for k in sorted(set(kinds.values())):
            names = sorted(n for n, kk in kinds.items() if kk == k)
            cands = [c for c in pool(k, False) if c not in used]
            if len(cands) < len(names):
                return out
            new = sorted(rng.sample(cands, len(names)))
            new = list(reversed(new)) if mode == "reverse" else new[1:] + new[:1]
            for n, c in zip(names, new):
                rho[n] = c
                used.add(c)
        out.append(rho)
    return out


def is_colliding(rho):
    return any(v in COLL_LOWER or v in COLL_UPPER for v in rho.values())


def judge(base, ren, rho, base_run=None, ren_run=None):
    """-> None | reason; base/ren: {annotate: result}"""
    for a in (0, 1):
        b, r = base[a], ren[a]
        if b[0] != r[0]:
            return "annotate=%d: verdict changes under renaming: %s -> %s %s" % (a, b[0], r[0], (r[1][0][:160] if r[0] == "err" and r[1] else ""))
        if b[0] != "ok":
            continue
        want, got = rename(b[1], rho), r[1]
        dw, dg = dump(want), dump(got)
        if (dw is None) != (dg is None) or (dw != dg if dw is not None else want != got):
            return "annotate=%d: out(rename P) is not rename(out P)" % a
    if base_run is not None and ren_run is not None and base[0][0] == "ok":
        (bl, bo), (rl, ro) = base_run, ren_run
        if [rename(x, rho) for x in bl] != rl or rename(bo, rho) != ro:
            return "the two outputs commute textually but behave differently under CPython: %s / %s" % (bo, ro)
    return None


def run(chk):
    thorough = chk.tier == "thorough"
    ok = chk.build_harness()
    chk.translate(["LexTables", "NameTables"])
    if chk.lake_build(["MambaVerif.Props.C15"]):
        chk.audit("MambaVerif.Props.C15")
        if thorough:
            chk.leanchecker(["MambaVerif.Props.C15"])
    if not ok:
        return
    rng = chk.rng
    # spellings that occur as string literals in the stages that inspect names join the colliding pools, so that a newly
    # special-cased spelling is tried even if nobody thought of it here
    nt = chk.cov["tables"].get("NameTables", {}) or {}
    not_fresh = set(nt.get("type_keys", [])) | NOT_FRESH
    extras = [n for n in nt.get("source_spellings", []) + [a for a, _ in nt.get("fun_arms", [])]
              if n not in not_fresh and not n.startswith("__") and n not in COLL_LOWER + COLL_UPPER + ORD_LOWER + ORD_UPPER]
    # case variants of the spellings the generator's name tables know (and of what they are mapped to): a table that
    # starts to match more than its exact keys shows up on these
    known_spellings = set(nt.get("type_keys", [])) | set(LANGUAGE_TYPES) | {"int", "float", "str", "bool", "enum", "complex", "collection", "range", "slice", "set", "list", "dict", "size", "init"}
    for k in sorted(known_spellings):
        for v in (k.upper(), k.capitalize(), k.lower(), k.swapcase(), k + "_", "_" + k, k + "1"):
            if v not in not_fresh and v not in known_spellings and v not in COLL_LOWER + COLL_UPPER + ORD_LOWER + ORD_UPPER + extras:
                extras.append(v)
    for n in extras:
        (COLL_UPPER if n[0].isupper() else COLL_LOWER).append(n)
    chk.cov["source_derived_candidates"] = extras
    # legal names only: each candidate must lex as exactly one identifier token (not a keyword)
    lexed = chk.harness("lex", [(n, hexs(n)) for n in ORD_LOWER + ORD_UPPER + COLL_LOWER + COLL_UPPER])
    illegal = [n for n, r in lexed.items() if not re.match(r"^ok T\(Id,[^T]*T\(Eof", r)]
    for n in illegal:
        for lst in (ORD_LOWER, ORD_UPPER, COLL_LOWER, COLL_UPPER):
            if n in lst:
                lst.remove(n)
    chk.cov["illegal_candidates_dropped"] = illegal
    progs = list(TEMPLATES) + [gen_prog.Gen(rng).program().text for _ in range(150 if thorough else 36)]
    progs += [f["input"] for f in chk.findings if f.get("input")]
    kinds = [kinds_of(t) for t in progs]
    cases = []   # (prog index, rho, label)
    for i, t in enumerate(progs):
        if not kinds[i]:
            continue
        for _ in range(3 if thorough else 2):
            cases.append((i, random_rho(rng, kinds[i], 0.0), "ordinary"))
        for _ in range(4 if thorough else 2):
            cases.append((i, random_rho(rng, kinds[i], 0.35), "mixed"))
    for i, t in enumerate(progs):
        if kinds[i]:
            for rho in order_rhos(rng, kinds[i]):
                cases.append((i, rho, "order"))
    # names that merely END (or start) like a spelling the name tables know, on the template with calls inside interpolations
    affixed = []
    for k in sorted(known_spellings):
        for v in ("to" + k.capitalize(), "My" + k.capitalize(), "as" + k.capitalize(), k.capitalize() + "Of", "to_" + k.lower(), k.lower() + "ify"):
            if v not in not_fresh and v not in known_spellings:
                affixed.append(v)
    for n, k in kinds[INTERP_TEMPLATE].items():
        if k not in ("function", "class", "method"):
            continue
        for target in (affixed if thorough else rng.sample(affixed, min(len(affixed), 40))):
            rho = random_rho(rng, {m: kk for m, kk in kinds[INTERP_TEMPLATE].items() if m != n}, 0.0)
            if target in rho.values():
                continue
            rho[n] = target
            cases.append((INTERP_TEMPLATE, rho, "%s->%s" % (k, target)))
    n_derived = 0
    for i in range(len(TEMPLATES)):
        ds = derived_rhos(rng, kinds[i])
        for rho in (ds if thorough else rng.sample(ds, min(80 if i in ALL_DERIVED else 30, len(ds)))):
            cases.append((i, rho, "derived"))
            n_derived += 1
    # systematic: every colliding name for every kind, alone, on some program that has a name of that kind
    by_kind = {}
    for i, ks in enumerate(kinds):
        for n, k in ks.items():
            by_kind.setdefault(k, []).append((i, n))
    n_sys = 0
    for k, sites in sorted(by_kind.items()):
        for target in pool(k, True):
            derived = target in extras
            if derived and not thorough and rng.random() < 0.6:
                continue          # quick tier: each derived spelling is tried for about 40% of the kinds
            tsites = [s for s in sites if s[0] < len(TEMPLATES)]
            for (i, n) in ([rng.choice(sites) for _ in range(3 if thorough else 1)] + (tsites if thorough else rng.sample(tsites, min(1 if derived else 2, len(tsites))))):
                rho = random_rho(rng, {m: kk for m, kk in kinds[i].items() if m != n}, 0.0)
                if target in rho.values():
                    continue
                rho[n] = target
                cases.append((i, rho, "%s->%s" % (k, target)))
                n_sys += 1
    base = sweep.transpile(chk, progs)
    ren = sweep.transpile(chk, [rename(progs[i], rho) for i, rho, _ in cases])
    # execution only where a colliding name is involved and both accepted
    need = [j for j, (i, rho, lab) in enumerate(cases) if (is_colliding(rho) or lab == "derived") and base[i][1][0] == "ok" and ren[j][1][0] == "ok"]
    base_idx = sorted({cases[j][0] for j in need})
    base_runs = dict(zip(base_idx, sweep.run_python([base[i][1][1] for i in base_idx])))
    ren_runs = dict(zip(need, sweep.run_python([ren[j][1][1] for j in need])))
    failures, n_acc, n_rej, per_kind, targets_seen = [], 0, 0, {}, set()
    for j, (i, rho, label) in enumerate(cases):
        if base[i][0][0] == "ok":
            n_acc += 1
        else:
            n_rej += 1
        for n, v in rho.items():
            per_kind[kinds[i][n]] = per_kind.get(kinds[i][n], 0) + 1
            targets_seen.add((kinds[i][n], v))
        why = judge(base[i], ren[j], rho, base_runs.get(i), ren_runs.get(j))
        if why:
            failures.append((j, why))
    # attribute each failure to the pairs that fail alone
    reported = 0
    if failures:
        singles, owner = [], []
        mixed = [(j, why) for j, why in failures if "->" not in cases[j][2]][:30]
        for j, why in mixed:
            i, rho, label = cases[j]
            coll = [(n, v) for n, v in rho.items() if v in COLL_LOWER or v in COLL_UPPER]
            for n, v in coll:
                used = set(rho.values())
                rho1 = {}
                for m, w in rho.items():
                    if w in COLL_LOWER or w in COLL_UPPER:
                        w = next(x for x in pool(kinds[i][m], False) + ["Zq%d" % q for q in range(99)] if x not in used)
                        used.add(w)
                    rho1[m] = w
                rho1[n] = v
                singles.append((i, rho1, "%s->%s" % (kinds[i][n], v)))
                owner.append(j)
        sres = sweep.transpile(chk, [rename(progs[i], r1) for i, r1, _ in singles]) if singles else []
        sruns = sweep.run_python([s[1][1] if s[1][0] == "ok" else "" for s in sres]) if singles else []
        extra_base = sorted({i for i, _, _ in singles if i not in base_runs and base[i][1][0] == "ok"})
        base_runs.update(zip(extra_base, sweep.run_python([base[i][1][1] for i in extra_base])))
        explained = {}
        for (i, r1, lab), res1, run1, j in zip(singles, sres, sruns, owner):
            w1 = judge(base[i], res1, r1, base_runs.get(i), run1 if res1[1][0] == "ok" else None)
            if w1:
                explained.setdefault(j, []).append((lab, w1, i, r1))
        for j, why in failures:
            i, rho, label = cases[j]
            coll_pairs = ",".join(sorted("%s->%s" % (kinds[i][n], v) for n, v in rho.items() if v in COLL_LOWER or v in COLL_UPPER))
            culprits = explained.get(j) or [(label if "->" in label else "%s renaming {%s}" % (label, coll_pairs), why, i, rho)]
            for lab, w1, ii, r1 in culprits:
                chk.cov.setdefault("failing_pairs", {}).setdefault(lab, w1[:160])
                f = chk.known(lab)
                if f:
                    chk.report_known(f, "%s: %s" % (lab, w1))
                elif reported < 5:
                    reported += 1
                    chk.violation("input", "%s: %s" % (lab, w1), case={"kind": "rename", "text": progs[ii], "rho": r1, "label": lab},
                                  expected=rename(base[ii][0][1], r1)[:2500] if base[ii][0][0] == "ok" else str(base[ii][0])[:400],
                                  actual="(re-run with --replay to see the output of the renamed program)")
    chk.sample({"program": progs[len(TEMPLATES)][:400], "renaming": cases[len(TEMPLATES) * 4][1] if len(cases) > len(TEMPLATES) * 4 else cases[0][1]})
    chk.cov["correspondence"] = {"model": "MV.classify on identifiers (Model/Lex.lean), MV.funDefNameArms / typeNameArms / shadowSep (regenerated)",
                                 "tie": "lexer correspondence of C03/C18 (same model) + translator over definition.rs, clss/mod.rs, builder.rs",
                                 "tables": chk.cov["tables"].get("NameTables")}
    chk.cov["oracle"] = {"spec": "verdict(P) = verdict(rho P); ast(out(rho P)) = ast(rho(out P)) for both annotate settings; equal CPython behaviour when rho uses a colliding name",
                         "programs": len(progs), "renamings": len(cases), "systematic_single_name_renamings": n_sys, "derived_name_renamings": n_derived, "base_accepted": n_acc, "base_rejected": n_rej,
                         "executed_pairs": len(need), "renamed_names_by_kind": per_kind, "distinct_kind_target_pairs": len(targets_seen), "failures_before_attribution": len(failures)}
    chk.cov["evaluations"] = len(cases)
    chk.cov["distinct_nontrivial"] = len({(i, tuple(sorted(rho.items()))) for i, rho, _ in cases if base[i][0][0] == "ok"})
    chk.cov["rule"] = "distinct (accepted program, renaming) pairs; renamings: all-ordinary, mixed with 35% colliding names, and every colliding name alone for every kind of definition"
    chk.cov["not_proved"] = "the theorems cover the lexer's dispatch on identifiers, the two spelling-indexed tables of the generate stage and the shadowing key; that no other stage inspects spellings is what the metamorphic oracle tests on the implementation"


def replay(chk, body):
    """re-run one recorded (program, renaming) pair on the current tree and print what differs"""
    if not chk.build_harness():
        return 2
    c = body["case"]
    if not c or c.get("kind") != "rename":
        print(body.get("detail"))
        return 2
    base = sweep.transpile(chk, [c["text"]])[0]
    ren = sweep.transpile(chk, [rename(c["text"], c["rho"])])[0]
    runs = sweep.run_python([base[1][1] if base[1][0] == "ok" else "", ren[1][1] if ren[1][0] == "ok" else ""])
    why = judge(base, ren, c["rho"], runs[0], runs[1] if ren[1][0] == "ok" else None)
    print("renaming:", c["rho"])
    print("--- rename(out P) (annotate on)\n%s" % (rename(base[1][1], c["rho"]) if base[1][0] == "ok" else base[1]))
    print("--- out(rename P) (annotate on)\n%s" % (ren[1][1] if ren[1][0] == "ok" else ren[1]))
    print("--- runs:", runs)
    print("RESULT:", why or "commutes on the current tree")
    return 1 if why else 0
