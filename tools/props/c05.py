"""C05 — declared signatures are enforced: conforming uses pass, others are rejected."""
import gen_ty, gen_prog, sweep
from gen_ty import T, N, single, sexp
from mvlib import hexs

CLASS_SRC = "class A\nclass B: A\nclass X\n"
# type name -> (Name, value expression, declared spelling)
TY = {
    "Int": (single("Int"), "3", "Int"), "Float": (single("Float"), "2.5", "Float"), "Str": (single("Str"), "\"s\"", "Str"),
    "Bool": (single("Bool"), "True", "Bool"), "A": (single("A"), "A()", "A"), "B": (single("B"), "B()", "B"), "X": (single("X"), "X()", "X"),
    "Int?": (single("Int", True), "optint", "Int?"), "None": (single("None"), "None", None),
}
PARAM_TYPES = ["Int", "Float", "Str", "Bool", "A", "B", "Int?"]
ARG_TYPES = ["Int", "Float", "Str", "Bool", "A", "B", "X", "Int?", "None"]
POSITIONS = ["top", "function", "method", "constructor", "nested", "branch", "loop"]


def make_case(rng):
    k = rng.randint(0, 3)
    params = [rng.choice(PARAM_TYPES) for _ in range(k)]
    nreq = rng.randint(0, k)
    defaults = [i >= nreq for i in range(k)]
    # arguments: mostly conforming, then one mutation
    args = []
    n = rng.choice([k, k, k, rng.randint(nreq, k), max(0, nreq - 1), k + 1])
    for i in range(n):
        if i < k and rng.random() < 0.75:
            p = params[i]
            args.append({"Float": rng.choice(["Float", "Int"]), "A": rng.choice(["A", "B"]), "Int?": rng.choice(["Int?", "Int", "None"])}.get(p, p))
        else:
            args.append(rng.choice(ARG_TYPES))
    # how each argument value reaches the call: literal/constructor expression, inferred local, annotated local, function result
    carriers = [rng.choice(["lit", "lit", "local", "annlocal", "result"]) if a not in ("None", "Int?") else "lit" for a in args]
    return params, defaults, args, rng.choice(POSITIONS), carriers


def program(params, defaults, args, position, carriers=None):
    sig = ", ".join("p%d: %s%s" % (i, TY[p][2], " := " + default_of(p) if d else "") for i, (p, d) in enumerate(zip(params, defaults)))
    carriers = carriers or ["lit"] * len(args)
    pre = CLASS_SRC + "def optint: Int? := None\n"
    names = []
    for i, (a, c) in enumerate(zip(args, carriers)):
        if c == "lit":
            names.append(TY[a][1])
        elif c == "local":
            pre += "def a%d := %s\n" % (i, TY[a][1])
            names.append("a%d" % i)
        elif c == "annlocal":
            pre += "def a%d: %s := %s\n" % (i, TY[a][2], TY[a][1])
            names.append("a%d" % i)
        else:
            pre += "def mk%d() -> %s => %s\n" % (i, TY[a][2], TY[a][1])
            names.append("mk%d()" % i)
    argtxt = ", ".join(names)
    if position == "constructor":
        cargs = ", ".join("def p%d: %s%s" % (i, TY[p][2], " := " + default_of(p) if d else "") for i, (p, d) in enumerate(zip(params, defaults)))
        return pre + "class K%s\n    def z: Int := 0\ndef r := K(%s)\n" % ("(" + cargs + ")" if params else "", argtxt)
    if position == "method":
        msig = ", ".join(["fin self"] + ([sig] if sig else []))
        return pre + "class K\n    def m(%s) -> Int => 0\ndef k := K()\ndef r := k.m(%s)\n" % (msig, argtxt)
    fun = "def f(%s) -> Int => 0\n" % sig
    call = "f(%s)" % argtxt
    if position == "top":
        return pre + fun + "def r := %s\n" % call
    if position == "function":
        return pre + fun + "def g() -> Int =>\n    def r := %s\n    r\n" % call
    if position == "nested":
        return pre + fun + "def idf(v: Int) -> Int => v\ndef r := idf(%s)\n" % call
    if position == "branch":
        return pre + fun + "if 1 < 2 then\n    def r := %s\n" % call
    return pre + fun + "for i in 0 .. 2 do\n    def r := %s\n" % call


def default_of(p):
    return {"Int?": "None"}.get(p, TY[p][1])


FLOW_PRE = ("class A\n    def ma(fin self) -> Int => 1\nclass B: A\n    def mb(fin self) -> Int => 2\n"
            "class Src\n    def fi: Int := 1\n    def ff: Float := 1.5\n    def fs: Str := \"s\"\n    def fa: A := A()\n    def fb: B := B()\n"
            "    def geti(fin self) -> Int => 1\n    def getf(fin self) -> Float => 1.5\n    def gets(fin self) -> Str => \"s\"\n    def geta(fin self) -> A => A()\n    def getb(fin self) -> B => B()\n"
            "def mki() -> Int => 1\ndef mkf() -> Float => 1.5\ndef mks() -> Str => \"s\"\ndef mka() -> A => A()\ndef mkb() -> B => B()\n"
            "def vi: Int := 3\ndef vf: Float := 2.5\ndef vs: Str := \"s\"\ndef va: A := A()\ndef vb: B := B()\ndef o := Src()\n")
# expressions of each type, by kind
FLOW_EXPR = {
    "Int": {"literal": "3", "variable": "vi", "operator": "vi * 2", "call": "mki()", "method": "o.geti()", "negated-call": "-mki()", "field": "o.fi", "call-chain": "mka().ma()"},
    "Float": {"literal": "2.5", "variable": "vf", "operator": "vf * 0.5", "call": "mkf()", "method": "o.getf()", "negated-call": "-mkf()", "field": "o.ff"},
    "Str": {"literal": "\"s\"", "variable": "vs", "operator": "vs + \"t\"", "call": "mks()", "method": "o.gets()", "field": "o.fs"},
    "A": {"constructor": "A()", "variable": "va", "call": "mka()", "method": "o.geta()", "field": "o.fa"},
    "B": {"constructor": "B()", "variable": "vb", "call": "mkb()", "method": "o.getb()", "field": "o.fb"},
}
FLOW_OK = {("Int", "Float"), ("B", "A")}
FLOW_CONFORMING = {"Int": "3", "Float": "2.5", "Str": "\"s\"", "A": "A()", "B": "B()"}


def flow_matrix():
    """value of type S, produced in every way, used where type T is declared: accepted iff S = T or S is a subtype of T"""
    out = []
    for T in FLOW_EXPR:
        for S, kinds in FLOW_EXPR.items():
            ok = S == T or (S, T) in FLOW_OK
            kinds = dict(kinds)
            # a conditional expression of which only ONE branch has type S (the other conforms to T)
            kinds["conditional-one-branch"] = "if vi > 0 then %s else %s" % (list(kinds.values())[1], FLOW_CONFORMING[T])
            kinds["conditional-else-branch"] = "if vi > 0 then %s else %s" % (FLOW_CONFORMING[T], list(kinds.values())[0])
            for kind, e in kinds.items():
                progs = {
                    "implicit-return": "def q() -> %s => %s\n" % (T, e),
                    "implicit-return-after-statement": "def q() -> %s =>\n    print(1)\n    %s\n" % (T, e),
                    "explicit-return": "def q() -> %s =>\n    return %s\n" % (T, e),
                    "initialiser": "def r: %s := %s\n" % (T, e),
                    "reassignment": "def r: %s := %s\nr := %s\n" % (T, FLOW_CONFORMING[T], e),
                    "argument": "def take(p: %s) -> Int => 1\ndef r := take(%s)\n" % (T, e),
                    "method-argument": "class Tk\n    def take(fin self, p: %s) -> Int => 1\ndef r := Tk().take(%s)\n" % (T, e),
                    "in-function-initialiser": "def q() -> Int =>\n    def r: %s := %s\n    1\n" % (T, e),
                    # the same positions inside loop bodies, branches and as statements
                    "explicit-return-in-for": "def q() -> %s =>\n    for i9 in 0 .. 2 do\n        return %s\n    %s\n" % (T, e, FLOW_CONFORMING[T]),
                    "explicit-return-in-while": "def q() -> %s =>\n    while vi > 0 do\n        return %s\n    %s\n" % (T, e, FLOW_CONFORMING[T]),
                    "explicit-return-in-branch-in-for": "def q() -> %s =>\n    for i9 in 0 .. 2 do\n        if i9 > 0 then\n            return %s\n    %s\n" % (T, e, FLOW_CONFORMING[T]),
                    "explicit-return-in-branch": "def q() -> %s =>\n    if vi > 0 then\n        return %s\n    %s\n" % (T, e, FLOW_CONFORMING[T]),
                    "reassignment-in-for": "def r: %s := %s\nfor i9 in 0 .. 2 do\n    r := %s\n" % (T, FLOW_CONFORMING[T], e),
                    "reassignment-in-function-loop": "def q() -> Int =>\n    def r: %s := %s\n    while vi > 5 do\n        r := %s\n    1\n" % (T, FLOW_CONFORMING[T], e),
                    "statement-call-argument": "def take(p: %s) -> Int => 1\ntake(%s)\n" % (T, e),
                    "argument-in-while": "def take(p: %s) -> Int => 1\nwhile vi > 5 do\n    take(%s)\n" % (T, e),
                    "field-assignment": "class Hold\n    def h: %s := %s\ndef hd := Hold()\nhd.h := %s\n" % (T, FLOW_CONFORMING[T], e),
                    "constructor-argument": "class Box(def c: %s)\ndef bx := Box(%s)\n" % (T, e),
                    "default-value": "def dv(p: %s := %s) -> Int => 1\n" % (T, e),
                    "method-default-value": "class Dm\n    def dv(fin self, p: %s := %s) -> Int => 1\n" % (T, e),
                }
                for pos, body in progs.items():
                    out.append(("%s<-%s/%s/%s" % (T, S, kind, pos), FLOW_PRE + body, ok))
            # the value is an outer variable of type S whose NAME is re-defined at type T in an inner scope that has ended
            for shadow, inner in (("parameter", "def inner(w: %s) -> Int => 1\n" % T), ("lambda-parameter", "def hof(fn: %s -> Int) -> Int => 1\ndef u1 := hof(\\w: %s => 1)\n" % (T, T)),
                                  ("branch-definition", "if vi > 0 then\n    def w: %s := %s\n    print(1)\n" % (T, FLOW_CONFORMING[T])),
                                  ("function-local", "def inner() -> Int =>\n    def w: %s := %s\n    1\n" % (T, FLOW_CONFORMING[T])),
                                  ("loop-definition", "for i9 in 0 .. 2 do\n    def w: %s := %s\n" % (T, FLOW_CONFORMING[T]))):
                for pos, use in (("argument", "def take(p: %s) -> Int => 1\ndef r := take(w)\n" % T), ("initialiser", "def r: %s := w\n" % T),
                                 ("return", "def q() -> %s => w\n" % T), ("method-argument", "class Tk\n    def take(fin self, p: %s) -> Int => 1\ndef r := Tk().take(w)\n" % T)):
                    text = FLOW_PRE + "def w: %s := %s\n" % (S, FLOW_CONFORMING[S]) + inner + use
                    out.append(("%s<-%s/shadowed-by-%s/%s" % (T, S, shadow, pos), text, ok))
                    text2 = FLOW_PRE + inner.replace("def w:", "def w:") + "def w: %s := %s\n" % (S, FLOW_CONFORMING[S]) + use
                    out.append(("%s<-%s/defined-after-%s/%s" % (T, S, shadow, pos), text2, ok))
    return out


def project_calls():
    """the same call conformance across FILES of a project: a function, a class and a method imported by name from another
    file are checked against their declared signatures -> [(label, files, expected 'accept' | 'reject')]"""
    lib = ("class Shape(def name: Str, def sides: Int := 4)\n    def describe(self, prefix: Str) -> Str => prefix + self.name\n"
           "def scale(x: Float, factor: Float := 2.0) -> Float => x * factor\ndef label(s: Shape) -> Str => s.name\ndef make() -> Shape => Shape(\"sq\")\n")
    uses = [
        ("function/conforming", "def w: Float := scale(3.0)", "accept"), ("function/conforming-default-given", "def w: Float := scale(3.0, 1.5)", "accept"),
        ("function/too-few", "def w: Float := scale()", "reject"), ("function/too-many", "def w: Float := scale(1.0, 2.0, 3.0)", "reject"),
        ("function/wrong-type", "def w: Float := scale(\"s\")", "reject"), ("function/wrong-default-type", "def w: Float := scale(1.0, \"s\")", "reject"),
        ("function/result-misused", "def w: Str := scale(3.0)", "reject"), ("function/result-used", "def w: Float := scale(3.0) + 1.0", "accept"),
        ("function/class-argument", "def w: Str := label(make())", "accept"), ("function/class-argument-wrong", "def w: Str := label(3)", "reject"),
        ("constructor/conforming", "def w := Shape(\"t\")", "accept"), ("constructor/too-few", "def w := Shape()", "reject"), ("constructor/wrong-type", "def w := Shape(3)", "reject"),
        ("method/conforming", "def w: Str := make().describe(\"a \")", "accept"), ("method/too-few", "def w: Str := make().describe()", "reject"),
        ("method/wrong-type", "def w: Str := make().describe(3)", "reject"), ("method/result-misused", "def w: Int := make().describe(\"a\")", "reject"),
    ]
    out = []
    for label, use, exp in uses:
        for layout in ("lib-first", "lib-last", "nested"):
            libname = {"lib-first": "a_shapes", "lib-last": "z_shapes", "nested": "pkg/shapes"}[layout]
            imp = "from %s import Shape, scale, label, make\n" % libname.split("/")[-1]
            out.append(("project/%s/%s" % (label, layout), [(libname + ".mamba", lib), ("main.mamba", imp + use + "\n")], exp))
            out.append(("project/%s/%s/in-function" % (label, layout), [(libname + ".mamba", lib), ("main.mamba", imp + "def go() -> Int =>\n    " + use + "\n    1\n")], exp))
    return out


def impl_class(r):
    if r[0] == "ok":
        return "accept"
    if r[0] != "err":
        return "crash"
    m = r[1][0]
    if m.startswith("Expected argument") or m.startswith("Unexpected argument") or (m.startswith("Method ") and "argument" in m.split("\n")[0] and "received" in m.split("\n")[0]):
        return "arity"
    return "type"


def run(chk):
    thorough = chk.tier == "thorough"
    ok = chk.build_harness()
    if chk.lake_build(["MambaVerif.Props.C05", "mvdrv"]):
        chk.audit("MambaVerif.Props.C05")
        if thorough:
            chk.leanchecker(["MambaVerif.Props.C05"])
    if not ok:
        return
    rng = chk.rng
    cases = [make_case(rng) for _ in range(1500 if thorough else 200)]
    # systematic single-parameter grid: (parameter type, argument type) x carrier x position
    pairs = [(p, a) for p in PARAM_TYPES for a in ARG_TYPES] if thorough else [("Int", "Str"), ("Int", "Int"), ("Str", "Int"), ("A", "X"), ("A", "B"), ("Float", "Int"), ("Int", "Float"), ("B", "A"), ("Int", "Int?"), ("Int?", "None")]
    for p, a in pairs:
        for carrier in ("lit", "local", "annlocal", "result"):
            if a in ("None", "Int?") and carrier != "lit":
                continue
            for pos in POSITIONS:
                cases.append(([p], [False], [a], pos, [carrier]))
    texts = [program(*c) for c in cases]
    res = sweep.transpile(chk, texts, annotate_both=False)
    have_model = chk.proof_broken is None or chk.proof_broken[0] not in ("proof-build",)
    mod = {}
    if have_model:
        cl = chk.harness("tyclasses", [("c", hexs(CLASS_SRC))]).get("c", "")
        reqs = []
        for i, (params, defaults, args, _, _) in enumerate(cases):
            ps = " ".join("(%s %d)" % (sexp(TY[p][0]), 1 if d else 0) for p, d in zip(params, defaults))
            as_ = " ".join(sexp(TY[a][0]) for a in args)
            reqs.append(("k%d" % i, "(%s) | %s | %s" % (cl[3:], ps, as_)))
        mod = chk.driver("callconf", reqs)
    stats, by_pos = {"accept": 0, "arity": 0, "type": 0}, {}
    for i, (c, text, r) in enumerate(zip(cases, texts, res)):
        ic = impl_class(r[0])
        mc = mod.get("k%d" % i) if mod else None
        by_pos[c[3]] = by_pos.get(c[3], 0) + 1
        if mc is None:
            continue
        if ic == mc:
            stats[ic] = stats.get(ic, 0) + 1
            continue
        f = chk.known(text) or chk.known("%s/%s/%s" % (c[0], c[2], c[3]))
        why = "call %s(%s) at position %s with carriers %s: the checker says %s, the signature says %s" % (c[0], c[2], c[3], c[4], ic, mc)
        if f:
            chk.report_known(f, why)
        elif len(chk.violations) < 6:
            chk.violation("input", why, case={"kind": "prog", "text": text, "params": c[0], "defaults": c[1], "args": c[2], "position": c[3], "carriers": c[4]},
                          expected=mc, actual=(r[0][1][0][:600] if r[0][0] == "err" else ic))
    chk.sample({"case": str(cases[0]), "text": texts[0][-200:], "impl": impl_class(res[0][0]), "model": mod.get("k0") if mod else None})
    # positive half on whole programs: well-typed generated programs must be accepted (inference failures are a recorded finding)
    progs = [gen_prog.Gen(rng).program().text for _ in range(100 if thorough else 20)]
    pres = sweep.transpile(chk, progs, annotate_both=False)
    over = 0
    for t, r in zip(progs, pres):
        if r[0][0] != "ok":
            over += 1
            msg = r[0][1][0] if r[0][0] == "err" else r[0][1]
            f = chk.known(msg) or chk.known(t)
            if f:
                chk.report_known(f, "a conforming generated program is rejected: " + msg.split("\n")[0][:160])
            elif len(chk.violations) < 6:
                chk.violation("input", "a conforming generated program is rejected: " + msg.split("\n")[0][:200], case={"kind": "prog", "text": t}, expected="accept", actual=msg[:800])
    # declared types of returns, initialisers, reassignments and arguments against values produced in every way
    flows = flow_matrix()
    if not thorough:
        flows = [f for f in flows if "/implicit-return" in f[0] and f[0].endswith("/implicit-return")] + rng.sample(flows, 500)
    fres = sweep.transpile(chk, [f[1] for f in flows], annotate_both=False)
    fstats = {"accept_ok": 0, "reject_ok": 0, "inconclusive_inference": 0}
    for (label, text, ok_), r in zip(flows, fres):
        got = r[0][0] == "ok"
        why = None
        if r[0][0] == "crash":
            why = "%s: the checker crashes" % label
        elif got and not ok_:
            why = "%s: a value of a non-conforming type is ACCEPTED where the declared type is required" % label
        elif not got and ok_:
            msg = r[0][1][0]
            if msg.startswith(("Cannot infer type", "In ")) and "expected a" not in msg.split("\n")[0]:
                fstats["inconclusive_inference"] += 1
            else:
                why = "%s: a conforming value is REJECTED: %s" % (label, " ".join(msg.split())[:200])
        else:
            fstats["accept_ok" if got else "reject_ok"] += 1
        if why:
            f = chk.known(label) or chk.known(text)
            if f:
                chk.report_known(f, why)
            elif len(chk.violations) < 6:
                chk.violation("input", why, case={"kind": "prog", "label": label, "text": text}, expected="accept" if ok_ else "reject", actual=str(r[0])[:600])
    chk.cov["oracle_flows"] = {"spec": "declared type T x type S of the value x how the value is produced (literal, variable, operator result, call, method, negated call, field, call chain) x position (implicit/explicit return, initialiser, reassignment, argument, method argument): accepted iff S = T or S <: T",
                               "cases": len(flows), "stats": fstats}
    chk.cov["correspondence"] = {"model": "MV.callCheck with MV.isSuperset on the dumped class table (Model/CallConf.lean, Model/Ty.lean) vs the checker's verdict on the call", "evaluations": len(cases) if mod else 0, "agreements": stats}
    chk.cov["oracle"] = {"spec": "verdict on a call/constructor/method call == conformance to the declared signature (arity with defaults, each argument assignable), at every position; well-typed generated programs are accepted",
                         "calls": len(cases), "by_position": by_pos, "generated_programs": len(progs), "over_rejected": over}
    # ---- the same across files of a project
    import c13 as _c13
    pcs = project_calls()
    pres = chk.harness("proj", [("pc%d" % i, _c13.payload(files)) for i, (_, files, _) in enumerate(pcs)], parallel=16)
    pstats = {"accept": 0, "reject": 0}
    for i, (label, files, exp) in enumerate(pcs):
        verdict, msgs, _tree = _c13.parse_result(pres.get("pc%d" % i, "MISSING"))
        got = "accept" if verdict == "ok" else "reject" if verdict == "err" else "crash"
        pstats[got] = pstats.get(got, 0) + 1
        if got != exp:
            why = "%s: %s" % (label, "a call that does not conform to the imported signature is ACCEPTED" if exp == "reject" else
                              "a conforming call of an imported definition is REJECTED: " + (msgs[0].splitlines()[0][:200] if msgs else got))
            f = chk.known(label)
            if f:
                chk.report_known(f, why)
            elif len(chk.violations) < 6:
                chk.violation("input", why, case={"kind": "proj", "files": files}, expected=exp, actual=(msgs[0][:800] if msgs else got))
    chk.cov["oracle_projects"] = {"spec": "calls of functions, constructors and methods imported by name from another file of the project: accepted iff they conform to the declared signature", "cases": len(pcs), "stats": pstats}
    chk.cov["evaluations"] = len(cases) + len(progs) + len(flows)
    chk.cov["distinct_nontrivial"] = len(set(texts))
    chk.cov["rule"] = "distinct (signature, argument list, position) programs: 0-3 parameters over Int/Float/Str/Bool/classes/Int? with trailing defaults; arguments conforming or with one fault (type, missing, extra); positions top/function/method/constructor/nested/branch/loop; each argument passed as a literal, an inferred local, an annotated local or a function result"
