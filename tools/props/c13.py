"""C13 — projects: all-or-nothing, mirrored layout, order-independent, non-interfering."""
import itertools
from mvlib import hexs, unhex

FAULTS = {"p": "def := := 3\n", "l": "def x := 1 ! 2\n", "t": "def bad: Int := \"s\"\n"}


def project(rng, k):
    """1-5 files in nested directories; later files use classes/functions of earlier ones"""
    n = rng.randint(1, 5)
    dirs = ["", "a/", "a/b/", "c/"]
    files = []
    for i in range(n):
        rel = "%sm%d_%d.mamba" % (rng.choice(dirs), k, i)
        lines = []
        if i > 0 and rng.random() < 0.7:
            j = rng.randrange(i)
            lines.append("from m%d_%d import K%d_%d" % (k, j, k, j))
            lines.append("def o%d := K%d_%d(%d)" % (i, k, j, i))
            lines.append("print(o%d.v)" % i)
        lines.append("class K%d_%d(def v: Int)\n    def twice(fin self) -> Int => self.v * 2" % (k, i))
        lines.append("def f%d_%d(x: Int) -> Int => x + %d" % (k, i, i))
        lines.append("print(f%d_%d(1))" % (k, i))
        # constructs for which the generator adds imports of its own (abc, math, typing): what one file needs must not
        # show in another
        r = rng.random()
        if r < 0.2:
            lines.append(NEEDS["abc"] % {"n": "%d_%d" % (k, i)})
        elif r < 0.35:
            lines.append(NEEDS["math"] % {"n": "%d_%d" % (k, i)})
        elif r < 0.5:
            lines.append(NEEDS["typing"] % {"n": "%d_%d" % (k, i)})
        files.append((rel, "\n".join(lines) + "\n"))
    return files


NEEDS = {
    "abc": "type T%(n)s\n    def area(fin self) -> Int\nclass S%(n)s(def s: Int): T%(n)s\n    def area(fin self) -> Int => self.s * self.s\nprint(S%(n)s(3).area())",
    "math": "def r%(n)s: Float := sqrt 16.0\nprint(r%(n)s)",
    "typing": "def g%(n)s(a: Int?, b: {Int, Str}) -> Int? => a\ndef q%(n)s: Int? := g%(n)s(None, 1)\ndef t%(n)s: (Int, Str) := (1, \"a\")",
}


def payload(files, pre=(), annotate=0):
    s = "%d %d" % (annotate, len(pre))
    for p, c in pre:
        s += " %s %s" % (hexs(p), hexs(c))
    s += " %d" % len(files)
    for rel, text in files:
        s += " %s %s" % (hexs(rel), hexs(text))
    return s


def parse_result(r):
    head, _, tree = r.partition(" | ")
    hp = head.split(" ")
    msgs = [unhex(x) for x in hp[2:]] if hp[0] == "err" else []
    tp = tree.split(" ")
    n = int(tp[0]) if tp and tp[0].isdigit() else 0
    files = {}
    for i in range(n):
        files[unhex(tp[1 + 2 * i])] = unhex(tp[2 + 2 * i]) if len(tp) > 2 + 2 * i else ""
    return hp[0], msgs, files


def run(chk):
    thorough = chk.tier == "thorough"
    ok = chk.build_harness()
    if chk.lake_build(["MambaVerif.Props.C13", "mvdrv"]):
        chk.audit("MambaVerif.Props.C13")
        if thorough:
            chk.leanchecker(["MambaVerif.Props.C13"])
    if not ok:
        return
    rng = chk.rng
    cases = []      # (id, kind, files(list in this order), labels{rel: g|p|t}, pre, group)
    for k in range(40 if thorough else 10):
        files = project(rng, k)
        base = "g%d" % k
        cases.append((base, "base", files, {r: "g" for r, _ in files}, (), base))
        perms = list(itertools.permutations(files))
        for pi, perm in enumerate(perms if (thorough and len(files) <= 4) else rng.sample(perms, min(len(perms), 3))):
            cases.append(("%s_perm%d" % (base, pi), "perm", list(perm), {r: "g" for r, _ in files}, (), base))
        # every choice of a single faulty file (a fault line is appended so that the file's own definitions stay visible)
        for fi, (rel, text) in enumerate(files):
            kind = rng.choice("plt")
            faulty = list(files)
            faulty[fi] = (rel, text + FAULTS[kind])
            labels = {r: "g" for r, _ in files}
            labels[rel] = "p" if kind in "pl" else "t"
            cases.append(("%s_fault%d" % (base, fi), "fault", faulty, labels, (), None))
        # an already populated output directory
        pre = [(rng.choice(["old.py", "a/old.py", files[0][0][:-6] + ".py"]), "old content\n"), ("keep/readme.txt", "x")]
        cases.append(("%s_pre" % base, "pre", files, {r: "g" for r, _ in files}, tuple(pre), base))
        # every mirrored output path already holds a LONGER stale file (an earlier, bigger version of the project)
        stale = "".join("stale_%d = (%d,\n" % (i, i) for i in range(400))
        pre2 = [(r[:-6] + ".py", stale) for r, _ in files] + [("keep/readme.txt", "x")]
        cases.append(("%s_prelong" % base, "pre", files, {r: "g" for r, _ in files}, tuple(pre2), base))
        # blank files (empty, white space only, comment only) anywhere in the glob order: the other files are unaffected
        for bi, (brel, btext) in enumerate([("0_init%d.mamba" % k, ""), ("a/__init__.mamba", "   \n\n"), ("c/zz_last%d.mamba" % k, "# nothing here\n"), ("a/b/mid%d.mamba" % k, "\n")]):
            if any(r == brel for r, _ in files):
                continue
            blank = files + [(brel, btext)]
            cases.append(("%s_blank%d" % (base, bi), "extra", blank, {r: "g" for r, _ in blank}, (), base))
        # an unrelated file defining only fresh names
        extra = files + [("z/extra%d.mamba" % k, "class Fresh%d\ndef fresh%d(x: Int) -> Int => x\n" % (k, k))]
        cases.append(("%s_extra" % base, "extra", extra, {r: "g" for r, _ in extra}, (), base))
        # unrelated files that need every support import, first and last in the glob order; also with annotations on
        needy = "\n".join(NEEDS[x] % {"n": "x%d" % k} for x in ("abc", "math", "typing")) + "\n"
        for ei, erel in enumerate(("0_needy%d.mamba" % k, "z/needy%d.mamba" % k)):
            extra = files + [(erel, needy)]
            cases.append(("%s_needy%d" % (base, ei), "extra", extra, {r: "g" for r, _ in extra}, (), base))
            cases.append(("%s_needy%d@a" % (base, ei), "extra", extra, {r: "g" for r, _ in extra}, (), base + "@a"))
        cases.append((base + "@a", "base", files, {r: "g" for r, _ in files}, (), base + "@a"))
        for pi, perm in enumerate(rng.sample(perms, min(len(perms), 2))):
            cases.append(("%s_perm%d@a" % (base, pi), "perm", list(perm), {r: "g" for r, _ in files}, (), base + "@a"))
    # the base of a group is compared with the other runs of the group: it has to come first
    cases.sort(key=lambda c: (c[1] != "base",))
    res = chk.harness("proj", [(c[0], payload(c[2], c[4], 1 if c[0].endswith("@a") else 0)) for c in cases], parallel=16)
    have_model = chk.proof_broken is None or chk.proof_broken[0] not in ("proof-build",)
    mreq = []
    for c in cases:
        pre = ",".join(p for p, _ in c[4]) or "-"
        mreq.append((c[0], pre + " " + " ".join("%s:%s" % (rel, c[3][rel]) for rel, _ in c[2])))
    mod = chk.driver("proj", mreq) if have_model else {}
    base_out = {}
    dis, n_ok, n_err = 0, 0, 0
    for c in cases:
        cid, kind, files, labels, pre, group = c
        verdict, msgs, tree = parse_result(res.get(cid, "MISSING"))
        why = None
        py_paths = sorted(p for p in tree if not p.endswith("/"))
        want_paths = sorted(set([r[:-6] + ".py" for r, _ in files] + [p for p, _ in pre]))
        bad_files = [r for r in labels if labels[r] != "g"]
        if verdict not in ("ok", "err"):
            why = "transpile_dir did not return: %s" % res.get(cid, "")[:200]
        elif bad_files:
            n_err += 1
            if verdict == "ok":
                why = "a project with a faulty file (%s) was accepted" % bad_files
            elif not msgs:
                why = "rejected without diagnostics"
            elif [p for p in py_paths if p not in [q for q, _ in pre]]:
                why = "Python was written although the project has an error: %s" % py_paths
            else:
                named = [m for m in msgs if any(("src/" + b) in m for b in bad_files)]
                wrong = [m for m in msgs if any(("src/" + r) in m for r in labels if r not in bad_files)]
                if not named:
                    why = "no diagnostic names the faulty file %s: %s" % (bad_files, msgs[0][:200])
                elif wrong:
                    why = "a diagnostic names a file without fault: %s" % wrong[0][:200]
        else:
            n_ok += 1
            if verdict != "ok":
                why = "a project without fault was rejected: %s" % (msgs[0][:300] if msgs else "")
            elif py_paths != want_paths:
                why = "output tree %s differs from the mirrored layout %s" % (py_paths, want_paths)
            else:
                for p, cnt in pre:
                    if p not in [r[:-6] + ".py" for r, _ in files] and tree.get(p) != cnt:
                        why = "an unrelated file of the output directory was changed: %s" % p
                outs = {p: tree[p] for p in py_paths if p not in [q for q, _ in pre] or p in [r[:-6] + ".py" for r, _ in files]}
                if kind == "base":
                    base_out[group] = outs
                elif group in base_out:
                    for p, cnt in base_out[group].items():
                        if outs.get(p) != cnt:
                            why = "the output of %s depends on %s" % (p, {"perm": "the order of the files", "pre": "the prior content of the output directory", "extra": "an unrelated added file"}[kind])
        if why:
            f = chk.known(cid) or chk.known("\n".join(t for _, t in files))
            if f:
                chk.report_known(f, why)
            elif len(chk.violations) < 5:
                chk.violation("input", why, case={"kind": "proj", "files": files, "pre": list(pre), "case": kind}, actual=(msgs[0][:1500] if msgs else str(py_paths)))
        if mod:
            m = mod.get(cid, "")
            mv, _, mpaths = m.partition(" | ")
            if (mv.split(" ")[0] != verdict) or (verdict == "ok" and sorted(mpaths.split(",")) != sorted(withpy_model(files, pre))):
                dis += 1
                if dis <= 3:
                    chk.broken("correspondence", "Pipeline model and implementation disagree on %s: impl %s %s, model %s" % (cid, verdict, py_paths, m))
            elif verdict == "ok" and sorted(p for p in mpaths.split(",") if p) != py_paths:
                dis += 1
                if dis <= 3:
                    chk.broken("correspondence", "Pipeline model and implementation disagree on the output tree of %s: impl %s, model %s" % (cid, py_paths, mpaths))
            elif verdict == "err":
                mfiles = mv.split(" ")[1].split(",") if " " in mv else []
                if sorted(mfiles) != sorted(bad_files):
                    dis += 1
    # every mirrored output path already holds a file of exactly the SIZE of the new output, with another content (second
    # batch: the sizes are known from the base runs)
    same = []
    for c in cases:
        if c[1] == "base" and c[5] in base_out and not c[0].endswith("@a"):
            pre3 = tuple((p, "#" * (len(cnt.encode("utf-8")) - 1) + "\n") for p, cnt in base_out[c[5]].items() if cnt)
            same.append((c[0] + "_presame", c[2], pre3, c[5]))
    sres = chk.harness("proj", [(cid, payload(files, pre)) for cid, files, pre, _ in same], parallel=16) if same else {}
    for cid, files, pre, group in same:
        verdict, msgs, tree = parse_result(sres.get(cid, "MISSING"))
        outs = {p: tree.get(p) for p in base_out[group]}
        if (verdict != "ok" or outs != base_out[group]) and len(chk.violations) < 5:
            diff = [p for p in outs if outs[p] != base_out[group][p]]
            chk.violation("input", "the output of %s depends on the prior content of the output directory (a file of the same size)" % (diff or verdict),
                          case={"kind": "proj", "files": files, "pre": [list(x) for x in pre], "case": "pre"}, actual=str(outs.get(diff[0]) if diff else verdict)[:1500])
    chk.cov["same_size_prior_outputs"] = len(same)
    # order independence of mamba_to_python itself (transpile_dir lists files by glob, so the order of the
    # file list can only be varied at this level): all permutations of every base project
    mreqs, groups = [], {}
    for c in cases:
        if c[1] != "base":
            continue
        perms = list(itertools.permutations(c[2]))
        if len(perms) > 24:
            perms = rng.sample(perms, 24)
        for pi, perm in enumerate(perms):
            cid = "%s_m%d" % (c[0], pi)
            mreqs.append((cid, "0 %d %s" % (len(perm), " ".join("%s %s" % (hexs("proj/" + r), hexs(t)) for r, t in perm))))
            groups.setdefault(c[0], []).append((cid, [r for r, _ in perm]))
    mres = chk.harness("multi", mreqs, parallel=16)
    n_perm = 0
    for g, runs in groups.items():
        ref = None
        for cid, order in runs:
            parts = mres.get(cid, "MISSING").split(" ")
            n_perm += 1
            if parts[0] != "ok":
                out = {"verdict": parts[0]}
            else:
                out = {r: parts[2 + i] for i, r in enumerate(order)}
            if ref is None:
                ref = out
            elif out != ref and len(chk.violations) < 5:
                chk.violation("input", "verdict or per-file output depends on the order in which the files are presented: %s" % order,
                              case={"kind": "multi", "order": order, "files": [c for c in cases if c[0] == g][0][2]},
                              expected=str({k: v[:80] for k, v in ref.items()}), actual=str({k: v[:80] for k, v in out.items()}))
    chk.cov["permutations_checked"] = n_perm
    chk.sample({"project": [r for r, _ in cases[0][2]], "case": cases[0][1]})
    chk.cov["correspondence"] = {"model": "MV.transpileDir (Model/Pipeline.lean) fed with the per-file fault labels vs lib::transpile_dir on a scratch directory", "evaluations": len(cases) if mod else 0, "disagreements": dis}
    chk.cov["oracle"] = {"spec": "faulty project: rejected, diagnostics name exactly the faulty file, no Python written; good project: exactly one .py per .mamba at the mirrored path, other files untouched, outputs independent of file order, prior output content and an added unrelated file",
                         "projects": len(cases), "good": n_ok, "faulty": n_err}
    chk.cov["evaluations"] = len(cases)
    chk.cov["distinct_nontrivial"] = len(set(c[0] for c in cases if len(c[2]) >= 2))
    chk.cov["rule"] = "distinct project runs with >= 2 files: base, permutations of the file list, each single faulty file (lexical/syntax/type), populated output directory, added unrelated file"
    chk.cov["not_proved"] = "per-file stage outcomes are abstract in the model: that they do not depend on file order or on unrelated files is decided by the oracle only"


def withpy_model(files, pre):
    return sorted(set([r[:-6] + ".py" for r, _ in files] + [p for p, _ in pre]))
