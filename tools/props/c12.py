"""C12 — determinism: verdict and emitted bytes depend on the input alone."""
import ast, subprocess, sys
import gen_prog, sweep
from mvlib import hexs, HARNESS_BIN, ENV


def class_program(rng, k):
    """a class with fields and methods interleaved (the shape whose member positions collide)"""
    n = rng.randint(2, 6)
    kinds = [rng.choice("vvff") for _ in range(n)]
    args = rng.random() < 0.5
    name = "K%d" % k
    lines = ["class %s%s" % (name, "(def a%d: Int)" % k if args else "")]
    members = []
    for i, kd in enumerate(kinds):
        if kd == "v":
            lines.append("    def g%d_%d: Int := %d" % (k, i, i))
            members.append(("v", "g%d_%d" % (k, i)))
        else:
            lines.append("    def m%d_%d(fin self) -> Int => %d" % (k, i, i))
            members.append(("f", "m%d_%d" % (k, i)))
    return "\n".join(lines) + "\n", name, members, args


def union_program(rng):
    return ("class A\nclass B: A\nclass C: A\n"
            "def pick(i: Int) -> A => if i > 0 then B() else C()\n"
            "def x := if True then 1 else 2\n"
            "def t: (Int, Str) := (1, \"a\")\n"
            "def y: Int? := None\n")


def generic_union_programs():
    """unions whose members share a class and differ only in their generic arguments, written and inferred, in every
    place where a type is rendered into the output (annotations of definitions, parameters, returns)"""
    out = []
    for a, b, va, vb in (("List[Int]", "List[Str]", "[1, 2]", "[\"a\"]"), ("Set[Int]", "Set[Str]", "{1, 2}", "{\"a\"}"), ("List[Int]", "List[Bool]", "[1]", "[True]"),
                         ("List[Str]", "Set[Str]", "[\"a\"]", "{\"a\"}"), ("(Int, Str)", "(Str, Int)", "(1, \"a\")", "(\"a\", 1)")):
        out.append("def pick(c: Bool) -> {%s, %s} =>\n    if c then %s else %s\ndef x: {%s, %s} := pick(True)\nprint(x)\n" % (a, b, va, vb, a, b))
        out.append("def take(p: {%s, %s}) -> Int => 1\ndef r := take(%s)\n" % (b, a, va))
        out.append("def c := True\ndef x := if c then %s else %s\nprint(x)\n" % (va, vb))
        out.append("class H\n    def f: {%s, %s} := %s\ndef o := H()\n" % (a, b, vb))
    out.append("def x: {List[Int], List[Str], List[Bool], Set[Int]} := [1]\n")
    out.append("def x: {List[{Int, Str}], List[{Str, Bool}]} := [1]\n")
    return out


def hierarchy_program(rng):
    """class hierarchies whose members collide by name: fields and methods re-declared at other types down the chain,
    two parents declaring the same member, followed by uses whose verdict depends on WHICH declaration is found"""
    val = {"Int": "1", "Str": "\"one\"", "Bool": "True"}
    depth = rng.randint(2, 3)
    names = ["H%d" % i for i in range(depth)]
    members = ["label", "size0", "tag"]
    decl = {}
    lines = []
    for i, c in enumerate(names):
        head = "class %s" % c + (": %s" % names[i - 1] if i else "")
        lines.append(head)
        body = 0
        for m in members:
            if i == 0 or rng.random() < 0.6:
                t = rng.choice(["Int", "Str", "Bool"])
                decl[(c, m)] = t
                lines.append("    def %s: %s := %s" % (m, t, val[t]))
                body += 1
        if rng.random() < 0.7:
            t = rng.choice(["Int", "Str"])
            decl[(c, "get")] = t
            lines.append("    def get(fin self) -> %s => %s" % (t, val[t]))
            body += 1
        if not body:
            lines.append("    def pad%d: Int := 0" % i)
    if rng.random() < 0.4:
        t1, t2 = rng.sample(["Int", "Str", "Bool"], 2)
        lines += ["class P1", "    def both: %s := %s" % (t1, val[t1]), "class P2", "    def both: %s := %s" % (t2, val[t2]), "class Two: P1, P2", "    def own: Int := 0",
                  "def w := Two()", "def wb: %s := w.both" % rng.choice([t1, t2])]
    for k in range(rng.randint(2, 5)):
        c = rng.choice(names)
        m = rng.choice(members + ["get()"])
        t = rng.choice(["Int", "Str", "Bool"])
        lines += ["def o%d := %s()" % (k, c), "def r%d: %s := o%d.%s" % (k, t, k, m)]
    return "\n".join(lines) + "\n"


def run(chk):
    thorough = chk.tier == "thorough"
    ok = chk.build_harness()
    chk.translate(["ClassTables"])
    if chk.lake_build(["MambaVerif.Props.C12", "mvdrv"]):
        chk.audit("MambaVerif.Props.C12")
        if thorough:
            chk.leanchecker(["MambaVerif.Props.C12"])
    if not ok:
        return
    rng = chk.rng
    # ---- class member order: model vs implementation
    classes = [class_program(rng, k) for k in range(400 if thorough else 80)]
    res = sweep.transpile(chk, [c[0] for c in classes], annotate_both=False)
    have_model = chk.proof_broken is None or chk.proof_broken[0] not in ("proof-build", "translator")
    req = [("k%d" % i, "%d %s" % (1 if c[3] else 0, " ".join("%s:%s" % m for m in c[2]))) for i, c in enumerate(classes)]
    mod = chk.driver("classorder", req) if have_model else {}
    dis = 0
    for i, (c, r) in enumerate(zip(classes, res)):
        if r[0][0] != "ok":
            continue
        tree = ast.parse(r[0][1])
        cls = [n for n in tree.body if isinstance(n, ast.ClassDef)][0]
        order = []
        for n in cls.body:
            if isinstance(n, ast.FunctionDef):
                order.append(n.name)
            elif isinstance(n, (ast.Assign, ast.AnnAssign)):
                t = n.targets[0] if isinstance(n, ast.Assign) else n.target
                order.append(t.id)
        if mod and mod.get("k%d" % i, "").split(" ") != order:
            dis += 1
            if dis <= 3:
                chk.broken("correspondence", "class member order: implementation emits %s, model %s for\n%s" % (order, mod.get("k%d" % i), c[0]))
    chk.cov["correspondence"] = {"model": "MV.entries/emitted (Model/ClassOrder.lean) vs the member order of the emitted class", "evaluations": len(classes) if mod else 0, "disagreements": dis}
    # ---- repetition oracle: same process (fresh RandomState per map), other processes, concurrently
    progs = [c[0] for c in classes[: (120 if thorough else 30)]] + [union_program(rng)]
    acc = gen_prog.accepted_samples(chk)
    progs += (acc if thorough else rng.sample(acc, min(len(acc), 15)))
    progs += [gen_prog.Gen(rng).program().text for _ in range(40 if thorough else 6)]
    progs += [hierarchy_program(rng) for _ in range(150 if thorough else 40)]
    progs += generic_union_programs()
    progs += [f["input"] for f in chk.findings if f.get("input")]
    # collections whose elements have different types, later used where a string is required (the element type is a union
    # that is substituted for the collection's placeholder)
    progs += ["def l := %s\nprint(l)\n" % lit for lit in ('[1, "a"]', '{1, "a"}', '[1, 2.5, "a"]', '[True, "a"]', '["a", 1]', '[1, "a", 1]')]
    K, P = (8, 4) if thorough else (4, 3)
    ids = []
    for i, t in enumerate(progs):
        for k in range(K):
            ids.append(("p%d_r%d" % (i, k), "%d %s" % (k % 2, hexs(t))))
    runs = []
    for p in range(P):
        shuffled = list(ids)
        rng.shuffle(shuffled)                       # arbitrary earlier workloads in the same process
        runs.append(chk.harness("pipe", shuffled, parallel=(8 if p % 2 else 1)))
    n_cmp, distinct = 0, set()
    for i, t in enumerate(progs):
        for a in (0, 1):
            outs = set()
            for run_ in runs:
                for k in range(a, K, 2):
                    r = run_.get("p%d_r%d" % (i, k), "MISSING")
                    # the property fixes the verdict and, on success, the bytes; the wording of diagnostics is not compared
                    outs.add(r if r.startswith("ok") else r.split(" ")[0])
                    n_cmp += 1
            if len(outs) > 1:
                f = chk.known(t)
                if f:
                    chk.report_known(f, "different results for the same input")
                elif len(chk.violations) < 5:
                    o = sorted(outs)
                    chk.violation("input", "the same input (annotate=%d) gave %d different results over %d runs in %d processes" % (a, len(outs), K // 2 * P, P),
                                  case={"kind": "prog", "annotate": a, "text": t}, expected=o[0][:1500], actual=o[1][:1500])
            elif next(iter(outs)).startswith("ok"):
                distinct.add(t)
    # ---- earlier runs leave state on DISK: the same project written into a fresh directory and into one that already
    # holds the (longer / shorter / different) outputs of an earlier run gives the same bytes
    import c13 as _c13
    disk = []
    for k in range(12 if thorough else 5):
        files = _c13.project(rng, 900 + k)
        outs = [r[:-6] + ".py" for r, _ in files]
        longer = "".join("earlier_%d = (%d,\n" % (i, i) for i in range(300))
        disk.append(("d%d_fresh" % k, files, ()))
        disk.append(("d%d_longer" % k, files, tuple((o, longer) for o in outs)))
        disk.append(("d%d_shorter" % k, files, tuple((o, "x = 1\n") for o in outs)))
        disk.append(("d%d_same_length" % k, files, None))
    dres = chk.harness("proj", [(cid, _c13.payload(files, pre)) for cid, files, pre in disk if pre is not None], parallel=8)
    fresh = {}
    n_disk = 0
    for cid, files, pre in disk:
        if pre is None:
            continue
        verdict, msgs, tree = _c13.parse_result(dres.get(cid, "MISSING"))
        k = cid.split("_")[0]
        outs = {r[:-6] + ".py": tree.get(r[:-6] + ".py") for r, _ in files}
        if cid.endswith("_fresh"):
            fresh[k] = (verdict, outs)
            continue
        n_disk += 1
        if k in fresh and (verdict, outs) != fresh[k] and len(chk.violations) < 5:
            diff = [o for o in outs if outs[o] != fresh[k][1].get(o)]
            chk.violation("input", "the emitted bytes depend on what an earlier run left in the output directory (%s): %s differ from the run into a fresh directory" % (cid.split("_", 1)[1], diff),
                          case={"kind": "proj", "files": files, "pre": [list(p) for p in pre]}, expected=str(fresh[k][1].get(diff[0]) if diff else fresh[k][0])[:800],
                          actual=str(outs.get(diff[0]) if diff else verdict)[:800])
    # … and into a directory whose files have exactly the SIZE of the new outputs but another content (second batch: the
    # sizes are only known after the fresh run)
    same = []
    for cid, files, pre in disk:
        k = cid.split("_")[0]
        if pre is None and k in fresh and fresh[k][0] == "ok":
            pre2 = tuple((o, "#" * (len(c.encode("utf-8")) - 1) + "\n") for o, c in fresh[k][1].items() if c)
            same.append((cid, files, pre2))
    sres = chk.harness("proj", [(cid, _c13.payload(files, pre)) for cid, files, pre in same], parallel=8) if same else {}
    for cid, files, pre in same:
        verdict, msgs, tree = _c13.parse_result(sres.get(cid, "MISSING"))
        k = cid.split("_")[0]
        outs = {r[:-6] + ".py": tree.get(r[:-6] + ".py") for r, _ in files}
        n_disk += 1
        if (verdict, outs) != fresh[k] and len(chk.violations) < 5:
            diff = [o for o in outs if outs[o] != fresh[k][1].get(o)]
            chk.violation("input", "the emitted bytes depend on what an earlier run left in the output directory (files of the same size, other content): %s differ from the run into a fresh directory" % diff,
                          case={"kind": "proj", "files": files, "pre": [list(p) for p in pre]}, expected=str(fresh[k][1].get(diff[0]) if diff else fresh[k][0])[:800],
                          actual=str(outs.get(diff[0]) if diff else verdict)[:800])
    chk.cov["earlier_runs_on_disk"] = {"projects": len(fresh), "runs_into_populated_directories": n_disk}
    chk.sample({"class": classes[0][0], "model_order": mod.get("k0") if mod else None})
    chk.cov["oracle"] = {"spec": "byte-identical result for the same input: repeated in one process (fresh hash seeds per map), after arbitrary other workloads, in several processes, single-threaded and 8 at a time",
                         "programs": len(progs), "repetitions_per_program": K * P, "processes": P, "comparisons": n_cmp}
    chk.cov["evaluations"] = n_cmp
    chk.cov["distinct_nontrivial"] = len(distinct)
    chk.cov["rule"] = "distinct accepted programs compared over all repetitions; programs: classes with interleaved fields/methods and class arguments, unions/tuples/optionals, class hierarchies with members re-declared at other types and two parents declaring the same member, generated programs and repository samples"
    chk.cov["not_proved"] = "the unifier's order sensitivity (check/constrain/unify) is explored by repetition, not proved; the name lattice's order independence is theorem C20.order_indep"
