"""C03 — totality: any input yields output or diagnostics, never a crash or hang."""
import time
import gen_lex
from mvlib import hexs, unhex

ADVERSARIAL = [
    "class A: A\n", "class A: B\nclass B: A\n", "def () := 3\n", "def (a, ()) := (1, ())\n", "()", "(,)", "[", "]", "{", "}",
    "\"{\"", "\"}\"", "\"{{}\"", "\"{}}\"", "\"{\"{\"{\"}\"}\"}\"", "\"\\", "\"\\\"", "def x := \"{", "def x := \"{a + }\"",
    "\"\"\"", "\"\"\"\"", "\"\"\"\"\"\"", "\r", "a\r", "\t", "é", "def é := 1", "#", "# é\n", "!", "1.", "1..", "1...2", "1E", "1E1E1", "0.0.0",
    "-" * 50, "(" * 40 + ")" * 40, "[" * 40 + "]" * 40, "(" * 40, "not " * 40 + "x", "- " * 40 + "1", "a." * 40 + "b",
    "f(" * 30 + ")" * 30, "if a then " * 30 + "b", "x := " * 30 + "1",
    "class A\n    def f(self) => self.f()\n", "type A: A\n", "type A: B when self > 0\ntype B: A when self > 0\n",
    "def f(x: Int) -> Int => f(x)\n", "def x: (Int, Int, Int) := (1, 2)\n", "def (a, b, c) := (1, 2)\n",
    "class A(def a: Int): B(a)\nclass B(def a: Int): A(a)\n", "def f() => f\n", "match x\n", "match\n", "handle\n", "x handle\n",
    "def f(x) => x\n", "for in do\n", "while do\n", "if then else\n", "class\n", "class 1\n", "import\n", "from import\n", "def\n", "def def\n",
    "return", "return\n", "raise", "raise\n", "raise 1\n", "pass", "x ? ", "x ?? y", "_", "__", "self", "self.x := 1", "init", "def init(self) => pass",
    "class A\n    def init(self) => pass\n    def init(self) => pass\n", "def x := 1\ndef x := 2\ndef x := \"a\"\n",
    "def f(a: Int, a: Int) => a\n", "class A\nclass A\n", "def f(x: Int := \"a\") => x\n", "[x for x in x]", "{x | x in y}", "[x | x in y, ]",
    "def x := [1, 2, 3][10]\n", "def x := 1 / 0\n", "def x := 99999999999999999999999999999999999999\n", "def x := 1E999999999\n",
    "    " * 60 + "x", "\n" * 300, " " * 300, "x\n" + "    y\n" * 5 + "  z\n" + "      w\n",
]


SPECIAL_NAMES = ["Union", "Tuple", "Callable", "Any", "None", "Exception", "Int", "Float", "Str", "Bool", "Complex", "Enum", "Collection", "Range",
                 "Slice", "Set", "List", "Dict", "Optional", "ABC", "Generic", "size", "init", "__init__", "super", "self", "print", "range", "math",
                 "typing", "abc", "str", "int", "list", "object", "type", "True", "False", "undefined", "it", "other", "__add__", "__str__", "__size__"]


def special_name_programs():
    """names the checker or generator special-case, in every kind of definition"""
    out = []
    for n in SPECIAL_NAMES:
        out += ["class %s(def a: Int)\n    def m(self) -> Int => self.a\ndef o := %s(3)\nprint(o.m())\n" % (n, n),
                "class %s\n    def a: Int := 1\ndef o := %s()\nprint(o.a)\n" % (n, n),
                "type %s\n    def m(fin self) -> Int\nclass K(def a: Int): %s\n    def m(fin self) -> Int => self.a\n" % (n, n),
                "def %s := 1\nprint(%s + 1)\n" % (n, n), "def %s: Int := 1\n%s := 2\n" % (n, n),
                "def %s(a: Int) -> Int => a\nprint(%s(1))\n" % (n, n), "def f(%s: Int) -> Int => %s + 1\nprint(f(1))\n" % (n, n),
                "class K(def %s: Int)\n    def m(self) -> Int => self.%s\nprint(K(1).m())\n" % (n, n),
                "class K\n    def %s(self) -> Int => 1\ndef o := K()\nprint(o.%s())\n" % (n, n),
                "for %s in 0 .. 3 do print(%s)\n" % (n, n), "def x: %s := 1\n" % n, "def x: %s[Int] := 1\n" % n, "def x := %s\n" % n]
    return out


def class_graph_programs(rng, n):
    """random inheritance graphs, cycles included: classes with or without a generic parameter, parents referred to
    plainly, with the placeholder, or instantiated; followed by a use of each class"""
    out = []
    for _ in range(n):
        k = rng.randint(1, 5)
        names = ["G%d" % i for i in range(k)]
        generic = {c: rng.random() < 0.5 for c in names}
        lines = []
        for c in names:
            head = "class %s%s" % (c, "[T]" if generic[c] else "")
            if rng.random() < 0.4:
                head += "(def a: Int)"
            ps = []
            for p in rng.sample(names, rng.randint(0, min(2, k))):
                if generic[p]:
                    arg = rng.choice(["Int", "Str", "T" if generic[c] else "Int", "%s[Int]" % p if rng.random() < 0.3 else "Bool"])
                    ps.append("%s[%s]" % (p, arg))
                else:
                    ps.append(p)
            if ps:
                head += ": " + ", ".join(ps)
            lines.append(head)
            if rng.random() < 0.6:
                lines.append("    def m%s(self) -> Int => 1" % c)
        for c in rng.sample(names, rng.randint(0, k)):
            lines.append("def o%s: %s%s := undefined" % (c, c, "[Int]" if generic[c] else "") if rng.random() < 0.5 else "def f%s(x: %s%s) -> Int => 1" % (c, c, "[Str]" if generic[c] else ""))
        out.append("\n".join(lines) + "\n")
    return out


def token_placement_programs():
    """every token spelling of the language in every position relative to operands (prefix, infix, postfix, alone, inside
    parentheses / brackets / an interpolation / an argument list / a block): the parser must report or accept, never loop"""
    out = []
    voc = gen_lex.vocabulary() + ["x", "1", "\"s\"", "1.5", "2E3"]
    for t in voc:
        for tmpl in ("def c := a %s b\n", "def c := %s a\n", "def c := a %s\n", "def c := (a %s)\n", "def c := (a %s b)\n", "def c := [a %s b]\n",
                     "def c := f(a %s b)\n", "def c := f(a, %s)\n", "def c := \"{a %s b}\"\n", "def c := \"{a %s}\"\n", "%s\n", "a %s\n",
                     "if a %s b then c\n", "def f(x: Int) -> Int =>\n    a %s b\n", "class K\n    def m(self) => a %s b\n", "match a %s\n    1 => 2\n",
                     "for i in a %s b do c\n", "def c := a %s %s b\n" % ("%s", t), "a := b %s c\n", "def c := a.b %s c\n", "def c := a[%s]\n"):
            out.append(tmpl % t)
    return out


def deep_programs():
    out = []
    for depth in (5, 20, 40):
        s = ""
        for d in range(depth):
            s += "    " * d + "if x then\n"
        s += "    " * depth + "print(x)\n"
        out.append("def x := True\n" + s)
        out.append("def x := " + "(" * depth + "1" + ")" * depth + "\n")
        out.append("def x := " + "[" * depth + "1" + "]" * depth + "\n")
        # (the checker's cost grows faster than linearly with the length of an operator chain: 120 operands take about a
        # second, 200 take 6-15 s depending on the load of the machine, which is too close to the watchdog)
        out.append("def x := " + " + ".join(["1"] * depth * 3) + "\n")
        out.append("def f(x: Int) -> Int => " + "f(" * depth + "x" + ")" * depth + "\n")
    out.append("\n".join("def v%d := %d" % (i, i) for i in range(400)) + "\n")
    out.append("\n".join("def f%d(x: Int) -> Int => x + %d" % (i, i) for i in range(150)) + "\n")
    return out


def empty_block_programs():
    """every place a block can stand, with a body of only a comment / only `pass` / only a doc-string (comments are filtered
    out after the indentation tokens were emitted, so such a block is EMPTY for the later stages)"""
    out = []
    for body in ("# TODO", "pass", '"""doc"""', "# one\n{I}# two"):
        for tmpl in ("def f() -> Int =>\n{I}{B}\n", "def f() =>\n{I}{B}\n", "def f(a: Int) -> Int =>\n{I}{B}\nprint(f(1))\n",
                     "def c := True\ndef x := if c then\n{I}{B}\nelse\n{I}2\n", "def c := True\ndef x := if c then\n{I}1\nelse\n{I}{B}\n",
                     "def c := True\nif c then\n{I}{B}\nelse\n{I}print(2)\n", "def c := True\nif c then\n{I}{B}\n",
                     "def x := match 3\n{I}1 =>\n{I}{I}{B}\n{I}_ => 2\n", "match 3\n{I}1 =>\n{I}{I}{B}\n{I}_ => print(2)\n",
                     "def g(v: Int) -> Int raise [Exception] => v\ndef x := g(1) handle\n{I}err: Exception =>\n{I}{I}{B}\n",
                     "def g(v: Int) -> Int raise [Exception] => v\ndef f() -> Int =>\n{I}g(1) handle\n{I}{I}err: Exception =>\n{I}{I}{I}{B}\n",
                     "class K\n{I}{B}\n", "class K\n{I}def m(self) -> Int =>\n{I}{I}{B}\n", "class K\n{I}def m(self) =>\n{I}{I}{B}\n", "class K\n{I}def __init__(self) =>\n{I}{I}{B}\n",
                     "for i in 0 .. 2 do\n{I}{B}\n", "def c := False\nwhile c do\n{I}{B}\n", "def f() -> Int =>\n{I}if True then\n{I}{I}{B}\n{I}else\n{I}{I}2\n",
                     "def f() -> Int =>\n{I}match 3\n{I}{I}1 =>\n{I}{I}{I}{B}\n{I}{I}_ => 2\n", "type T\n{I}{B}\n", "with open(\"f\") as w do\n{I}{B}\n"):
            out.append(tmpl.replace("{B}", body).replace("{I}", "    "))
    return out


def literal_programs():
    """every spelling of a literal the lexer accepts that a fixed-width conversion could choke on (values around 2^31, 2^32,
    2^63, 2^64, very long digit strings, huge and empty exponents, long fractions), in every position where the checker or
    the generator looks at a literal: plain, operand, range / slice bound and step, index, argument, default, match pattern,
    interpolation, power"""
    lits = ["2147483647", "2147483648", "4294967295", "4294967296", "9223372036854775807", "9223372036854775808",
            "18446744073709551616", "9" * 40, "0" * 30 + "1", "1E400", "1E99999999999", "3E", "2.5E310", "0." + "3" * 60,
            "1" + "0" * 25 + ".5", "00000000000000000000"]
    ctxs = ["def x := {L}\n", "def x := {L} + 1\n", "def x := -{L}\n", "for i in 0 .. 10 .. {L} do print(i)\n", "for i in 0 ..= {L} do print(i)\n",
            "for i in {L} .. {L} .. {L} do print(i)\n", "def xs := [1, 2]\ndef y := xs[0 :: 1 :: {L}]\n", "def xs := [1, 2]\ndef y := xs[{L} ::= {L}]\n",
            "def xs := [1, 2]\ndef y := xs[{L}]\n", "def f(a: Int) -> Int => a\nprint(f({L}))\n", "def f(a: Int := {L}) -> Int => a\n",
            "def y := match 3\n    {L} => 1\n    _ => 2\n", "print(\"v {{{L}}}\")\n", "def x := 2 ^ {L}\n", "def x := {L} mod 7\n", "def x := sqrt {L}\n",
            "def x: Int := {L}\n", "def x: Float := {L}\n", "def t := ({L}, {L})\n", "def s := {{{L}}}\n", "def r := 0 .. {L}\n", "while {L} > 1 do print(1)\n",
            "class K(def v: Int := {L})\n"]
    return [c.replace("{L}", l) for l in lits for c in ctxs]


def run(chk):
    thorough = chk.tier == "thorough"
    ok = chk.build_harness()
    chk.translate(["LexTables"])
    if chk.lake_build(["MambaVerif.Props.C03", "mvdrv"]):
        chk.audit("MambaVerif.Props.C03")
        if thorough:
            chk.leanchecker(["MambaVerif.Props.C03"])
    if not ok:
        return
    rng = chk.rng
    cases = [("adversarial", t) for t in ADVERSARIAL] + [("deep", t) for t in deep_programs()]
    cases += [("token-placement", t) for t in token_placement_programs()]
    cases += [("literal", t) for t in literal_programs()]
    cases += [("empty-block", t) for t in empty_block_programs()]
    cases += [("class-graph", t) for t in class_graph_programs(rng, 1500 if thorough else 300)]
    cases += [("special-name", t) for t in special_name_programs()]
    cases += [("corpus", f["input"]) for f in chk.findings if f.get("input")]
    n = 6000 if thorough else 1000
    cases += [("random", gen_lex.random_text(rng, rng.randint(1, 60))) for _ in range(n)]
    cases += [("indent", gen_lex.indented_program(rng, rng.randint(1, 14))) for _ in range(n // 2)]
    samples = gen_lex.samples_text()
    for _ in range(n * 2):
        t = rng.choice(samples)
        for _ in range(rng.randint(1, 4)):
            t = gen_lex.mutate(rng, t)
        cases.append(("mutant", t))
    cases += [("sample", t) for t in samples]
    ids = [("c%d" % i, "%d %s" % (i % 2, hexs(t))) for i, (_, t) in enumerate(cases)]
    t0 = time.time()
    res = chk.harness("pipe", ids, timeout=1800, case_timeout=60)
    wall = time.time() - t0
    dist, verdicts = {}, {"ok": 0, "err": 0}
    distinct = set()
    for i, (gen, text) in enumerate(cases):
        r = res.get("c%d" % i, "MISSING")
        dist[gen] = dist.get(gen, 0) + 1
        why = None
        if r.startswith("ok"):
            verdicts["ok"] += 1
            distinct.add(text)
        elif r.startswith("err"):
            verdicts["err"] += 1
            parts = r.split(" ")
            if int(parts[1]) < 1 or any(not p for p in parts[2:]):
                why = "rejected with an empty list of diagnostics / an empty diagnostic"
            distinct.add(text)
        elif r.startswith("PANIC"):
            why = "panic: " + unhex(r.split(" ", 1)[1])[:300]
        else:
            why = "pipeline did not return: " + r[:100]
        if why:
            f = chk.known(text)
            if f:
                chk.report_known(f, why)
            elif len(chk.violations) < 8:
                chk.violation("input", why, case={"kind": "pipe", "annotate": i % 2, "text": text}, actual=r[:500])
        if i % 1499 == 0:
            chk.sample({"generator": gen, "input": text[:100], "result": r[:60]})
    # lexer correspondence on the same inputs (ties lex_total's model to the code)
    lids = [("c%d" % i, hexs(t)) for i, (_, t) in enumerate(cases)]
    have_model = chk.proof_broken is None or chk.proof_broken[0] not in ("proof-build", "translator")
    dis = 0
    if have_model:
        li, lm = chk.harness("lex", lids), chk.driver("lex", lids)
        for cid, _ in lids:
            if li.get(cid) != lm.get(cid):
                dis += 1
                if dis <= 3:
                    chk.broken("correspondence", "Lex model and implementation disagree on %r:\n impl : %s\n model: %s" % (
                        cases[int(cid[1:])][1][:300], (li.get(cid) or "")[:400], (lm.get(cid) or "")[:400]))
    chk.cov["correspondence"] = {"model": "MV.tokenize via mvdrv lex", "evaluations": len(lids) if have_model else 0, "disagreements": dis}
    chk.cov["oracle"] = {"spec": "mamba_to_python returns Ok or a non-empty Err; no panic, abort or hang (dev profile, overflow checks on); every error rendered",
                         "evaluations": len(cases), "verdicts": verdicts, "by_generator": dist, "batch_wall_s": round(wall, 1),
                         "bounds": "inputs <= 16 KiB, nesting <= 40, 400 lines"}
    chk.cov["evaluations"] = len(cases)
    chk.cov["distinct_nontrivial"] = len(distinct)
    chk.cov["rule"] = "distinct inputs on which the pipeline returned (accepted or rejected); generators: adversarial structures, deep nesting, random alphabet text, indentation programs, token-level mutants of repository samples"
    chk.cov["not_proved"] = "stack depth, wall time, and the parser/context/unifier/generator stages are explored by the crash oracle, not proved; the theorems cover the lexer model (no panic site reachable)"
