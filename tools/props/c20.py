"""C20 — assignability is a sound order (and C12's order independence of the name lattice)."""
import gen_ty
import sweep
from mvlib import hexs


def matrix(res):
    parts = res.split(" ")
    if parts[0] != "ok":
        return None
    n = int(parts[1])
    m = parts[2]
    return [[m[i * n + j] for j in range(n)] for i in range(n)]


def run(chk):
    thorough = chk.tier == "thorough"
    ok = chk.build_harness()
    if chk.lake_build(["MambaVerif.Props.C20", "mvdrv"]):
        chk.audit("MambaVerif.Props.C20")
        if thorough:
            chk.leanchecker(["MambaVerif.Props.C20"])
    if not ok:
        return
    U = gen_ty.universe(chk.rng, thorough)
    labels = [u[0] for u in U]
    idx = {l: i for i, l in enumerate(labels)}
    usexp = "(" + " ".join(gen_ty.sexp(u[1]) for u in U) + ")"
    src = hexs(gen_ty.CLASS_SRC)
    impl = chk.harness("tysup", [("m", src + " " + usexp)]).get("m", "MISSING")
    M = matrix(impl)
    if M is None:
        chk.violation("input", "relation could not be evaluated: " + impl[:300], case={"kind": "ty", "classes": gen_ty.CLASS_SRC})
        return
    n = len(U)
    viol = []
    sup = lambda a, b: M[idx[a]][idx[b]]

    def bad(law, *ls, note=""):
        viol.append((law, ls, note))

    nonnull = [l for l, _, info in U if info["kind"] in ("class", "union", "generic", "generic2", "tuple", "dict", "any", "callable")
               and not any(m.endswith("?") for m in info.get("members", ()))]
    for l, name, info in U:
        k = info["kind"]
        if k != "empty" and sup(l, l) != "1":
            bad("reflexive", l, note="T is not assignable to itself: " + sup(l, l))
        if l in nonnull and l != "Any" and sup("Any", l) != "1":
            bad("any-top", l)
        if k == "nullable":
            b = info["base"]
            if sup(l, b) != "1":
                bad("T?>=T", b)
            if sup(l, "None") != "1":
                bad("T?>=None", b)
            if sup(b, l) != "0":
                bad("T!>=T?", b, note="T? is assignable to T")
            if sup(b, "None") != "0":
                bad("T!>=None", b)
        if k not in ("none", "empty") and sup("None", l) == "1":
            # hypothesis `hnull` of MV.C20.tnSup_trans / nameSup_trans: only None may be used where None is expected
            bad("only-none-below-none", l, note="%s may be used where None is expected" % l)
        if k == "class":
            b = info["base"]
            for a in gen_ty.ANCESTORS[b]:
                if sup(a, b) != "1":
                    bad("ancestor", a, b, note="class not assignable to its ancestor")
            for o in gen_ty.BASES:
                if o != b and o not in gen_ty.ANCESTORS[b] and sup(o, b) != "0":
                    bad("unrelated", o, b, note="class assignable to an unrelated class")
        if k == "union":
            a, b = info["members"]
            if sup(l, a) != "1" or sup(l, b) != "1":
                bad("union-accepts-both", l)
            for u, _, _ in U:
                want = "1" if (sup(u, a) == "1" and sup(u, b) == "1") else "0"
                got = sup(u, l)
                if "E" in (sup(u, a), sup(u, b), got):
                    continue
                if got != want:
                    bad("union-le-iff", u, l, note="U>=A|B is %s but U>=A is %s and U>=B is %s" % (got, sup(u, a), sup(u, b)))
            if "perm_of" in info:
                o = info["perm_of"]
                if M[idx[l]] != M[idx[o]] or [row[idx[l]] for row in M] != [row[idx[o]] for row in M]:
                    bad("order-independent", l, o)
    # transitivity over all triples
    ntri = 0
    for i in range(n):
        for j in range(n):
            if M[i][j] != "1":
                continue
            for k in range(n):
                ntri += 1
                if M[j][k] == "1" and M[i][k] != "1":
                    bad("transitive", labels[i], labels[j], labels[k], note="%s>=%s and %s>=%s but %s>=%s is %s" % (
                        labels[i], labels[j], labels[j], labels[k], labels[i], labels[k], M[i][k]))
    # unions: commutative, idempotent, associative (as canonical sets)
    un = chk.harness("tyunion", [("u", usexp)]).get("u", "")
    udumps = un[3:].split(";") if un.startswith("ok ") else []
    if len(udumps) == n * n:
        for i in range(n):
            if udumps[i * n + i].replace("(N 1", "(N 0") != gen_ty.sexp(_canon(U[i][1])).replace("(N 1", "(N 0") and U[i][2]["kind"] not in ("empty",):
                pass  # canonical member order differs between python and Rust Ord; idempotence checked through commutativity below
            for j in range(n):
                if udumps[i * n + j] != udumps[j * n + i]:
                    bad("union-commutative", labels[i], labels[j])
    # correspondence with the Lean model on the dumped class table
    have_model = chk.proof_broken is None or chk.proof_broken[0] not in ("proof-build",)
    dis = 0
    cells = 0
    if have_model:
        cl = chk.harness("tyclasses", [("c", src)]).get("c", "")
        if cl.startswith("ok "):
            mod = chk.driver("tysup", [("m", "(" + cl[3:] + ") | " + usexp)]).get("m", "MISSING")
            MM = matrix(mod)
            if MM is None:
                chk.broken("correspondence", "Ty model could not evaluate the universe: " + mod[:300])
            else:
                for i in range(n):
                    for j in range(n):
                        cells += 1
                        if MM[i][j] != M[i][j]:
                            dis += 1
                            if dis <= 5:
                                chk.broken("correspondence", "Ty model and implementation disagree: %s >= %s : impl %s model %s" % (labels[i], labels[j], M[i][j], MM[i][j]))
            mu = chk.driver("tyunion", [("u", usexp)]).get("u", "")
            if mu != un:
                md = mu[3:].split(";")
                k = next((x for x in range(min(len(md), len(udumps))) if md[x] != udumps[x]), None)
                if k is not None:
                    dis += 1
                    chk.broken("correspondence", "Ty model and implementation disagree on union(%s, %s): impl %s model %s" % (labels[k // n], labels[k % n], udumps[k], md[k]))
    # end to end: `def x: U := <expression of type T>` is accepted exactly when the relation says T may be used
    # where U is expected (the unifier accepts Any on either side before it asks the relation)
    S = [gen_ty.syntax(u[1]) for u in U]
    cells_e2e = [(i, j) for i in range(n) for j in range(n) if S[i] and S[j]]
    progs = [gen_ty.CLASS_SRC + "def f(a: %s) =>\n    def x: %s := a\n" % (S[j], S[i]) for i, j in cells_e2e]
    e2e_dis = 0
    for (i, j), r in zip(cells_e2e, sweep.transpile(chk, progs, annotate_both=False)):
        kind = r[0][0]
        if kind == "crash":
            bad("end-to-end", labels[i], labels[j], note="the pipeline crashed on `def x: %s := a` with a: %s: %s" % (S[i], S[j], r[0][1][:200]))
            continue
        want = M[i][j] == "1" or "Any" in (labels[i], labels[j])
        if M[i][j] == "E":
            continue
        if (kind == "ok") != want:
            e2e_dis += 1
            bad("end-to-end", labels[i], labels[j], note="`def x: %s := a` with a: %s is %s by the checker but the relation says %s" % (
                S[i], S[j], "accepted" if kind == "ok" else "rejected (%s)" % " / ".join(m.splitlines()[0] for m in r[0][1][:1]), M[i][j]))
    by_law = {}
    for law, ls, note in viol:
        by_law[law] = by_law.get(law, 0) + 1
        text = "%s %s" % (law, " ".join(ls))
        f = chk.known(text)
        if f:
            chk.report_known(f, "%s fails on %s %s" % (law, ls, note))
        elif len(chk.violations) < 6:
            chk.violation("input", "law %s fails on %s. %s" % (law, ls, note), case={"kind": "ty", "law": law, "types": list(ls), "classes": gen_ty.CLASS_SRC})
    chk.sample({"universe_size": n, "first": labels[:12], "M[Float][Int]": sup("Float", "Int"), "M[Int][Float]": sup("Int", "Float")})
    chk.cov["correspondence"] = {"model": "MV.isSuperset / NameT.union (Model/Ty.lean) on the class table dumped from the real Context", "evaluations": cells, "disagreements": dis}
    chk.cov["end_to_end"] = {"programs": len(progs), "disagreements": e2e_dis,
                             "rule": "every ordered pair of the universe whose two types the grammar can spell, as `def f(a: T) => def x: U := a`"}
    chk.cov["oracle"] = {"spec": "reflexive, transitive (all triples), only None below None (the hypotheses of the lifting theorems nameSup_refl / nameSup_trans, decided on the universe), Any top, nullable rules, class<=ancestors, unrelated, union<=U iff members, union accepts both, union commutative, order independence",
                         "universe": n, "pairs": n * n, "triples_checked": ntri, "law_failures": by_law, "exhaustive": True}
    chk.cov["evaluations"] = n * n
    chk.cov["distinct_nontrivial"] = n * n - n
    chk.cov["rule"] = "ordered pairs of distinct types of the universe (built-ins, user hierarchy depth 3 with two parents, exception hierarchy, nullable variants, unions of two in both storage orders, List/Set/Tuple/Dict instantiations of depth <= 2, callables)"
    chk.cov["exhaustive"] = True


def _canon(name):
    return name


def replay(chk, body):
    """re-evaluate the recorded types on the current tree: the relation between them and, where the grammar can spell
    them, the end-to-end verdict of `def x: U := a` with a: T"""
    import random
    if not chk.build_harness():
        return 2
    c = body.get("case") or {}
    if c.get("kind") != "ty":
        print(body.get("detail"))
        return 2
    U = gen_ty.universe(random.Random(0), True)
    by_label = {u[0]: u for u in U}
    # the primed labels of the quick tier's sampled unions exist in the full universe as well
    ls = [l for l in c.get("types", []) if l in by_label]
    if not ls:
        print("types not in the universe:", c.get("types"))
        return 2
    names = [by_label[l] for l in ls]
    usexp = "(" + " ".join(gen_ty.sexp(u[1]) for u in U) + ")"
    M = matrix(chk.harness("tysup", [("m", hexs(c.get("classes", gen_ty.CLASS_SRC)) + " " + usexp)]).get("m", "MISSING"))
    idx = {u[0]: i for i, u in enumerate(U)}
    print("law:", c.get("law"))
    for a in ls:
        for b in ls:
            print("  %-22s >= %-22s : %s" % (a, b, M[idx[a]][idx[b]] if M else "?"))
    still = None
    if c.get("law") == "end-to-end" and len(ls) == 2:
        su, st = gen_ty.syntax(names[0][1]), gen_ty.syntax(names[1][1])
        prog = c.get("classes", gen_ty.CLASS_SRC) + "def f(a: %s) =>\n    def x: %s := a\n" % (st, su)
        r = sweep.transpile(chk, [prog], annotate_both=False)[0][0]
        want = M[idx[ls[0]]][idx[ls[1]]] == "1" or "Any" in ls
        print(prog)
        print("checker:", r[0], (r[1][0][:300] if r[0] == "err" and r[1] else ""), "| relation says:", "accept" if want else "reject")
        still = (r[0] == "ok") != want
    print("RESULT:", "still fails" if still else ("law re-evaluated above; run ./check C20 for the verdict" if still is None else "holds on the current tree"))
    return 1 if still else 0
