"""C09 — see DESIGN.md; shared machinery in scope_common.py.

Besides the SL correspondence a verdict matrix covers the binders the SL language does not contain: builder (comprehension)
variables, match-arm binders, lambda parameters, function parameters, handler variables, definitions inside branches and loops,
names defined only later, and self fields read in a constructor before they are assigned.  Expected verdicts are read off the
property statement: a read outside the binder's scope is rejected, a read inside it (or after a definition on all paths) is
accepted."""
import scope_common, sweep

PRE = ("class E(def m: Str): Exception(m)\n"
       "def g(v: Int) -> Int raise [E] => v\n"
       "def l := [1, 2, 3]\ndef a := 2\n")
# binder kind -> (construct in statement position, bound name, a use INSIDE the scope as a full construct or None)
BINDERS = {
    "list-builder-stmt": ("[bx * 2 | bx in l]", "bx"),
    "list-builder-def": ("def m1 := [bx * 2 | bx in l]", "bx"),
    "set-builder-def": ("def m1 := {bx | bx in l}", "bx"),
    "dict-builder-def": ("def m1 := {bx => 1 | bx in l}", "bx"),
    "builder-with-cond": ("def m1 := [bx | bx in l, bx > 1]", "bx"),
    "nested-builder": ("def m1 := [[bx + by | bx in l] | by in l]", "bx"),
    "nested-builder-outer": ("def m1 := [[bx + by | bx in l] | by in l]", "by"),
    "builder-argument": ("print([bx * 2 | bx in l])", "bx"),
    "builder-match-subject": ("match [bx * 2 | bx in l]\n    nn => print(1)", "bx"),
    "builder-handle": ("[g(bx) | bx in l] handle\n    err: E => print(0)", "bx"),
    "match-arm-stmt": ("match a\n    1 => print(1)\n    bx => print(bx)", "bx"),
    "match-arm-def": ("def m1 := match a\n    1 => 1\n    bx => bx", "bx"),
    "match-first-arm-body-def": ("match a\n    1 =>\n        def bx := 1\n        print(bx)\n    _ => print(0)", "bx"),
    "match-second-arm-body-def": ("match a\n    1 => print(0)\n    _ =>\n        def bx := 1\n        print(bx)", "bx"),
    "match-def-first-arm-body-def": ("def m1 := match a\n    1 =>\n        def bx := 1\n        bx\n    _ => 0", "bx"),
    "handle-first-arm-body-def": ("def r1 := g(1) handle\n    err: E =>\n        def bx := 1\n        bx", "bx"),
    "handle-stmt-arm-body-def": ("print(g(1)) handle\n    err: E =>\n        def bx := 1\n        print(bx)", "bx"),
    "for-variable": ("for bx in l do print(bx)", "bx"),
    "for-range-variable": ("for bx in 0 .. 3 do print(bx)", "bx"),
    "function-parameter": ("def f1(bx: Int) -> Int => bx", "bx"),
    "lambda-parameter": ("def h1 := \\bx: Int => bx + 1", "bx"),
    "handler-variable": ("def r1 := g(1) handle\n    bx: E => 0", "bx"),
    "if-branch-def": ("if a > 1 then\n    def bx := 1\n    print(bx)", "bx"),
    "if-both-branches-def": ("if a > 1 then\n    def bx := 1\nelse\n    def bx := 2", "bx"),
    "while-body-def": ("while a > 5 do\n    def bx := 1", "bx"),
    "for-body-def": ("for i1 in l do\n    def bx := i1", "bx"),
    "function-local": ("def f1() -> Int =>\n    def bx := 1\n    bx", "bx"),
    "method-local": ("class K1\n    def m1(self) -> Int =>\n        def bx := 1\n        bx", "bx"),
    "class-field-bare": ("class K1\n    def bx: Int := 1", "bx"),
}
USES = {
    "next-statement": "print({n})",
    "operand": "def u1 := {n} + 1",
    "nested-if": "if a > 0 then\n    if a > 1 then\n        print({n})",
    "in-loop": "for j1 in l do\n    print({n})",
    "in-function": "def f9() -> Int => {n}",
    "reassign": "{n} := 5",
    "argument": "print(g({n}))",
    "in-builder": "def m9 := [{n} + q9 | q9 in l]",
    "typed-definition": "def u1: Int := {n}",
    "typed-parameter": "def u1 := g({n})",
    "returned": "def f9() -> Int => {n}\nprint(f9())",
}
CONTEXTS = ["top", "function", "if", "method"]
# every syntactic position an expression can stand in: a name that is never defined (or only later) is rejected in each
USE_POSITIONS = {
    "range-from": "for i9 in {n} .. 5 do print(i9)", "range-to": "for i9 in 0 .. {n} do print(i9)", "range-step": "for i9 in 0 .. 9 .. {n} do print(i9)",
    "range-incl-to": "for i9 in 0 ..= {n} do print(i9)", "range-incl-step": "for i9 in 0 ..= 9 .. {n} do print(i9)", "range-step-nested": "for i9 in 0 .. 9 .. (1 + {n}) do print(i9)",
    "range-value-step": "def r9 := 0 .. 9 .. {n}", "slice-from": "def s9 := l[{n} :: 2]", "slice-to": "def s9 := l[0 :: {n}]", "slice-step": "def s9 := l[0 :: 2 :: {n}]",
    "slice-incl-step": "def s9 := l[0 ::= 2 :: {n}]", "index": "def s9 := l[{n}]", "call-argument": "def s9 := g2({n}, 1)", "call-second-argument": "def s9 := g2(1, {n})",
    "method-argument": "def s9 := Kq9().mq({n})", "constructor-argument": "def s9 := Bq9({n})", "operator-left": "def s9 := {n} * 2", "operator-right": "def s9 := 2 - {n}",
    "unary-minus": "def s9 := -{n}", "not": "def s9 := not ({n} > 1)", "comparison": "def s9 := 1 < {n}", "power": "def s9 := 2 ^ {n}", "sqrt": "def s9 := sqrt {n}",
    "interpolation": "def s9 := \"v {{n}} w\"", "list-element": "def s9 := [1, {n}]", "set-element": "def s9 := {{1, {n}}}", "tuple-element": "def s9 := (1, {n})",
    "dict-key": "def s9 := {{{n} => 1}}", "dict-value": "def s9 := {{1 => {n}}}", "builder-element": "def s9 := [{n} + q9 | q9 in l]", "builder-collection": "def s9 := [q9 | q9 in {n}]",
    "builder-condition": "def s9 := [q9 | q9 in l, q9 > {n}]", "if-condition": "if {n} > 1 then print(1)", "if-expression-branch": "def s9 := if a > 1 then {n} else 2",
    "if-expression-else": "def s9 := if a > 1 then 2 else {n}", "while-condition": "while {n} > 5 do print(1)", "for-collection": "for i9 in {n} do print(i9)",
    "match-subject": "match {n}\n    1 => print(1)\n    _ => print(2)", "match-arm-body": "match a\n    1 => print({n})\n    _ => print(2)", "match-arm-value": "def s9 := match a\n    1 => {n}\n    _ => 2",
    "return": "def f9() -> Int => {n}", "return-statement": "def f9() -> Int =>\n    return {n}", "raise-argument": "def f9() -> Int raise [E] => raise E(\"m {{n}}\")",
    "default-value": "def f9(p9: Int := {n}) -> Int => p9", "lambda-body": "def h9 := \\q9: Int => q9 + {n}", "handle-subject": "def s9 := g({n}) handle\n    err: E => 0",
    "handle-arm-body": "def s9 := g(1) handle\n    err: E => {n}", "field-initialiser": "class F9\n    def f: Int := {n}", "receiver": "def s9 := {n}.mq(1)", "isa-subject": "def s9 := {n} isa Kq9",
    "reassign-value": "a := {n}", "augmented-value": "a += {n}", "field-assign-value": "def o9 := Bq9(1)\no9.v := {n}", "question-left": "def s9: Int := {n} ? 1", "in-left": "def s9 := {n} in l", "in-right": "def s9 := 1 in {n}",
    "print-argument": "print({n})", "nested-call": "print(g2(g2({n}, 1), 2))", "with-resource": "with {n} as w9 do print(1)", "parent-argument": "class P9(def pv: Int)\nclass C9: P9({n})",
}
USE_PRE_IN = ""
USE_PRE = "def g2(p: Int, q: Int) -> Int => p + q\nclass Kq9\n    def mq(fin self, p: Int) -> Int => p\nclass Bq9(def v: Int)\n"


def ind(text, n):
    return "".join("    " * n + l + "\n" for l in text.split("\n"))


def place(ctx, body):
    if ctx == "top":
        return PRE + body
    if ctx == "function":
        return PRE + "def outer9() -> Int =>\n" + ind(body.rstrip("\n"), 1) + "    0\n"
    if ctx == "if":
        return PRE + "if a > 0 then\n" + ind(body.rstrip("\n"), 1)
    if ctx == "method":
        return PRE + "class Outer9\n    def mm9(self) -> Int =>\n" + ind(body.rstrip("\n"), 2) + "        0\n"
    raise ValueError(ctx)


def matrix():
    out = []
    for bk, (construct, name) in BINDERS.items():
        for uk, use in USES.items():
            for ctx in CONTEXTS:
                if ctx in ("function", "method", "if") and construct.startswith(("class ", "def f1", "def h1")) and ctx != "if":
                    continue          # nested class / function definitions inside bodies: keep to forms the language has
                if ctx == "if" and construct.startswith("class "):
                    continue
                body = construct + "\n" + use.replace("{n}", name) + "\n"
                out.append(("escape/%s/%s/%s" % (bk, uk, ctx), place(ctx, body), "reject"))
        # control: the same use with a name that is defined before the construct is accepted
        for ctx in CONTEXTS:
            if construct.startswith(("class ", "def f1", "def h1")) and ctx != "top":
                continue
            body = "def ok9 := 4\n" + construct + "\nprint(ok9)\n"
            out.append(("control/%s/%s" % (bk, ctx), place(ctx, body), "accept"))
    # defined only later
    for uk, use in USES.items():
        if uk == "in-function":
            continue
        out.append(("later/%s/top" % uk, PRE + use.replace("{n}", "lt") + "\ndef lt := 1\n", "reject"))
        out.append(("later/%s/function" % uk, place("function", use.replace("{n}", "lt") + "\ndef lt := 1\n"), "reject"))
    for pk, tmpl in USE_POSITIONS.items():
        body = tmpl.replace("{{n}}", "{zq9}").replace("{n}", "zq9").replace("{{", "{").replace("}}", "}")
        out.append(("undefined-at/%s/top" % pk, PRE + USE_PRE + body + "\n", "reject"))
        ok = tmpl.replace("{{n}}", "{a}").replace("{n}", "a").replace("{{", "{").replace("}}", "}")
        if pk not in ("builder-collection", "for-collection", "receiver", "isa-subject", "in-right", "with-resource", "question-left"):
            out.append(("defined-at/%s/top" % pk, PRE + USE_PRE + ok + "\n", "accept"))
        if not body.startswith("class ") and "def f9" not in body and "def h9" not in body:
            out.append(("undefined-at/%s/function" % pk, place("function", USE_PRE_IN + body + "\n").replace(PRE, PRE + USE_PRE), "reject"))
            out.append(("later-at/%s/top" % pk, PRE + USE_PRE + body.replace("zq9", "lt9") + "\ndef lt9 := 1\n", "reject"))
    out.append(("later/function-body-reads-later-global", PRE + "def f8() -> Int => lt\ndef lt := 1\nprint(f8())\n", "reject"))
    out.append(("later/call-of-function-defined-later", PRE + "print(fl(1))\ndef fl(x: Int) -> Int => x\n", "reject"))
    out.append(("later/instance-of-class-defined-later", PRE + "def o9 := Kl(1)\nclass Kl(def v: Int)\n", "reject"))
    out.append(("later/function-body-calls-later-function", PRE + "def f8() -> Int => fl(1)\ndef fl(x: Int) -> Int => x\nprint(f8())\n", "accept"))
    # shadowing gives later uses the new definition (type changes)
    out.append(("shadow/new-type", PRE + "def s := 1\ndef s := \"t\"\nprint(s + \"u\")\n", "accept"))
    out.append(("shadow/old-type-gone", PRE + "def s := 1\ndef s := \"t\"\ndef z := s - 1\n", "reject"))
    # self fields in a constructor
    out.append(("ctor/read-before-assign", "class C1\n    def f: Int\n    def g: Int\n    def __init__(self) =>\n        self.g := self.f + 1\n        self.f := 2\n", "reject"))
    out.append(("ctor/read-after-assign", "class C1\n    def f: Int\n    def g: Int\n    def __init__(self) =>\n        self.f := 2\n        self.g := self.f + 1\n", "accept"))
    out.append(("ctor/never-assigned", "class C1\n    def f: Int\n    def __init__(self) =>\n        print(1)\n", "reject"))
    out.append(("ctor/assigned-in-one-branch", "class C1\n    def f: Int\n    def __init__(self, c: Bool) =>\n        if c then\n            self.f := 1\n", "reject"))
    out.append(("ctor/assigned-in-both-branches", "class C1\n    def f: Int\n    def __init__(self, c: Bool) =>\n        if c then\n            self.f := 1\n        else\n            self.f := 2\n", "accept"))
    # an assignment to a field of ANOTHER object with the same name does not assign the field under construction
    CFG = "class Config\n    def level: Int := 0\n    def other: Int := 0\n"
    out.append(("ctor/foreign-field-same-name-only", CFG + "class C1\n    def level: Int\n    def __init__(self, cfg: Config) =>\n        cfg.level := 3\n", "reject"))
    out.append(("ctor/foreign-field-then-read", CFG + "class C1\n    def level: Int\n    def nxt: Int\n    def __init__(self, cfg: Config) =>\n        cfg.level := 3\n        self.nxt := self.level + 1\n        self.level := 2\n", "reject"))
    out.append(("ctor/foreign-field-then-self", CFG + "class C1\n    def level: Int\n    def __init__(self, cfg: Config) =>\n        cfg.level := 3\n        self.level := cfg.level\n", "accept"))
    out.append(("ctor/foreign-other-name", CFG + "class C1\n    def level: Int\n    def __init__(self, cfg: Config) =>\n        cfg.other := 3\n        self.level := 1\n", "accept"))
    PT = "class P\n    def x: Int := 0\n"
    out.append(("ctor/nested-write-only", PT + "class C1\n    def origin: P\n    def __init__(self) =>\n        self.origin.x := 1\n", "reject"))
    out.append(("ctor/nested-write-before-assign", PT + "class C1\n    def origin: P\n    def __init__(self) =>\n        self.origin.x := 1\n        self.origin := P()\n", "reject"))
    out.append(("ctor/nested-write-after-assign", PT + "class C1\n    def origin: P\n    def __init__(self) =>\n        self.origin := P()\n        self.origin.x := 1\n", "accept"))
    out.append(("ctor/nested-write-in-branch", PT + "class C1\n    def origin: P\n    def __init__(self, c: Bool) =>\n        if c then\n            self.origin.x := 1\n        self.origin := P()\n", "reject"))
    out.append(("ctor/local-variable-same-name", "class C1\n    def level: Int\n    def __init__(self) =>\n        def level := 3\n        print(level)\n", "reject"))
    out.append(("ctor/nullable-needs-no-assignment", "class C1\n    def level: Int?\n    def __init__(self) =>\n        print(1)\n", "accept"))
    out.append(("ctor/assigned-in-loop-only", "class C1\n    def level: Int\n    def __init__(self) =>\n        for i in 0 .. 2 do\n            self.level := i\n", "reject"))
    RISKY = "def risky(n: Int) -> Int raise [Exception] => if n > 0 then n else raise Exception(\"no\")\n"
    out.append(("ctor/assigned-in-handle-arm-only", RISKY + "class C1\n    def level: Int\n    def __init__(self) =>\n        def r := risky(1) handle\n            err: Exception =>\n                self.level := 1\n                0\n", "reject"))
    out.append(("ctor/assigned-before-handle", RISKY + "class C1\n    def level: Int\n    def __init__(self) =>\n        self.level := 1\n        def r := risky(1) handle\n            err: Exception => 0\n", "accept"))
    out.append(("ctor/return-before-assign", "class C1\n    def level: Int\n    def __init__(self, n: Int) =>\n        if n = 0 then\n            return\n        self.level := 1\n", "reject"))
    out.append(("ctor/return-after-assign", "class C1\n    def level: Int\n    def __init__(self, n: Int) =>\n        self.level := 1\n        if n = 0 then\n            return\n        print(n)\n", "accept"))
    out.append(("ctor/assigned-in-while-only", "class C1\n    def level: Int\n    def __init__(self, n: Int) =>\n        while n > 3 do\n            self.level := 1\n", "reject"))
    out.append(("ctor/assigned-in-match-arm-only", "class C1\n    def level: Int\n    def __init__(self, n: Int) =>\n        match n\n            1 => self.level := 1\n            _ => print(n)\n", "reject"))
    out.append(("ctor/compound-before-assign", "class C1\n    def level: Int\n    def __init__(self) =>\n        self.level += 1\n        self.level := 2\n", "reject"))
    return out


# ---- constructor bodies: the unassigned-attribute analysis (Model/CtorAssign.lean) against the checker's verdict
CTOR_PRE = ("class E1(def m: Str): Exception(m)\nclass E2(def m: Str): Exception(m)\n"
            "def risky(v: Int) -> Int raise [E1, E2] => v\ndef risky1(v: Int) -> Int raise [E1] => v\n")


def ctor_body(rng, depth, nf):
    """-> list of statement trees: ('A', f) | ('S',) | ('I', t, e) | ('O', t) | ('L', b, kind) | ('M', arms, catch_all) | ('H', arms) | ('R',)"""
    out = []
    for _ in range(rng.randint(1, 3)):
        k = rng.random()
        if depth <= 0 or k < 0.38:
            out.append(("A", rng.randrange(nf)) if rng.random() < 0.75 else ("S",))
        elif k < 0.52:
            out.append(("I", ctor_body(rng, depth - 1, nf), ctor_body(rng, depth - 1, nf)))
        elif k < 0.62:
            out.append(("O", ctor_body(rng, depth - 1, nf)))
        elif k < 0.72:
            out.append(("L", ctor_body(rng, depth - 1, nf), rng.choice(["for", "while"])))
        elif k < 0.84:
            # (every arm ends with the same kind of statement: the checker unifies the "types" of the arm bodies of a
            # statement-form match as well, and rejects e.g. a loop in one arm next to a print in another)
            arms = [ctor_body(rng, depth - 1, nf) for _ in range(rng.randint(1, 3))]
            arms = [a if a[-1][0] in "SR" else a + [("S",)] for a in arms]
            out.append(("M", arms, rng.random() < 0.6))
        elif k < 0.94:
            out.append(("H", [ctor_body(rng, depth - 1, nf) for _ in range(rng.randint(1, 2))]))
        else:
            out.append(("R",))
            break               # nothing follows a return in its block
    return out


def ctor_wire(b):
    def st(s):
        if s[0] == "A":
            return "A%d" % s[1]
        if s[0] in "SR":
            return s[0]
        if s[0] == "I":
            return "I(%s;%s)" % (ctor_wire(s[1]), ctor_wire(s[2]))
        if s[0] == "O":
            return "O(%s)" % ctor_wire(s[1])
        if s[0] == "L":
            return "L(%s)" % ctor_wire(s[1])
        if s[0] == "M":
            return "M%d(%s)" % (1 if s[2] else 0, "|".join(ctor_wire(a) for a in s[1]))
        return "H(%s)" % "|".join(ctor_wire(a) for a in s[1])
    return ",".join(st(s) for s in b)


def ctor_text(b, ind, counter):
    pad = "    " * ind
    L = []
    for s in b:
        counter[0] += 1
        n = counter[0]
        if s[0] == "A":
            L.append("%sself.f%d := %d" % (pad, s[1], n))
        elif s[0] == "S":
            L.append("%sprint(%d)" % (pad, n))
        elif s[0] == "R":
            L.append("%sreturn" % pad)
        elif s[0] == "I":
            L += ["%sif n > %d then" % (pad, n)] + ctor_text(s[1], ind + 1, counter) + ["%selse" % pad] + ctor_text(s[2], ind + 1, counter)
        elif s[0] == "O":
            L += ["%sif n > %d then" % (pad, n)] + ctor_text(s[1], ind + 1, counter)
        elif s[0] == "L":
            L += ["%sfor i%d in 0 .. n do" % (pad, n) if s[2] == "for" else "%swhile n > %d do" % (pad, 100 + n)] + ctor_text(s[1], ind + 1, counter)
        elif s[0] == "M":
            L.append("%smatch n" % pad)
            for j, a in enumerate(s[1]):
                pat = "_" if (s[2] and j == len(s[1]) - 1) else str(j + 1)
                L += ["%s    %s =>" % (pad, pat)] + ctor_text(a, ind + 2, counter)
        else:
            L.append("%sdef r%d := %s(%d) handle" % (pad, n, "risky" if len(s[1]) == 2 else "risky1", n))
            for j, a in enumerate(s[1]):
                L += ["%s    err%d: E%d =>" % (pad, n, j + 1)] + ctor_text(a, ind + 2, counter) + ([] if a and a[-1][0] == "R" else ["%s        0" % pad])
    return L


def ctor_program(b, nf):
    fields = "".join("    def f%d: Int\n" % i for i in range(nf))
    return CTOR_PRE + "class K\n" + fields + "    def __init__(self, n: Int) =>\n" + "\n".join(ctor_text(b, 2, [0])) + "\n"


def ctor_correspondence(chk, n):
    rng = chk.rng
    cases = []
    for _ in range(n):
        nf = rng.randint(1, 3)
        cases.append((ctor_body(rng, rng.randint(1, 3), nf), nf))
    res = sweep.transpile(chk, [ctor_program(b, nf) for b, nf in cases], annotate_both=False)
    have_model = chk.proof_broken is None or chk.proof_broken[0] not in ("proof-build",)
    mod = chk.driver("ctor", [("k%d" % i, "%d %s" % (nf, ctor_wire(b))) for i, (b, nf) in enumerate(cases)]) if have_model else {}
    stats = {"accept": 0, "reject": 0, "other_rejection": 0}
    dis = 0
    for i, ((b, nf), r) in enumerate(zip(cases, res)):
        if r[0][0] == "ok":
            ic = "accept"
        elif r[0][0] == "err" and r[0][1] and "Non nullable attribute" in r[0][1][0]:
            ic = "reject"
        else:
            ic = "other: " + (r[0][1][0].splitlines()[0][:120] if r[0][0] == "err" and r[0][1] else r[0][0])
        mc = mod.get("k%d" % i, "")
        if not mod:
            continue
        if ic.startswith("other"):
            stats["other_rejection"] += 1
            if len(chk.violations) < 5:
                chk.violation("input", "a constructor body of the modelled statement language is rejected for another reason: %s" % ic, case={"kind": "prog", "text": ctor_program(b, nf)})
            continue
        stats[ic] += 1
        if ic != mc:
            dis += 1
            text = ctor_program(b, nf)
            if ic == "accept" and mc == "reject":
                # the model's acceptance is proved sound and its rejections are each witnessed by a path: the implementation
                # accepts a constructor with a path that leaves an attribute unassigned
                if len(chk.violations) < 5:
                    chk.violation("input", "the checker ACCEPTS a constructor in which some path leaves a non nullable attribute unassigned (the analysis model rejects it)",
                                  case={"kind": "prog", "text": text, "wire": ctor_wire(b)}, expected=mc, actual=ic)
            elif dis <= 3:
                chk.broken("correspondence", "constructor analysis: model %s, implementation %s for\n%s" % (mc, ic, text))
    chk.cov["correspondence_constructor"] = {"model": "MV.ctorAccepts (Model/CtorAssign.lean) vs the checker's verdict on generated constructor bodies (assignments, if with / without else, for, while, match with / without a catch-all arm, handle arms, bare return; nesting depth <= 3)",
                                             "evaluations": len(cases) if mod else 0, "disagreements": dis, "stats": stats}


def run(chk):
    thorough = chk.tier == "thorough"
    ok = chk.build_harness()
    if chk.lake_build(["MambaVerif.Props.C09", "mvdrv"]):
        chk.audit("MambaVerif.Props.C09")
        if thorough:
            chk.leanchecker(["MambaVerif.Props.C09"])
    if not ok:
        return
    scope_common.run_scope(chk, ["use"], "Undefined", 400 if thorough else 30, 8 if thorough else 4)
    ctor_correspondence(chk, 6000 if thorough else 800)
    # what the checker accepts must not read an unbound name when it RUNS either: generated programs whose definitions are
    # fed by nested block-form conditionals / matches / handled calls (the assignment is pushed down to every path end by
    # the desugaring) are executed
    import gen_prog
    bd = [q for q in (gen_prog.Gen(chk.rng).program() for _ in range(600 if thorough else 160)) if "blockdef" in str(q.items)][: (80 if thorough else 20)]
    bres = sweep.transpile(chk, [q.text for q in bd])
    jobs = [(q, a, r[a][1]) for q, r in zip(bd, bres) for a in (0, 1) if r[a][0] == "ok"]
    for (q, a, py), (lines, outcome, message) in zip(jobs, sweep.run_python_msg([j[2] for j in jobs])):
        if outcome.endswith(("NameError", "UnboundLocalError")) and len(chk.violations) < 5:
            chk.violation("input", "annotate=%d: an accepted program reads an unbound name when it runs: %s" % (a, message[:200]), case={"kind": "prog", "text": q.text}, actual=py[:2500])
    chk.cov["executed_block_definitions"] = {"programs": len(bd), "runs": len(jobs)}
    cases = matrix()
    if not thorough:
        keep = [c for c in cases if "/next-statement/" in c[0] or not c[0].startswith("escape/")]
        rest = [c for c in cases if c not in keep]
        cases = keep + chk.rng.sample(rest, min(len(rest), 200))
    res = sweep.transpile(chk, [c[1] for c in cases], annotate_both=False)
    stats = {"accept_ok": 0, "reject_ok": 0, "rejected_for_another_reason": 0}
    for (label, text, exp), r in zip(cases, res):
        got = "accept" if r[0][0] == "ok" else ("reject" if r[0][0] == "err" else "crash")
        why = None
        if got == "crash":
            why = "%s: the checker crashes" % label
        elif exp == "reject" and got == "accept":
            why = "%s: a read of a name that is not defined at that point is ACCEPTED" % label
        elif exp == "accept" and got == "reject":
            if scope_common.impl_class(r[0]) == "reject Undefined" or label.startswith(("ctor/", "shadow/")):
                why = "%s: a use preceded by a definition on all paths is REJECTED: %s" % (label, " ".join(r[0][1][0].split())[:200])
            else:
                stats["rejected_for_another_reason"] += 1
        else:
            stats["accept_ok" if got == "accept" else "reject_ok"] += 1
            if got == "reject" and label.startswith(("escape/", "later/")) and scope_common.impl_class(r[0]) != "reject Undefined":
                stats["rejected_for_another_reason"] += 1
        if why:
            f = chk.known(label)
            if f:
                chk.report_known(f, why)
            elif len(chk.violations) < 5:
                chk.violation("input", why, case={"kind": "prog", "label": label, "text": text}, expected=exp, actual=str(r[0])[:600])
    chk.cov["oracle"]["matrix"] = {"spec": "binder kind (builder variables, match-arm binders, for variables, parameters, lambda parameters, handler variables, branch/loop/function/method locals, class fields) x use form x context: a read outside the scope is rejected; names defined later; shadowing with another type; self fields in constructors",
                                   "cases": len(cases), "stats": stats}
    chk.cov["evaluations"] += len(cases)
    chk.cov["distinct_nontrivial"] += len(cases)
    chk.cov["rule"] += "; + verdict matrix over binder kinds x use forms x contexts (top, function, if, method)"
