"""C02 — every emitted file is syntactically valid Python 3."""
import gen_prog, gen_lex, sweep


PRE = ("class K(def v: Int)\n    def m(self, z: Int) -> Int => z + self.v\n"
       "def g(z: Int) -> Int => z + 1\ndef gb(z: Bool) -> Bool => z\n"
       "def a := 3\ndef c := 4\ndef b := True\ndef xs := [1, 2, 3]\ndef k := K(2)\n")
# expression shapes by type: every syntactic category the printer distinguishes
BOOL_SHAPES = ["b", "a > 2", "a > 2 and b", "a > 2 or b", "not b", "not (a > 2 and b)", "if b then a > 2 else a >= 2", "(a > 2)", "a = 2", "a != 2",
               "gb(b)", "gb(a > 2) or b", "a in xs", "(if b then b else not b) and b", "a > 2 and (b or a < 9)", "k isa K"]
INT_SHAPES = ["a", "7", "a + 1", "-a", "a * (c + 1)", "a - (c - 1)", "if b then 1 else 2", "g(a)", "g(if b then 1 else 2)", "k.v", "k.m(a)", "xs[0]", "(a)",
              "a ^ 2", "-(a + 1)", "(if b then 1 else 2) + 1", "a // 2", "a mod 2", "2E2 // 100", "g(g(a))",
              # every spelling of a number the lexer accepts
              "007", "00", "0", "02E03 // 1000", "1E0", "3E // 1"]
BOOL_CONTEXTS = ["def r := [y | y in xs, {E}]", "def r := [y | y in xs, y > 0, {E}]", "def r := [y | y in xs, {E}, y > 0]", "def r := {{y | y in xs, {E}}}",
                 "def r := {{y => y + 1 | y in xs, {E}}}", "if {E} then print(1)", "if {E} then print(1) else print(2)", "def r := if {E} then 1 else 2",
                 "while {E} do\n    b := False\n    a := 0", "def r: Bool := {E}", "def r := not ({E})", "def r := gb({E})", "print({E})", "def r := \"v={{{E}}}\"",
                 "def h(z: Bool := True) -> Bool => {E}", "def r := [{E}, b]", "def r := ({E}, 1)", "def r := ({E}) and b", "def r := b or ({E})",
                 "def r := match {E}\n    True => 1\n    False => 2", "def r := [[w | w in xs, {E}] | y in xs, {E}]"]
INT_CONTEXTS = ["def r := [{E}, {E}]", "def r := ({E}, {E})", "def r := {{{E}, 1}}", "def r := xs[{E} - {E}]", "for i in {E} .. {E} do print(i)", "for i in 0 ..= {E} .. {E} do print(i)",
                "def r := g({E})", "def r := k.m({E})", "def r := K({E})", "print({E})", "def r := \"v={{{E}}} w={{{E}}}\"", "def r := [{E} | y in xs]", "def r := [y + ({E}) | y in xs, y > {E}]",
                "def r := {{{E} => {E} | y in xs}}", "def r := match a\n    1 => {E}\n    _ => {E}", "def h(z: Int) -> Int => {E}", "def h(z: Int) -> Int =>\n    print(z)\n    {E}",
                "def r: Int := {E}", "def r := ({E}) * ({E})", "def r := -({E})", "def r := ({E}) > ({E})", "def r := if b then {E} else {E}", "a := {E}", "a += {E}",
                "def r := {E} handle\n    err: Exception => {E}"]


# inputs of repaired defects (known_findings.json `fixed:`): a regression is reported again
REPAIRED = ["def f(a: Int, a: Int) -> Int => a\n", "class J\n    def m(fin self, self, p: Str) -> Int => 1\n", "class K(def c: Int, def c: Int)\n", "print(007)\nprint(02.5)\nprint(02E03)\nprint(00)\n", "print(\"he\n wold\")\n", "def a := 2\nprint(\"x\n{a}y\")\n", "def b := True\ndef xs := [1, 2]\ndef r := {y => y + 1 | y in xs, if b then y > 1 else y >= 1}\n",
            "def b := True\ndef d := {1 => if b then 1 else 2}\n", "def b := True\ndef xs := [1, 2]\ndef r := {(if b then 1 else 2) => (if b then 5 else 6) | y in xs}\n"]


def string_grid():
    """string literals with every mix of characters that matter to a Python delimiter (apostrophe, escaped double quote,
    backslash escapes, doubled braces, non-ASCII), plain and interpolated, in a few positions"""
    parts = ["don't", "say \\\"hi\\\"", "a\\\\b", "tab\\there", "it's \\\"q\\\"", "é ü", "100%", "#no comment", "'", "''", "'\\\"'", "x = 'y'"]
    out = []
    for p_ in parts:
        for interp in ("", " {a}", "{a} ", " {a + 1} and {b}"):
            lit = '"' + p_ + interp + '"'
            out.append("def a := 3\ndef b := True\nprint(%s)\n" % lit)
            out.append("def a := 3\ndef b := True\ndef s := %s\nprint(s)\n" % lit)
            out.append("def a := 3\ndef b := True\ndef f(z: Str) -> Str => z\nprint(f(%s))\n" % lit)
    return out


def signature_grid():
    """parameter lists with every pattern of defaulted / plain / variadic parameters (1-4 parameters), for functions, methods
    and class arguments: whatever the checker accepts must be a valid Python signature"""
    import itertools
    out = []
    for n in range(1, 5):
        for pat in itertools.product("pd", repeat=n):
            ps = ", ".join("p%d: Int%s" % (i, " := %d" % i if k == "d" else "") for i, k in enumerate(pat))
            call = ", ".join(str(i) for i in range(n))
            out.append("def f(%s) -> Int => p0\nprint(f(%s))\n" % (ps, call))
            out.append("class K\n    def m(self, %s) -> Int => p0\nprint(K().m(%s))\n" % (ps, call))
            out.append("class K\n    def m(fin self, %s) -> Int => p0\nprint(K().m(%s))\n" % (ps, call))
            out.append("class K(%s)\n    def z: Int := 0\nprint(K(%s).z)\n" % (", ".join("def " + x for x in ps.split(", ")), call))
        for pos in range(n):
            ps = ", ".join(("vararg p%d: Int" % i) if i == pos else "p%d: Int" % i for i in range(n))
            out.append("def f(%s) -> Int => 1\nprint(f(%s))\n" % (ps, ", ".join(str(i) for i in range(n))))
            ps2 = ", ".join(("vararg p%d: Int" % i) if i == pos else "p%d: Int := 1" % i for i in range(n))
            out.append("def f(%s) -> Int => 1\nprint(f(%s))\n" % (ps2, ", ".join(str(i) for i in range(n))))
    return out


def context_grid(rng, thorough):
    """every expression shape in every syntactic context that takes an expression"""
    out = []
    for ctxs, shapes in ((BOOL_CONTEXTS, BOOL_SHAPES), (INT_CONTEXTS, INT_SHAPES)):
        for c in ctxs:
            for e in shapes:
                out.append(PRE + c.replace("{E}", e).replace("{{", "{").replace("}}", "}") + "\n")
            if thorough:
                for _ in range(12):      # different shapes in the holes of one context
                    t = c
                    while "{E}" in t:
                        t = t.replace("{E}", rng.choice(shapes), 1)
                    out.append(PRE + t.replace("{{", "{").replace("}}", "}") + "\n")
    return out


def run(chk):
    thorough = chk.tier == "thorough"
    ok = chk.build_harness()
    chk.translate(["CoreTables"])
    if chk.lake_build(["MambaVerif.Props.C02", "mvdrv"]):
        chk.audit("MambaVerif.Props.C02")
        if thorough:
            chk.leanchecker(["MambaVerif.Props.C02"])
    if not ok:
        return
    rng = chk.rng
    base = gen_prog.programs(chk, 300 if thorough else 50)
    texts = list(base)
    for _ in range(2500 if thorough else 350):
        t = rng.choice(base)
        for _ in range(rng.randint(1, 3)):
            t = gen_lex.mutate(rng, t)
        texts.append(t)
    grid = context_grid(rng, thorough) + signature_grid()
    texts += grid
    texts += [f["input"] for f in chk.findings if f.get("input")]
    texts += REPAIRED + string_grid()
    res = sweep.transpile(chk, texts)
    n_acc, distinct = 0, set()
    for i, (t, r) in enumerate(zip(texts, res)):
        for a in (0, 1):
            if r[a][0] != "ok":
                continue
            n_acc += 1
            distinct.add(t)
            why = sweep.compiles(r[a][1])
            if why:
                f = chk.known(t)
                if f:
                    chk.report_known(f, "emitted text is rejected by the Python compiler: " + why)
                elif len(chk.violations) < 5:
                    chk.violation("input", "emitted text (annotate=%d) is rejected by the Python compiler: %s" % (a, why),
                                  case={"kind": "prog", "annotate": a, "text": t}, actual=r[a][1][:3000])
        if i % 97 == 0:
            chk.sample({"input": t[:200], "accepted": r[0][0] == "ok"})
    layout(chk)
    chk.cov["oracle"] = {"spec": "compile(emitted, 'exec') succeeds for every emitted module, both annotate settings", "inputs": len(texts), "emitted_modules": n_acc, "expression_in_context_programs": len(grid)}
    chk.cov["evaluations"] = len(texts)
    chk.cov["distinct_nontrivial"] = len(distinct)
    chk.cov["rule"] = "distinct inputs accepted by the pipeline: repository samples, generated programs, token-level mutants of both, and the grid expression shape x syntactic context (comprehension conditions/elements, collections, calls, indexes, ranges, f-strings, match/handle arms, returns, defaults, operands) and the grid of parameter lists (every pattern of defaulted / plain / variadic parameters for functions, methods, class arguments)"


def layout(chk):
    """correspondence of the Lean model of comma_delimited (Props/C02.lean) with the real function, reached through
    format!(Core::TupleLiteral{..}) on item lists that include empty items and trailing white space"""
    from mvlib import unhex, hexs
    rng = chk.rng
    pool = ["a", "bc", "x1", "", "q ", " r", "é", "f(x)", "a, b", ",", " "]
    cases = []
    for _ in range(1500 if chk.tier == "thorough" else 300):
        cases.append([rng.choice(pool) for _ in range(rng.randint(0, 4))])
    ids = [("t%d" % i, "(TupleLiteral (%s))" % " ".join('(Id "%s")' % x for x in items)) for i, items in enumerate(cases)]
    impl = chk.harness("core", ids)
    have_model = chk.proof_broken is None or chk.proof_broken[0] not in ("proof-build", "translator")
    mod = chk.driver("commadelim", [("t%d" % i, " ".join(hexs(x) if x else "-" for x in items)) for i, items in enumerate(cases)]) if have_model else {}
    dis = 0
    for i, items in enumerate(cases):
        r = impl.get("t%d" % i, "")
        got = unhex(r[3:])[:-1] if r.startswith("ok ") else r      # format! appends a newline
        if mod:
            m = unhex(mod.get("t%d" % i, ""))
            if m != got:
                dis += 1
                if dis <= 3:
                    chk.broken("correspondence", "comma_delimited: implementation gives %r, model %r for items %r" % (got, m, items))
    chk.cov["correspondence"] = {"model": "MV.C02.commaDelimited vs generate::ast comma_delimited (through Core::TupleLiteral)", "evaluations": len(cases) if mod else 0, "disagreements": dis}
