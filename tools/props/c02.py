"""C02 — every emitted file is syntactically valid Python 3."""
import gen_prog, gen_lex, sweep


def run(chk):
    thorough = chk.tier == "thorough"
    ok = chk.build_harness()
    chk.translate(["CoreTables"])
    if chk.lake_build(["MambaVerif.Props.C02", "mvdrv"]):
        chk.audit("MambaVerif.Props.C02")
        if thorough:
            chk.leanchecker(["MambaVerif.Props.C02"])
    if not ok:
        return
    rng = chk.rng
    base = gen_prog.programs(chk, 300 if thorough else 50)
    texts = list(base)
    for _ in range(2500 if thorough else 350):
        t = rng.choice(base)
        for _ in range(rng.randint(1, 3)):
            t = gen_lex.mutate(rng, t)
        texts.append(t)
    texts += [f["input"] for f in chk.findings if f.get("input")]
    res = sweep.transpile(chk, texts)
    n_acc, distinct = 0, set()
    for i, (t, r) in enumerate(zip(texts, res)):
        for a in (0, 1):
            if r[a][0] != "ok":
                continue
            n_acc += 1
            distinct.add(t)
            why = sweep.compiles(r[a][1])
            if why:
                f = chk.known(t)
                if f:
                    chk.report_known(f, "emitted text is rejected by the Python compiler: " + why)
                elif len(chk.violations) < 5:
                    chk.violation("input", "emitted text (annotate=%d) is rejected by the Python compiler: %s" % (a, why),
                                  case={"kind": "prog", "annotate": a, "text": t}, actual=r[a][1][:3000])
        if i % 97 == 0:
            chk.sample({"input": t[:200], "accepted": r[0][0] == "ok"})
    layout(chk)
    chk.cov["oracle"] = {"spec": "compile(emitted, 'exec') succeeds for every emitted module, both annotate settings", "inputs": len(texts), "emitted_modules": n_acc}
    chk.cov["evaluations"] = len(texts)
    chk.cov["distinct_nontrivial"] = len(distinct)
    chk.cov["rule"] = "distinct inputs accepted by the pipeline: repository samples, generated programs, and token-level mutants of both"


def layout(chk):
    """correspondence of the Lean model of comma_delimited (Props/C02.lean) with the real function, reached through
    format!(Core::TupleLiteral{..}) on item lists that include empty items and trailing white space"""
    from mvlib import unhex, hexs
    rng = chk.rng
    pool = ["a", "bc", "x1", "", "q ", " r", "é", "f(x)", "a, b", ",", " "]
    cases = []
    for _ in range(1500 if chk.tier == "thorough" else 300):
        cases.append([rng.choice(pool) for _ in range(rng.randint(0, 4))])
    ids = [("t%d" % i, "(TupleLiteral (%s))" % " ".join('(Id "%s")' % x for x in items)) for i, items in enumerate(cases)]
    impl = chk.harness("core", ids)
    have_model = chk.proof_broken is None or chk.proof_broken[0] not in ("proof-build", "translator")
    mod = chk.driver("commadelim", [("t%d" % i, " ".join(hexs(x) if x else "-" for x in items)) for i, items in enumerate(cases)]) if have_model else {}
    dis = 0
    for i, items in enumerate(cases):
        r = impl.get("t%d" % i, "")
        got = unhex(r[3:])[:-1] if r.startswith("ok ") else r      # format! appends a newline
        if mod:
            m = unhex(mod.get("t%d" % i, ""))
            if m != got:
                dis += 1
                if dis <= 3:
                    chk.broken("correspondence", "comma_delimited: implementation gives %r, model %r for items %r" % (got, m, items))
    chk.cov["correspondence"] = {"model": "MV.C02.commaDelimited vs generate::ast comma_delimited (through Core::TupleLiteral)", "evaluations": len(cases) if mod else 0, "disagreements": dis}
