"""Parser for the canonical token dump `ok T(Kind,l1,c1,l2,c2,hex[,[[..][..]]]) ...` / `err l c`."""


class Tok:
    __slots__ = ("kind", "l1", "c1", "l2", "c2", "text", "nested")

    def __init__(self, kind, l1, c1, l2, c2, text, nested):
        self.kind, self.l1, self.c1, self.l2, self.c2, self.text, self.nested = kind, l1, c1, l2, c2, text, nested

    def __repr__(self):
        return "%s@%d:%d-%d:%d %r" % (self.kind, self.l1, self.c1, self.l2, self.c2, self.text)


def parse_dump(s):
    """-> ('ok', [Tok]) | ('err', (l, c)) | ('other', s)"""
    if s.startswith("err "):
        _, l, c = s.split()
        return "err", (int(l), int(c))
    if not s.startswith("ok"):
        return "other", s
    body = s[2:].lstrip(" ")
    toks, i = _list(body, 0)
    return "ok", toks


def _list(s, i):
    out = []
    while i < len(s) and s[i] != "]":
        if s[i] == " ":
            i += 1
            continue
        t, i = _tok(s, i)
        out.append(t)
    return out, i


def _tok(s, i):
    assert s.startswith("T(", i), s[i:i + 20]
    i += 2
    fields = []
    for _ in range(5):
        j = s.index(",", i)
        fields.append(s[i:j])
        i = j + 1
    j = i
    while j < len(s) and s[j] not in ",)":
        j += 1
    text = bytes.fromhex(s[i:j]).decode("utf-8", "replace")
    i = j
    nested = []
    if s[i] == ",":
        assert s[i + 1] == "["
        i += 2
        while s[i] == "[":
            grp, i = _list(s, i + 1)
            assert s[i] == "]"
            i += 1
            nested.append(grp)
        assert s[i] == "]"
        i += 1
    assert s[i] == ")"
    return Tok(fields[0], int(fields[1]), int(fields[2]), int(fields[3]), int(fields[4]), text, nested), i + 1
