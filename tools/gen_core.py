"""G-core: Core expression trees (as S-expressions) + the Python AST each must print as."""
import ast, itertools

BIN = {"Ge": "Gt", "Geq": "GtE", "Le": "Lt", "Leq": "LtE", "Is": "Is", "IsN": "IsNot", "Eq": "Eq", "Neq": "NotEq", "In": "In",
       "And": "And", "Or": "Or", "Add": "Add", "Sub": "Sub", "Mul": "Mult", "Div": "Div", "FDiv": "FloorDiv", "Pow": "Pow", "Mod": "Mod",
       "BAnd": "BitAnd", "BOr": "BitOr", "BXOr": "BitXor", "BLShift": "LShift", "BRShift": "RShift"}
CMP = {"Ge", "Geq", "Le", "Leq", "Is", "IsN", "Eq", "Neq", "In"}
UN = {"Not": "Not", "AddU": "UAdd", "SubU": "USub", "BOneCmpl": "Invert"}

# a tree is a tuple: (tag, children...) ; leaves ("Id", name) ("Int", text) ("ENum", n, e)


def sexp(t):
    tag = t[0]
    if tag in ("Id", "Int"):
        return "(%s %s)" % (tag, t[1])
    if tag == "ENum":
        return "(ENum %s %s)" % (t[1], t[2])
    if tag in ("AnonFun",):
        return "(AnonFun (%s) %s)" % (" ".join(sexp(a) for a in t[1]), sexp(t[2]))
    if tag == "FunctionCall":
        return "(FunctionCall %s (%s))" % (sexp(t[1]), " ".join(sexp(a) for a in t[2]))
    if tag in ("Tuple", "List", "Set"):
        return "(%s (%s))" % (tag, " ".join(sexp(a) for a in t[1]))
    if tag in ("ListComp", "SetComp"):
        _, elt, var, it, conds = t
        return "(%s ((Comprehension %s (In (Id %s) %s) (%s))))" % ("List" if tag == "ListComp" else "Set", sexp(elt), var, sexp(it), " ".join(sexp(c) for c in conds))
    if tag == "DictComp":
        _, k, v, var, it, conds = t
        return "(DictComprehension %s %s (In (Id %s) %s) (%s))" % (sexp(k), sexp(v), var, sexp(it), " ".join(sexp(c) for c in conds))
    return "(%s %s)" % (tag, " ".join(sexp(c) for c in t[1:]))


def expected(t):
    """canonical form of the Python AST the tree denotes"""
    tag = t[0]
    if tag == "Id":
        return ("Name", t[1])
    if tag == "Int":
        return ("Const", t[1])
    if tag == "ENum":
        return ("BinOp", "Mult", ("Const", t[1]), ("BinOp", "Pow", ("Const", "10"), ("Const", t[2])))
    if tag in CMP:
        return ("Compare", BIN[tag], expected(t[1]), expected(t[2]))
    if tag in ("And", "Or"):
        return ("BoolOp", BIN[tag], expected(t[1]), expected(t[2]))
    if tag in BIN:
        return ("BinOp", BIN[tag], expected(t[1]), expected(t[2]))
    if tag in UN:
        return ("UnaryOp", UN[tag], expected(t[1]))
    if tag == "Ternary":
        return ("IfExp", expected(t[1]), expected(t[2]), expected(t[3]))
    if tag == "AnonFun":
        return ("Lambda", tuple(a[1] for a in t[1]), expected(t[2]))
    if tag == "FunctionCall":
        return ("Call", expected(t[1]), tuple(expected(a) for a in t[2]))
    if tag == "PropertyCall":
        o, p = t[1], t[2]
        if p[0] == "Id":
            return ("Attribute", expected(o), p[1])
        if p[0] == "FunctionCall" and p[1][0] == "Id":
            return ("Call", ("Attribute", expected(o), p[1][1]), tuple(expected(a) for a in p[2]))
        raise ValueError("unsupported property shape")
    if tag == "Index":
        return ("Subscript", expected(t[1]), expected(t[2]))
    if tag == "IsA":
        return ("Call", ("Name", "isinstance"), (expected(t[1]), expected(t[2])))
    if tag == "Sqrt":
        return ("Call", ("Attribute", ("Name", "math"), "sqrt"), (expected(t[1]),))
    if tag in ("Tuple", "List", "Set"):
        return (tag, tuple(expected(a) for a in t[1]))
    if tag in ("ListComp", "SetComp", "DictComp"):
        conds = t[-1]
        ifs = ()
        if conds:
            acc = expected(conds[0])
            for c in conds[1:]:
                acc = ("BoolOp", "And", acc, expected(c))     # each condition is one operand of the chain the printer builds
            ifs = (acc,)
        if tag == "DictComp":
            return ("DictComp", expected(t[1]), expected(t[2]), t[3], expected(t[4]), ifs)
        return (tag, expected(t[1]), t[2], expected(t[3]), ifs)
    raise ValueError(tag)


def canon(node):
    """canonical form of a CPython ast expression node (same shape as `expected`)"""
    if isinstance(node, ast.Name):
        return ("Name", node.id)
    if isinstance(node, ast.Constant):
        return ("Const", repr(node.value) if not isinstance(node.value, int) or isinstance(node.value, bool) else str(node.value))
    if isinstance(node, ast.BinOp):
        return ("BinOp", type(node.op).__name__, canon(node.left), canon(node.right))
    if isinstance(node, ast.BoolOp):
        vals = [canon(v) for v in node.values]
        acc = vals[0]
        for v in vals[1:]:
            acc = ("BoolOp", type(node.op).__name__, acc, v)
        return acc
    if isinstance(node, ast.Compare):
        if len(node.ops) == 1:
            return ("Compare", type(node.ops[0]).__name__, canon(node.left), canon(node.comparators[0]))
        return ("Chain", tuple(type(o).__name__ for o in node.ops), canon(node.left), tuple(canon(c) for c in node.comparators))
    if isinstance(node, ast.UnaryOp):
        return ("UnaryOp", type(node.op).__name__, canon(node.operand))
    if isinstance(node, ast.IfExp):
        return ("IfExp", canon(node.test), canon(node.body), canon(node.orelse))
    if isinstance(node, ast.Lambda):
        return ("Lambda", tuple(a.arg for a in node.args.args), canon(node.body))
    if isinstance(node, ast.Call):
        return ("Call", canon(node.func), tuple(canon(a) for a in node.args))
    if isinstance(node, ast.Attribute):
        return ("Attribute", canon(node.value), node.attr)
    if isinstance(node, ast.Subscript):
        return ("Subscript", canon(node.value), canon(node.slice))
    if isinstance(node, ast.Tuple):
        return ("Tuple", tuple(canon(e) for e in node.elts))
    if isinstance(node, ast.List):
        return ("List", tuple(canon(e) for e in node.elts))
    if isinstance(node, ast.Set):
        return ("Set", tuple(canon(e) for e in node.elts))
    if isinstance(node, (ast.ListComp, ast.SetComp)) and len(node.generators) == 1 and isinstance(node.generators[0].target, ast.Name):
        g = node.generators[0]
        return (type(node).__name__, canon(node.elt), g.target.id, canon(g.iter), tuple(canon(i) for i in g.ifs))
    if isinstance(node, ast.DictComp) and len(node.generators) == 1 and isinstance(node.generators[0].target, ast.Name):
        g = node.generators[0]
        return ("DictComp", canon(node.key), canon(node.value), g.target.id, canon(g.iter), tuple(canon(i) for i in g.ifs))
    return ("Other", ast.dump(node))


def parse_expr(text):
    try:
        m = ast.parse(text.strip(), mode="eval")
    except SyntaxError as e:
        return ("SyntaxError", str(e))
    return canon(m.body)


LEAVES = [("Id", "a"), ("Id", "b"), ("Int", "1"), ("Int", "2")]


def shapes(children):
    """all one-level nodes whose operand slots are filled from `children` (a list of callables giving subtrees)"""
    out = []
    for op in BIN:
        out.append(("bin", op))
    for op in UN:
        out.append(("un", op))
    return out


def nodes_over(subs, leaf):
    """every node form with each operand position filled by each element of `subs` (other positions: leaves)"""
    a, b, c = leaf("a"), leaf("b"), leaf("c")
    for s in subs:
        for op in BIN:
            yield (op, s, b)
            yield (op, a, s)
        for op in UN:
            yield (op, s)
        yield ("Ternary", s, a, b)
        yield ("Ternary", a, s, b)
        yield ("Ternary", a, b, s)
        yield ("AnonFun", [], s)
        yield ("AnonFun", [("Id", "x")], s)
        yield ("FunctionCall", s, [a])
        yield ("FunctionCall", ("Id", "f"), [s, b])
        yield ("PropertyCall", s, ("Id", "p"))
        yield ("PropertyCall", s, ("FunctionCall", ("Id", "m"), [a]))
        yield ("PropertyCall", a, ("FunctionCall", ("Id", "m"), [s]))
        yield ("Index", s, a)
        yield ("Index", a, s)
        yield ("IsA", s, ("Id", "Int"))
        yield ("Sqrt", s)
        yield ("Tuple", [s, a])
        yield ("List", [s])
        yield ("Set", [a, s])


def leaf(n):
    return ("Id", n)


def depth1():
    return list(nodes_over([("Id", "x"), ("Int", "7"), ("ENum", "3", "2")], leaf))


def depth2():
    return list(nodes_over(depth1(), leaf))


def depth3_sample(rng, n):
    d2 = depth2()
    out = []
    for _ in range(n):
        s = rng.choice(d2)
        out.append(rng.choice(list(nodes_over([s], leaf))))
    return out


def random_tree(rng, depth):
    if depth <= 0 or rng.random() < 0.15:
        return rng.choice([("Id", rng.choice("abcxyz")), ("Int", str(rng.randint(0, 99))), ("ENum", "3", "2")])
    sub = lambda: random_tree(rng, depth - 1)
    r = rng.random()
    if r < 0.55:
        return (rng.choice(list(BIN)), sub(), sub())
    if r < 0.68:
        return (rng.choice(list(UN)), sub())
    if r < 0.76:
        return ("Ternary", sub(), sub(), sub())
    if r < 0.80:
        return ("AnonFun", [("Id", "x")] if rng.random() < 0.5 else [], sub())
    if r < 0.86:
        return ("FunctionCall", sub(), [sub() for _ in range(rng.randint(0, 2))])
    if r < 0.91:
        return ("PropertyCall", sub(), rng.choice([("Id", "p"), ("FunctionCall", ("Id", "m"), [sub()])]))
    if r < 0.94:
        return ("Index", sub(), sub())
    if r < 0.96:
        return ("IsA", sub(), ("Id", "Int"))
    if r < 0.98:
        return ("Sqrt", sub())
    return (rng.choice(["Tuple", "List"]), [sub(), sub()])


def comprehensions(rng, n):
    """builders: element, iterable and 0-3 conditions of every expression kind; the printer joins the conditions with `and`"""
    a, b, c, y = ("Id", "a"), ("Id", "b"), ("Id", "c"), ("Id", "y")
    cond_forms = [("Or", a, b), ("And", a, b), ("Not", a), ("Ge", y, a), ("Eq", ("Mod", y, ("Int", "2")), ("Int", "0")), ("Ternary", a, b, c), ("Id", "a"),
                  ("Or", ("And", a, b), c), ("Not", ("Or", a, b)), ("In", y, ("Id", "zs")), ("Is", a, b), ("AnonFun", [], a), ("FunctionCall", ("Id", "p"), [y]),
                  ("BOr", a, b), ("Leq", a, ("Add", b, c))]
    elts = [y, ("Add", y, a), ("Ternary", a, y, b), ("Tuple", [y, a]), ("AnonFun", [("Id", "x")], y), ("Or", y, a), ("FunctionCall", ("Id", "f"), [y])]
    its = [("Id", "ys"), ("FunctionCall", ("Id", "g"), [a]), ("Ternary", a, ("Id", "ys"), ("Id", "zs")), ("Or", ("Id", "ys"), ("Id", "zs")), ("List", [a, b])]
    out = []
    # systematic: every ordered pair of condition forms, every single form, with the plain element
    for c1 in cond_forms:
        out.append(("ListComp", y, "y", ("Id", "ys"), [c1]))
        for c2 in cond_forms:
            out.append(("ListComp", y, "y", ("Id", "ys"), [c1, c2]))
    for _ in range(n):
        conds = [rng.choice(cond_forms) if rng.random() < 0.7 else random_tree(rng, 2) for _ in range(rng.randint(0, 3))]
        kind = rng.choice(["ListComp", "ListComp", "SetComp", "DictComp"])
        if kind == "DictComp":
            out.append(("DictComp", rng.choice(elts), rng.choice(elts), "y", rng.choice(its), conds))
        else:
            out.append((kind, rng.choice(elts), "y", rng.choice(its), conds))
    return out


RBIN = {v: k for k, v in BIN.items()}
RUN = {v: k for k, v in UN.items()}


def dump_canon(c):
    """render `canon`/`expected` tuples in the dump format of the Lean PyAst"""
    t = c[0]
    if t in ("Name", "Const"):
        return c[1]
    if t in ("BinOp", "BoolOp", "Compare"):
        return "(%s %s %s)" % (RBIN[c[1]], dump_canon(c[2]), dump_canon(c[3]))
    if t == "UnaryOp":
        return "(%s %s)" % (RUN[c[1]], dump_canon(c[2]))
    if t == "IfExp":
        return "(IfExp %s %s %s)" % (dump_canon(c[1]), dump_canon(c[2]), dump_canon(c[3]))
    if t == "Lambda":
        return "(Lambda (%s) %s)" % (" ".join(c[1]), dump_canon(c[2]))
    if t == "Call":
        return "(Call %s (%s))" % (dump_canon(c[1]), " ".join(dump_canon(a) for a in c[2]))
    if t == "Attribute":
        return "(Attr %s %s)" % (dump_canon(c[1]), c[2])
    if t == "Subscript":
        return "(Subscript %s %s)" % (dump_canon(c[1]), dump_canon(c[2]))
    if t in ("Tuple", "List", "Set"):
        return "(%s (%s))" % (t, " ".join(dump_canon(a) for a in c[1]))
    if t == "Chain":
        return "(Chain ...)"
    return "(%s)" % t
