/-
No Rust panic site of the lexer is reachable: the byte slice `cur_expr[0..len-1]` always ends on a
character boundary, and the nesting fuel of the model never runs out.
-/
import MambaVerif.Lemmas.LexBasic

namespace MV

def StrScan.Inv (s : StrScan) : Prop := s.panicked = false ∧ (s.build ≤ 0 → s.curExpr = [])

theorem exprDone_head {c : Char} {s : StrScan} (hb : s.build ≤ 0 → s.curExpr = [])
    (h : exprDone c s = true) : (curExprOf c s).head? = some '}' := by
  unfold exprDone at h
  simp only [Bool.and_eq_true, beq_iff_eq, Bool.not_eq_true', List.isEmpty_eq_false_iff] at h
  obtain ⟨hz, hne⟩ := h
  unfold curExprOf at hne ⊢
  unfold buildOf at hz
  by_cases hpos : s.build > 0
  · simp only [hpos, if_true, List.head?_cons]
    by_cases h1 : c = '{'
    · simp [h1] at hz; omega
    · by_cases h2 : c = '}'
      · rw [h2]
      · simp [h1, h2] at hz; omega
  · simp only [hpos, if_false] at hne
    exact absurd (hb (by omega)) hne

theorem scanStep_inv (c : Char) (s : StrScan) (h : s.Inv) : (scanStep c s).Inv := by
  obtain ⟨hp, hb⟩ := h
  unfold scanStep
  by_cases hbs : s.backSlash = true
  · rw [if_pos hbs]
    refine ⟨hp, ?_⟩
    intro hle
    simp only at hle ⊢
    unfold curExprOf
    have hnp : ¬ s.build > 0 := by omega
    rw [if_neg hnp]; exact hb hle
  · rw [if_neg hbs]
    by_cases hd : exprDone c s = true
    · rw [if_pos hd]
      refine ⟨?_, fun _ => rfl⟩
      simp only [exprDone_head hb hd, hp]; decide
    · rw [if_neg hd]
      refine ⟨hp, ?_⟩
      intro hle
      simp only at hle ⊢
      unfold exprDone at hd
      unfold curExprOf at hd ⊢
      unfold buildOf at hd hle
      by_cases hpos : s.build > 0
      · exfalso
        by_cases h1 : c = '{'
        · simp [h1] at hle; omega
        · by_cases h2 : c = '}'
          · simp [h2, hpos] at hd hle; omega
          · simp [h1, h2] at hle; omega
      · simp only [hpos, if_false]; exact hb (by omega)

theorem scanStr_inv (cs : List Char) : ∀ (s : StrScan), s.Inv → (scanStr cs s).Inv := by
  induction cs with
  | nil => intro s h; exact h
  | cons c cs ih =>
    intro s h
    unfold scanStr
    split
    · exact h
    · exact ih _ (scanStep_inv c s h)

theorem curExprOf_len (c : Char) (s : StrScan) : (curExprOf c s).length ≤ s.curExpr.length + 1 := by
  unfold curExprOf; split <;> simp

theorem scanStep_curExpr_len (c : Char) (s : StrScan) : (scanStep c s).curExpr.length ≤ s.curExpr.length + 1 := by
  unfold scanStep
  by_cases hbs : s.backSlash = true
  · rw [if_pos hbs]; exact curExprOf_len c s
  · rw [if_neg hbs]
    by_cases hd : exprDone c s = true
    · rw [if_pos hd]; simp
    · rw [if_neg hd]; exact curExprOf_len c s

theorem scanStep_exprs (c : Char) (s : StrScan) (pe : List Char × List Char) (h : pe ∈ (scanStep c s).exprs) :
    pe ∈ s.exprs ∨ pe.2.length ≤ s.curExpr.length := by
  unfold scanStep at h
  by_cases hbs : s.backSlash = true
  · rw [if_pos hbs] at h; exact Or.inl h
  · rw [if_neg hbs] at h
    by_cases hd : exprDone c s = true
    · rw [if_pos hd] at h
      simp only at h
      by_cases ht : (curExprOf c s).tail.isEmpty = true
      · rw [if_pos ht] at h; exact Or.inl h
      · rw [if_neg ht] at h
        rcases List.mem_cons.mp h with h' | h'
        · right; subst h'
          have := curExprOf_len c s
          simp only [List.length_reverse, List.length_tail]; omega
        · exact Or.inl h'
    · rw [if_neg hd] at h; exact Or.inl h

theorem scanStr_exprs_short (cs : List Char) : ∀ (s : StrScan) (pe : List Char × List Char),
    pe ∈ (scanStr cs s).exprs → pe ∈ s.exprs ∨ pe.2.length < s.curExpr.length + cs.length := by
  induction cs with
  | nil => intro s pe h; exact Or.inl h
  | cons c cs ih =>
    intro s pe h
    unfold scanStr at h
    split at h
    · exact Or.inl h
    · rcases ih _ pe h with h' | h'
      · rcases scanStep_exprs c s pe h' with h'' | h''
        · exact Or.inl h''
        · right; simp; omega
      · right
        have := scanStep_curExpr_len c s
        simp; omega

/-- a result that is not a panic -/
def LexRes.NoPanic {α : Type} : LexRes α → Prop
  | .panic _ => False
  | _ => True

theorem nestedAll_noPanic (nested : List Char → LexRes (List Lex)) (pos : CaretPos)
    (exprs : List (List Char × List Char)) (h : ∀ pe ∈ exprs, (nested pe.2).NoPanic) :
    (nestedAll nested pos exprs).NoPanic := by
  induction exprs with
  | nil => simp [nestedAll, LexRes.NoPanic]
  | cons x xs ih =>
    obtain ⟨pre, e⟩ := x
    have hx := h (pre, e) (by simp)
    have hxs := ih (fun pe hpe => h pe (by simp [hpe]))
    simp only [nestedAll]
    cases hn : nested e with
    | err p => simp [LexRes.NoPanic]
    | panic n => rw [hn] at hx; exact absurd hx (by simp [LexRes.NoPanic])
    | ok toks =>
      simp only []
      cases hr : nestedAll nested pos xs with
      | err p => simp [LexRes.NoPanic]
      | panic n => rw [hr] at hxs; exact absurd hxs (by simp [LexRes.NoPanic])
      | ok more => simp [LexRes.NoPanic]

theorem str_not_panicked (rest : List Char) : ¬ (scanStr rest StrScan.init).panicked = true := by
  rw [(scanStr_inv rest StrScan.init ⟨rfl, fun _ => rfl⟩).1]; simp

theorem str_nested_noPanic (nested : List Char → LexRes (List Lex)) (pos : CaretPos) (rest : List Char)
    (hn : ∀ e : List Char, e.length < rest.length → (nested e).NoPanic) (m : Nat) :
    ¬ nestedAll nested pos (scanStr rest StrScan.init).exprs.reverse = .panic m := by
  intro hm
  have hnp := nestedAll_noPanic nested pos (scanStr rest StrScan.init).exprs.reverse (by
    intro pe hpe
    apply hn
    rcases scanStr_exprs_short rest StrScan.init pe (by simpa using hpe) with h' | h'
    · simp [StrScan.init] at h'
    · simpa [StrScan.init] using h')
  rw [hm] at hnp
  exact hnp

theorem classify_noPanic (nested : List Char → LexRes (List Lex)) (pos : CaretPos) (c : Char) (rest : List Char)
    (hn : ∀ e : List Char, e.length < rest.length → (nested e).NoPanic) (n : Nat) :
    classify nested pos c rest ≠ .panic n := by
  intro h
  unfold classify at h
  simp only [] at h
  repeat (
    have h2 := ite_elim h
    clear h
    rcases h2 with ⟨-, h⟩ | ⟨-, h⟩
    · (repeat' split at h)
      all_goals first
        | (exfalso; simp at h; done)
        | (exact absurd ‹(scanStr rest StrScan.init).panicked = true› (str_not_panicked rest))
        | (rename_i m hm; exact absurd hm (str_nested_noPanic nested pos rest hn m)))
  simp at h

end MV
