/-
Unfolding lemmas for the Python grammar model and the "for all sufficient fuel" combinators.
-/
import MambaVerif.Model.PyExpr

namespace MV

/-- `f` evaluates to `x` for all sufficient fuel -/
def Ev {α : Type} (f : Nat → Option α) (x : α) : Prop := ∃ n, ∀ m, n ≤ m → f m = some x

theorem Ev.unique {α : Type} {f : Nat → Option α} {x y : α} (hx : Ev f x) (hy : Ev f y) : x = y := by
  obtain ⟨n1, h1⟩ := hx; obtain ⟨n2, h2⟩ := hy
  have a := h1 (max n1 n2) (Nat.le_max_left _ _)
  have b := h2 (max n1 n2) (Nat.le_max_right _ _)
  rw [a] at b; exact Option.some.inj b

/-- no continuation token of level ≥ `j` follows -/
def Stop (j : Nat) (r : List PTok) : Prop := ∀ t, r.head? = some t → ∀ l, contLevel t = some l → l < j

theorem Stop.mono {j j' : Nat} {r : List PTok} (h : Stop j r) (hj : j ≤ j') : Stop j' r :=
  fun t ht l hl => Nat.lt_of_lt_of_le (h t ht l hl) hj

/-- no prefix form applies at level `k` -/
def NoPrefixAt (k : Nat) (ts : List PTok) : Prop := prefixForm k ts = none ∧ headIsLambda ts = false

/-! ### one-step unfoldings -/

theorem parse_word (n : Nat) (s : String) (r : List PTok) :
    parse (n + 1) 15 (.word s :: r) = cont n 15 (.name s) r := by
  conv => lhs; unfold parse
  simp

theorem parse_paren (n : Nat) (r : List PTok) (a : PyAst) (r' : List PTok)
    (h : parse n 1 r = some (a, .rpar :: r')) :
    parse (n + 1) 15 (.lpar :: r) = cont n 15 a r' := by
  conv => lhs; unfold parse
  simp [h]

theorem parse_down (n k : Nat) (ts : List PTok) (hk : k < 15) (hp : NoPrefixAt k ts) :
    parse (n + 1) k ts = (parse n (k + 1) ts).bind (fun p => cont n k p.1 p.2) := by
  obtain ⟨hp1, hp2⟩ := hp
  have hk' : ¬ (k ≥ 15) := by omega
  conv => lhs; unfold parse
  simp only [hk', if_false, hp2, hp1]
  cases parse n (k + 1) ts with
  | none => rfl
  | some p => cases p; rfl

theorem parse_prefix (n k : Nat) (u : UnOp) (ts' : List PTok) (hk : k < 15)
    (hp : prefixForm k (.uop u :: ts') = some (u, ts')) :
    parse (n + 1) k (.uop u :: ts') = (parse n k ts').bind (fun p => some (.un u p.1, p.2)) := by
  have hk' : ¬ (k ≥ 15) := by omega
  conv => lhs; unfold parse
  simp only [hk', if_false, hp, headIsLambda]
  cases parse n k ts' with
  | none => simp
  | some p => cases p; simp

theorem cont_exit (n k : Nat) (acc : PyAst) (ts : List PTok)
    (h : ∀ t, ts.head? = some t → contLevel t ≠ some k) : cont (n + 1) k acc ts = some (acc, ts) := by
  conv => lhs; unfold cont
  split
  · rename_i o ts'
    have := h (.bop o) rfl
    simp only [contLevel] at this
    have hne : ¬ pyLevel o = k := fun e => this (by rw [e])
    simp [hne]
  · rename_i ts'
    have := h .kIf rfl
    simp only [contLevel] at this
    have hne : ¬ k = 2 := fun e => this (by rw [e])
    simp [hne]
  · rename_i s r
    have := h .dot rfl
    simp only [contLevel] at this
    have hne : ¬ k = 15 := fun e => this (by rw [e])
    simp [hne]
  · rename_i r
    have := h .lpar rfl
    simp only [contLevel] at this
    have hne : ¬ k = 15 := fun e => this (by rw [e])
    simp [hne]
  · rename_i r
    have := h .lbr rfl
    simp only [contLevel] at this
    have hne : ¬ k = 15 := fun e => this (by rw [e])
    simp [hne]
  · rfl

theorem cont_left (n k : Nat) (acc : PyAst) (o : BinOp) (ts' : List PTok) (hl : isLeft k = true)
    (ho : pyLevel o = k) :
    cont (n + 1) k acc (.bop o :: ts') =
      (parse n (k + 1) ts').bind (fun p => cont n k (.bin o acc p.1) p.2) := by
  have h14 : ¬ k = 14 := by intro e; subst e; simp [isLeft] at hl
  have h6 : ¬ k = 6 := by intro e; subst e; simp [isLeft] at hl
  conv => lhs; unfold cont
  simp only [ho, h14, h6, hl, if_true, if_false]
  cases parse n (k + 1) ts' with
  | none => simp
  | some p => cases p; simp

theorem cont_pow (n : Nat) (acc : PyAst) (o : BinOp) (ts' : List PTok) (ho : pyLevel o = 14) :
    cont (n + 1) 14 acc (.bop o :: ts') =
      (parse n 13 ts').bind (fun p => some (.bin o acc p.1, p.2)) := by
  conv => lhs; unfold cont
  simp only [ho, if_true]
  cases parse n 13 ts' with
  | none => simp
  | some p => cases p; simp

theorem cont_cmp (n : Nat) (acc : PyAst) (o : BinOp) (ts' : List PTok) (ho : pyLevel o = 6) :
    cont (n + 1) 6 acc (.bop o :: ts') =
      (parse n 7 ts').bind (fun p => chainMore n (.bin o acc p.1) p.2) := by
  conv => lhs; unfold cont
  simp only [ho, if_true]
  cases parse n 7 ts' with
  | none => simp
  | some p => cases p; simp

theorem chainMore_exit (n : Nat) (acc : PyAst) (ts : List PTok)
    (h : ∀ t, ts.head? = some t → contLevel t ≠ some 6) : chainMore (n + 1) acc ts = some (acc, ts) := by
  conv => lhs; unfold chainMore
  split
  · rename_i o ts'
    have := h (.bop o) rfl
    simp only [contLevel] at this
    have hne : ¬ pyLevel o = 6 := fun e => this (by rw [e])
    simp [hne]
  · rfl

end MV
