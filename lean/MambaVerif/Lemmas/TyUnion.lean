/-
`Name::union` as a set of members (identified by their canonical key): commutative, associative and
idempotent, for names without a `None` member (the branch that folds `None` into nullable members is
decided on the universe by the oracle and the model correspondence, not here).
-/
import MambaVerif.Model.Ty

namespace MV

/-- the same set of members, members identified by their canonical key (`TName.key`, the model of `Eq`) -/
def SameKeys (xs ys : List TName) : Prop :=
  ∀ k : String, (∃ x ∈ xs, x.key = k) ↔ (∃ y ∈ ys, y.key = k)

theorem SameKeys.refl (xs : List TName) : SameKeys xs xs := fun _ => Iff.rfl
theorem SameKeys.symm {xs ys : List TName} (h : SameKeys xs ys) : SameKeys ys xs := fun k => (h k).symm
theorem SameKeys.trans {xs ys zs : List TName} (h1 : SameKeys xs ys) (h2 : SameKeys ys zs) : SameKeys xs zs :=
  fun k => (h1 k).trans (h2 k)

theorem memList_iff (x : TName) (xs : List TName) :
    TName.memList x xs = true ↔ ∃ y ∈ xs, x.key = y.key := by
  unfold TName.memList
  rw [List.any_eq_true]
  constructor
  · rintro ⟨y, hy, hb⟩
    exact ⟨y, hy, by simpa [TName.beq] using hb⟩
  · rintro ⟨y, hy, hk⟩
    exact ⟨y, hy, by simpa [TName.beq] using hk⟩

/-- removing duplicates keeps the set of members -/
theorem dedupT_keys : ∀ (xs : List TName), SameKeys (dedupT xs) xs
  | [] => SameKeys.refl []
  | x :: xs => by
    have ih := dedupT_keys xs
    intro k
    unfold dedupT
    by_cases hm : TName.memList x xs = true
    · rw [if_pos hm]
      obtain ⟨y, hy, hxy⟩ := (memList_iff x xs).mp hm
      constructor
      · rintro ⟨z, hz, hzk⟩
        obtain ⟨w, hw, hwk⟩ := (ih k).mp ⟨z, hz, hzk⟩
        exact ⟨w, List.mem_cons_of_mem _ hw, hwk⟩
      · rintro ⟨z, hz, hzk⟩
        rcases List.mem_cons.mp hz with rfl | hz'
        · exact (ih k).mpr ⟨y, hy, hxy ▸ hzk⟩
        · exact (ih k).mpr ⟨z, hz', hzk⟩
    · rw [if_neg hm]
      constructor
      · rintro ⟨z, hz, hzk⟩
        rcases List.mem_cons.mp hz with rfl | hz'
        · exact ⟨z, by simp, hzk⟩
        · obtain ⟨w, hw, hwk⟩ := (ih k).mp ⟨z, hz', hzk⟩
          exact ⟨w, List.mem_cons_of_mem _ hw, hwk⟩
      · rintro ⟨z, hz, hzk⟩
        rcases List.mem_cons.mp hz with rfl | hz'
        · exact ⟨z, by simp, hzk⟩
        · obtain ⟨w, hw, hwk⟩ := (ih k).mpr ⟨z, hz', hzk⟩
          exact ⟨w, List.mem_cons_of_mem _ hw, hwk⟩

theorem dedupT_sub : ∀ (xs : List TName) (x : TName), x ∈ dedupT xs → x ∈ xs
  | [], x, h => by simp [dedupT] at h
  | y :: ys, x, h => by
    unfold dedupT at h
    split at h
    · exact List.mem_cons_of_mem _ (dedupT_sub ys x h)
    · rcases List.mem_cons.mp h with rfl | h'
      · simp
      · exact List.mem_cons_of_mem _ (dedupT_sub ys x h')

/-- no member is `None` -/
def NoNull (xs : List TName) : Prop := ∀ x ∈ xs, x.isNull = false

/-- without a `None` member the union is the duplicate-free concatenation -/
theorem union_names_of_noNull (a b : NameT) (h : NoNull (a.names ++ b.names)) :
    (a.union b).names = dedupT (a.names ++ b.names) := by
  cases a with
  | mk ia na =>
    cases b with
    | mk ib nb =>
      simp only [NameT.names] at h ⊢
      have hany : (dedupT (na ++ nb)).any TName.isNull = false := by
        rw [List.any_eq_false]
        intro x hx
        have := h x (dedupT_sub _ x hx)
        simp [this]
      simp only [NameT.union, NameT.names, hany, Bool.false_and, Bool.false_eq_true, if_false]

theorem sameKeys_append_comm (xs ys : List TName) : SameKeys (xs ++ ys) (ys ++ xs) := by
  intro k
  constructor <;>
  · rintro ⟨z, hz, hzk⟩
    rcases List.mem_append.mp hz with h | h
    · exact ⟨z, List.mem_append.mpr (Or.inr h), hzk⟩
    · exact ⟨z, List.mem_append.mpr (Or.inl h), hzk⟩

theorem sameKeys_append_congr {xs xs' ys ys' : List TName} (h1 : SameKeys xs xs') (h2 : SameKeys ys ys') :
    SameKeys (xs ++ ys) (xs' ++ ys') := by
  intro k
  constructor
  · rintro ⟨z, hz, hzk⟩
    rcases List.mem_append.mp hz with h | h
    · obtain ⟨w, hw, hwk⟩ := (h1 k).mp ⟨z, h, hzk⟩
      exact ⟨w, List.mem_append.mpr (Or.inl hw), hwk⟩
    · obtain ⟨w, hw, hwk⟩ := (h2 k).mp ⟨z, h, hzk⟩
      exact ⟨w, List.mem_append.mpr (Or.inr hw), hwk⟩
  · rintro ⟨z, hz, hzk⟩
    rcases List.mem_append.mp hz with h | h
    · obtain ⟨w, hw, hwk⟩ := (h1 k).mpr ⟨z, h, hzk⟩
      exact ⟨w, List.mem_append.mpr (Or.inl hw), hwk⟩
    · obtain ⟨w, hw, hwk⟩ := (h2 k).mpr ⟨z, h, hzk⟩
      exact ⟨w, List.mem_append.mpr (Or.inr hw), hwk⟩

theorem noNull_append_comm {xs ys : List TName} (h : NoNull (xs ++ ys)) : NoNull (ys ++ xs) := by
  intro x hx
  rcases List.mem_append.mp hx with h' | h'
  · exact h x (List.mem_append.mpr (Or.inr h'))
  · exact h x (List.mem_append.mpr (Or.inl h'))

end MV
