/-
The doc-string pass as a list function, and what it preserves.
-/
import MambaVerif.Lemmas.LexRun

namespace MV

/-- the pass as a plain recursion over the token list -/
def docSpec : List Lex → List Lex
  | f :: m :: b :: rest =>
    match mergeCond f m b with
    | some ds => docTok f b ds :: docSpec rest
    | none => f :: docSpec (m :: b :: rest)
  | [a, b] => [a, b]
  | [a] => [a]
  | [] => []
termination_by l => l.length

def DocWin.list (w : DocWin) : List Lex := w.middle.toList ++ w.back.toList

def DocWin.Compact (w : DocWin) : Prop := w.front = none ∧ (w.back = none → w.middle = none)

theorem docPassGo_eq (ls : List Lex) : ∀ (w : DocWin), w.Compact → docPassGo ls w = docSpec (w.list ++ ls) := by
  induction ls with
  | nil =>
    intro w hw
    obtain ⟨f, m, b⟩ := w
    obtain ⟨hf, hb⟩ := hw
    simp only at hf hb; subst hf
    cases m <;> cases b <;> simp_all [docPassGo, DocWin.flush, DocWin.list, docSpec]
  | cons l ls ih =>
    intro w hw
    obtain ⟨f, m, b⟩ := w
    obtain ⟨hf, hb⟩ := hw
    simp only at hf hb; subst hf
    cases m with
    | none =>
      cases b with
      | none =>
        simp only [docPassGo, DocWin.push, DocWin.list, Option.toList, List.nil_append, List.append_nil]
        rw [ih _ ⟨rfl, by simp⟩]; simp [DocWin.list]
      | some b =>
        simp only [docPassGo, DocWin.push, DocWin.list, Option.toList, List.nil_append]
        rw [ih _ ⟨rfl, by simp⟩]; simp [DocWin.list]
    | some m =>
      cases b with
      | none => simp at hb
      | some b =>
        simp only [docPassGo, DocWin.push, DocWin.list, Option.toList, List.cons_append, List.nil_append]
        rw [docSpec]
        cases hmc : mergeCond m b l with
        | some ds =>
          simp only []
          rw [ih _ ⟨rfl, by simp⟩]; simp [DocWin.list]
        | none =>
          simp only []
          rw [ih _ ⟨rfl, by simp⟩]; simp [DocWin.list]

theorem docPass_eq_docSpec (ls : List Lex) : docPass ls = docSpec ls := by
  unfold docPass
  rw [docPassGo_eq _ _ ⟨rfl, by simp⟩]; simp [DocWin.list]

theorem strBody_some {t : Tok} {s : List Char} (h : strBody t = some s) : t.kind = .Str := by
  unfold strBody at h; split at h <;> simp_all

theorem mergeCond_str {f m b : Lex} {ds : List Char} (h : mergeCond f m b = some ds) :
    f.kind = .Str ∧ m.kind = .Str ∧ b.kind = .Str := by
  unfold mergeCond at h
  split at h
  · rename_i h1 h2 h3
    exact ⟨strBody_some h1, strBody_some h2, strBody_some h3⟩
  · simp at h

@[simp] theorem docTok_kind (f b : Lex) (ds : List Char) : (docTok f b ds).kind = .DocStr := rfl

/-- the pass does not touch tokens other than `Str` (merged into `DocStr`) -/
theorem docSpec_filter (P : Kind → Bool) (hS : P .Str = false) (hD : P .DocStr = false) (ls : List Lex) :
    (docSpec ls).filter (fun l => P l.kind) = ls.filter (fun l => P l.kind) := by
  fun_induction docSpec ls with
  | case1 f m b rest ds hmc ih =>
    obtain ⟨h1, h2, h3⟩ := mergeCond_str hmc
    simp [h1, h2, h3, hS, hD, ih]
  | case2 f m b rest hmc ih =>
    rw [List.filter_cons, ih]; conv => rhs; rw [List.filter_cons]
  | case3 => rfl
  | case4 => rfl
  | case5 => rfl

theorem docSpec_bal (d : Nat) (ls : List Lex) : bal d (docSpec ls) = bal d ls := by
  fun_induction docSpec ls generalizing d with
  | case1 f m b rest ds hmc ih =>
    obtain ⟨h1, h2, h3⟩ := mergeCond_str hmc
    simp [bal, h1, h2, h3, ih]
  | case2 f m b rest hmc ih =>
    simp only [bal]
    split
    · exact ih _
    · split
      · split
        · rfl
        · exact ih _
      · exact ih _
  | case3 => rfl
  | case4 => rfl
  | case5 => rfl

theorem docSpec_ne_nil {ls : List Lex} (h : ls ≠ []) : docSpec ls ≠ [] := by
  fun_induction docSpec ls <;> simp_all

theorem docSpec_getLast {ls : List Lex} {e : Lex} (h : ls.getLast? = some e) (he : e.kind ≠ .Str) :
    (docSpec ls).getLast? = some e := by
  fun_induction docSpec ls with
  | case1 f m b rest ds hmc ih =>
    obtain ⟨h1, h2, h3⟩ := mergeCond_str hmc
    cases rest with
    | nil => simp at h; subst h; exact absurd h3 he
    | cons r rs =>
      have : (r :: rs).getLast? = some e := by simpa [List.getLast?_cons_cons] using h
      have := ih this
      rw [List.getLast?_cons_of_ne_nil (docSpec_ne_nil (by simp))]
      exact this
  | case2 f m b rest hmc ih =>
    have : (m :: b :: rest).getLast? = some e := by simpa [List.getLast?_cons_cons] using h
    have := ih this
    rw [List.getLast?_cons_of_ne_nil (docSpec_ne_nil (by simp))]
    exact this
  | case3 => exact h
  | case4 => exact h
  | case5 => exact h

end MV
