/-
Helper lemmas about the lexer model: indentation balance bookkeeping, kinds emitted by `classify`.
-/
import MambaVerif.Model.Lex

namespace MV

/-- running indentation depth: `none` if a dedent occurs at depth 0 -/
def bal : Nat → List Lex → Option Nat
  | d, [] => some d
  | d, l :: ls =>
    if l.kind = .Indent then bal (d + 1) ls
    else if l.kind = .Dedent then (if d = 0 then none else bal (d - 1) ls)
    else bal d ls

def AllNL (ls : List Lex) : Prop := ∀ l ∈ ls, l.kind = .NL
def NoEof (ls : List Lex) : Prop := ∀ l ∈ ls, l.kind ≠ .Eof

@[simp] theorem Kind.tok_kind (k : Kind) : k.tok.kind = k := rfl
@[simp] theorem Lex.new_kind (p : CaretPos) (t : Tok) (n : List (List Lex)) : (Lex.new p t n).kind = t.kind := rfl

theorem bal_append (d : Nat) (a b : List Lex) :
    bal d (a ++ b) = (bal d a).bind (fun d' => bal d' b) := by
  induction a generalizing d with
  | nil => simp [bal]
  | cons x xs ih =>
    simp only [List.cons_append, bal]
    split
    · exact ih _
    · split
      · split
        · rfl
        · exact ih _
      · exact ih _

theorem bal_allNL {ls : List Lex} (h : AllNL ls) (d : Nat) : bal d ls = some d := by
  induction ls with
  | nil => rfl
  | cons x xs ih =>
    have hx : x.kind = .NL := h x (by simp)
    have hxs : AllNL xs := fun l hl => h l (by simp [hl])
    simp [bal, hx, ih hxs]

theorem bal_replicate_indent (p : CaretPos) (d n : Nat) :
    bal d (List.replicate n (Lex.new p Kind.Indent.tok)) = some (d + n) := by
  induction n generalizing d with
  | zero => rfl
  | succ n ih =>
    simp only [List.replicate_succ, bal, Lex.new_kind, Kind.tok_kind, if_true]
    rw [ih]; congr 1; omega

theorem bal_replicate_dedent (p : CaretPos) (d n : Nat) (h : n ≤ d) :
    bal d (List.replicate n (Lex.new p Kind.Dedent.tok)) = some (d - n) := by
  induction n generalizing d with
  | zero => rfl
  | succ n ih =>
    have hd : d ≠ 0 := by omega
    simp only [List.replicate_succ, bal, Lex.new_kind, Kind.tok_kind]
    simp only [show (Kind.Dedent = Kind.Indent) = False by simp, if_false, if_true, hd]
    rw [ih (d - 1) (by omega)]; congr 1; omega

theorem allNL_getLast {ls : List Lex} (h : AllNL ls) : AllNL ls.getLast?.toList := by
  intro l hl
  simp only [Option.mem_toList] at hl
  exact h _ (List.mem_of_getLast? hl)

theorem allNL_dropLast {ls : List Lex} (h : AllNL ls) : AllNL ls.dropLast :=
  fun l hl => h l (List.dropLast_subset _ hl)

theorem layout_bal (st : LState) (h : AllNL st.newlines) :
    bal (LState.level st.curIndent) st.layout = some (LState.level st.lineIndent) := by
  unfold LState.layout
  simp only []
  rw [bal_append, bal_append, bal_allNL (allNL_getLast h)]
  simp only [Option.bind_some]
  by_cases hge : LState.level st.lineIndent ≥ LState.level st.curIndent
  · rw [if_pos hge, bal_replicate_indent]
    simp only [Option.bind_some]
    rw [bal_allNL (allNL_dropLast h)]
    congr 1; omega
  · rw [if_neg hge, bal_append, bal_replicate_dedent _ _ _ (by omega)]
    simp only [Option.bind_some]
    have : AllNL [Lex.new st.pos Kind.NL.tok] := by intro l hl; simp at hl; subst hl; rfl
    rw [bal_allNL this]
    simp only [Option.bind_some]
    rw [bal_allNL (allNL_dropLast h)]
    congr 1; omega

theorem noEof_of_allNL {ls : List Lex} (h : AllNL ls) : NoEof ls := by
  intro l hl; rw [h l hl]; decide

theorem layout_noEof (st : LState) (h : AllNL st.newlines) : NoEof st.layout := by
  unfold LState.layout
  intro l hl
  simp only [List.mem_append] at hl
  rcases hl with (hl | hl) | hl
  · exact noEof_of_allNL (allNL_getLast h) l hl
  · split at hl
    · rw [List.mem_replicate] at hl; rw [hl.2]; simp
    · simp only [List.mem_append, List.mem_replicate, List.mem_singleton] at hl
      rcases hl with hl | hl
      · rw [hl.2]; simp
      · rw [hl]; simp
  · exact noEof_of_allNL (allNL_dropLast h) l hl

/-- effect of `State::token` on balance, buffered newlines and absence of Eof -/
theorem token_inv (st : LState) (t : Tok) (nest : List (List Lex))
    (h1 : t.kind ≠ .Indent) (h2 : t.kind ≠ .Dedent) (h3 : t.kind ≠ .Eof) (h : AllNL st.newlines) :
    bal (LState.level st.curIndent) (st.token t nest).1 = some (LState.level (st.token t nest).2.curIndent)
    ∧ AllNL (st.token t nest).2.newlines ∧ NoEof (st.token t nest).1 := by
  unfold LState.token
  split
  · refine ⟨rfl, ?_, ?_⟩
    · intro l hl
      simp only [LState.newline, List.mem_append, List.mem_singleton] at hl
      rcases hl with hl | hl
      · exact h l hl
      · rw [hl]; rfl
    · intro l hl; simp at hl
  · refine ⟨?_, ?_, ?_⟩
    · simp only []
      rw [bal_append, layout_bal st h]
      simp [bal, h1, h2]
    · intro l hl; simp at hl
    · intro l hl
      simp only [List.mem_append, List.mem_singleton] at hl
      rcases hl with hl | hl
      · exact layout_noEof st h l hl
      · rw [hl]; simpa using h3

end MV

namespace MV

/-- kinds the character dispatch may produce: never the synthetic `Indent/Dedent/Eof` -/
def GoodKind (k : Kind) : Prop := k ≠ .Indent ∧ k ≠ .Dedent ∧ k ≠ .Eof
instance (k : Kind) : Decidable (GoodKind k) := by unfold GoodKind; infer_instance

theorem lookup_mem {α β} [BEq α] [LawfulBEq α] (a : α) (b : β) (l : List (α × β))
    (h : l.lookup a = some b) : (a, b) ∈ l := by
  induction l with
  | nil => simp [List.lookup] at h
  | cons x xs ih =>
    obtain ⟨k, v⟩ := x
    simp only [List.lookup] at h
    split at h
    · rename_i heq
      have : a = k := by simpa using heq
      simp at h; subst h; subst this; simp
    · exact List.mem_cons_of_mem _ (ih h)

theorem keywordTable_good : ∀ p ∈ keywordTable, GoodKind p.2 := by decide

theorem asOpOrId_good (s : List Char) : GoodKind (asOpOrId s).kind := by
  unfold asOpOrId
  split
  · rename_i k hk
    exact keywordTable_good _ (lookup_mem _ _ _ hk)
  · show GoodKind Kind.Id; decide

theorem numTok_good (s : NumScan) : GoodKind (numTok s).kind := by
  unfold numTok
  split
  · show GoodKind Kind.ENum; decide
  · split
    · show GoodKind Kind.Real; decide
    · show GoodKind Kind.Int; decide

theorem ite_elim {α : Sort _} {c : Prop} [Decidable c] {a b x : α}
    (h : (if c then a else b) = x) : (c ∧ a = x) ∨ (¬ c ∧ b = x) := by
  by_cases hc : c
  · rw [if_pos hc] at h; exact Or.inl ⟨hc, h⟩
  · rw [if_neg hc] at h; exact Or.inr ⟨hc, h⟩

theorem classify_good (nested : List Char → LexRes (List Lex)) (pos : CaretPos) (c : Char)
    (rest : List Char) (t : Tok) (nest : List (List Lex)) (n : Nat)
    (h : classify nested pos c rest = .tok t nest n) : GoodKind t.kind := by
  unfold classify at h
  simp only [] at h
  repeat (
    rcases ite_elim h with ⟨-, h⟩ | ⟨-, h⟩
    · (repeat' split at h)
      all_goals first
        | (injection h with h1 h2 h3; subst h1
           first | decide | exact asOpOrId_good _ | exact numTok_good _
                 | (show GoodKind Kind.Comment; decide) | (show GoodKind Kind.Str; decide))
        | (exact absurd h (by simp)))
  exact absurd h (by simp)

end MV
