/-
Invariants of the lexer main loop and of the doc-string pass.
-/
import MambaVerif.Lemmas.LexBasic

namespace MV

theorem step_inv {nested : List Char → LexRes (List Lex)} {c : Char} {rest : List Char}
    {st st' : LState} {toks : List Lex} {n : Nat}
    (h : step nested c rest st = .ok (toks, st', n)) (hn : AllNL st.newlines) :
    bal (LState.level st.curIndent) toks = some (LState.level st'.curIndent)
    ∧ AllNL st'.newlines ∧ NoEof toks := by
  unfold step at h
  split at h
  · rename_i t nest m hc
    have hg := classify_good _ _ _ _ _ _ _ hc
    injection h with h; injection h with h1 h2; injection h2 with h2 h3
    subst h1; subst h2
    exact token_inv st t nest hg.1 hg.2.1 hg.2.2 hn
  · injection h with h; injection h with h1 h2; injection h2 with h2 h3
    subst h1; subst h2
    refine ⟨rfl, hn, ?_⟩
    intro l hl; simp at hl
  · exact absurd h (by simp)
  · exact absurd h (by simp)
  · exact absurd h (by simp)

theorem noEof_append {a b : List Lex} (ha : NoEof a) (hb : NoEof b) : NoEof (a ++ b) := by
  intro l hl
  rcases List.mem_append.mp hl with h | h
  · exact ha l h
  · exact hb l h

theorem run_inv (nested : List Char → LexRes (List Lex)) (cs : List Char) :
    ∀ (skip : Nat) (st : LState) {toks : List Lex} {st' : LState},
    run nested cs skip st = .ok (toks, st') → AllNL st.newlines →
    bal (LState.level st.curIndent) toks = some (LState.level st'.curIndent)
    ∧ AllNL st'.newlines ∧ NoEof toks := by
  induction cs with
  | nil =>
    intro skip st toks st' h hn
    simp only [run] at h
    injection h with h; injection h with h1 h2; subst h1; subst h2
    exact ⟨rfl, hn, by intro l hl; simp at hl⟩
  | cons c rest ih =>
    intro skip st toks st' h hn
    cases skip with
    | succ k => simp only [run] at h; exact ih k st h hn
    | zero =>
      simp only [run] at h
      split at h
      · exact absurd h (by simp)
      · exact absurd h (by simp)
      · rename_i toks1 st1 n hs
        split at h
        · exact absurd h (by simp)
        · exact absurd h (by simp)
        · rename_i more st2 hr
          injection h with h; injection h with h1 h2; subst h1; subst h2
          obtain ⟨b1, n1, e1⟩ := step_inv hs hn
          obtain ⟨b2, n2, e2⟩ := ih n st1 hr n1
          refine ⟨?_, n2, noEof_append e1 e2⟩
          rw [bal_append, b1]; simpa using b2

end MV
