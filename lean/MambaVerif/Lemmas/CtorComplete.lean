/-
The constructor analysis rejects nothing without reason: for bodies without `return`, every attribute
the analysis still calls unassigned is left unassigned on some path.
-/
import MambaVerif.Lemmas.CtorAssign

namespace MV

mutual
/-- no bare `return` anywhere in the statement -/
def retFreeS : CS → Bool
  | .assign _ => true
  | .skip => true
  | .ite t e => retFreeB t && retFreeB e
  | .ifOnly t => retFreeB t
  | .loop b => retFreeB b
  | .matchS arms _ => retFreeA arms
  | .handle arms => retFreeA arms
  | .ret => false
def retFreeB : List CS → Bool
  | [] => true
  | s :: ss => retFreeS s && retFreeB ss
def retFreeA : List (List CS) → Bool
  | [] => true
  | a :: more => retFreeB a && retFreeA more
end

/-- a path (the choices `p`) through a statement on which `x` is not assigned to: for every rest of the
    choice stream and every start, the statement completes normally, consumes exactly `p`, and leaves
    `x` unassigned if it was -/
def Skips (run : List Nat → List Nat → Res) (x : Nat) (p : List Nat) : Prop :=
  ∀ (tl a : List Nat), (run (p ++ tl) a).1 = false ∧ (run (p ++ tl) a).2.2 = tl ∧
    (x ∉ a → x ∉ (run (p ++ tl) a).2.1)

mutual
theorem pathS : ∀ (s : CS) (u u' : List Nat) (x : Nat), uaS s u = some u' → x ∈ u' →
    ∃ p, Skips (runS s) x p
  | .assign f, u, u', x, h, hx => by
    simp only [uaS, Option.some.injEq] at h; subst h
    have hne : x ≠ f := by
      have := (List.mem_filter.mp hx).2
      simpa using this
    refine ⟨[], fun tl a => ?_⟩
    simp only [List.nil_append, runS, true_and]
    intro hxa hmem
    rcases List.mem_cons.mp hmem with h1 | h1
    · exact hne h1
    · exact hxa h1
  | .skip, u, u', x, _, _ => by
    refine ⟨[], fun tl a => ?_⟩
    simp only [List.nil_append, runS, true_and]
    exact fun h => h
  | .ite t e, u, u', x, h, hx => by
    simp only [uaS] at h
    cases ht : uaB t u with
    | none => simp [ht] at h
    | some a =>
      cases he : uaB e u with
      | none => simp [ht, he] at h
      | some b =>
        simp only [ht, he, Option.some.injEq] at h; subst h
        rcases List.mem_append.mp hx with hx | hx
        · obtain ⟨p, hp⟩ := pathB t u a x ht hx
          refine ⟨0 :: p, fun tl a' => ?_⟩
          simp only [List.cons_append, runS, if_true]
          exact hp tl a'
        · obtain ⟨p, hp⟩ := pathB e u b x he hx
          refine ⟨1 :: p, fun tl a' => ?_⟩
          simp only [List.cons_append, runS]
          rw [if_neg (by decide)]
          exact hp tl a'
  | .ifOnly t, u, u', x, _, _ => by
    refine ⟨[0], fun tl a => ?_⟩
    simp only [List.cons_append, List.nil_append, runS, if_true, true_and]
    exact fun h => h
  | .loop b, u, u', x, _, _ => by
    refine ⟨[0], fun tl a => ?_⟩
    simp only [List.cons_append, List.nil_append, runS, iter, true_and]
    exact fun h => h
  | .matchS [] ca, u, u', x, _, _ => by
    refine ⟨[0], fun tl a => ?_⟩
    cases ca <;> simp only [List.cons_append, List.nil_append, runS, runA, Option.getD_none, true_and] <;>
      exact fun h => h
  | .matchS (y :: more) true, u, u', x, h, hx => by
    simp only [uaS] at h
    cases ha : uaA (y :: more) u with
    | none => simp [ha] at h
    | some q =>
      simp only [ha, if_true, Option.some.injEq] at h; subst h
      obtain ⟨i, p, hp⟩ := pathA (y :: more) u q x ha hx
      refine ⟨i :: p, fun tl a => ?_⟩
      obtain ⟨r, hr, h1, h2, h3⟩ := hp tl a
      simp only [List.cons_append, runS, hr, Option.getD_some]
      exact ⟨h1, h2, h3⟩
  | .matchS (y :: more) false, u, u', x, h, hx => by
    simp only [uaS] at h
    cases ha : uaA (y :: more) u with
    | none => simp [ha] at h
    | some q =>
      simp only [ha, Bool.false_eq_true, if_false, Option.some.injEq] at h; subst h
      rcases List.mem_append.mp hx with hx | _
      · obtain ⟨i, p, hp⟩ := pathA (y :: more) u q x ha hx
        refine ⟨(i + 1) :: p, fun tl a => ?_⟩
        obtain ⟨r, hr, h1, h2, h3⟩ := hp tl a
        simp only [List.cons_append, runS, hr, Option.getD_some]
        exact ⟨h1, h2, h3⟩
      · refine ⟨[0], fun tl a => ?_⟩
        simp only [List.cons_append, List.nil_append, runS, true_and]
        exact fun h => h
  | .handle arms, u, u', x, _, _ => by
    refine ⟨[0], fun tl a => ?_⟩
    simp only [List.cons_append, List.nil_append, runS, true_and]
    exact fun h => h
  | .ret, u, u', x, h, hx => by
    simp only [uaS] at h
    split at h
    · rename_i hemp
      simp only [Option.some.injEq] at h; subst h
      have : u = [] := by simpa using hemp
      subst this; exact absurd hx (by simp)
    · exact absurd h (by simp)
theorem pathB : ∀ (b : List CS) (u u' : List Nat) (x : Nat), uaB b u = some u' → x ∈ u' →
    ∃ p, Skips (runB b) x p
  | [], u, u', x, _, _ => by
    refine ⟨[], fun tl a => ?_⟩
    simp only [List.nil_append, runB, true_and]
    exact fun h => h
  | s :: ss, u, u', x, h, hx => by
    simp only [uaB] at h
    cases hs : uaS s u with
    | none => simp [hs] at h
    | some u1 =>
      simp only [hs] at h
      have hx1 : x ∈ u1 := uaB_sub ss u1 u' h x hx
      obtain ⟨p1, hp1⟩ := pathS s u u1 x hs hx1
      obtain ⟨p2, hp2⟩ := pathB ss u1 u' x h hx
      refine ⟨p1 ++ p2, fun tl a => ?_⟩
      obtain ⟨h1, h2, h3⟩ := hp1 (p2 ++ tl) a
      simp only [List.append_assoc, runB]
      cases hr : runS s (p1 ++ (p2 ++ tl)) a with
      | mk r rest =>
        cases rest with
        | mk a' cs' =>
          rw [hr] at h1 h2 h3
          simp only at h1 h2 h3
          subst h1; subst h2
          simp only
          obtain ⟨g1, g2, g3⟩ := hp2 tl a'
          exact ⟨g1, g2, fun hxa => g3 (h3 hxa)⟩
theorem pathA : ∀ (arms : List (List CS)) (u q : List Nat) (x : Nat), uaA arms u = some q →
    x ∈ q → ∃ i p, ∀ (tl a : List Nat), ∃ r, runA arms i (p ++ tl) a = some r ∧ r.1 = false ∧ r.2.2 = tl ∧
      (x ∉ a → x ∉ r.2.1)
  | [], u, q, x, h, hx => by
    simp only [uaA, Option.some.injEq] at h; subst h; exact absurd hx (by simp)
  | [y], u, q, x, h, hx => by
    rw [uaA_cons] at h
    cases hy : uaB y u with
    | none => simp [hy] at h
    | some p0 =>
      simp only [hy, uaA, Option.some.injEq, List.append_nil] at h; subst h
      obtain ⟨p, hp⟩ := pathB y u p0 x hy hx
      refine ⟨0, p, fun tl a => ⟨runB y (p ++ tl) a, by simp [runA], hp tl a⟩⟩
  | y :: z :: more, u, q, x, h, hx => by
    rw [uaA_cons] at h
    cases hy : uaB y u with
    | none => simp [hy] at h
    | some p0 =>
      cases hm : uaA (z :: more) u with
      | none => simp [hy, hm] at h
      | some q1 =>
        simp only [hy, hm, Option.some.injEq] at h; subst h
        rcases List.mem_append.mp hx with hx | hx
        · obtain ⟨p, hp⟩ := pathB y u p0 x hy hx
          refine ⟨0, p, fun tl a => ⟨runB y (p ++ tl) a, by simp [runA], hp tl a⟩⟩
        · obtain ⟨i, p, hp⟩ := pathA (z :: more) u q1 x hm hx
          refine ⟨i + 1, p, fun tl a => ?_⟩
          obtain ⟨r, hr, hrest⟩ := hp tl a
          exact ⟨r, by simp only [runA]; exact hr, hrest⟩
end

/-- a path on which the constructor RETURNS while `x` is unassigned -/
def Returns (run : List Nat → List Nat → Res) (x : Nat) (p : List Nat) : Prop :=
  ∀ (tl a : List Nat), x ∉ a → (run (p ++ tl) a).1 = true ∧ x ∉ (run (p ++ tl) a).2.1

mutual
/-- an error of the analysis ("not assigned to before return") is justified by a path that reaches a
    `return` with an attribute unassigned -/
theorem failS : ∀ (s : CS) (u : List Nat), uaS s u = none → ∃ x ∈ u, ∃ p, Returns (runS s) x p
  | .assign f, u, h => by simp [uaS] at h
  | .skip, u, h => by simp [uaS] at h
  | .ite t e, u, h => by
    cases ht : uaB t u with
    | none =>
      obtain ⟨x, hx, p, hp⟩ := failB t u ht
      refine ⟨x, hx, 0 :: p, fun tl a hxa => ?_⟩
      simp only [List.cons_append, runS, if_true]
      exact hp tl a hxa
    | some a0 =>
      cases he : uaB e u with
      | none =>
        obtain ⟨x, hx, p, hp⟩ := failB e u he
        refine ⟨x, hx, 1 :: p, fun tl a hxa => ?_⟩
        simp only [List.cons_append, runS]
        rw [if_neg (by decide)]
        exact hp tl a hxa
      | some b0 => simp [uaS, ht, he] at h
  | .ifOnly t, u, h => by
    cases ht : uaB t u with
    | none =>
      obtain ⟨x, hx, p, hp⟩ := failB t u ht
      refine ⟨x, hx, 1 :: p, fun tl a hxa => ?_⟩
      simp only [List.cons_append, runS]
      rw [if_neg (by decide)]
      exact hp tl a hxa
    | some a0 => simp [uaS, ht] at h
  | .loop b, u, h => by
    cases ht : uaB b u with
    | none =>
      obtain ⟨x, hx, p, hp⟩ := failB b u ht
      refine ⟨x, hx, 1 :: p, fun tl a hxa => ?_⟩
      simp only [List.cons_append, runS, iter]
      obtain ⟨h1, h2⟩ := hp tl a hxa
      cases hr : runB b (p ++ tl) a with
      | mk r rest =>
        cases rest with
        | mk a' cs' =>
          rw [hr] at h1 h2
          simp only at h1 h2
          subst h1
          exact ⟨rfl, h2⟩
    | some a0 => simp [uaS, ht] at h
  | .matchS [] ca, u, h => by simp [uaS] at h
  | .matchS (y :: more) true, u, h => by
    cases ha : uaA (y :: more) u with
    | none =>
      obtain ⟨x, hx, i, p, hp⟩ := failA (y :: more) u ha
      refine ⟨x, hx, i :: p, fun tl a hxa => ?_⟩
      obtain ⟨r, hr, h1, h2⟩ := hp tl a hxa
      simp only [List.cons_append, runS, hr, Option.getD_some]
      exact ⟨h1, h2⟩
    | some q => simp [uaS, ha] at h
  | .matchS (y :: more) false, u, h => by
    cases ha : uaA (y :: more) u with
    | none =>
      obtain ⟨x, hx, i, p, hp⟩ := failA (y :: more) u ha
      refine ⟨x, hx, (i + 1) :: p, fun tl a hxa => ?_⟩
      obtain ⟨r, hr, h1, h2⟩ := hp tl a hxa
      simp only [List.cons_append, runS, hr, Option.getD_some]
      exact ⟨h1, h2⟩
    | some q => simp [uaS, ha] at h
  | .handle arms, u, h => by
    cases ha : uaA arms u with
    | none =>
      obtain ⟨x, hx, i, p, hp⟩ := failA arms u ha
      refine ⟨x, hx, (i + 1) :: p, fun tl a hxa => ?_⟩
      obtain ⟨r, hr, h1, h2⟩ := hp tl a hxa
      simp only [List.cons_append, runS, hr, Option.getD_some]
      exact ⟨h1, h2⟩
    | some q => simp [uaS, ha] at h
  | .ret, u, h => by
    simp only [uaS] at h
    split at h
    · exact absurd h (by simp)
    · rename_i hne
      cases u with
      | nil => simp at hne
      | cons x rest =>
        refine ⟨x, by simp, [], fun tl a hxa => ?_⟩
        simp only [List.nil_append, runS, true_and]
        exact hxa
theorem failB : ∀ (b : List CS) (u : List Nat), uaB b u = none → ∃ x ∈ u, ∃ p, Returns (runB b) x p
  | [], u, h => by simp [uaB] at h
  | s :: ss, u, h => by
    cases hs : uaS s u with
    | none =>
      obtain ⟨x, hx, p, hp⟩ := failS s u hs
      refine ⟨x, hx, p, fun tl a hxa => ?_⟩
      obtain ⟨h1, h2⟩ := hp tl a hxa
      simp only [runB]
      cases hr : runS s (p ++ tl) a with
      | mk r rest =>
        cases rest with
        | mk a' cs' =>
          rw [hr] at h1 h2
          simp only at h1 h2
          subst h1
          exact ⟨rfl, h2⟩
    | some u1 =>
      have h' : uaB ss u1 = none := by simpa [uaB, hs] using h
      obtain ⟨x, hx1, p2, hp2⟩ := failB ss u1 h'
      obtain ⟨p1, hp1⟩ := pathS s u u1 x hs hx1
      refine ⟨x, uaS_sub s u u1 hs x hx1, p1 ++ p2, fun tl a hxa => ?_⟩
      obtain ⟨g1, g2, g3⟩ := hp1 (p2 ++ tl) a
      simp only [List.append_assoc, runB]
      cases hr : runS s (p1 ++ (p2 ++ tl)) a with
      | mk r rest =>
        cases rest with
        | mk a' cs' =>
          rw [hr] at g1 g2 g3
          simp only at g1 g2 g3
          subst g1; subst g2
          simp only
          exact hp2 tl a' (g3 hxa)
theorem failA : ∀ (arms : List (List CS)) (u : List Nat), uaA arms u = none →
    ∃ x ∈ u, ∃ i p, ∀ (tl a : List Nat), x ∉ a → ∃ r, runA arms i (p ++ tl) a = some r ∧ r.1 = true ∧ x ∉ r.2.1
  | [], u, h => by simp [uaA] at h
  | [y], u, h => by
    rw [uaA_cons] at h
    cases hy : uaB y u with
    | none =>
      obtain ⟨x, hx, p, hp⟩ := failB y u hy
      exact ⟨x, hx, 0, p, fun tl a hxa => ⟨runB y (p ++ tl) a, by simp [runA], hp tl a hxa⟩⟩
    | some p0 => simp [hy, uaA] at h
  | y :: z :: more, u, h => by
    rw [uaA_cons] at h
    cases hy : uaB y u with
    | none =>
      obtain ⟨x, hx, p, hp⟩ := failB y u hy
      exact ⟨x, hx, 0, p, fun tl a hxa => ⟨runB y (p ++ tl) a, by simp [runA], hp tl a hxa⟩⟩
    | some p0 =>
      cases hm : uaA (z :: more) u with
      | none =>
        obtain ⟨x, hx, i, p, hp⟩ := failA (z :: more) u hm
        refine ⟨x, hx, i + 1, p, fun tl a hxa => ?_⟩
        obtain ⟨r, hr, hrest⟩ := hp tl a hxa
        exact ⟨r, by simp only [runA]; exact hr, hrest⟩
      | some q1 => simp [hy, hm] at h
end

mutual
/-- without `return` the analysis never reports an error -/
theorem uaS_some : ∀ (s : CS) (u : List Nat), retFreeS s = true → ∃ u', uaS s u = some u'
  | .assign f, u, _ => ⟨_, rfl⟩
  | .skip, u, _ => ⟨_, rfl⟩
  | .ite t e, u, h => by
    simp only [retFreeS, Bool.and_eq_true] at h
    obtain ⟨a, ha⟩ := uaB_some t u h.1
    obtain ⟨b, hb⟩ := uaB_some e u h.2
    exact ⟨a ++ b, by simp [uaS, ha, hb]⟩
  | .ifOnly t, u, h => by
    simp only [retFreeS] at h
    obtain ⟨a, ha⟩ := uaB_some t u h
    exact ⟨u, by simp [uaS, ha]⟩
  | .loop b, u, h => by
    simp only [retFreeS] at h
    obtain ⟨a, ha⟩ := uaB_some b u h
    exact ⟨u, by simp [uaS, ha]⟩
  | .matchS [] ca, u, _ => ⟨u, by simp [uaS]⟩
  | .matchS (y :: more) ca, u, h => by
    simp only [retFreeS] at h
    obtain ⟨a, ha⟩ := uaA_some (y :: more) u h
    exact ⟨if ca then a else a ++ u, by simp [uaS, ha]⟩
  | .handle arms, u, h => by
    simp only [retFreeS] at h
    obtain ⟨a, ha⟩ := uaA_some arms u h
    exact ⟨u, by simp [uaS, ha]⟩
  | .ret, u, h => by simp [retFreeS] at h
theorem uaB_some : ∀ (b : List CS) (u : List Nat), retFreeB b = true → ∃ u', uaB b u = some u'
  | [], u, _ => ⟨u, rfl⟩
  | s :: ss, u, h => by
    simp only [retFreeB, Bool.and_eq_true] at h
    obtain ⟨u1, h1⟩ := uaS_some s u h.1
    obtain ⟨u2, h2⟩ := uaB_some ss u1 h.2
    exact ⟨u2, by simp [uaB, h1, h2]⟩
theorem uaA_some : ∀ (arms : List (List CS)) (u : List Nat), retFreeA arms = true → ∃ q, uaA arms u = some q
  | [], u, _ => ⟨[], rfl⟩
  | a :: more, u, h => by
    simp only [retFreeA, Bool.and_eq_true] at h
    obtain ⟨x, hx⟩ := uaB_some a u h.1
    obtain ⟨y, hy⟩ := uaA_some more u h.2
    exact ⟨x ++ y, by rw [uaA_cons]; simp [hx, hy]⟩
end

end MV
