/-
Position-independence of the lexer: what the parser consumes of a token stream (kinds and
texts, comments dropped) depends on the text and on the indentation state only, never on carets.
-/
import MambaVerif.Lemmas.LexRun

namespace MV

/-- what the parser sees of a token (positions dropped) -/
def Lex.shape (l : Lex) : Tok := l.tok

/-- `parse/mod.rs`: comments are filtered out before parsing -/
def noComments (ts : List Tok) : List Tok := ts.filter (fun t => t.kind != .Comment)

def shapes (ls : List Lex) : List Tok := ls.map Lex.shape

/-- the caret-free part of the lexer state -/
structure LState.Sh where
  nls : Nat
  curIndent : Nat
  lineIndent : Nat
  tokenThisLine : Bool
  deriving DecidableEq

def LState.sh (st : LState) : LState.Sh := ⟨st.newlines.length, st.curIndent, st.lineIndent, st.tokenThisLine⟩

/-- buffered newlines are exactly NL tokens -/
def NLInv (st : LState) : Prop := ∀ l ∈ st.newlines, l.tok = Kind.NL.tok

theorem NLInv.allNL {st : LState} (h : NLInv st) : AllNL st.newlines := by
  intro l hl; unfold Lex.kind; rw [h l hl]; rfl

theorem shapes_of_nl {ls : List Lex} (h : ∀ l ∈ ls, l.tok = Kind.NL.tok) :
    shapes ls = List.replicate ls.length Kind.NL.tok := by
  induction ls with
  | nil => rfl
  | cons x xs ih =>
    simp only [shapes, List.map_cons, List.length_cons, List.replicate_succ]
    rw [show x.shape = Kind.NL.tok from h x (by simp)]
    congr 1
    exact ih (fun l hl => h l (by simp [hl]))

@[simp] theorem shapes_append (a b : List Lex) : shapes (a ++ b) = shapes a ++ shapes b := by simp [shapes]
@[simp] theorem shapes_replicate (n : Nat) (l : Lex) : shapes (List.replicate n l) = List.replicate n l.shape := by
  simp [shapes]
@[simp] theorem Lex.new_shape (p : CaretPos) (t : Tok) (n : List (List Lex)) : (Lex.new p t n).shape = t := rfl

theorem layout_shape {st1 st2 : LState} (h : st1.sh = st2.sh) (h1 : NLInv st1) (h2 : NLInv st2) :
    shapes st1.layout = shapes st2.layout := by
  have hlen : st1.newlines.length = st2.newlines.length := by
    have := congrArg LState.Sh.nls h; exact this
  have hc : st1.curIndent = st2.curIndent := congrArg LState.Sh.curIndent h
  have hl : st1.lineIndent = st2.lineIndent := congrArg LState.Sh.lineIndent h
  unfold LState.layout
  simp only [shapes_append]
  have e1 : shapes st1.newlines.getLast?.toList = shapes st2.newlines.getLast?.toList := by
    rw [shapes_of_nl (fun l hl => h1 l (List.mem_of_getLast? (by simpa using hl))),
        shapes_of_nl (fun l hl => h2 l (List.mem_of_getLast? (by simpa using hl)))]
    congr 1
    cases hn1 : st1.newlines with
    | nil =>
      have : st2.newlines = [] := by
        apply List.eq_nil_of_length_eq_zero; rw [← hlen, hn1]; rfl
      rw [this]
    | cons a as =>
      cases hn2 : st2.newlines with
      | nil => rw [hn1, hn2] at hlen; simp at hlen
      | cons b bs => simp [List.getLast?_cons]
  have e3 : shapes st1.newlines.dropLast = shapes st2.newlines.dropLast := by
    rw [shapes_of_nl (fun l hl => h1 l (List.dropLast_subset _ hl)),
        shapes_of_nl (fun l hl => h2 l (List.dropLast_subset _ hl))]
    simp [hlen]
  rw [e1, e3, hc, hl]
  congr 2
  split <;> simp [shapes]

theorem token_shape {st1 st2 : LState} (t : Tok) (n1 n2 : List (List Lex))
    (h : st1.sh = st2.sh) (h1 : NLInv st1) (h2 : NLInv st2) :
    shapes (st1.token t n1).1 = shapes (st2.token t n2).1
    ∧ (st1.token t n1).2.sh = (st2.token t n2).2.sh
    ∧ NLInv (st1.token t n1).2 ∧ NLInv (st2.token t n2).2 := by
  have hlen : st1.newlines.length = st2.newlines.length := congrArg LState.Sh.nls h
  have hl : st1.lineIndent = st2.lineIndent := congrArg LState.Sh.lineIndent h
  have hc : st1.curIndent = st2.curIndent := congrArg LState.Sh.curIndent h
  unfold LState.token
  split
  · refine ⟨rfl, ?_, ?_, ?_⟩
    · simp [LState.sh, LState.newline, hlen, hc]
    · intro l hl'
      simp only [LState.newline, List.mem_append, List.mem_singleton] at hl'
      rcases hl' with hl' | hl'
      · exact h1 l hl'
      · rw [hl']; rfl
    · intro l hl'
      simp only [LState.newline, List.mem_append, List.mem_singleton] at hl'
      rcases hl' with hl' | hl'
      · exact h2 l hl'
      · rw [hl']; rfl
  · refine ⟨?_, ?_, ?_, ?_⟩
    · simp only [shapes_append, layout_shape h h1 h2]; rfl
    · simp [LState.sh, hl]
    · intro l hl'; simp at hl'
    · intro l hl'; simp at hl'

end MV

namespace MV

/-- two dispatch results agree up to carets inside nested token lists -/
def Cls.ShEq : Cls → Cls → Prop
  | .tok t _ k, .tok t' _ k' => t = t' ∧ k = k'
  | .space, .space => True
  | .err, .err => True
  | .nestedErr p, .nestedErr p' => p = p'
  | .panic a, .panic b => a = b
  | _, _ => False

theorem Cls.ShEq.refl (a : Cls) : Cls.ShEq a a := by
  cases a <;> simp [Cls.ShEq]

theorem shEq_ite {c : Prop} [Decidable c] {a a' b b' : Cls}
    (h1 : c → Cls.ShEq a a') (h2 : ¬c → Cls.ShEq b b') :
    Cls.ShEq (if c then a else b) (if c then a' else b') := by
  by_cases hc : c
  · rw [if_pos hc, if_pos hc]; exact h1 hc
  · rw [if_neg hc, if_neg hc]; exact h2 hc

/-- whether the nested expressions lex, and the error they give, does not depend on the caret -/
theorem nestedAll_status (nested : List Char → LexRes (List Lex)) (p1 p2 : CaretPos)
    (exprs : List (List Char × List Char)) :
    match nestedAll nested p1 exprs, nestedAll nested p2 exprs with
    | .ok _, .ok _ => True
    | .err a, .err b => a = b
    | .panic a, .panic b => a = b
    | _, _ => False := by
  induction exprs with
  | nil => simp [nestedAll]
  | cons x xs ih =>
    obtain ⟨pre, e⟩ := x
    simp only [nestedAll]
    cases hn : nested e with
    | err p => simp
    | panic n => simp
    | ok toks =>
      simp only []
      cases h1 : nestedAll nested p1 xs <;> cases h2 : nestedAll nested p2 xs <;> simp_all

theorem classify_shape (nested : List Char → LexRes (List Lex)) (p1 p2 : CaretPos) (c : Char)
    (rest : List Char) : Cls.ShEq (classify nested p1 c rest) (classify nested p2 c rest) := by
  unfold classify
  simp only []
  repeat (first
    | exact Cls.ShEq.refl _
    | (apply shEq_ite (fun _ => Cls.ShEq.refl _); intro _))
  apply shEq_ite
  · intro _
    apply shEq_ite (fun _ => Cls.ShEq.refl _); intro _
    apply shEq_ite (fun _ => Cls.ShEq.refl _); intro _
    have := nestedAll_status nested p1 p2 (scanStr rest StrScan.init).exprs.reverse
    cases h1 : nestedAll nested p1 (scanStr rest StrScan.init).exprs.reverse <;>
      cases h2 : nestedAll nested p2 (scanStr rest StrScan.init).exprs.reverse <;>
      simp_all [Cls.ShEq]
  · intro _; exact Cls.ShEq.refl _

/-- results of two runs agree up to carets -/
def RunShEq : LexRes (List Lex × LState) → LexRes (List Lex × LState) → Prop
  | .ok (t1, s1), .ok (t2, s2) => shapes t1 = shapes t2 ∧ s1.sh = s2.sh ∧ NLInv s1 ∧ NLInv s2
  | .err _, .err _ => True
  | .panic a, .panic b => a = b
  | _, _ => False

theorem space_sh {st1 st2 : LState} (h : st1.sh = st2.sh) : st1.space.sh = st2.space.sh := by
  have hlen : st1.newlines.length = st2.newlines.length := congrArg LState.Sh.nls h
  have hl : st1.lineIndent = st2.lineIndent := congrArg LState.Sh.lineIndent h
  have hc : st1.curIndent = st2.curIndent := congrArg LState.Sh.curIndent h
  have ht : st1.tokenThisLine = st2.tokenThisLine := congrArg LState.Sh.tokenThisLine h
  simp [LState.sh, LState.space, hlen, hl, hc, ht]

/-- the lexer's output shape is a function of the text and the caret-free state -/
theorem run_shape (nested : List Char → LexRes (List Lex)) (cs : List Char) :
    ∀ (skip : Nat) (st1 st2 : LState), st1.sh = st2.sh → NLInv st1 → NLInv st2 →
    RunShEq (run nested cs skip st1) (run nested cs skip st2) := by
  induction cs with
  | nil => intro skip st1 st2 h h1 h2; simp only [run, RunShEq]; exact ⟨trivial, h, h1, h2⟩
  | cons c rest ih =>
    intro skip st1 st2 h h1 h2
    cases skip with
    | succ k => simp only [run]; exact ih k st1 st2 h h1 h2
    | zero =>
      simp only [run, step]
      have hcs := classify_shape nested st1.pos st2.pos c rest
      cases hc1 : classify nested st1.pos c rest <;> cases hc2 : classify nested st2.pos c rest <;>
        rw [hc1, hc2] at hcs <;> simp only [Cls.ShEq] at hcs <;> simp only [RunShEq]
      · rename_i t1 n1 k1 t2 n2 k2
        obtain ⟨ht, hk⟩ := hcs; subst ht; subst hk
        obtain ⟨e1, e2, e3, e4⟩ := token_shape t1 n1 n2 h h1 h2
        have := ih k1 _ _ e2 e3 e4
        cases hr1 : run nested rest k1 (st1.token t1 n1).2 <;>
          cases hr2 : run nested rest k1 (st2.token t1 n2).2 <;>
          rw [hr1, hr2] at this <;> simp only [RunShEq] at this ⊢
        · rename_i a b
          obtain ⟨ta, sa⟩ := a; obtain ⟨tb, sb⟩ := b
          exact ⟨by simp [shapes_append, e1, this.1], this.2⟩
        · exact this
      · have := ih 0 _ _ (space_sh h) (by exact h1) (by exact h2)
        cases hr1 : run nested rest 0 st1.space <;> cases hr2 : run nested rest 0 st2.space <;>
          rw [hr1, hr2] at this <;> simp only [RunShEq] at this ⊢
        · rename_i a b
          obtain ⟨ta, sa⟩ := a; obtain ⟨tb, sb⟩ := b
          simpa using this
        · exact this
      · exact hcs

end MV
