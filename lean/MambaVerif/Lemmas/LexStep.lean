/-
Unfolding lemmas for single lexer steps on specific characters.
-/
import MambaVerif.Lemmas.LexShape

namespace MV

/-- prepend tokens to the result of a run -/
def prepend (toks : List Lex) (r : LexRes (List Lex × LState)) : LexRes (List Lex × LState) :=
  match r with
  | .err p => .err p
  | .panic n => .panic n
  | .ok (more, st) => .ok (toks ++ more, st)

@[simp] theorem prepend_nil (r : LexRes (List Lex × LState)) : prepend [] r = r := by
  cases r <;> simp [prepend]

theorem run_cons_tok {nested : List Char → LexRes (List Lex)} {c : Char} {rest : List Char} {st : LState}
    {t : Tok} {nest : List (List Lex)} {n : Nat} (h : classify nested st.pos c rest = .tok t nest n) :
    run nested (c :: rest) 0 st = prepend (st.token t nest).1 (run nested rest n (st.token t nest).2) := by
  simp only [run, step, h, prepend]
  cases run nested rest n (st.token t nest).2 <;> rfl

theorem run_cons_space {nested : List Char → LexRes (List Lex)} {c : Char} {rest : List Char} {st : LState}
    (h : classify nested st.pos c rest = .space) :
    run nested (c :: rest) 0 st = run nested rest 0 st.space := by
  simp only [run, step, h]
  cases run nested rest 0 st.space <;> simp

theorem classify_space (nested : List Char → LexRes (List Lex)) (p : CaretPos) (rest : List Char) :
    classify nested p ' ' rest = .space := by
  simp [classify, show isIdStart ' ' = false by decide]

theorem classify_nl (nested : List Char → LexRes (List Lex)) (p : CaretPos) (rest : List Char) :
    classify nested p '\n' rest = .tok Kind.NL.tok [] 0 := by
  simp [classify]

theorem classify_crlf (nested : List Char → LexRes (List Lex)) (p : CaretPos) (rest : List Char) :
    classify nested p '\r' ('\n' :: rest) = .tok Kind.NL.tok [] 1 := by
  simp [classify]

theorem classify_hash (nested : List Char → LexRes (List Lex)) (p : CaretPos) (rest : List Char) :
    classify nested p '#' rest =
      .tok ⟨.Comment, '#' :: rest.takeWhile (fun d => d != '\n' && d != '\r')⟩ []
        (rest.takeWhile (fun d => d != '\n' && d != '\r')).length := by
  simp [classify]

theorem token_nl (st : LState) (nest : List (List Lex)) : st.token Kind.NL.tok nest = ([], st.newline) := by
  simp [LState.token]

theorem run_nl (nested : List Char → LexRes (List Lex)) (r : List Char) (st : LState) :
    run nested ('\n' :: r) 0 st = run nested r 0 st.newline := by
  rw [run_cons_tok (classify_nl nested st.pos r), token_nl]; simp

theorem run_sp (nested : List Char → LexRes (List Lex)) (r : List Char) (st : LState) :
    run nested (' ' :: r) 0 st = run nested r 0 st.space :=
  run_cons_space (classify_space nested st.pos r)

theorem run_skip (nested : List Char → LexRes (List Lex)) (a b : List Char) (st : LState) :
    run nested (a ++ b) a.length st = run nested b 0 st := by
  induction a with
  | nil => rfl
  | cons x xs ih => simp only [List.cons_append, List.length_cons, run]; exact ih

end MV
