/-
Token spans are exact: the text of every lexical token is the slice of the source it was lexed from,
and the lexer's caret is the start caret advanced over everything consumed so far.
-/
import MambaVerif.Lemmas.LexBasic
import MambaVerif.Lemmas.LexRun

namespace MV

theorem advanceOver_append (p : CaretPos) (a b : List Char) :
    p.advanceOver (a ++ b) = (p.advanceOver a).advanceOver b := by
  simp [CaretPos.advanceOver, List.foldl_append]

theorem advanceOver_cons (p : CaretPos) (c : Char) (cs : List Char) :
    p.advanceOver (c :: cs) = (p.advChar c).advanceOver cs := by
  simp [CaretPos.advanceOver]

/-! ### the number scanner -/

/-- the text the scanned number will be rendered as (`numTok`) -/
def numText (s : NumScan) : List Char :=
  if s.eNum then s.number.reverse ++ 'E' :: s.exp.reverse else s.number.reverse

theorem numTok_text (s : NumScan) : (numTok s).text = numText s := by
  unfold numTok numText
  split
  · rfl
  · split <;> rfl

theorem scanNum_span : ∀ (cs : List Char) (s : NumScan), (s.eNum = false → s.exp = []) →
    ∃ k, (scanNum cs s).consumed = s.consumed + k ∧ k ≤ cs.length ∧
      numText (scanNum cs s) = numText s ++ cs.take k
  | [], s, _ => ⟨0, by simp [scanNum], by simp, by simp [scanNum]⟩
  | c :: cs, s, hinv => by
    unfold scanNum
    by_cases hd : c.isDigit = true
    · rw [if_pos hd]
      by_cases he : s.eNum = true
      · have : (!s.eNum) = false := by simp [he]
        rw [this]; simp only [Bool.false_eq_true, if_false]
        obtain ⟨k, h1, h2, h3⟩ := scanNum_span cs { s with exp := c :: s.exp, consumed := s.consumed + 1 }
          (by intro h; simp [he] at h)
        refine ⟨k + 1, by simp only [] at h1; omega, by simp; omega, ?_⟩
        rw [h3]; simp [numText, he]
      · have he' : s.eNum = false := by simpa using he
        have : (!s.eNum) = true := by simp [he']
        rw [this]; simp only [if_true]
        obtain ⟨k, h1, h2, h3⟩ := scanNum_span cs { s with number := c :: s.number, consumed := s.consumed + 1 }
          (by intro _; exact hinv he')
        refine ⟨k + 1, by simp only [] at h1; omega, by simp; omega, ?_⟩
        rw [h3]; simp [numText, he']
    · rw [if_neg hd]
      by_cases hE : c = 'E'
      · rw [if_pos hE]
        by_cases he : s.eNum = true
        · rw [if_pos he]; exact ⟨0, by simp, by simp, by simp⟩
        · rw [if_neg he]
          have he' : s.eNum = false := by simpa using he
          obtain ⟨k, h1, h2, h3⟩ := scanNum_span cs { s with eNum := true, consumed := s.consumed + 1 }
            (by intro h; simp at h)
          refine ⟨k + 1, by simp only [] at h1; omega, by simp; omega, ?_⟩
          rw [h3]; subst hE; simp [numText, he', hinv he']
      · rw [if_neg hE]
        by_cases hp : c = '.'
        · rw [if_pos hp]
          by_cases hf : (s.float || s.eNum) = true
          · rw [if_pos hf]; exact ⟨0, by simp, by simp, by simp⟩
          · rw [if_neg hf]
            have hfe : s.float = false ∧ s.eNum = false := by simpa using hf
            split
            · exact ⟨0, by simp, by simp, by simp⟩
            · obtain ⟨k, h1, h2, h3⟩ := scanNum_span cs { s with number := c :: s.number, float := true, consumed := s.consumed + 1 }
                (by intro _; exact hinv hfe.2)
              refine ⟨k + 1, by simp only [] at h1; omega, by simp; omega, ?_⟩
              rw [h3]; simp [numText, hfe.2]
        · rw [if_neg hp]; exact ⟨0, by simp, by simp, by simp⟩

/-! ### the string scanner -/

theorem scanStep_fields (c : Char) (s : StrScan) :
    (scanStep c s).string = c :: s.string ∧ (scanStep c s).consumed = s.consumed + 1 ∧
      (scanStep c s).terminated = s.terminated := by
  unfold scanStep
  split
  · exact ⟨rfl, rfl, rfl⟩
  · split <;> exact ⟨rfl, rfl, rfl⟩

theorem scanStr_span : ∀ (cs : List Char) (s : StrScan), s.terminated = false →
    ∃ k, (scanStr cs s).consumed = s.consumed + k ∧ k ≤ cs.length ∧
      ((scanStr cs s).terminated = true →
        (scanStr cs s).string.reverse ++ ['"'] = s.string.reverse ++ cs.take k)
  | [], s, hs => ⟨0, by simp [scanStr], by simp, by intro h; simp [scanStr, hs] at h⟩
  | c :: cs, s, hs => by
    unfold scanStr
    split
    · rename_i hq
      refine ⟨1, rfl, by simp, fun _ => ?_⟩
      have : c = '"' := by simp at hq; exact hq.2
      subst this; simp
    · obtain ⟨hstr, hcons, hterm⟩ := scanStep_fields c s
      obtain ⟨k, h1, h2, h3⟩ := scanStr_span cs (scanStep c s) (by rw [hterm]; exact hs)
      refine ⟨k + 1, by rw [h1, hcons]; omega, by simp; omega, fun ht => ?_⟩
      rw [h3 ht, hstr]; simp

end MV

namespace MV

/-! ### the character dispatch: the token text is what was consumed -/

theorem keyword_text : ∀ p ∈ keywordTable, p.2.spelling = some p.1 := by decide

theorem asOpOrId_text (s : List Char) : (asOpOrId s).text = s := by
  unfold asOpOrId
  split
  · rename_i k hk
    have := keyword_text _ (lookup_mem _ _ _ hk)
    simp only [] at this
    simp [Kind.tok, this]
  · rfl

theorem take_takeWhile {α} (p : α → Bool) : ∀ (l : List α), l.take (l.takeWhile p).length = l.takeWhile p
  | [] => by simp
  | x :: xs => by
    simp only [List.takeWhile]
    cases p x with
    | false => simp
    | true => simp [take_takeWhile p xs]

theorem takeWhile_length_le {α} (p : α → Bool) : ∀ (l : List α), (l.takeWhile p).length ≤ l.length
  | [] => by simp
  | x :: xs => by
    simp only [List.takeWhile]
    cases p x with
    | false => simp
    | true => simp; exact takeWhile_length_le p xs

/-- what has to be shown for one token: its text is the consumed slice -/
def Consumed (c : Char) (rest : List Char) (t : Tok) (n : Nat) : Prop :=
  t.text = c :: rest.take n ∧ n ≤ rest.length

theorem num_arm (c : Char) (rest : List Char) :
    Consumed c rest (numTok (scanNum rest ⟨[c], [], false, false, 0⟩)) (scanNum rest ⟨[c], [], false, false, 0⟩).consumed := by
  obtain ⟨k, h1, h2, h3⟩ := scanNum_span rest ⟨[c], [], false, false, 0⟩ (fun _ => rfl)
  simp only [Nat.zero_add] at h1
  refine ⟨?_, by rw [h1]; exact h2⟩
  rw [numTok_text, h3, h1]
  simp [numText]

theorem id_arm2 (c : Char) (rest : List Char) :
    Consumed c rest (asOpOrId (c :: rest.takeWhile isIdChar)) (rest.takeWhile isIdChar).length :=
  ⟨by rw [asOpOrId_text, take_takeWhile], takeWhile_length_le _ _⟩

theorem comment_arm (rest : List Char) (p : Char → Bool) :
    Consumed '#' rest ⟨.Comment, '#' :: rest.takeWhile p⟩ (rest.takeWhile p).length :=
  ⟨by simp [take_takeWhile], takeWhile_length_le _ _⟩

theorem str_arm (rest : List Char) (h1 : (scanStr rest StrScan.init).terminated = true) :
    Consumed '"' rest ⟨.Str, '"' :: (scanStr rest StrScan.init).string.reverse ++ ['"']⟩
      (scanStr rest StrScan.init).consumed := by
  obtain ⟨k, hk1, hk2, hk3⟩ := scanStr_span rest StrScan.init rfl
  have hc : (scanStr rest StrScan.init).consumed = k := by rw [hk1]; simp [StrScan.init]
  refine ⟨?_, by rw [hc]; exact hk2⟩
  have := hk3 h1
  simp only [StrScan.init, List.reverse_nil, List.nil_append] at this
  rw [hc]
  simp only [List.cons_append, List.cons.injEq, true_and]
  exact this

theorem classify_text (nested : List Char → LexRes (List Lex)) (pos : CaretPos) (c : Char)
    (rest : List Char) (t : Tok) (nest : List (List Lex)) (n : Nat)
    (h : classify nested pos c rest = .tok t nest n) (hk : t.kind ≠ .NL) : Consumed c rest t n := by
  unfold classify at h
  simp only [] at h
  repeat (
    rcases ite_elim h with ⟨hc, h⟩ | ⟨-, h⟩
    · (repeat' split at h)
      all_goals first
        | (injection h with h1 h2 h3; subst h1; subst h3
           first
             | (exfalso; exact hk rfl)
             | exact num_arm _ _
             | exact id_arm2 _ _
             | (subst hc; exact comment_arm _ _)
             | (subst hc; exact str_arm _ (by simp_all))
             | (subst hc; simp [Consumed, Kind.tok, Kind.spelling]))
        | (exact absurd h (by simp)))
  exact absurd h (by simp)

end MV

namespace MV

/-! ### one step of the main loop -/

theorem keywordTable_not_nl : ∀ p ∈ keywordTable, p.2 ≠ Kind.NL := by decide

theorem asOpOrId_not_nl (s : List Char) : (asOpOrId s).kind ≠ .NL := by
  unfold asOpOrId
  split
  · rename_i k hk
    exact keywordTable_not_nl _ (lookup_mem _ _ _ hk)
  · show Kind.Id ≠ Kind.NL; decide

theorem numTok_not_nl (s : NumScan) : (numTok s).kind ≠ .NL := by
  unfold numTok
  split
  · show Kind.ENum ≠ Kind.NL; decide
  · split
    · show Kind.Real ≠ Kind.NL; decide
    · show Kind.Int ≠ Kind.NL; decide

/-- a newline token is a line feed, or a carriage return followed by a line feed -/
theorem classify_nl_cases (nested : List Char → LexRes (List Lex)) (pos : CaretPos) (c : Char)
    (rest : List Char) (t : Tok) (nest : List (List Lex)) (n : Nat)
    (h : classify nested pos c rest = .tok t nest n) (hk : t.kind = .NL) :
    (c = '\n' ∧ n = 0) ∨ (c = '\r' ∧ n = 1 ∧ ∃ tl, rest = '\n' :: tl) := by
  unfold classify at h
  simp only [] at h
  repeat (
    rcases ite_elim h with ⟨hc, h⟩ | ⟨-, h⟩
    · (repeat' split at h)
      all_goals first
        | (injection h with h1 h2 h3; subst h1; subst h3
           first
             | (exact Or.inl ⟨hc, rfl⟩)
             | (exact Or.inr ⟨hc, rfl, _, rfl⟩)
             | (exfalso; exact numTok_not_nl _ hk)
             | (exfalso; exact asOpOrId_not_nl _ hk)
             | (exfalso; revert hk; show Kind.Comment = Kind.NL → False; decide)
             | (exfalso; revert hk; show Kind.Str = Kind.NL → False; decide)
             | (exfalso; revert hk; decide))
        | (exact absurd h (by simp)))
  exact absurd h (by simp)

theorem classify_space_char (nested : List Char → LexRes (List Lex)) (pos : CaretPos) (c : Char)
    (rest : List Char) (h : classify nested pos c rest = .space) : c = ' ' := by
  apply Classical.byContradiction
  intro hs
  unfold classify at h
  simp only [] at h
  rw [show (if c = ' ' then Cls.space else Cls.err) = Cls.err from if_neg hs] at h
  repeat (
    rcases ite_elim h with ⟨-, h⟩ | ⟨-, h⟩
    · (repeat' split at h)
      all_goals (exact absurd h (by simp)))
  exact absurd h (by simp)

/-- tokens that carry source text (everything but the layout tokens the lexer synthesises) -/
def Lexical (l : Lex) : Prop := l.kind ≠ .NL ∧ l.kind ≠ .Indent ∧ l.kind ≠ .Dedent ∧ l.kind ≠ .Eof

/-- `l` is exactly the slice `mid` of `cs` that follows `pre`, carets counted from `p0` -/
def SpanOf (p0 : CaretPos) (cs : List Char) (l : Lex) : Prop :=
  ∃ pre mid post, cs = pre ++ mid ++ post ∧ l.start = p0.advanceOver pre ∧ l.tok.text = mid ∧
    l.stop = p0.advanceOver (pre ++ mid)

theorem SpanOf.shift {p0 : CaretPos} {a cs : List Char} {l : Lex} (h : SpanOf (p0.advanceOver a) cs l) :
    SpanOf p0 (a ++ cs) l := by
  obtain ⟨pre, mid, post, e, hs, ht, he⟩ := h
  refine ⟨a ++ pre, mid, post, by rw [e]; simp, ?_, ht, ?_⟩
  · rw [hs, advanceOver_append]
  · rw [he, ← advanceOver_append]; simp

theorem layout_not_lexical (st : LState) (hn : AllNL st.newlines) : ∀ l ∈ st.layout, ¬ Lexical l := by
  intro l hl hlex
  unfold LState.layout at hl
  simp only [List.mem_append] at hl
  rcases hl with (hl | hl) | hl
  · exact hlex.1 (allNL_getLast hn l hl)
  · split at hl
    · simp only [List.mem_replicate] at hl
      exact hlex.2.1 (by rw [hl.2]; rfl)
    · simp only [List.mem_append, List.mem_replicate, List.mem_singleton] at hl
      rcases hl with hl | hl
      · exact hlex.2.2.1 (by rw [hl.2]; rfl)
      · exact hlex.1 (by rw [hl]; rfl)
  · exact hlex.1 (allNL_dropLast hn l hl)

theorem nl_advance (p : CaretPos) : (p.advChar '\r').advChar '\n' = p.newline ∧ p.advChar '\n' = p.newline := by
  constructor
  · simp [CaretPos.advChar, CaretPos.newline, CaretPos.offsetPos]
  · simp [CaretPos.advChar]

/-- one call of `into_tokens`: the caret advances over exactly what was consumed, and the token it
    emits (if it carries text) is that slice -/
theorem step_span {nested : List Char → LexRes (List Lex)} {c : Char} {rest : List Char}
    {st st' : LState} {toks : List Lex} {n : Nat}
    (h : step nested c rest st = .ok (toks, st', n)) (hn : AllNL st.newlines) :
    n ≤ rest.length ∧ st'.pos = st.pos.advanceOver (c :: rest.take n) ∧
      ∀ l ∈ toks, Lexical l → SpanOf st.pos (c :: rest) l := by
  unfold step at h
  split at h
  · rename_i t nest m hc
    injection h with h; injection h with h1 h2; injection h2 with h2 h3
    subst h1; subst h2; subst h3
    by_cases hk : t.kind = .NL
    · have hcases := classify_nl_cases _ _ _ _ _ _ _ hc hk
      have htok : st.token t nest = ([], st.newline) := by unfold LState.token; rw [if_pos hk]
      rw [htok]
      refine ⟨?_, ?_, fun l hl => by simp at hl⟩
      · rcases hcases with ⟨_, hm⟩ | ⟨_, hm, tl, e⟩
        · rw [hm]; exact Nat.zero_le _
        · rw [hm, e]; simp
      · simp only [LState.newline]
        rcases hcases with ⟨hc', hm⟩ | ⟨hc', hm, tl, e⟩
        · subst hc'; rw [hm]; simp [CaretPos.advanceOver, (nl_advance st.pos).2]
        · subst hc'; rw [hm, e]; simp [CaretPos.advanceOver, (nl_advance st.pos).1]
    · have hcons := classify_text _ _ _ _ _ _ _ hc hk
      have htok : st.token t nest = (st.layout ++ [Lex.new st.pos t nest],
          { st with newlines := [], tokenThisLine := true, curIndent := st.lineIndent,
                    pos := st.pos.advanceOver t.text }) := by
        unfold LState.token; rw [if_neg hk]
      rw [htok]
      refine ⟨hcons.2, by simp only []; rw [hcons.1], ?_⟩
      intro l hl hlex
      simp only [List.mem_append, List.mem_singleton] at hl
      rcases hl with hl | hl
      · exact absurd hlex (layout_not_lexical st hn l hl)
      · subst hl
        refine ⟨[], t.text, rest.drop m, ?_, by simp [Lex.new, Lex.start, CaretPos.advanceOver], rfl, ?_⟩
        · rw [hcons.1]; simp
        · simp [Lex.new, Lex.stop]
  · rename_i hc
    injection h with h; injection h with h1 h2; injection h2 with h2 h3
    subst h1; subst h2; subst h3
    have := classify_space_char _ _ _ _ hc
    subst this
    refine ⟨Nat.zero_le _, ?_, fun l hl => by simp at hl⟩
    simp [LState.space, CaretPos.advanceOver, CaretPos.advChar]
  · exact absurd h (by simp)
  · exact absurd h (by simp)
  · exact absurd h (by simp)

end MV

namespace MV

/-- the main loop: the caret ends where the text ends, and every lexical token is its slice of the text -/
theorem run_spans (nested : List Char → LexRes (List Lex)) (cs : List Char) :
    ∀ (skip : Nat) (st : LState) {toks : List Lex} {st' : LState}, skip ≤ cs.length →
    run nested cs skip st = .ok (toks, st') → AllNL st.newlines →
    st'.pos = st.pos.advanceOver (cs.drop skip) ∧
      ∀ l ∈ toks, Lexical l → SpanOf st.pos (cs.drop skip) l := by
  induction cs with
  | nil =>
    intro skip st toks st' _ h _
    simp only [run] at h
    injection h with h; injection h with h1 h2; subst h1; subst h2
    exact ⟨by simp [CaretPos.advanceOver], fun l hl => by simp at hl⟩
  | cons c rest ih =>
    intro skip st toks st' hskip h hn
    cases skip with
    | succ k =>
      simp only [run] at h
      have := ih k st (by simp at hskip; omega) h hn
      simpa using this
    | zero =>
      simp only [run] at h
      split at h
      · exact absurd h (by simp)
      · exact absurd h (by simp)
      · rename_i toks1 st1 n hs
        split at h
        · exact absurd h (by simp)
        · exact absurd h (by simp)
        · rename_i more st2 hr
          injection h with h; injection h with h1 h2; subst h1; subst h2
          obtain ⟨hle, hpos, htoks⟩ := step_span hs hn
          obtain ⟨_, hn1, _⟩ := step_inv hs hn
          obtain ⟨hpos2, hmore⟩ := ih n st1 hle hr hn1
          have hsplit : c :: rest = (c :: rest.take n) ++ rest.drop n := by simp
          refine ⟨?_, ?_⟩
          · rw [hpos2, hpos, ← advanceOver_append, ← hsplit]; simp
          · intro l hl hlex
            simp only [List.drop_zero]
            rcases List.mem_append.mp hl with hl | hl
            · exact htoks l hl hlex
            · have := hmore l hl hlex
              rw [hpos] at this
              rw [hsplit]
              exact this.shift

end MV
