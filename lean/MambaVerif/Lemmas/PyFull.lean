/-
The round trip for the whole expression language of the printer: conditional expressions, lambdas,
calls, attribute access, subscripts, isinstance, sqrt, E-notation and the displays, on top of the
operator fragment.
-/
import MambaVerif.Lemmas.PyExt

namespace MV

def isAtomCE : CE → Bool
  | .atom _ => true
  | _ => false

mutual
/-- the expressions covered by the full round trip.  Excluded, each for a stated reason:
    * a tuple with fewer than two elements (`(x)` IS `x` in Python; `()` is not in the grammar model);
    * the empty set display (`{}` is a dictionary in Python);
    * a property whose right side is neither a name nor a call of a name (the Mamba parser builds no other);
    * lambda parameters that are not plain names. -/
def full : CE → Bool
  | .atom _ => true
  | .int _ => true
  | .enum _ _ => true
  | .bin _ l r => full l && full r
  | .un _ e => full e
  | .ternary c t e => full c && full t && full e
  | .lambda args body => args.all isAtomCE && full body
  | .call f args => full f && fullAll args
  | .attr o p =>
    full o && (match p with
      | .atom _ => true
      | .call (.atom _) args => fullAll args
      | _ => false)
  | .index i r => full i && full r
  | .isA l r => full l && full r
  | .sqrt e => full e
  | .tuple es => decide (2 ≤ es.length) && fullAll es
  | .list es => fullAll es
  | .set es => !es.isEmpty && fullAll es
def fullAll : List CE → Bool
  | [] => true
  | e :: es => full e && fullAll es
end

end MV

namespace MV

theorem precLambda_eq : precLambda = 1 := by rfl
theorem precTernary_eq : precTernary = 2 := by rfl
theorem ternaryMins_eq : ternaryMins = (3, 3, 1) := by rfl

theorem full_prec_bounds (e : CE) : 1 ≤ e.prec ∧ e.prec ≤ 15 := by
  cases e <;> simp only [CE.prec, precAtom_eq, precLambda_eq, precTernary_eq] <;> try omega
  · rename_i op _ _
    have := level_bounds op; rw [prec_eq_level]; omega
  · rename_i u _
    by_cases h : u = .Not
    · subst h; simp [un_prec_not]
    · rw [un_prec_other u h]; omega

/-- the three conditions on what follows a bare expression: no operator of its own level after a
    comparison or a power, and nothing that continues an expression after a conditional or a lambda
    (their last part is parsed as a whole `expression`) -/
def NonAssoc2 (x : CE) (rest : List PTok) : Prop :=
  (x.prec = 6 → Stop 6 rest) ∧ (x.prec = 14 → Stop 14 rest) ∧ (x.prec ≤ 2 → Stop 2 rest)

def StopAt2 (k : Nat) (x : CE) (rest : List PTok) : Prop := Stop (k + 1) rest ∧ NonAssoc2 x rest

theorem nonAssoc2_of_stop2 (x : CE) (rest : List PTok) (h : Stop 2 rest) : NonAssoc2 x rest :=
  ⟨fun _ => h.mono (by omega), fun _ => h.mono (by omega), fun _ => h⟩

theorem stopAll_of_none (t : PTok) (r : List PTok) (h : contLevel t = none) (x : CE) (k : Nat) :
    StopAt2 k x (t :: r) :=
  ⟨stop_of_none t r _ h, nonAssoc2_of_stop2 x _ (stop_of_none t r _ h)⟩

/-- the statement proved by induction on the expression -/
def SProp2 (e : CE) : Prop :=
  ∀ (k : Nat) (rest : List PTok) (out : PyAst × List PTok), 1 ≤ k → k ≤ e.prec → StopAt2 k e rest →
    Ev (fun m => cont m k (embed e) rest) out → Ev (fun m => parse m k (pr e ++ rest)) out

def SAll2 : List CE → Prop
  | [] => True
  | e :: es => SProp2 e ∧ SAll2 es

/-! ### how printed forms start -/

theorem pr_ternary (c t e : CE) :
    pr (.ternary c t e) = operand t 3 ++ [.kIf] ++ operand c 3 ++ [.kElse] ++ operand e 1 := by
  simp [pr, ternaryMins_eq]
theorem pr_call (f : CE) (args : List CE) :
    pr (.call f args) = primary f ++ [.lpar] ++ commaSep (prAll args) ++ [.rpar] := by simp [pr]
theorem pr_attr (o p : CE) : pr (.attr o p) = primary o ++ [.dot] ++ pr p := by simp [pr]
theorem pr_index (i r : CE) : pr (.index i r) = primary i ++ [.lbr] ++ pr r ++ [.rbr] := by simp [pr]
theorem pr_isA (l r : CE) :
    pr (.isA l r) = [.word "isinstance", .lpar] ++ pr l ++ [.commaTight] ++ pr r ++ [.rpar] := by simp [pr]
theorem pr_sqrt (e : CE) : pr (.sqrt e) = [.word "math", .dot, .word "sqrt", .lpar] ++ pr e ++ [.rpar] := by
  simp [pr]
theorem pr_tuple (es : List CE) : pr (.tuple es) = [.lpar] ++ commaSep (prAll es) ++ [.rpar] := by simp [pr]
theorem pr_list (es : List CE) : pr (.list es) = [.lbr] ++ commaSep (prAll es) ++ [.rbr] := by simp [pr]
theorem pr_set (es : List CE) : pr (.set es) = [.lcur] ++ commaSep (prAll es) ++ [.rcur] := by simp [pr]
theorem pr_enum (n e : String) :
    pr (.enum n e) = [.lpar, .word n, .bop .Mul, .word "10", .bop .Pow, .word e, .rpar] := by simp [pr, parens]
theorem pr_lambda (args : List CE) (body : CE) :
    pr (.lambda args body) =
      [.kLambda] ++ (if args.isEmpty then [] else [.space] ++ commaSep (prAll args)) ++ [.colon] ++ pr body := by
  simp [pr]

/-- first token of a printed expression -/
def headTok : List PTok → Option PTok := List.head?

/-- a printed expression is never empty and starts with a word, a unary operator, an opening bracket or `lambda` -/
def GoodHead (t : PTok) : Prop :=
  (∃ s, t = .word s) ∨ (∃ u, t = .uop u) ∨ t = .lpar ∨ t = .lbr ∨ t = .lcur ∨ t = .kLambda

theorem goodHead_open {t : PTok} (h : GoodHead t) : isCloser t = false := by
  rcases h with ⟨s, rfl⟩ | ⟨u, rfl⟩ | rfl | rfl | rfl | rfl <;> rfl

theorem operand_unfold (x : CE) (min : Nat) :
    operand x min = if x.prec < min then parens (pr x) else pr x := by
  conv => lhs; unfold operand

theorem primary_int (s : String) : primary (.int s) = parens [.word s] := by
  conv => lhs; unfold primary

theorem primary_other (x : CE) (h : ∀ s, x ≠ .int s) : primary x = operand x precAtom := by
  cases x <;> first | (exact absurd rfl (h _)) | (conv => lhs; unfold primary)

/-- the printed primary of an expression: parenthesised, or the expression itself when it is atomic -/
theorem primary_cases (x : CE) :
    (∃ ts, primary x = .lpar :: ts) ∨ (primary x = pr x ∧ x.prec = 15 ∧ ∀ s, x ≠ .int s) := by
  by_cases hi : ∃ s, x = .int s
  · obtain ⟨s, rfl⟩ := hi
    exact Or.inl ⟨[.word s, .rpar], by rw [primary_int]; simp [parens]⟩
  · have hi' : ∀ s, x ≠ .int s := fun s e => hi ⟨s, e⟩
    rw [primary_other x hi', operand_unfold]
    by_cases hp : x.prec < precAtom
    · rw [if_pos hp]; exact Or.inl ⟨pr x ++ [.rpar], by simp [parens]⟩
    · rw [if_neg hp]
      have := full_prec_bounds x
      rw [precAtom_eq] at hp
      exact Or.inr ⟨rfl, by omega, hi'⟩

theorem pr_head : (e : CE) → ∃ t, (pr e).head? = some t ∧ GoodHead t
  | .atom s => ⟨.word s, by simp [pr], Or.inl ⟨s, rfl⟩⟩
  | .int s => ⟨.word s, by simp [pr], Or.inl ⟨s, rfl⟩⟩
  | .enum n e => ⟨.lpar, by rw [pr_enum]; rfl, by simp [GoodHead]⟩
  | .un u x => ⟨.uop u, by rw [pr_un]; rfl, Or.inr (Or.inl ⟨u, rfl⟩)⟩
  | .bin op l r => by
    rw [pr_bin, operand_unfold]
    split
    · exact ⟨.lpar, by simp [parens], by simp [GoodHead]⟩
    · obtain ⟨t, h, hg⟩ := pr_head l
      exact ⟨t, by simp [List.head?_append, h], hg⟩
  | .ternary c t e => by
    rw [pr_ternary, operand_unfold]
    split
    · exact ⟨.lpar, by simp [parens], by simp [GoodHead]⟩
    · obtain ⟨t', h, hg⟩ := pr_head t
      exact ⟨t', by simp [List.head?_append, h], hg⟩
  | .lambda args body => ⟨.kLambda, by rw [pr_lambda]; simp, by simp [GoodHead]⟩
  | .call f args => by
    rw [pr_call]
    rcases primary_cases f with ⟨ts, h⟩ | ⟨h, _, _⟩
    · exact ⟨.lpar, by rw [h]; simp, by simp [GoodHead]⟩
    · obtain ⟨t', h', hg⟩ := pr_head f
      exact ⟨t', by rw [h]; simp [List.head?_append, h'], hg⟩
  | .attr o p => by
    rw [pr_attr]
    rcases primary_cases o with ⟨ts, h⟩ | ⟨h, _, _⟩
    · exact ⟨.lpar, by rw [h]; simp, by simp [GoodHead]⟩
    · obtain ⟨t', h', hg⟩ := pr_head o
      exact ⟨t', by rw [h]; simp [List.head?_append, h'], hg⟩
  | .index i r => by
    rw [pr_index]
    rcases primary_cases i with ⟨ts, h⟩ | ⟨h, _, _⟩
    · exact ⟨.lpar, by rw [h]; simp, by simp [GoodHead]⟩
    · obtain ⟨t', h', hg⟩ := pr_head i
      exact ⟨t', by rw [h]; simp [List.head?_append, h'], hg⟩
  | .isA l r => ⟨.word "isinstance", by rw [pr_isA]; simp, Or.inl ⟨_, rfl⟩⟩
  | .sqrt e => ⟨.word "math", by rw [pr_sqrt]; simp, Or.inl ⟨_, rfl⟩⟩
  | .tuple es => ⟨.lpar, by rw [pr_tuple]; simp, by simp [GoodHead]⟩
  | .list es => ⟨.lbr, by rw [pr_list]; simp, by simp [GoodHead]⟩
  | .set es => ⟨.lcur, by rw [pr_set]; simp, by simp [GoodHead]⟩

theorem pr_headOpen (e : CE) (rest : List PTok) : HeadOpen (pr e ++ rest) := by
  obtain ⟨t, h, hg⟩ := pr_head e
  cases hp : pr e with
  | nil => rw [hp] at h; simp at h
  | cons t' ts =>
    rw [hp] at h
    simp at h; subst h
    exact goodHead_open hg

end MV
