/-
The round trip for the whole expression language of the printer: conditional expressions, lambdas,
calls, attribute access, subscripts, isinstance, sqrt, E-notation and the displays, on top of the
operator fragment.
-/
import MambaVerif.Lemmas.PyExt
import MambaVerif.Lemmas.PyMain

namespace MV

def isAtomCE : CE → Bool
  | .atom _ => true
  | _ => false

mutual
/-- the expressions covered by the full round trip.  Excluded, each for a stated reason:
    * a tuple with fewer than two elements (`(x)` IS `x` in Python; `()` is not in the grammar model);
    * the empty set display (`{}` is a dictionary in Python);
    * a property whose right side is neither a name nor a call of a name (the Mamba parser builds no other);
    * lambda parameters that are not plain names. -/
def full : CE → Bool
  | .atom _ => true
  | .int _ => true
  | .enum _ _ => true
  | .bin _ l r => full l && full r
  | .un _ e => full e
  | .ternary c t e => full c && full t && full e
  | .lambda args body => args.all isAtomCE && full body
  | .call f args => full f && fullAll args
  | .attr o p =>
    full o && (match p with
      | .atom _ => true
      | .call (.atom _) args => fullAll args
      | _ => false)
  | .index i r => full i && full r
  | .isA l r => full l && full r
  | .sqrt e => full e
  | .tuple es => decide (2 ≤ es.length) && fullAll es
  | .list es => fullAll es
  | .set es => !es.isEmpty && fullAll es
def fullAll : List CE → Bool
  | [] => true
  | e :: es => full e && fullAll es
end

end MV

namespace MV

theorem precLambda_eq : precLambda = 1 := by rfl
theorem precTernary_eq : precTernary = 2 := by rfl
theorem ternaryMins_eq : ternaryMins = (3, 3, 1) := by rfl

theorem full_prec_bounds (e : CE) : 1 ≤ e.prec ∧ e.prec ≤ 15 := by
  cases e <;> simp only [CE.prec, precAtom_eq, precLambda_eq, precTernary_eq] <;> try omega
  · rename_i op _ _
    have := level_bounds op; rw [prec_eq_level]; omega
  · rename_i u _
    by_cases h : u = .Not
    · subst h; simp [un_prec_not]
    · rw [un_prec_other u h]; omega

/-- the three conditions on what follows a bare expression: no operator of its own level after a
    comparison or a power, and nothing that continues an expression after a conditional or a lambda
    (their last part is parsed as a whole `expression`) -/
def NonAssoc2 (x : CE) (rest : List PTok) : Prop :=
  (x.prec = 6 → Stop 6 rest) ∧ (x.prec = 14 → Stop 14 rest) ∧ (x.prec ≤ 2 → Stop 2 rest)

def StopAt2 (k : Nat) (x : CE) (rest : List PTok) : Prop := Stop (k + 1) rest ∧ NonAssoc2 x rest

theorem nonAssoc2_of_stop2 (x : CE) (rest : List PTok) (h : Stop 2 rest) : NonAssoc2 x rest :=
  ⟨fun _ => h.mono (by omega), fun _ => h.mono (by omega), fun _ => h⟩

theorem stopAll_of_none (t : PTok) (r : List PTok) (h : contLevel t = none) (x : CE) (k : Nat) :
    StopAt2 k x (t :: r) :=
  ⟨stop_of_none t r _ h, nonAssoc2_of_stop2 x _ (stop_of_none t r _ h)⟩

/-- the statement proved by induction on the expression -/
def SProp2 (e : CE) : Prop :=
  ∀ (k : Nat) (rest : List PTok) (out : PyAst × List PTok), 1 ≤ k → k ≤ e.prec → StopAt2 k e rest →
    Ev (fun m => cont m k (embed e) rest) out → Ev (fun m => parse m k (pr e ++ rest)) out

def SAll2 : List CE → Prop
  | [] => True
  | e :: es => SProp2 e ∧ SAll2 es

/-! ### how printed forms start -/

theorem pr_ternary (c t e : CE) :
    pr (.ternary c t e) = operand t 3 ++ [.kIf] ++ operand c 3 ++ [.kElse] ++ operand e 1 := by
  simp [pr, ternaryMins_eq]
theorem pr_call (f : CE) (args : List CE) :
    pr (.call f args) = primary f ++ [.lpar] ++ commaSep (prAll args) ++ [.rpar] := by simp [pr]
theorem pr_attr (o p : CE) : pr (.attr o p) = primary o ++ [.dot] ++ pr p := by simp [pr]
theorem pr_index (i r : CE) : pr (.index i r) = primary i ++ [.lbr] ++ pr r ++ [.rbr] := by simp [pr]
theorem pr_isA (l r : CE) :
    pr (.isA l r) = [.word "isinstance", .lpar] ++ pr l ++ [.commaTight] ++ pr r ++ [.rpar] := by simp [pr]
theorem pr_sqrt (e : CE) : pr (.sqrt e) = [.word "math", .dot, .word "sqrt", .lpar] ++ pr e ++ [.rpar] := by
  simp [pr]
theorem pr_tuple (es : List CE) : pr (.tuple es) = [.lpar] ++ commaSep (prAll es) ++ [.rpar] := by simp [pr]
theorem pr_list (es : List CE) : pr (.list es) = [.lbr] ++ commaSep (prAll es) ++ [.rbr] := by simp [pr]
theorem pr_set (es : List CE) : pr (.set es) = [.lcur] ++ commaSep (prAll es) ++ [.rcur] := by simp [pr]
theorem pr_enum (n e : String) :
    pr (.enum n e) = [.lpar, .word n, .bop .Mul, .word "10", .bop .Pow, .word e, .rpar] := by simp [pr, parens]
theorem pr_lambda (args : List CE) (body : CE) :
    pr (.lambda args body) =
      [.kLambda] ++ (if args.isEmpty then [] else [.space] ++ commaSep (prAll args)) ++ [.colon] ++ pr body := by
  simp [pr]

/-- first token of a printed expression -/
def headTok : List PTok → Option PTok := List.head?

/-- a printed expression is never empty and starts with a word, a unary operator, an opening bracket or `lambda` -/
def GoodHead (t : PTok) : Prop :=
  (∃ s, t = .word s) ∨ (∃ u, t = .uop u) ∨ t = .lpar ∨ t = .lbr ∨ t = .lcur ∨ t = .kLambda

theorem goodHead_open {t : PTok} (h : GoodHead t) : isCloser t = false := by
  rcases h with ⟨s, rfl⟩ | ⟨u, rfl⟩ | rfl | rfl | rfl | rfl <;> rfl

theorem operand_unfold (x : CE) (min : Nat) :
    operand x min = if x.prec < min then parens (pr x) else pr x := by
  conv => lhs; unfold operand

theorem primary_int (s : String) : primary (.int s) = parens [.word s] := by
  conv => lhs; unfold primary

theorem primary_other (x : CE) (h : ∀ s, x ≠ .int s) : primary x = operand x precAtom := by
  cases x <;> first | (exact absurd rfl (h _)) | (conv => lhs; unfold primary)

/-- the printed primary of an expression: parenthesised, or the expression itself when it is atomic -/
theorem primary_cases (x : CE) :
    (∃ ts, primary x = .lpar :: ts) ∨ (primary x = pr x ∧ x.prec = 15 ∧ ∀ s, x ≠ .int s) := by
  by_cases hi : ∃ s, x = .int s
  · obtain ⟨s, rfl⟩ := hi
    exact Or.inl ⟨[.word s, .rpar], by rw [primary_int]; simp [parens]⟩
  · have hi' : ∀ s, x ≠ .int s := fun s e => hi ⟨s, e⟩
    rw [primary_other x hi', operand_unfold]
    by_cases hp : x.prec < precAtom
    · rw [if_pos hp]; exact Or.inl ⟨pr x ++ [.rpar], by simp [parens]⟩
    · rw [if_neg hp]
      have := full_prec_bounds x
      rw [precAtom_eq] at hp
      exact Or.inr ⟨rfl, by omega, hi'⟩

theorem pr_head : (e : CE) → ∃ t, (pr e).head? = some t ∧ GoodHead t
  | .atom s => ⟨.word s, by simp [pr], Or.inl ⟨s, rfl⟩⟩
  | .int s => ⟨.word s, by simp [pr], Or.inl ⟨s, rfl⟩⟩
  | .enum n e => ⟨.lpar, by rw [pr_enum]; rfl, by simp [GoodHead]⟩
  | .un u x => ⟨.uop u, by rw [pr_un]; rfl, Or.inr (Or.inl ⟨u, rfl⟩)⟩
  | .bin op l r => by
    rw [pr_bin, operand_unfold]
    split
    · exact ⟨.lpar, by simp [parens], by simp [GoodHead]⟩
    · obtain ⟨t, h, hg⟩ := pr_head l
      exact ⟨t, by simp [List.head?_append, h], hg⟩
  | .ternary c t e => by
    rw [pr_ternary, operand_unfold]
    split
    · exact ⟨.lpar, by simp [parens], by simp [GoodHead]⟩
    · obtain ⟨t', h, hg⟩ := pr_head t
      exact ⟨t', by simp [List.head?_append, h], hg⟩
  | .lambda args body => ⟨.kLambda, by rw [pr_lambda]; simp, by simp [GoodHead]⟩
  | .call f args => by
    rw [pr_call]
    rcases primary_cases f with ⟨ts, h⟩ | ⟨h, _, _⟩
    · exact ⟨.lpar, by rw [h]; simp, by simp [GoodHead]⟩
    · obtain ⟨t', h', hg⟩ := pr_head f
      exact ⟨t', by rw [h]; simp [List.head?_append, h'], hg⟩
  | .attr o p => by
    rw [pr_attr]
    rcases primary_cases o with ⟨ts, h⟩ | ⟨h, _, _⟩
    · exact ⟨.lpar, by rw [h]; simp, by simp [GoodHead]⟩
    · obtain ⟨t', h', hg⟩ := pr_head o
      exact ⟨t', by rw [h]; simp [List.head?_append, h'], hg⟩
  | .index i r => by
    rw [pr_index]
    rcases primary_cases i with ⟨ts, h⟩ | ⟨h, _, _⟩
    · exact ⟨.lpar, by rw [h]; simp, by simp [GoodHead]⟩
    · obtain ⟨t', h', hg⟩ := pr_head i
      exact ⟨t', by rw [h]; simp [List.head?_append, h'], hg⟩
  | .isA l r => ⟨.word "isinstance", by rw [pr_isA]; simp, Or.inl ⟨_, rfl⟩⟩
  | .sqrt e => ⟨.word "math", by rw [pr_sqrt]; simp, Or.inl ⟨_, rfl⟩⟩
  | .tuple es => ⟨.lpar, by rw [pr_tuple]; simp, by simp [GoodHead]⟩
  | .list es => ⟨.lbr, by rw [pr_list]; simp, by simp [GoodHead]⟩
  | .set es => ⟨.lcur, by rw [pr_set]; simp, by simp [GoodHead]⟩

theorem pr_headOpen (e : CE) (rest : List PTok) : HeadOpen (pr e ++ rest) := by
  obtain ⟨t, h, hg⟩ := pr_head e
  cases hp : pr e with
  | nil => rw [hp] at h; simp at h
  | cons t' ts =>
    rw [hp] at h
    simp at h; subst h
    exact goodHead_open hg

end MV

namespace MV

theorem noPrefix_of_head {ts : List PTok} {t : PTok} (h : ts.head? = some t)
    (hg : (∃ s, t = .word s) ∨ t = .lpar ∨ t = .lbr ∨ t = .lcur) (j : Nat) : NoPrefixAt j ts := by
  cases ts with
  | nil => simp at h
  | cons t' r =>
    simp at h; subst h
    rcases hg with ⟨s, rfl⟩ | rfl | rfl | rfl <;> simp [NoPrefixAt, prefixForm, headIsLambda]

theorem head_append {a : List PTok} {t : PTok} (h : a.head? = some t) (b : List PTok) :
    (a ++ b).head? = some t := by
  cases a with
  | nil => simp at h
  | cons x xs => simpa using h

theorem noPrefix_append_of {a : List PTok} (b : List PTok) {j : Nat} (hne : a ≠ [])
    (h : NoPrefixAt j (a ++ [])) : NoPrefixAt j (a ++ b) := by
  cases a with
  | nil => exact absurd rfl hne
  | cons x xs =>
    simp only [List.append_nil] at h
    obtain ⟨h1, h2⟩ := h
    refine ⟨?_, ?_⟩
    · cases x <;> simp [prefixForm] at h1 ⊢
      exact h1
    · cases x <;> simp [headIsLambda] at h2 ⊢

/-- the printed form does not start with a prefix form (unary operator or `lambda`) of a level below its own -/
theorem head_facts2 : (e : CE) → ∀ (rest : List PTok) (j : Nat), 1 ≤ j → j < e.prec → NoPrefixAt j (pr e ++ rest)
  | .atom s, rest, j, _, _ => by simp [pr_atom, NoPrefixAt, prefixForm, headIsLambda]
  | .int s, rest, j, _, _ => by simp [pr_int, NoPrefixAt, prefixForm, headIsLambda]
  | .enum n e, rest, j, _, _ => by rw [pr_enum]; simp [NoPrefixAt, prefixForm, headIsLambda]
  | .un u x, rest, j, _, hj => by
    simp only [CE.prec] at hj
    simp only [pr_un, List.cons_append, List.nil_append, NoPrefixAt, prefixForm, headIsLambda, and_true]
    by_cases h : u = .Not
    · subst h; rw [un_prec_not] at hj
      have : ¬ j = 5 := by omega
      simp [this]
    · rw [un_prec_other u h] at hj
      have : ¬ j = 13 := by omega
      simp [h, this]
  | .bin op l r, rest, j, hj1, hj => by
    simp only [CE.prec, prec_eq_level] at hj
    rw [pr_bin, List.append_assoc, List.append_assoc, operand_unfold]
    split
    · simp [parens, NoPrefixAt, prefixForm, headIsLambda]
    · rename_i hbare
      have hlm : pyLevel op ≤ op.sides.1 := by
        rcases level_kind op with h | h | h
        · exact (sides_left op h).1
        · have := (sides_cmp op h).1; omega
        · have := (sides_pow op h).1; omega
      exact head_facts2 l _ j hj1 (by omega)
  | .ternary c t e, rest, j, hj1, hj => by
    simp only [CE.prec, precTernary_eq] at hj
    rw [pr_ternary]
    simp only [List.append_assoc]
    rw [operand_unfold]
    split
    · simp [parens, NoPrefixAt, prefixForm, headIsLambda]
    · rename_i hbare
      exact head_facts2 t _ j hj1 (by omega)
  | .lambda args body, rest, j, hj1, hj => by
    simp only [CE.prec, precLambda_eq] at hj; omega
  | .call f args, rest, j, hj1, hj => by
    rw [pr_call]
    simp only [List.append_assoc]
    rcases primary_cases f with ⟨ts, h⟩ | ⟨h, hp, _⟩
    · rw [h]; simp [NoPrefixAt, prefixForm, headIsLambda]
    · rw [h]; exact head_facts2 f _ j hj1 (by simp only [CE.prec, precAtom_eq] at hj; omega)
  | .attr o p, rest, j, hj1, hj => by
    rw [pr_attr]
    simp only [List.append_assoc]
    rcases primary_cases o with ⟨ts, h⟩ | ⟨h, hp, _⟩
    · rw [h]; simp [NoPrefixAt, prefixForm, headIsLambda]
    · rw [h]; exact head_facts2 o _ j hj1 (by simp only [CE.prec, precAtom_eq] at hj; omega)
  | .index i r, rest, j, hj1, hj => by
    rw [pr_index]
    simp only [List.append_assoc]
    rcases primary_cases i with ⟨ts, h⟩ | ⟨h, hp, _⟩
    · rw [h]; simp [NoPrefixAt, prefixForm, headIsLambda]
    · rw [h]; exact head_facts2 i _ j hj1 (by simp only [CE.prec, precAtom_eq] at hj; omega)
  | .isA l r, rest, j, _, _ => by rw [pr_isA]; simp [NoPrefixAt, prefixForm, headIsLambda]
  | .sqrt e, rest, j, _, _ => by rw [pr_sqrt]; simp [NoPrefixAt, prefixForm, headIsLambda]
  | .tuple es, rest, j, _, _ => by rw [pr_tuple]; simp [NoPrefixAt, prefixForm, headIsLambda]
  | .list es, rest, j, _, _ => by rw [pr_list]; simp [NoPrefixAt, prefixForm, headIsLambda]
  | .set es, rest, j, _, _ => by rw [pr_set]; simp [NoPrefixAt, prefixForm, headIsLambda]

theorem operand_head2 (x : CE) (min j : Nat) (hj1 : 1 ≤ j) (hj : j < min) (rest : List PTok) :
    NoPrefixAt j (operand x min ++ rest) := by
  rw [operand_unfold]
  split
  · simp [parens, NoPrefixAt, prefixForm, headIsLambda]
  · exact head_facts2 x rest j hj1 (by omega)

/-- an operand, bare or parenthesised, is parsed back at any level up to its required minimum -/
theorem operand_S2 (x : CE) (hS : SProp2 x) (min k : Nat) (hk1 : 1 ≤ k) (hk : k ≤ min) (hk15 : k ≤ 15)
    (rest : List PTok) (out : PyAst × List PTok) (hstop : Stop (k + 1) rest)
    (hna : ¬ (x.prec < min) → NonAssoc2 x rest)
    (hc : Ev (fun m => cont m k (embed x) rest) out) :
    Ev (fun m => parse m k (operand x min ++ rest)) out := by
  rw [operand_unfold]
  split
  · -- parenthesised
    have hb := full_prec_bounds x
    have hin : Ev (fun m => parse m 1 (pr x ++ .rpar :: rest)) (embed x, .rpar :: rest) :=
      hS 1 (.rpar :: rest) _ (Nat.le_refl _) hb.1 (stopAll_of_none .rpar rest rfl x 1)
        (Ev_exit (fun t ht hc' => by simp at ht; subst ht; simp [contLevel] at hc'))
    have hform : parens (pr x) ++ rest = .lpar :: (pr x ++ .rpar :: rest) := by simp [parens]
    rw [hform]
    by_cases hk' : k = 15
    · subst hk'; exact Ev_paren hin hc
    · have h15 : Ev (fun m => parse m 15 (.lpar :: (pr x ++ .rpar :: rest))) (embed x, rest) :=
        Ev_paren hin (Ev_exit_of_stop (hstop.mono (by omega)))
      exact Ev_descend (15 - k - 1) k 15 _ rest (embed x) out (by omega) (by omega)
        (fun j _ _ => by simp [NoPrefixAt, prefixForm, headIsLambda]) h15 hstop hc
  · rename_i hbare
    exact hS k rest out hk1 (by omega) ⟨hstop, hna hbare⟩ hc

/-- from the top level of an expression down to any lower level -/
theorem lift_top2 (e : CE)
    (htop : ∀ (rest : List PTok) (out : PyAst × List PTok), StopAt2 e.prec e rest →
      Ev (fun m => cont m e.prec (embed e) rest) out → Ev (fun m => parse m e.prec (pr e ++ rest)) out) :
    SProp2 e := by
  intro k rest out hk1 hk hst hc
  by_cases hkp : k = e.prec
  · subst hkp; exact htop rest out hst hc
  · have hb := full_prec_bounds e
    have hp : Ev (fun m => parse m e.prec (pr e ++ rest)) (embed e, rest) :=
      htop rest _ ⟨hst.1.mono (by omega), hst.2⟩ (Ev_exit_of_stop (hst.1.mono (by omega)))
    exact Ev_descend (e.prec - k - 1) k e.prec _ rest (embed e) out (by omega) hb.2
      (fun j hj1 hj2 => head_facts2 e rest j (by omega) hj2) hp hst.1 hc

end MV

namespace MV

/-! ### the operator cases again, for the wider statement -/

theorem top_word2 (s : String) (rest : List PTok) (out : PyAst × List PTok)
    (hc : Ev (fun m => cont m 15 (.name s) rest) out) : Ev (fun m => parse m 15 ([.word s] ++ rest)) out :=
  Ev_word hc

theorem S_atom (s : String) : SProp2 (.atom s) :=
  lift_top2 _ (fun rest out _ hc => by
    simp only [CE.prec, precAtom_eq, pr_atom, embed] at hc ⊢; exact top_word2 s rest out hc)

theorem S_int (s : String) : SProp2 (.int s) :=
  lift_top2 _ (fun rest out _ hc => by
    simp only [CE.prec, precAtom_eq, pr_int, embed] at hc ⊢; exact top_word2 s rest out hc)

theorem top_un2 (u : UnOp) (x : CE) (hSx : SProp2 x)
    (rest : List PTok) (out : PyAst × List PTok) (hst : StopAt2 (CE.un u x).prec (.un u x) rest)
    (hc : Ev (fun m => cont m (CE.un u x).prec (embed (.un u x)) rest) out) :
    Ev (fun m => parse m (CE.un u x).prec (pr (.un u x) ++ rest)) out := by
  simp only [CE.prec] at hst hc ⊢
  have hq : u.prec = 5 ∨ u.prec = 13 := by
    by_cases h : u = .Not
    · subst h; exact Or.inl un_prec_not
    · exact Or.inr (un_prec_other u h)
  have hpf : prefixForm u.prec (.uop u :: (operand x u.prec ++ rest)) = some (u, operand x u.prec ++ rest) := by
    by_cases h : u = .Not
    · subst h; simp [prefixForm, un_prec_not]
    · simp [prefixForm, h, un_prec_other u h]
  have hexit : ∀ (acc : PyAst), Ev (fun m => cont m u.prec acc rest) (acc, rest) := fun acc =>
    Ev_exit (fun t _ => contLevel_ne t u.prec (by omega))
  have hop : Ev (fun m => parse m u.prec (operand x u.prec ++ rest)) (embed x, rest) :=
    operand_S2 x hSx u.prec u.prec (by omega) (Nat.le_refl _) (by omega) rest _ hst.1
      (fun hb => ⟨fun _ => hst.1.mono (by omega), fun _ => hst.1.mono (by omega), fun h2 => by omega⟩) (hexit _)
  have hout : out = (embed (.un u x), rest) := Ev.unique hc (hexit _)
  rw [hout, pr_un]
  have := Ev_prefix (by omega) hpf hop
  simpa [embed] using this

theorem top_bin2 (op : BinOp) (l r : CE) (hSl : SProp2 l) (hSr : SProp2 r)
    (rest : List PTok) (out : PyAst × List PTok) (hst : StopAt2 (CE.bin op l r).prec (.bin op l r) rest)
    (hc : Ev (fun m => cont m (CE.bin op l r).prec (embed (.bin op l r)) rest) out) :
    Ev (fun m => parse m (CE.bin op l r).prec (pr (.bin op l r) ++ rest)) out := by
  simp only [CE.prec, prec_eq_level] at hst hc ⊢
  obtain ⟨hstop, hna6, hna14, _⟩ := hst
  simp only [CE.prec, prec_eq_level] at hna6 hna14
  have hlb := level_bounds op
  have hform : pr (.bin op l r) ++ rest = operand l op.sides.1 ++ (.bop op :: (operand r op.sides.2 ++ rest)) := by
    rw [pr_bin]; simp
  rw [hform]
  have hemb : embed (.bin op l r) = .bin op (embed l) (embed r) := by simp [embed]
  rw [hemb] at hc
  rcases level_kind op with hk | hk | hk
  · -- left-associative level
    obtain ⟨hlm, hrm⟩ := sides_left op hk
    have hp := isLeft_cases hk
    have hright : Ev (fun m => parse m (pyLevel op + 1) (operand r op.sides.2 ++ rest)) (embed r, rest) :=
      operand_S2 r hSr op.sides.2 (pyLevel op + 1) (by omega) hrm (by omega) rest _ (hstop.mono (by omega))
        (fun hb => ⟨fun h6 => hstop.mono (by omega), fun _ => hstop.mono (by omega), fun h2 => by omega⟩)
        (Ev_exit_of_stop hstop)
    exact operand_S2 l hSl op.sides.1 (pyLevel op) (by omega) hlm (by omega) _ out (stop_bop op _ _ (by omega))
      (fun hb => ⟨fun h6 => stop_bop op _ _ (by omega), fun _ => stop_bop op _ _ (by omega), fun h2 => by omega⟩)
      (Ev_left hk rfl hright hc)
  · -- comparison
    obtain ⟨hlm, hrm⟩ := sides_cmp op hk
    rw [hk] at hc hstop ⊢
    have hstop6 : Stop 6 rest := hna6 hk
    have hleft : Ev (fun m => parse m 7 (operand l op.sides.1 ++ (.bop op :: (operand r op.sides.2 ++ rest))))
        (embed l, .bop op :: (operand r op.sides.2 ++ rest)) :=
      operand_S2 l hSl op.sides.1 7 (by omega) hlm (by omega) _ _ (stop_bop op _ _ (by omega))
        (fun hb => ⟨fun h6 => by omega, fun _ => stop_bop op _ _ (by omega), fun h2 => by omega⟩)
        (exit_bop op _ 7 _ (by omega))
    have hright : Ev (fun m => parse m 7 (operand r op.sides.2 ++ rest)) (embed r, rest) :=
      operand_S2 r hSr op.sides.2 7 (by omega) hrm (by omega) rest _ (hstop.mono (by omega))
        (fun hb => ⟨fun h6 => by omega, fun _ => hstop.mono (by omega), fun h2 => by omega⟩)
        (Ev_exit_of_stop hstop)
    have hout : out = (.bin op (embed l) (embed r), rest) := Ev.unique hc (Ev_exit_of_stop hstop6)
    rw [hout]
    exact Ev_down (by omega) (operand_head2 l op.sides.1 6 (by omega) (by omega) _) hleft (Ev_cmp hk hright hstop6)
  · -- power
    obtain ⟨hlm, hrm⟩ := sides_pow op hk
    rw [hk] at hc hstop ⊢
    have hstop14 : Stop 14 rest := hna14 hk
    have hleft : Ev (fun m => parse m 15 (operand l op.sides.1 ++ (.bop op :: (operand r op.sides.2 ++ rest))))
        (embed l, .bop op :: (operand r op.sides.2 ++ rest)) :=
      operand_S2 l hSl op.sides.1 15 (by omega) hlm (by omega) _ _ (stop_bop op _ _ (by omega))
        (fun hb => ⟨fun h6 => by omega, fun h14 => by omega, fun h2 => by omega⟩)
        (exit_bop op _ 15 _ (by omega))
    have hright : Ev (fun m => parse m 13 (operand r op.sides.2 ++ rest)) (embed r, rest) :=
      operand_S2 r hSr op.sides.2 13 (by omega) hrm (by omega) rest _ hstop14
        (fun hb => ⟨fun h6 => by omega, fun _ => hstop14, fun h2 => by omega⟩)
        (Ev_exit (fun t _ => contLevel_ne t 13 (by omega)))
    have hout : out = (.bin op (embed l) (embed r), rest) := Ev.unique hc (Ev_exit_of_stop hstop14)
    rw [hout]
    exact Ev_down (by omega) (operand_head2 l op.sides.1 14 (by omega) (by omega) _) hleft (Ev_pow hk hright)

end MV

namespace MV

/-! ### the forms outside the operator fragment -/

theorem contLevel_closer {t : PTok} (h : isCloser t = true) : contLevel t = none := by
  cases t <;> simp [isCloser] at h <;> rfl

theorem stop_kIf (j : Nat) (hj : 2 < j) (r : List PTok) : Stop j (.kIf :: r) := by
  intro t ht l hl
  simp at ht; subst ht; simp [contLevel] at hl; omega

/-- an expression printed bare where a whole `expression` is expected, followed by a token that continues nothing -/
theorem bare_S2 (x : CE) (hS : SProp2 x) (t : PTok) (r : List PTok) (ht : contLevel t = none) :
    Ev (fun m => parse m 1 (pr x ++ t :: r)) (embed x, t :: r) :=
  hS 1 (t :: r) _ (Nat.le_refl _) (full_prec_bounds x).1 (stopAll_of_none t r ht x 1)
    (Ev_exit (fun t' ht' hc' => by simp at ht'; subst ht'; rw [ht] at hc'; exact absurd hc' (by simp)))

theorem contLevel_le (t : PTok) (l : Nat) (h : contLevel t = some l) : l ≤ 15 := by
  cases t with
  | bop o => simp [contLevel] at h; have := level_bounds o; omega
  | kIf => simp [contLevel] at h; omega
  | dot => simp [contLevel] at h; omega
  | lpar => simp [contLevel] at h; omega
  | lbr => simp [contLevel] at h; omega
  | _ => simp [contLevel] at h

/-- the printed primary of an expression is parsed back at the primary level, whatever continues it -/
theorem primary_S2 (f : CE) (hS : SProp2 f) (rest : List PTok) (out : PyAst × List PTok)
    (hc : Ev (fun m => cont m 15 (embed f) rest) out) :
    Ev (fun m => parse m 15 (primary f ++ rest)) out := by
  have hstop : Stop 16 rest := fun t _ l hl => by have := contLevel_le t l hl; omega
  by_cases hi : ∃ s, f = .int s
  · obtain ⟨s, rfl⟩ := hi
    rw [primary_int]
    have hin := bare_S2 (.int s) hS .rpar rest rfl
    have hform : parens [PTok.word s] ++ rest = .lpar :: (pr (.int s) ++ .rpar :: rest) := by simp [parens, pr]
    rw [hform]
    exact Ev_paren hin hc
  · have hi' : ∀ s, f ≠ .int s := fun s e => hi ⟨s, e⟩
    rw [primary_other f hi', precAtom_eq]
    have hb := full_prec_bounds f
    exact operand_S2 f hS 15 15 (by omega) (Nat.le_refl _) (Nat.le_refl _) rest out hstop
      (fun hbare => ⟨fun h6 => by omega, fun h14 => by omega, fun h2 => by omega⟩) hc

/-- comma separated printed expressions up to a closing bracket -/
theorem items_S2 : (args : List CE) → SAll2 args → ∀ (c : PTok) (rest : List PTok) (acc : List PyAst),
    isCloser c = true →
    Ev (fun m => items m (commaSep (prAll args) ++ c :: rest) acc) (acc.reverse ++ embedAll args, c :: rest)
  | [], _, c, rest, acc, hc => by
    simpa [commaSep, prAll, embedAll] using Ev_items_close (ts := rest) (acc := acc) hc
  | [a], hS, c, rest, acc, hc => by
    have h1 := bare_S2 a hS.1 c rest (contLevel_closer hc)
    have := Ev_items_last (acc := acc) (pr_headOpen a _) h1 hc
    simpa [commaSep, prAll, embedAll] using this
  | a :: b :: more, hS, c, rest, acc, hc => by
    have h1 := bare_S2 a hS.1 .comma (commaSep (prAll (b :: more)) ++ c :: rest) rfl
    have ih := items_S2 (b :: more) hS.2 c rest (embed a :: acc) hc
    have := Ev_items_comma (acc := acc) (pr_headOpen a _) h1 ih
    have hform : commaSep (prAll (a :: b :: more)) ++ c :: rest =
        pr a ++ .comma :: (commaSep (prAll (b :: more)) ++ c :: rest) := by
      simp [commaSep, prAll]
    rw [hform]
    simpa [embedAll] using this

theorem top_enum (n e : String) (rest : List PTok) (out : PyAst × List PTok)
    (hc : Ev (fun m => cont m 15 (embed (.enum n e)) rest) out) :
    Ev (fun m => parse m 15 (pr (.enum n e) ++ rest)) out := by
  let x : CE := .bin .Mul (.atom n) (.bin .Pow (.atom "10") (.atom e))
  have hx : frag x = true := by simp [x, frag]
  have hpr : pr x = [.word n, .bop .Mul, .word "10", .bop .Pow, .word e] := by
    have a1 : ¬ (15 < BinOp.Mul.sides.fst) := by decide
    have a2 : ¬ (BinOp.Pow.prec < BinOp.Mul.sides.snd) := by decide
    have a3 : ¬ (15 < BinOp.Pow.sides.fst) := by decide
    have a4 : ¬ (15 < BinOp.Pow.sides.snd) := by decide
    simp [x, pr_bin, pr_atom, operand_unfold, CE.prec, precAtom_eq, a1, a2, a3, a4]
  have hemb : embed x = embed (.enum n e) := by simp [x, embed]
  have hin : Ev (fun m => parse m 1 (pr x ++ .rpar :: rest)) (embed x, .rpar :: rest) :=
    S_all x hx 1 (.rpar :: rest) _ (by have := frag_prec_bounds x hx; omega)
      ⟨stop_rpar _ _, ⟨fun _ => stop_rpar _ _, fun _ => stop_rpar _ _⟩⟩
      (Ev_exit (fun t ht hc' => by simp at ht; subst ht; simp [contLevel] at hc'))
  have hform : pr (.enum n e) ++ rest = .lpar :: (pr x ++ .rpar :: rest) := by rw [pr_enum, hpr]; simp
  rw [hform]
  rw [← hemb] at hc
  exact Ev_paren hin hc

end MV

namespace MV

theorem exit_none {t : PTok} (ht : contLevel t = none) (k : Nat) (acc : PyAst) (r : List PTok) :
    Ev (fun m => cont m k acc (t :: r)) (acc, t :: r) :=
  Ev_exit (fun t' ht' hc' => by simp at ht'; subst ht'; rw [ht] at hc'; exact absurd hc' (by simp))

theorem top_ternary (c t e : CE) (hSc : SProp2 c) (hSt : SProp2 t) (hSe : SProp2 e)
    (rest : List PTok) (out : PyAst × List PTok) (hst : StopAt2 (CE.ternary c t e).prec (.ternary c t e) rest)
    (hc : Ev (fun m => cont m (CE.ternary c t e).prec (embed (.ternary c t e)) rest) out) :
    Ev (fun m => parse m (CE.ternary c t e).prec (pr (.ternary c t e) ++ rest)) out := by
  simp only [CE.prec, precTernary_eq] at hst hc ⊢
  obtain ⟨_, _, _, h2⟩ := hst
  have hstop2 : Stop 2 rest := h2 (by simp [CE.prec, precTernary_eq])
  have hemb : embed (.ternary c t e) = .ifExp (embed c) (embed t) (embed e) := by simp [embed]
  rw [hemb] at hc
  have hform : pr (.ternary c t e) ++ rest =
      operand t 3 ++ (.kIf :: (operand c 3 ++ (.kElse :: (operand e 1 ++ rest)))) := by
    rw [pr_ternary]; simp
  rw [hform]
  have hbt := full_prec_bounds t
  have hbc := full_prec_bounds c
  have h3 : Ev (fun m => parse m 3 (operand t 3 ++ (.kIf :: (operand c 3 ++ (.kElse :: (operand e 1 ++ rest))))))
      (embed t, .kIf :: (operand c 3 ++ (.kElse :: (operand e 1 ++ rest)))) :=
    operand_S2 t hSt 3 3 (by omega) (Nat.le_refl _) (by omega) _ _ (stop_kIf 4 (by omega) _)
      (fun hb => ⟨fun _ => stop_kIf 6 (by omega) _, fun _ => stop_kIf 14 (by omega) _, fun h => by omega⟩)
      (Ev_exit (fun t' ht' hc' => by simp at ht'; subst ht'; simp [contLevel] at hc'))
  have hcond : Ev (fun m => parse m 3 (operand c 3 ++ (.kElse :: (operand e 1 ++ rest))))
      (embed c, .kElse :: (operand e 1 ++ rest)) :=
    operand_S2 c hSc 3 3 (by omega) (Nat.le_refl _) (by omega) _ _ (stop_of_none .kElse _ _ rfl)
      (fun _ => nonAssoc2_of_stop2 c _ (stop_of_none .kElse _ _ rfl)) (exit_none rfl 3 _ _)
  have helse : Ev (fun m => parse m 1 (operand e 1 ++ rest)) (embed e, rest) :=
    operand_S2 e hSe 1 1 (Nat.le_refl _) (Nat.le_refl _) (by omega) rest _ hstop2
      (fun _ => nonAssoc2_of_stop2 e rest hstop2) (Ev_exit (fun t' _ => contLevel_ne t' 1 (by omega)))
  have hout : out = (.ifExp (embed c) (embed t) (embed e), rest) := Ev.unique hc (Ev_exit_of_stop hstop2)
  rw [hout]
  exact Ev_down (by omega) (operand_head2 t 3 2 (by omega) (by omega) _) h3 (Ev_if hcond helse)

theorem prAll_atoms : (args : List CE) → args.all isAtomCE = true →
    prAll args = args.map (fun a => [PTok.word (atomName a)])
  | [], _ => by simp [prAll]
  | a :: as, h => by
    simp only [List.all_cons, Bool.and_eq_true] at h
    obtain ⟨ha, has⟩ := h
    cases a <;> simp [isAtomCE] at ha
    rename_i s
    simp [prAll, pr_atom, atomName, prAll_atoms as has]

theorem lambdaArgs_words : (names : List String) → names ≠ [] → ∀ (acc : List String) (r : List PTok),
    lambdaArgs (commaSep (names.map (fun s => [PTok.word s])) ++ .colon :: r) acc = some (acc.reverse ++ names, r)
  | [], h, _, _ => absurd rfl h
  | [s], _, acc, r => by simp [commaSep, lambdaArgs]
  | s :: s2 :: more, _, acc, r => by
    have ih := lambdaArgs_words (s2 :: more) (by simp) (s :: acc) r
    simp only [List.map_cons, commaSep, List.cons_append, List.nil_append] at ih ⊢
    simp only [lambdaArgs]
    rw [ih]; simp

theorem top_lambda (args : List CE) (body : CE) (hargs : args.all isAtomCE = true) (hSb : SProp2 body)
    (rest : List PTok) (out : PyAst × List PTok) (hst : StopAt2 (CE.lambda args body).prec (.lambda args body) rest)
    (hc : Ev (fun m => cont m (CE.lambda args body).prec (embed (.lambda args body)) rest) out) :
    Ev (fun m => parse m (CE.lambda args body).prec (pr (.lambda args body) ++ rest)) out := by
  simp only [CE.prec, precLambda_eq] at hst hc ⊢
  obtain ⟨_, _, _, h2⟩ := hst
  have hstop2 : Stop 2 rest := h2 (by simp [CE.prec, precLambda_eq])
  have hemb : embed (.lambda args body) = .lambda (args.map atomName) (embed body) := by simp [embed]
  rw [hemb] at hc
  have hbody : Ev (fun m => parse m 1 (pr body ++ rest)) (embed body, rest) :=
    hSb 1 rest _ (Nat.le_refl _) (full_prec_bounds body).1 ⟨hstop2, nonAssoc2_of_stop2 body rest hstop2⟩
      (Ev_exit (fun t' _ => contLevel_ne t' 1 (by omega)))
  have hout : out = (.lambda (args.map atomName) (embed body), rest) :=
    Ev.unique hc (Ev_exit (fun t' _ => contLevel_ne t' 1 (by omega)))
  rw [hout, pr_lambda]
  by_cases hempty : args = []
  · subst hempty
    refine Ev_lambda (ts := [PTok.kLambda] ++ (if ([] : List CE).isEmpty then [] else [PTok.space] ++ commaSep (prAll [])) ++ [PTok.colon] ++ pr body ++ rest)
      (r' := pr body ++ rest) (by simp [headIsLambda]) ?_ hbody
    simp [dropSpace, lambdaArgs]
  · have hne : (args.isEmpty) = false := by cases args <;> simp at hempty ⊢
    refine Ev_lambda (r' := pr body ++ rest) (by simp [headIsLambda]) ?_ hbody
    rw [hne, prAll_atoms args hargs]
    have hnames : args.map atomName ≠ [] := by cases args <;> simp at hempty ⊢
    have := lambdaArgs_words (args.map atomName) hnames [] (pr body ++ rest)
    simp only [List.map_map] at this
    simpa [dropSpace, Function.comp_def] using this

theorem top_call (f : CE) (args : List CE) (hSf : SProp2 f) (hSa : SAll2 args)
    (rest : List PTok) (out : PyAst × List PTok)
    (hc : Ev (fun m => cont m 15 (embed (.call f args)) rest) out) :
    Ev (fun m => parse m 15 (pr (.call f args) ++ rest)) out := by
  have hemb : embed (.call f args) = .call (embed f) (embedAll args) := by simp [embed]
  rw [hemb] at hc
  have hform : pr (.call f args) ++ rest = primary f ++ (.lpar :: (commaSep (prAll args) ++ .rpar :: rest)) := by
    rw [pr_call]; simp
  rw [hform]
  have hitems := items_S2 args hSa .rpar rest [] rfl
  simp only [List.reverse_nil, List.nil_append] at hitems
  exact primary_S2 f hSf _ out (Ev_call hitems hc)

theorem top_index (i r : CE) (hSi : SProp2 i) (hSr : SProp2 r)
    (rest : List PTok) (out : PyAst × List PTok)
    (hc : Ev (fun m => cont m 15 (embed (.index i r)) rest) out) :
    Ev (fun m => parse m 15 (pr (.index i r) ++ rest)) out := by
  have hemb : embed (.index i r) = .subscript (embed i) (embed r) := by simp [embed]
  rw [hemb] at hc
  have hform : pr (.index i r) ++ rest = primary i ++ (.lbr :: (pr r ++ .rbr :: rest)) := by
    rw [pr_index]; simp
  rw [hform]
  exact primary_S2 i hSi _ out (Ev_index (bare_S2 r hSr .rbr rest rfl) hc)

theorem top_attr_name (o : CE) (s : String) (hSo : SProp2 o)
    (rest : List PTok) (out : PyAst × List PTok)
    (hc : Ev (fun m => cont m 15 (embed (.attr o (.atom s))) rest) out) :
    Ev (fun m => parse m 15 (pr (.attr o (.atom s)) ++ rest)) out := by
  have hemb : embed (.attr o (.atom s)) = .attr (embed o) s := by simp [embed]
  rw [hemb] at hc
  have hform : pr (.attr o (.atom s)) ++ rest = primary o ++ (.dot :: .word s :: rest) := by
    rw [pr_attr, pr_atom]; simp
  rw [hform]
  exact primary_S2 o hSo _ out (Ev_dot hc)

theorem top_attr_call (o : CE) (s : String) (args : List CE) (hSo : SProp2 o) (hSa : SAll2 args)
    (rest : List PTok) (out : PyAst × List PTok)
    (hc : Ev (fun m => cont m 15 (embed (.attr o (.call (.atom s) args))) rest) out) :
    Ev (fun m => parse m 15 (pr (.attr o (.call (.atom s) args)) ++ rest)) out := by
  have hemb : embed (.attr o (.call (.atom s) args)) = .call (.attr (embed o) s) (embedAll args) := by simp [embed]
  rw [hemb] at hc
  have hprim : primary (.atom s) = [.word s] := by
    rw [primary_other _ (fun _ h => by cases h), operand_unfold]
    simp [CE.prec, pr_atom]
  have hform : pr (.attr o (.call (.atom s) args)) ++ rest =
      primary o ++ (.dot :: .word s :: .lpar :: (commaSep (prAll args) ++ .rpar :: rest)) := by
    rw [pr_attr, pr_call, hprim]; simp
  rw [hform]
  have hitems := items_S2 args hSa .rpar rest [] rfl
  simp only [List.reverse_nil, List.nil_append] at hitems
  exact primary_S2 o hSo _ out (Ev_dot (Ev_call hitems hc))

theorem top_isA (l r : CE) (hSl : SProp2 l) (hSr : SProp2 r)
    (rest : List PTok) (out : PyAst × List PTok)
    (hc : Ev (fun m => cont m 15 (embed (.isA l r)) rest) out) :
    Ev (fun m => parse m 15 (pr (.isA l r) ++ rest)) out := by
  have hemb : embed (.isA l r) = .call (.name "isinstance") [embed l, embed r] := by simp [embed]
  rw [hemb] at hc
  have hform : pr (.isA l r) ++ rest =
      .word "isinstance" :: .lpar :: (pr l ++ .commaTight :: (pr r ++ .rpar :: rest)) := by
    rw [pr_isA]; simp
  rw [hform]
  have hlast := Ev_items_last (acc := [embed l]) (pr_headOpen r _) (bare_S2 r hSr .rpar rest rfl) (t := .rpar) rfl
  have hitems := Ev_items_commaTight (acc := []) (pr_headOpen l _) (bare_S2 l hSl .commaTight _ rfl) hlast
  simp only [List.reverse_cons, List.reverse_nil, List.nil_append, List.cons_append] at hitems
  exact Ev_word (Ev_call hitems hc)

theorem top_sqrt (e : CE) (hSe : SProp2 e)
    (rest : List PTok) (out : PyAst × List PTok)
    (hc : Ev (fun m => cont m 15 (embed (.sqrt e)) rest) out) :
    Ev (fun m => parse m 15 (pr (.sqrt e) ++ rest)) out := by
  have hemb : embed (.sqrt e) = .call (.attr (.name "math") "sqrt") [embed e] := by simp [embed]
  rw [hemb] at hc
  have hform : pr (.sqrt e) ++ rest = .word "math" :: .dot :: .word "sqrt" :: .lpar :: (pr e ++ .rpar :: rest) := by
    rw [pr_sqrt]; simp
  rw [hform]
  have hitems := Ev_items_last (acc := []) (pr_headOpen e _) (bare_S2 e hSe .rpar rest rfl) (t := .rpar) rfl
  simp only [List.reverse_cons, List.reverse_nil, List.nil_append] at hitems
  exact Ev_word (Ev_dot (Ev_call hitems hc))

theorem top_list (es : List CE) (hS : SAll2 es) (rest : List PTok) (out : PyAst × List PTok)
    (hc : Ev (fun m => cont m 15 (embed (.list es)) rest) out) :
    Ev (fun m => parse m 15 (pr (.list es) ++ rest)) out := by
  have hemb : embed (.list es) = .list (embedAll es) := by simp [embed]
  rw [hemb] at hc
  have hform : pr (.list es) ++ rest = .lbr :: (commaSep (prAll es) ++ .rbr :: rest) := by rw [pr_list]; simp
  rw [hform]
  have hitems := items_S2 es hS .rbr rest [] rfl
  simp only [List.reverse_nil, List.nil_append] at hitems
  exact Ev_list hitems hc

theorem top_set (es : List CE) (hS : SAll2 es) (rest : List PTok) (out : PyAst × List PTok)
    (hc : Ev (fun m => cont m 15 (embed (.set es)) rest) out) :
    Ev (fun m => parse m 15 (pr (.set es) ++ rest)) out := by
  have hemb : embed (.set es) = .set (embedAll es) := by simp [embed]
  rw [hemb] at hc
  have hform : pr (.set es) ++ rest = .lcur :: (commaSep (prAll es) ++ .rcur :: rest) := by rw [pr_set]; simp
  rw [hform]
  have hitems := items_S2 es hS .rcur rest [] rfl
  simp only [List.reverse_nil, List.nil_append] at hitems
  exact Ev_set hitems hc

theorem top_tuple (a b : CE) (more : List CE) (hS : SAll2 (a :: b :: more)) (rest : List PTok)
    (out : PyAst × List PTok) (hc : Ev (fun m => cont m 15 (embed (.tuple (a :: b :: more))) rest) out) :
    Ev (fun m => parse m 15 (pr (.tuple (a :: b :: more)) ++ rest)) out := by
  have hemb : embed (.tuple (a :: b :: more)) = .tuple (embed a :: embedAll (b :: more)) := by simp [embed, embedAll]
  rw [hemb] at hc
  have hform : pr (.tuple (a :: b :: more)) ++ rest =
      .lpar :: (pr a ++ .comma :: (commaSep (prAll (b :: more)) ++ .rpar :: rest)) := by
    rw [pr_tuple]; simp [commaSep, prAll]
  rw [hform]
  have h1 := bare_S2 a hS.1 .comma (commaSep (prAll (b :: more)) ++ .rpar :: rest) rfl
  have h2 := items_S2 (b :: more) hS.2 .rpar rest [embed a] rfl
  simp only [List.reverse_cons, List.reverse_nil, List.nil_append, List.cons_append] at h2
  exact Ev_tuple h1 h2 hc

end MV

namespace MV

theorem full_attr (o p : CE) (h : full (.attr o p) = true) :
    full o = true ∧ ((∃ s, p = .atom s) ∨ (∃ s args, p = .call (.atom s) args ∧ fullAll args = true)) := by
  unfold full at h
  simp only [Bool.and_eq_true] at h
  refine ⟨h.1, ?_⟩
  have h2 := h.2
  split at h2
  · exact Or.inl ⟨_, rfl⟩
  · exact Or.inr ⟨_, _, rfl, h2⟩
  · exact absurd h2 (by simp)

mutual
/-- every expression of the language is parsed back from its printed tokens -/
theorem S_all2 : (e : CE) → full e = true → SProp2 e
  | .atom s, _ => S_atom s
  | .int s, _ => S_int s
  | .enum n e, _ => lift_top2 _ (fun rest out _ hc => by
      simp only [CE.prec, precAtom_eq] at hc ⊢; exact top_enum n e rest out hc)
  | .un u x, h => lift_top2 _ (top_un2 u x (S_all2 x (by simpa [full] using h)))
  | .bin op l r, h =>
    have h' : full l = true ∧ full r = true := by simpa [full] using h
    lift_top2 _ (top_bin2 op l r (S_all2 l h'.1) (S_all2 r h'.2))
  | .ternary c t e, h =>
    have h' : (full c = true ∧ full t = true) ∧ full e = true := by simpa [full] using h
    lift_top2 _ (top_ternary c t e (S_all2 c h'.1.1) (S_all2 t h'.1.2) (S_all2 e h'.2))
  | .lambda args body, h =>
    have h' : args.all isAtomCE = true ∧ full body = true := by
      unfold full at h; simpa [Bool.and_eq_true] using h
    lift_top2 _ (top_lambda args body h'.1 (S_all2 body h'.2))
  | .call f args, h =>
    have h' : full f = true ∧ fullAll args = true := by simpa [full] using h
    lift_top2 _ (fun rest out _ hc => by
      simp only [CE.prec, precAtom_eq] at hc ⊢
      exact top_call f args (S_all2 f h'.1) (S_list args h'.2) rest out hc)
  | .attr o (.atom s), h =>
    have ho : full o = true := (full_attr _ _ h).1
    lift_top2 _ (fun rest out _ hc => by
      simp only [CE.prec, precAtom_eq] at hc ⊢
      exact top_attr_name o s (S_all2 o ho) rest out hc)
  | .attr o (.call (.atom s) args), h =>
    have ho : full o = true := (full_attr _ _ h).1
    have ha : fullAll args = true := by
      rcases (full_attr _ _ h).2 with ⟨s', e⟩ | ⟨s', args', e, ha⟩
      · cases e
      · cases e; exact ha
    lift_top2 _ (fun rest out _ hc => by
      simp only [CE.prec, precAtom_eq] at hc ⊢
      exact top_attr_call o s args (S_all2 o ho) (S_list args ha) rest out hc)
  | .attr o p, h => by
    rcases (full_attr _ _ h).2 with ⟨s', e⟩ | ⟨s', args', e, _⟩
    · subst e
      have ho : full o = true := (full_attr _ _ h).1
      exact lift_top2 _ (fun rest out _ hc => by
        simp only [CE.prec, precAtom_eq] at hc ⊢
        exact top_attr_name o s' (S_all2 o ho) rest out hc)
    · subst e
      have ho : full o = true := (full_attr _ _ h).1
      have ha : fullAll args' = true := by
        rcases (full_attr _ _ h).2 with ⟨s2, e2⟩ | ⟨s2, a2, e2, ha⟩
        · cases e2
        · cases e2; exact ha
      exact lift_top2 _ (fun rest out _ hc => by
        simp only [CE.prec, precAtom_eq] at hc ⊢
        exact top_attr_call o s' args' (S_all2 o ho) (S_list args' ha) rest out hc)
  | .index i r, h =>
    have h' : full i = true ∧ full r = true := by simpa [full] using h
    lift_top2 _ (fun rest out _ hc => by
      simp only [CE.prec, precAtom_eq] at hc ⊢
      exact top_index i r (S_all2 i h'.1) (S_all2 r h'.2) rest out hc)
  | .isA l r, h =>
    have h' : full l = true ∧ full r = true := by simpa [full] using h
    lift_top2 _ (fun rest out _ hc => by
      simp only [CE.prec, precAtom_eq] at hc ⊢
      exact top_isA l r (S_all2 l h'.1) (S_all2 r h'.2) rest out hc)
  | .sqrt e, h =>
    lift_top2 _ (fun rest out _ hc => by
      simp only [CE.prec, precAtom_eq] at hc ⊢
      exact top_sqrt e (S_all2 e (by simpa [full] using h)) rest out hc)
  | .tuple [], h => by simp [full] at h
  | .tuple [_], h => by simp [full] at h
  | .tuple (a :: b :: more), h =>
    have h' : fullAll (a :: b :: more) = true := by
      unfold full at h; simp only [Bool.and_eq_true] at h; exact h.2
    lift_top2 _ (fun rest out _ hc => by
      simp only [CE.prec, precAtom_eq] at hc ⊢
      exact top_tuple a b more (S_list (a :: b :: more) h') rest out hc)
  | .list es, h =>
    lift_top2 _ (fun rest out _ hc => by
      simp only [CE.prec, precAtom_eq] at hc ⊢
      exact top_list es (S_list es (by simpa [full] using h)) rest out hc)
  | .set es, h =>
    have h' : fullAll es = true := by
      unfold full at h; simp only [Bool.and_eq_true] at h; exact h.2
    lift_top2 _ (fun rest out _ hc => by
      simp only [CE.prec, precAtom_eq] at hc ⊢
      exact top_set es (S_list es h') rest out hc)
theorem S_list : (es : List CE) → fullAll es = true → SAll2 es
  | [], _ => trivial
  | e :: es, h =>
    have h' : full e = true ∧ fullAll es = true := by simpa [fullAll] using h
    ⟨S_all2 e h'.1, S_list es h'.2⟩
end

end MV

namespace MV

/-! ### the `if` clause of a builder: the printer joins the conditions with `and` -/

theorem precCompCond_eq : precCompCond = 5 := by rfl
theorem and_level : pyLevel .And = 4 := by rfl

/-- `" and "`-joined conditions after the first one -/
def condTail : List CE → List PTok
  | [] => []
  | c :: cs => [.bop .And] ++ operand c precCompCond ++ condTail cs

/-- the printed `if` clause: `operand(c, PREC_NOT)` for every condition, joined with `and` -/
def condChain : List CE → List PTok
  | [] => []
  | c :: cs => operand c precCompCond ++ condTail cs

/-- the conjunction the clause denotes: each condition is one operand -/
def andFold (acc : PyAst) : List CE → PyAst
  | [] => acc
  | c :: cs => andFold (.bin .And acc (embed c)) cs

theorem stop_condTail (cs : List CE) (rest : List PTok) (j : Nat) (hj : 4 < j) (h : Stop j rest) :
    Stop j (condTail cs ++ rest) := by
  cases cs with
  | nil => simpa [condTail] using h
  | cons c cs => simp only [condTail, List.append_assoc, List.cons_append, List.nil_append]; exact stop_bop .And _ j (by rw [and_level]; omega)

theorem cond_operand (c : CE) (hS : SProp2 c) (R : List PTok) (h6 : Stop 6 R) (h14 : Stop 14 R) :
    Ev (fun m => parse m 5 (operand c precCompCond ++ R)) (embed c, R) := by
  rw [precCompCond_eq]
  exact operand_S2 c hS 5 5 (by omega) (Nat.le_refl _) (by omega) R _ h6
    (fun hb => ⟨fun _ => h6, fun _ => h14, fun h2 => by omega⟩)
    (Ev_exit (fun t _ => contLevel_ne t 5 (by omega)))

theorem condTail_S : (cs : List CE) → SAll2 cs → ∀ (acc : PyAst) (rest : List PTok) (out : PyAst × List PTok),
    Stop 4 rest → Ev (fun m => cont m 4 (andFold acc cs) rest) out →
    Ev (fun m => cont m 4 acc (condTail cs ++ rest)) out
  | [], _, acc, rest, out, _, hc => by simpa [condTail, andFold] using hc
  | c :: cs, hS, acc, rest, out, hstop, hc => by
    have hR6 : Stop 6 (condTail cs ++ rest) := stop_condTail cs rest 6 (by omega) (hstop.mono (by omega))
    have hR14 : Stop 14 (condTail cs ++ rest) := stop_condTail cs rest 14 (by omega) (hstop.mono (by omega))
    have h1 := cond_operand c hS.1 (condTail cs ++ rest) hR6 hR14
    have ih := condTail_S cs hS.2 (.bin .And acc (embed c)) rest out hstop (by simpa [andFold] using hc)
    have hform : condTail (c :: cs) ++ rest = .bop .And :: (operand c precCompCond ++ (condTail cs ++ rest)) := by
      simp [condTail]
    rw [hform]
    exact Ev_left (k := 4) (by decide) and_level h1 ih

/-- The `if` clause of a builder parses, at the grammar level of a comprehension condition
    (`disjunction`), to the conjunction of the conditions — every condition intact as one operand. -/
theorem condChain_S (c : CE) (cs : List CE) (hS : SAll2 (c :: cs)) (rest : List PTok) (hstop : Stop 3 rest) :
    Ev (fun m => parse m 3 (condChain (c :: cs) ++ rest)) (andFold (embed c) cs, rest) := by
  have hform : condChain (c :: cs) ++ rest = operand c precCompCond ++ (condTail cs ++ rest) := by
    simp [condChain]
  rw [hform]
  have hR6 : Stop 6 (condTail cs ++ rest) := stop_condTail cs rest 6 (by omega) (hstop.mono (by omega))
  have hR14 : Stop 14 (condTail cs ++ rest) := stop_condTail cs rest 14 (by omega) (hstop.mono (by omega))
  have h5 := cond_operand c hS.1 (condTail cs ++ rest) hR6 hR14
  have hchain : Ev (fun m => cont m 4 (embed c) (condTail cs ++ rest)) (andFold (embed c) cs, rest) :=
    condTail_S cs hS.2 (embed c) rest _ (hstop.mono (by omega)) (Ev_exit_of_stop (hstop.mono (by omega)))
  have hhead4 : NoPrefixAt 4 (operand c precCompCond ++ (condTail cs ++ rest)) := by
    rw [precCompCond_eq]; exact operand_head2 c 5 4 (by omega) (by omega) _
  have hhead3 : NoPrefixAt 3 (operand c precCompCond ++ (condTail cs ++ rest)) := by
    rw [precCompCond_eq]; exact operand_head2 c 5 3 (by omega) (by omega) _
  have h4 : Ev (fun m => parse m 4 (operand c precCompCond ++ (condTail cs ++ rest))) (andFold (embed c) cs, rest) :=
    Ev_down (by omega) hhead4 h5 hchain
  exact Ev_down (by omega) hhead3 h4 (Ev_exit_of_stop hstop)

end MV
