/-
Unfolding lemmas of the Python grammar model for the forms outside the operator fragment:
postfix forms (attribute, call, subscript), conditional expression, lambda, displays (tuple, list,
set) and comma separated items; with their "for all sufficient fuel" versions.
-/
import MambaVerif.Lemmas.PyRound

namespace MV

/-- closing brackets: where a comma separated list ends -/
def isCloser : PTok → Bool
  | .rpar | .rbr | .rcur => true
  | _ => false

/-- the token list starts with a token that is not a closing bracket -/
def HeadOpen : List PTok → Prop
  | t :: _ => isCloser t = false
  | [] => False

/-! ### one-step unfoldings -/

theorem cont_dot (n : Nat) (acc : PyAst) (s : String) (r : List PTok) :
    cont (n + 1) 15 acc (.dot :: .word s :: r) = cont n 15 (.attr acc s) r := by
  conv => lhs; unfold cont
  simp

theorem cont_call (n : Nat) (acc : PyAst) (r : List PTok) (es : List PyAst) (r' : List PTok)
    (h : items n r [] = some (es, .rpar :: r')) :
    cont (n + 1) 15 acc (.lpar :: r) = cont n 15 (.call acc es) r' := by
  conv => lhs; unfold cont
  simp [h]

theorem cont_index (n : Nat) (acc : PyAst) (r : List PTok) (i : PyAst) (r' : List PTok)
    (h : parse n 1 r = some (i, .rbr :: r')) :
    cont (n + 1) 15 acc (.lbr :: r) = cont n 15 (.subscript acc i) r' := by
  conv => lhs; unfold cont
  simp [h]

theorem cont_if (n : Nat) (acc : PyAst) (ts' : List PTok) (c : PyAst) (r : List PTok) (e : PyAst)
    (r' : List PTok) (h1 : parse n 3 ts' = some (c, .kElse :: r)) (h2 : parse n 1 r = some (e, r')) :
    cont (n + 1) 2 acc (.kIf :: ts') = some (.ifExp c acc e, r') := by
  conv => lhs; unfold cont
  simp [h1, h2]

theorem parse_list (n : Nat) (r : List PTok) (es : List PyAst) (r' : List PTok)
    (h : items n r [] = some (es, .rbr :: r')) :
    parse (n + 1) 15 (.lbr :: r) = cont n 15 (.list es) r' := by
  conv => lhs; unfold parse
  simp [h]

theorem parse_set (n : Nat) (r : List PTok) (es : List PyAst) (r' : List PTok)
    (h : items n r [] = some (es, .rcur :: r')) :
    parse (n + 1) 15 (.lcur :: r) = cont n 15 (.set es) r' := by
  conv => lhs; unfold parse
  simp [h]

theorem parse_tuple (n : Nat) (r : List PTok) (a : PyAst) (r' : List PTok) (es : List PyAst)
    (r'' : List PTok) (h1 : parse n 1 r = some (a, .comma :: r'))
    (h2 : items n r' [a] = some (es, .rpar :: r'')) :
    parse (n + 1) 15 (.lpar :: r) = cont n 15 (.tuple es) r'' := by
  conv => lhs; unfold parse
  simp [h1, h2]

theorem parse_lambda (n : Nat) (ts : List PTok) (args : List String) (r' : List PTok) (b : PyAst)
    (r'' : List PTok) (hl : headIsLambda ts = true)
    (h1 : lambdaArgs (dropSpace ts.tail) [] = some (args, r')) (h2 : parse n 1 r' = some (b, r'')) :
    parse (n + 1) 1 ts = some (.lambda args b, r'') := by
  conv => lhs; unfold parse
  simp [hl, h1, h2]

theorem items_close (n : Nat) (t : PTok) (ts : List PTok) (acc : List PyAst) (h : isCloser t = true) :
    items (n + 1) (t :: ts) acc = some (acc.reverse, t :: ts) := by
  conv => lhs; unfold items
  cases t <;> simp [isCloser] at h ⊢

theorem items_comma (n : Nat) (ts : List PTok) (acc : List PyAst) (a : PyAst) (r : List PTok)
    (ho : HeadOpen ts) (h : parse n 1 ts = some (a, .comma :: r)) :
    items (n + 1) ts acc = items n r (a :: acc) := by
  conv => lhs; unfold items
  cases ts with
  | nil => exact absurd ho (by simp [HeadOpen])
  | cons t ts' => cases t <;> simp [HeadOpen, isCloser] at ho <;> simp [h]

theorem items_commaTight (n : Nat) (ts : List PTok) (acc : List PyAst) (a : PyAst) (r : List PTok)
    (ho : HeadOpen ts) (h : parse n 1 ts = some (a, .commaTight :: r)) :
    items (n + 1) ts acc = items n r (a :: acc) := by
  conv => lhs; unfold items
  cases ts with
  | nil => exact absurd ho (by simp [HeadOpen])
  | cons t ts' => cases t <;> simp [HeadOpen, isCloser] at ho <;> simp [h]

theorem items_last (n : Nat) (ts : List PTok) (acc : List PyAst) (a : PyAst) (c : PTok) (r : List PTok)
    (ho : HeadOpen ts) (h : parse n 1 ts = some (a, c :: r)) (hc : isCloser c = true) :
    items (n + 1) ts acc = some ((a :: acc).reverse, c :: r) := by
  conv => lhs; unfold items
  cases ts with
  | nil => exact absurd ho (by simp [HeadOpen])
  | cons t ts' =>
    cases t <;> simp [HeadOpen, isCloser] at ho <;> (simp only [h]; cases c <;> simp [isCloser] at hc ⊢)

/-! ### for all sufficient fuel -/

theorem Ev_dot {acc : PyAst} {s : String} {r : List PTok} {out : PyAst × List PTok}
    (h : Ev (fun m => cont m 15 (.attr acc s) r) out) :
    Ev (fun m => cont m 15 acc (.dot :: .word s :: r)) out :=
  Ev_of_succ (fun m => cont_dot m acc s r) h

theorem Ev_call {acc : PyAst} {r r' : List PTok} {es : List PyAst} {out : PyAst × List PTok}
    (h1 : Ev (fun m => items m r []) (es, .rpar :: r')) (h2 : Ev (fun m => cont m 15 (.call acc es) r') out) :
    Ev (fun m => cont m 15 acc (.lpar :: r)) out := by
  obtain ⟨n1, e1⟩ := h1; obtain ⟨n2, e2⟩ := h2
  refine ⟨max n1 n2 + 1, fun m hm => ?_⟩
  obtain ⟨m', rfl⟩ : ∃ m', m = m' + 1 := ⟨m - 1, by omega⟩
  show cont (m' + 1) 15 acc (.lpar :: r) = some out
  rw [cont_call m' acc r es r' (e1 m' (by omega))]
  exact e2 m' (by omega)

theorem Ev_index {acc i : PyAst} {r r' : List PTok} {out : PyAst × List PTok}
    (h1 : Ev (fun m => parse m 1 r) (i, .rbr :: r')) (h2 : Ev (fun m => cont m 15 (.subscript acc i) r') out) :
    Ev (fun m => cont m 15 acc (.lbr :: r)) out := by
  obtain ⟨n1, e1⟩ := h1; obtain ⟨n2, e2⟩ := h2
  refine ⟨max n1 n2 + 1, fun m hm => ?_⟩
  obtain ⟨m', rfl⟩ : ∃ m', m = m' + 1 := ⟨m - 1, by omega⟩
  show cont (m' + 1) 15 acc (.lbr :: r) = some out
  rw [cont_index m' acc r i r' (e1 m' (by omega))]
  exact e2 m' (by omega)

theorem Ev_if {acc c e : PyAst} {ts' r r' : List PTok}
    (h1 : Ev (fun m => parse m 3 ts') (c, .kElse :: r)) (h2 : Ev (fun m => parse m 1 r) (e, r')) :
    Ev (fun m => cont m 2 acc (.kIf :: ts')) (.ifExp c acc e, r') := by
  obtain ⟨n1, e1⟩ := h1; obtain ⟨n2, e2⟩ := h2
  refine ⟨max n1 n2 + 1, fun m hm => ?_⟩
  obtain ⟨m', rfl⟩ : ∃ m', m = m' + 1 := ⟨m - 1, by omega⟩
  exact cont_if m' acc ts' c r e r' (e1 m' (by omega)) (e2 m' (by omega))

theorem Ev_list {r r' : List PTok} {es : List PyAst} {out : PyAst × List PTok}
    (h1 : Ev (fun m => items m r []) (es, .rbr :: r')) (h2 : Ev (fun m => cont m 15 (.list es) r') out) :
    Ev (fun m => parse m 15 (.lbr :: r)) out := by
  obtain ⟨n1, e1⟩ := h1; obtain ⟨n2, e2⟩ := h2
  refine ⟨max n1 n2 + 1, fun m hm => ?_⟩
  obtain ⟨m', rfl⟩ : ∃ m', m = m' + 1 := ⟨m - 1, by omega⟩
  show parse (m' + 1) 15 (.lbr :: r) = some out
  rw [parse_list m' r es r' (e1 m' (by omega))]
  exact e2 m' (by omega)

theorem Ev_set {r r' : List PTok} {es : List PyAst} {out : PyAst × List PTok}
    (h1 : Ev (fun m => items m r []) (es, .rcur :: r')) (h2 : Ev (fun m => cont m 15 (.set es) r') out) :
    Ev (fun m => parse m 15 (.lcur :: r)) out := by
  obtain ⟨n1, e1⟩ := h1; obtain ⟨n2, e2⟩ := h2
  refine ⟨max n1 n2 + 1, fun m hm => ?_⟩
  obtain ⟨m', rfl⟩ : ∃ m', m = m' + 1 := ⟨m - 1, by omega⟩
  show parse (m' + 1) 15 (.lcur :: r) = some out
  rw [parse_set m' r es r' (e1 m' (by omega))]
  exact e2 m' (by omega)

theorem Ev_tuple {r r' r'' : List PTok} {a : PyAst} {es : List PyAst} {out : PyAst × List PTok}
    (h1 : Ev (fun m => parse m 1 r) (a, .comma :: r')) (h2 : Ev (fun m => items m r' [a]) (es, .rpar :: r''))
    (h3 : Ev (fun m => cont m 15 (.tuple es) r'') out) :
    Ev (fun m => parse m 15 (.lpar :: r)) out := by
  obtain ⟨n1, e1⟩ := h1; obtain ⟨n2, e2⟩ := h2; obtain ⟨n3, e3⟩ := h3
  refine ⟨max n1 (max n2 n3) + 1, fun m hm => ?_⟩
  obtain ⟨m', rfl⟩ : ∃ m', m = m' + 1 := ⟨m - 1, by omega⟩
  show parse (m' + 1) 15 (.lpar :: r) = some out
  rw [parse_tuple m' r a r' es r'' (e1 m' (by omega)) (e2 m' (by omega))]
  exact e3 m' (by omega)

theorem Ev_lambda {ts r' r'' : List PTok} {args : List String} {b : PyAst}
    (hl : headIsLambda ts = true) (h1 : lambdaArgs (dropSpace ts.tail) [] = some (args, r'))
    (h2 : Ev (fun m => parse m 1 r') (b, r'')) :
    Ev (fun m => parse m 1 ts) (.lambda args b, r'') := by
  obtain ⟨n2, e2⟩ := h2
  refine ⟨n2 + 1, fun m hm => ?_⟩
  obtain ⟨m', rfl⟩ : ∃ m', m = m' + 1 := ⟨m - 1, by omega⟩
  exact parse_lambda m' ts args r' b r'' hl h1 (e2 m' (by omega))

theorem Ev_items_close {t : PTok} {ts : List PTok} {acc : List PyAst} (h : isCloser t = true) :
    Ev (fun m => items m (t :: ts) acc) (acc.reverse, t :: ts) :=
  Ev_const_succ (fun m => items_close m t ts acc h)

theorem Ev_items_comma {ts r : List PTok} {acc : List PyAst} {a : PyAst} {out : List PyAst × List PTok}
    (ho : HeadOpen ts) (h1 : Ev (fun m => parse m 1 ts) (a, .comma :: r))
    (h2 : Ev (fun m => items m r (a :: acc)) out) : Ev (fun m => items m ts acc) out := by
  obtain ⟨n1, e1⟩ := h1; obtain ⟨n2, e2⟩ := h2
  refine ⟨max n1 n2 + 1, fun m hm => ?_⟩
  obtain ⟨m', rfl⟩ : ∃ m', m = m' + 1 := ⟨m - 1, by omega⟩
  show items (m' + 1) ts acc = some out
  rw [items_comma m' ts acc a r ho (e1 m' (by omega))]
  exact e2 m' (by omega)

theorem Ev_items_commaTight {ts r : List PTok} {acc : List PyAst} {a : PyAst} {out : List PyAst × List PTok}
    (ho : HeadOpen ts) (h1 : Ev (fun m => parse m 1 ts) (a, .commaTight :: r))
    (h2 : Ev (fun m => items m r (a :: acc)) out) : Ev (fun m => items m ts acc) out := by
  obtain ⟨n1, e1⟩ := h1; obtain ⟨n2, e2⟩ := h2
  refine ⟨max n1 n2 + 1, fun m hm => ?_⟩
  obtain ⟨m', rfl⟩ : ∃ m', m = m' + 1 := ⟨m - 1, by omega⟩
  show items (m' + 1) ts acc = some out
  rw [items_commaTight m' ts acc a r ho (e1 m' (by omega))]
  exact e2 m' (by omega)

theorem Ev_items_last {ts r : List PTok} {acc : List PyAst} {a : PyAst} {t : PTok}
    (ho : HeadOpen ts) (h1 : Ev (fun m => parse m 1 ts) (a, t :: r)) (hc : isCloser t = true) :
    Ev (fun m => items m ts acc) ((a :: acc).reverse, t :: r) := by
  obtain ⟨n1, e1⟩ := h1
  refine ⟨n1 + 1, fun m hm => ?_⟩
  obtain ⟨m', rfl⟩ : ∃ m', m = m' + 1 := ⟨m - 1, by omega⟩
  exact items_last m' ts acc a t r ho (e1 m' (by omega)) hc

/-- a token without continuation level stops every level -/
theorem stop_of_none (t : PTok) (r : List PTok) (j : Nat) (h : contLevel t = none) : Stop j (t :: r) := by
  intro t' ht l hl
  simp at ht; subst ht; rw [h] at hl; exact absurd hl (by simp)

theorem stop_nil (j : Nat) : Stop j [] := fun t ht => by simp at ht

end MV
