/-
Lemmas about the Name / TrueName layers of the assignability relation, for an ARBITRARY relation
`V` on variants (hence in particular for the class-table recursion `variantSup tbl fuel`).
-/
import MambaVerif.Model.Ty

namespace MV

/-- no member comparison raises a type error or runs out of fuel -/
def NoErr (V : TName → TName → R) (s o : NameT) : Prop :=
  ∀ m ∈ s.names, ∀ n ∈ o.names, ∃ b, tnSup V m n = .ok b

theorem collectR_ok {rs : List R} (h : ∀ r ∈ rs, ∃ b, r = .ok b) :
    ∃ bs, collectR rs = .ok bs ∧ bs.length = rs.length ∧ ∀ b, b ∈ bs ↔ R.ok b ∈ rs := by
  induction rs with
  | nil => exact ⟨[], rfl, rfl, by simp⟩
  | cons r rs ih =>
    obtain ⟨b, hb⟩ := h r (by simp)
    obtain ⟨bs, h1, h2, h3⟩ := ih (fun r' hr' => h r' (by simp [hr']))
    subst hb
    refine ⟨b :: bs, by simp [collectR, h1], by simp [h2], ?_⟩
    intro b'
    simp only [List.mem_cons, R.ok.injEq]
    rw [h3]

/-- the answers of all members of `s` for one member `n` -/
theorem collect_members {V : TName → TName → R} {s : NameT} {n : TName}
    (h : ∀ m ∈ s.names, ∃ b, tnSup V m n = .ok b) :
    ∃ bs, collectR (s.names.map fun m => tnSup V m n) = .ok bs ∧
      (bs.any id = true ↔ ∃ m ∈ s.names, tnSup V m n = .ok true) ∧
      (bs.all (fun b => !b) = true ↔ ¬ ∃ m ∈ s.names, tnSup V m n = .ok true) := by
  obtain ⟨bs, h1, -, h3⟩ := collectR_ok (rs := s.names.map fun m => tnSup V m n) (by
    intro r hr
    obtain ⟨m, hm, rfl⟩ := List.mem_map.mp hr
    exact h m hm)
  refine ⟨bs, h1, ?_, ?_⟩
  · rw [List.any_eq_true]
    constructor
    · rintro ⟨b, hb, hid⟩
      have hb' : b = true := hid
      subst hb'
      obtain ⟨m, hm, hmr⟩ := List.mem_map.mp ((h3 true).mp hb)
      exact ⟨m, hm, hmr⟩
    · rintro ⟨m, hm, hmr⟩
      exact ⟨true, (h3 true).mpr (List.mem_map.mpr ⟨m, hm, hmr⟩), rfl⟩
  · rw [List.all_eq_true]
    constructor
    · intro hall ⟨m, hm, hmr⟩
      have := hall true ((h3 true).mpr (List.mem_map.mpr ⟨m, hm, hmr⟩))
      simp at this
    · intro hno b hb
      cases b with
      | false => rfl
      | true =>
        obtain ⟨m, hm, hmr⟩ := List.mem_map.mp ((h3 true).mp hb)
        exact absurd ⟨m, hm, hmr⟩ hno

/-- the member loop of `Name::is_superset_of` for a non-interchangeable right-hand side -/
theorem go_iff (V : TName → TName → R) (s o : NameT) (hi : o.inter = false) (ns : List TName) (acc : Bool)
    (h : ∀ m ∈ s.names, ∀ n ∈ ns, ∃ b, tnSup V m n = .ok b) :
    (nameSup.go V s o ns acc = .ok true ↔ ∀ n ∈ ns, ∃ m ∈ s.names, tnSup V m n = .ok true) ∧
    (∃ b, nameSup.go V s o ns acc = .ok b) := by
  induction ns generalizing acc with
  | nil => simp [nameSup.go, hi]
  | cons n more ih =>
    obtain ⟨bs, h1, h2, h3⟩ := collect_members (V := V) (s := s) (n := n) (fun m hm => h m hm n (by simp))
    have ih' := fun acc' => ih acc' (fun m hm n' hn' => h m hm n' (by simp [hn']))
    simp only [nameSup.go, h1, hi]
    by_cases hall : bs.all (fun b => !b) = true
    · have hno := h3.mp hall
      simp only [hall, Bool.not_false, Bool.true_and, if_true]
      refine ⟨?_, ⟨false, rfl⟩⟩
      constructor
      · intro hc; exact absurd hc (by simp)
      · intro hc; exact absurd (hc n (by simp)) hno
    · have hyes : ∃ m ∈ s.names, tnSup V m n = .ok true :=
        Classical.byContradiction (fun hc => hall (h3.mpr hc))
      simp only [hall, Bool.not_false, Bool.true_and, Bool.false_eq_true, if_false]
      refine ⟨?_, (ih' _).2⟩
      rw [(ih' _).1]
      constructor
      · intro hm n' hn'
        rcases List.mem_cons.mp hn' with rfl | hn''
        · exact hyes
        · exact hm n' hn''
      · intro hm n' hn'; exact hm n' (by simp [hn'])

end MV
