/-
Soundness of the static disciplines of `Model/Scope.lean` with respect to the dynamic semantics.
-/
import MambaVerif.Model.Scope

namespace MV.SL

variable (par : Parents) (h : Nat) (rs : Raises)

/-- every statically visible name is dynamically bound -/
def Sub (Γ : SEnv) (σ : List Name) : Prop := ∀ x, (Γ.lookup x).isSome = true → x ∈ σ

/-- inside a function a raised class is caught by an enclosing arm or declared -/
def Covered (Γ : SEnv) (c : Cls) : Prop := Γ.inFun = true → ∃ d ∈ Γ.caught, isAncestor par h d c = true

def GoodE (Γ : SEnv) (σ : List Name) : Out → Prop
  | .ok σ' => ∀ x ∈ σ, x ∈ σ'
  | .raised c => Covered par h Γ c
  | .unbound _ => False

def GoodS (Γ Γ' : SEnv) (σ : List Name) : Out → Prop
  | .ok σ' => (∀ x ∈ σ, x ∈ σ') ∧ Sub Γ' σ'
  | .raised c => Covered par h Γ c
  | .unbound _ => False

theorem uncaught_nil {Γ : SEnv} {cs : List Cls} (hu : uncaught par h Γ cs = []) : ∀ c ∈ cs, Covered par h Γ c := by
  intro c hc hin
  unfold uncaught at hu
  simp only [hin, if_true, List.map_eq_nil_iff, List.filter_eq_nil_iff] at hu
  have := hu c hc
  simp only [Bool.not_eq_true, Bool.not_eq_false', List.any_eq_true] at this
  exact this

theorem lookup_cons (Γ : SEnv) (x y : Name) (m : Bool) :
    ({ Γ with vars := (x, m) :: Γ.vars } : SEnv).lookup y = if x = y then some m else Γ.lookup y := by
  unfold SEnv.lookup
  by_cases hxy : x = y
  · subst hxy; simp [List.find?]
  · have : (x == y) = false := by simpa using hxy
    simp [List.find?, this, hxy]

theorem sub_cons {Γ : SEnv} {σ : List Name} (hs : Sub Γ σ) (x : Name) (m : Bool) (σ' : List Name)
    (hσ : ∀ y ∈ σ, y ∈ σ') (hx : x ∈ σ') : Sub { Γ with vars := (x, m) :: Γ.vars } σ' := by
  intro y hy
  rw [lookup_cons] at hy
  by_cases hxy : x = y
  · subst hxy; exact hx
  · simp only [hxy, if_false] at hy
    exact hσ y (hs y hy)

theorem sub_mono {Γ : SEnv} {σ σ' : List Name} (hs : Sub Γ σ) (hσ : ∀ y ∈ σ, y ∈ σ') : Sub Γ σ' :=
  fun x hx => hσ x (hs x hx)

theorem selectArm_none : ∀ {arms : Arms} {c : Cls}, selectArm par h arms c = none →
    ∀ d ∈ armClasses arms, isAncestor par h d c = false
  | .nil, _, _ => by intro d hd; simp [armClasses] at hd
  | .cons d0 x body rest, c, hn => by
    intro d hd
    unfold selectArm at hn
    split at hn
    · cases hn
    · rename_i hne
      simp only [armClasses, List.mem_cons] at hd
      rcases hd with rfl | hd
      · simpa using hne
      · exact selectArm_none hn d hd

theorem selectArm_some : ∀ {arms : Arms} {c : Cls} {x : Name} {body : Stmt} (Γ : SEnv),
    selectArm par h arms c = some (x, body) → checkArms par h rs Γ arms = [] →
    (checkS par h rs { Γ with vars := (x, true) :: Γ.vars } body).1 = []
  | .nil, _, _, _, _, hs, _ => by simp [selectArm] at hs
  | .cons d0 x0 body0 rest, c, x, body, Γ, hs, hc => by
    unfold checkArms at hc
    have h1 := (List.append_eq_nil_iff.mp hc).1
    have h2 := (List.append_eq_nil_iff.mp hc).2
    unfold selectArm at hs
    split at hs
    · cases hs; exact h1
    · exact selectArm_some Γ hs h2

end MV.SL

namespace MV.SL

variable (par : Parents) (h : Nat) (rs : Raises)

theorem checkS_env : ∀ (s : Stmt) (Γ : SEnv),
    (checkS par h rs Γ s).2.caught = Γ.caught ∧ (checkS par h rs Γ s).2.inFun = Γ.inFun
  | .skip, Γ => by simp [checkS]
  | .seq a b, Γ => by
    have h1 := checkS_env a Γ
    have h2 := checkS_env b (checkS par h rs Γ a).2
    simp only [checkS]
    exact ⟨h2.1.trans h1.1, h2.2.trans h1.2⟩
  | .defv _ _ _, Γ => by simp [checkS]
  | .assign _ _, Γ => by simp [checkS]
  | .expr _, Γ => by simp [checkS]
  | .ifS _ _ _, Γ => by simp [checkS]
  | .whileS _ _, Γ => by simp [checkS]
  | .forS _ _ _, Γ => by simp [checkS]
  | .raiseS _, Γ => by simp [checkS]

theorem covered_of_env {Γ Γ' : SEnv} {c : Cls} (hc : Γ'.caught = Γ.caught) (hf : Γ'.inFun = Γ.inFun)
    (hcov : Covered par h Γ' c) : Covered par h Γ c := by
  intro hin
  obtain ⟨d, hd, ha⟩ := hcov (by rw [hf]; exact hin)
  exact ⟨d, by rw [← hc]; exact hd, ha⟩

theorem app_nil {α} {a b : List α} (h : a ++ b = []) : a = [] ∧ b = [] := List.append_eq_nil_iff.mp h

/-- the fuel `h` of the ancestor test is at least the height of the class table: the test is transitive -/
def FuelSuffices : Prop := ∀ a b c, isAncestor par h a b = true → isAncestor par h b c = true → isAncestor par h a c = true

mutual
/-- an accepted expression never reads an unbound name, and raises only covered classes -/
theorem soundE (htrans : FuelSuffices par h) : ∀ {σ : List Name} {e : Expr} {o : Out}, Eval par h rs σ e o →
    ∀ (Γ : SEnv), Sub Γ σ → checkE par h rs Γ e = [] → GoodE par h Γ σ o
  | _, _, _, .lit, _, _, _ => by simp [GoodE]
  | _, _, _, .varOk _, _, _, _ => by simp [GoodE]
  | σ, _, _, .varUnbound (x := x) hx, Γ, hs, hc => by
    exfalso
    simp only [checkE] at hc
    split at hc
    · rename_i hl; exact hx (hs x hl)
    · cases hc
  | _, _, _, .binOk (σ1 := σ1) (o := o) ha hb, Γ, hs, hc => by
    simp only [checkE] at hc
    obtain ⟨h1, h2⟩ := app_nil hc
    have ga := soundE htrans ha Γ hs h1
    simp only [GoodE] at ga
    have gb := soundE htrans hb Γ (sub_mono hs ga) h2
    cases o with
    | ok σ' => simp only [GoodE] at gb ⊢; exact fun x hx => gb x (ga x hx)
    | raised c => exact gb
    | unbound x => exact gb
  | _, _, _, .binRaise ha, Γ, hs, hc => by
    simp only [checkE] at hc
    exact soundE htrans ha Γ hs (app_nil hc).1
  | _, _, _, .binUnbound ha, Γ, hs, hc => by
    simp only [checkE] at hc
    exact soundE htrans ha Γ hs (app_nil hc).1
  | _, _, _, .callArgRaise ha, Γ, hs, hc => by
    simp only [checkE] at hc
    exact soundE htrans ha Γ hs (app_nil hc).1
  | _, _, _, .callArgUnbound ha, Γ, hs, hc => by
    simp only [checkE] at hc
    exact soundE htrans ha Γ hs (app_nil hc).1
  | _, _, _, .callOk ha, Γ, hs, hc => by
    simp only [checkE] at hc
    exact soundE htrans ha Γ hs (app_nil hc).1
  | _, _, _, .callRaise (c := c) (d := d) ha hd hanc, Γ, hs, hc => by
    simp only [checkE] at hc
    simp only [GoodE]
    intro hin
    obtain ⟨d', hd', ha'⟩ := uncaught_nil par h (app_nil hc).2 d hd hin
    -- d' is an ancestor of d, d an ancestor of c: transitivity is not needed by the checker's rule,
    -- which looks for an ancestor of the DECLARED class; the raised class is a subclass of it
    exact ⟨d', hd', htrans d' d c ha' hanc⟩
  | _, _, _, .handleOk ha, Γ, hs, hc => by
    simp only [checkE] at hc
    have := soundE htrans ha { Γ with caught := armClasses _ ++ Γ.caught } hs (app_nil hc).1
    simp [GoodE] at this ⊢; exact this
  | _, _, _, .handleUnbound ha, Γ, hs, hc => by
    simp only [checkE] at hc
    have := soundE htrans ha { Γ with caught := armClasses _ ++ Γ.caught } hs (app_nil hc).1
    simpa [GoodE] using this
  | _, _, _, .handleMiss (arms := arms) (c := c) ha hsel, Γ, hs, hc => by
    simp only [checkE] at hc
    have g := soundE htrans ha { Γ with caught := armClasses arms ++ Γ.caught } hs (app_nil hc).1
    simp only [GoodE] at g ⊢
    intro hin
    obtain ⟨d, hd, hanc⟩ := g hin
    simp only [List.mem_append] at hd
    rcases hd with hd | hd
    · have := selectArm_none par h hsel d hd
      rw [this] at hanc; cases hanc
    · exact ⟨d, hd, hanc⟩
  | σ, _, o, .handleHit (arms := arms) (x := x) (body := body) ha hsel hb, Γ, hs, hc => by
    simp only [checkE] at hc
    have hbody := selectArm_some par h rs Γ hsel (app_nil hc).2
    have hs' : Sub { Γ with vars := (x, true) :: Γ.vars } (x :: σ) :=
      sub_cons hs x true (x :: σ) (fun y hy => List.mem_cons_of_mem _ hy) (by simp)
    have g := soundS htrans hb _ hs' hbody
    cases o with
    | ok σ' =>
      simp only [GoodS, GoodE] at g ⊢
      exact fun y hy => g.1 y (List.mem_cons_of_mem _ hy)
    | raised c => simpa [GoodS, GoodE, Covered] using g
    | unbound y => exact g
/-- an accepted statement likewise, and the environment it hands to the next statement is bound -/
theorem soundS (htrans : FuelSuffices par h) : ∀ {σ : List Name} {s : Stmt} {o : Out}, Exec par h rs σ s o →
    ∀ (Γ : SEnv), Sub Γ σ → (checkS par h rs Γ s).1 = [] → GoodS par h Γ (checkS par h rs Γ s).2 σ o
  | _, _, _, .skip, Γ, hs, _ => by simp [GoodS, checkS]; exact hs
  | σ, _, o, .seqOk (σ1 := σ1) (a := a) (b := b) ha hb, Γ, hs, hc => by
    simp only [checkS] at hc ⊢
    obtain ⟨h1, h2⟩ := app_nil hc
    have ga := soundS htrans ha Γ hs h1
    simp only [GoodS] at ga
    have gb := soundS htrans hb _ ga.2 h2
    have henv := checkS_env par h rs a Γ
    cases o with
    | ok σ' => simp only [GoodS] at gb ⊢; exact ⟨fun x hx => gb.1 x (ga.1 x hx), gb.2⟩
    | raised c => simp only [GoodS] at gb ⊢; exact covered_of_env par h henv.1 henv.2 gb
    | unbound x => exact gb
  | _, _, _, .seqRaise ha, Γ, hs, hc => by
    simp only [checkS] at hc
    have := soundS htrans ha Γ hs (app_nil hc).1
    simpa [GoodS] using this
  | _, _, _, .seqUnbound ha, Γ, hs, hc => by
    simp only [checkS] at hc
    have := soundS htrans ha Γ hs (app_nil hc).1
    simpa [GoodS] using this
  | σ, _, _, .defOk (σ1 := σ1) (x := x) he, Γ, hs, hc => by
    simp only [checkS] at hc ⊢
    have g := soundE htrans he Γ hs hc
    simp only [GoodE] at g
    simp only [GoodS]
    exact ⟨fun y hy => List.mem_cons_of_mem _ (g y hy),
      sub_cons hs x _ (x :: σ1) (fun y hy => List.mem_cons_of_mem _ (g y hy)) (by simp)⟩
  | _, _, _, .defRaise he, Γ, hs, hc => by
    simp only [checkS] at hc
    have := soundE htrans he Γ hs hc
    simpa [GoodS, GoodE] using this
  | _, _, _, .defUnbound he, Γ, hs, hc => by
    simp only [checkS] at hc
    have := soundE htrans he Γ hs hc
    simpa [GoodS, GoodE] using this
  | σ, _, _, .assignOk (σ1 := σ1) (x := x) he, Γ, hs, hc => by
    simp only [checkS] at hc ⊢
    have g := soundE htrans he Γ hs (app_nil hc).1
    simp only [GoodE] at g
    simp only [GoodS]
    exact ⟨fun y hy => List.mem_cons_of_mem _ (g y hy), sub_mono hs (fun y hy => List.mem_cons_of_mem _ (g y hy))⟩
  | _, _, _, .assignRaise he, Γ, hs, hc => by
    simp only [checkS] at hc
    have := soundE htrans he Γ hs (app_nil hc).1
    simpa [GoodS, GoodE] using this
  | _, _, _, .assignUnbound he, Γ, hs, hc => by
    simp only [checkS] at hc
    have := soundE htrans he Γ hs (app_nil hc).1
    simpa [GoodS, GoodE] using this
  | σ, _, o, .exprS he, Γ, hs, hc => by
    simp only [checkS] at hc ⊢
    have g := soundE htrans he Γ hs hc
    cases o with
    | ok σ' => simp only [GoodE] at g; simp only [GoodS]; exact ⟨g, sub_mono hs g⟩
    | raised c => exact g
    | unbound x => exact g
  | σ, _, o, .ifCondBad he hbad, Γ, hs, hc => by
    simp only [checkS] at hc ⊢
    have g := soundE htrans he Γ hs (app_nil (app_nil hc).1).1
    cases o with
    | ok σ' => exact absurd rfl (hbad σ')
    | raised c => exact g
    | unbound x => exact g
  | σ, _, o, .ifThen (σ1 := σ1) he ht, Γ, hs, hc => by
    simp only [checkS] at hc ⊢
    have g := soundE htrans he Γ hs (app_nil (app_nil hc).1).1
    simp only [GoodE] at g
    have gt := soundS htrans ht Γ (sub_mono hs g) (app_nil (app_nil hc).1).2
    cases o with
    | ok σ' =>
      simp only [GoodS] at gt ⊢
      exact ⟨fun x hx => gt.1 x (g x hx), sub_mono hs (fun x hx => gt.1 x (g x hx))⟩
    | raised c => exact gt
    | unbound x => exact gt
  | σ, _, o, .ifElse (σ1 := σ1) he ht, Γ, hs, hc => by
    simp only [checkS] at hc ⊢
    have g := soundE htrans he Γ hs (app_nil (app_nil hc).1).1
    simp only [GoodE] at g
    have gt := soundS htrans ht Γ (sub_mono hs g) (app_nil hc).2
    cases o with
    | ok σ' =>
      simp only [GoodS] at gt ⊢
      exact ⟨fun x hx => gt.1 x (g x hx), sub_mono hs (fun x hx => gt.1 x (g x hx))⟩
    | raised c => exact gt
    | unbound x => exact gt
  | σ, _, o, .whileCondBad he hbad, Γ, hs, hc => by
    simp only [checkS] at hc ⊢
    have g := soundE htrans he Γ hs (app_nil hc).1
    cases o with
    | ok σ' => exact absurd rfl (hbad σ')
    | raised c => exact g
    | unbound x => exact g
  | σ, _, _, .whileDone (σ1 := σ1) he, Γ, hs, hc => by
    simp only [checkS] at hc ⊢
    have g := soundE htrans he Γ hs (app_nil hc).1
    simp only [GoodE] at g
    simp only [GoodS]
    exact ⟨g, sub_mono hs g⟩
  | σ, _, o, .whileBodyBad (σ1 := σ1) he hb hbad, Γ, hs, hc => by
    simp only [checkS] at hc ⊢
    have g := soundE htrans he Γ hs (app_nil hc).1
    simp only [GoodE] at g
    have gb := soundS htrans hb Γ (sub_mono hs g) (app_nil hc).2
    cases o with
    | ok σ' => exact absurd rfl (hbad σ')
    | raised c => exact gb
    | unbound x => exact gb
  | σ, _, o, .whileStep (σ1 := σ1) (σ2 := σ2) (c := c) (b := b) he hb hloop, Γ, hs, hc => by
    have hc' := hc
    simp only [checkS] at hc
    have g := soundE htrans he Γ hs (app_nil hc).1
    simp only [GoodE] at g
    have gb := soundS htrans hb Γ (sub_mono hs g) (app_nil hc).2
    simp only [GoodS] at gb
    have hσ2 : ∀ x ∈ σ, x ∈ σ2 := fun x hx => gb.1 x (g x hx)
    have gl := soundS htrans hloop Γ (sub_mono hs hσ2) hc'
    simp only [checkS] at gl ⊢
    cases o with
    | ok σ' => simp only [GoodS] at gl ⊢; exact ⟨fun x hx => gl.1 x (hσ2 x hx), gl.2⟩
    | raised c => exact gl
    | unbound x => exact gl
  | σ, _, o, .forBad he hbad, Γ, hs, hc => by
    simp only [checkS] at hc ⊢
    have g := soundE htrans he Γ hs (app_nil hc).1
    cases o with
    | ok σ' => exact absurd rfl (hbad σ')
    | raised c => exact g
    | unbound x => exact g
  | σ, _, _, .forDone (σ1 := σ1) he, Γ, hs, hc => by
    simp only [checkS] at hc ⊢
    have g := soundE htrans he Γ hs (app_nil hc).1
    simp only [GoodE] at g
    simp only [GoodS]
    exact ⟨g, sub_mono hs g⟩
  | σ, _, o, .forStep (σ1 := σ1) (x := x) (b := b) he hloop, Γ, hs, hc => by
    simp only [checkS] at hc ⊢
    have g := soundE htrans he Γ hs (app_nil hc).1
    simp only [GoodE] at g
    have hs' : Sub { Γ with vars := (x, true) :: Γ.vars } (x :: σ1) :=
      sub_cons hs x true (x :: σ1) (fun y hy => List.mem_cons_of_mem _ (g y hy)) (by simp)
    have hcl : (checkS par h rs { Γ with vars := (x, true) :: Γ.vars } (.whileS .lit b)).1 = [] := by
      simp only [checkS, checkE, List.nil_append]; exact (app_nil hc).2
    have gl := soundS htrans hloop _ hs' hcl
    simp only [checkS] at gl
    cases o with
    | ok σ' =>
      simp only [GoodS] at gl ⊢
      have : ∀ y ∈ σ, y ∈ σ' := fun y hy => gl.1 y (List.mem_cons_of_mem _ (g y hy))
      exact ⟨this, sub_mono hs this⟩
    | raised c => simpa [GoodS, Covered] using gl
    | unbound y => exact gl
  | _, _, _, .raiseS (c := c), Γ, _, hc => by
    simp only [checkS] at hc ⊢
    simp only [GoodS]
    exact uncaught_nil par h hc c (by simp)
end

end MV.SL
