/-
The induction: every expression of the operator fragment satisfies `SProp`.
-/
import MambaVerif.Lemmas.PyRound

namespace MV

theorem stop_bop (o : BinOp) (ts : List PTok) (j : Nat) (h : pyLevel o < j) : Stop j (.bop o :: ts) := by
  intro t ht l hl
  simp at ht; subst ht; simp [contLevel] at hl; omega

theorem exit_bop (o : BinOp) (ts : List PTok) (k : Nat) (acc : PyAst) (h : pyLevel o ≠ k) :
    Ev (fun m => cont m k acc (.bop o :: ts)) (acc, .bop o :: ts) :=
  Ev_exit (fun t ht hc => by simp at ht; subst ht; simp [contLevel] at hc; exact h hc)

theorem top_un (u : UnOp) (x : CE) (hx : frag x = true) (hSx : SProp x)
    (rest : List PTok) (out : PyAst × List PTok) (hst : StopAt (CE.un u x).prec (.un u x) rest)
    (hc : Ev (fun m => cont m (CE.un u x).prec (embed (.un u x)) rest) out) :
    Ev (fun m => parse m (CE.un u x).prec (pr (.un u x) ++ rest)) out := by
  simp only [CE.prec] at hst hc ⊢
  have hq : u.prec = 5 ∨ u.prec = 13 := by
    by_cases h : u = .Not
    · subst h; exact Or.inl un_prec_not
    · exact Or.inr (un_prec_other u h)
  have hpf : prefixForm u.prec (.uop u :: (operand x u.prec ++ rest)) = some (u, operand x u.prec ++ rest) := by
    by_cases h : u = .Not
    · subst h; simp [prefixForm, un_prec_not]
    · simp [prefixForm, h, un_prec_other u h]
  have hexit : ∀ (acc : PyAst), Ev (fun m => cont m u.prec acc rest) (acc, rest) := fun acc =>
    Ev_exit (fun t _ => contLevel_ne t u.prec (by omega))
  have hop : Ev (fun m => parse m u.prec (operand x u.prec ++ rest)) (embed x, rest) :=
    operand_S x hSx hx u.prec u.prec (Nat.le_refl _) (by omega) rest _ hst.1
      (fun _ => ⟨fun _ => hst.1.mono (by omega), fun _ => hst.1.mono (by omega)⟩) (hexit _)
  have hout : out = (embed (.un u x), rest) := Ev.unique hc (hexit _)
  rw [hout, pr_un]
  have := Ev_prefix (by omega) hpf hop
  simpa [embed] using this

theorem top_bin (op : BinOp) (l r : CE) (hl : frag l = true) (hr : frag r = true) (hSl : SProp l) (hSr : SProp r)
    (rest : List PTok) (out : PyAst × List PTok) (hst : StopAt (CE.bin op l r).prec (.bin op l r) rest)
    (hc : Ev (fun m => cont m (CE.bin op l r).prec (embed (.bin op l r)) rest) out) :
    Ev (fun m => parse m (CE.bin op l r).prec (pr (.bin op l r) ++ rest)) out := by
  simp only [CE.prec, prec_eq_level] at hst hc ⊢
  obtain ⟨hstop, hna6, hna14⟩ := hst
  simp only [CE.prec, prec_eq_level] at hna6 hna14
  have hbl := frag_prec_bounds l hl
  have hbr := frag_prec_bounds r hr
  have hform : pr (.bin op l r) ++ rest = operand l op.sides.1 ++ (.bop op :: (operand r op.sides.2 ++ rest)) := by
    rw [pr_bin]; simp
  rw [hform]
  have hemb : embed (.bin op l r) = .bin op (embed l) (embed r) := by simp [embed]
  rw [hemb] at hc
  rcases level_kind op with hk | hk | hk
  · -- left-associative level
    obtain ⟨hlm, hrm⟩ := sides_left op hk
    have hp := isLeft_cases hk
    have hright : Ev (fun m => parse m (pyLevel op + 1) (operand r op.sides.2 ++ rest)) (embed r, rest) :=
      operand_S r hSr hr op.sides.2 (pyLevel op + 1) hrm (by omega) rest _ (hstop.mono (by omega))
        (fun hb => ⟨fun h6 => hstop.mono (by omega), fun _ => hstop.mono (by omega)⟩)
        (Ev_exit_of_stop hstop)
    exact operand_S l hSl hl op.sides.1 (pyLevel op) hlm (by omega) _ out (stop_bop op _ _ (by omega))
      (fun hb => ⟨fun h6 => stop_bop op _ _ (by omega), fun _ => stop_bop op _ _ (by omega)⟩)
      (Ev_left hk rfl hright hc)
  · -- comparison
    obtain ⟨hlm, hrm⟩ := sides_cmp op hk
    rw [hk] at hc hstop ⊢
    have hstop6 : Stop 6 rest := hna6 hk
    have hleft : Ev (fun m => parse m 7 (operand l op.sides.1 ++ (.bop op :: (operand r op.sides.2 ++ rest))))
        (embed l, .bop op :: (operand r op.sides.2 ++ rest)) :=
      operand_S l hSl hl op.sides.1 7 hlm (by omega) _ _ (stop_bop op _ _ (by omega))
        (fun hb => ⟨fun h6 => by omega, fun _ => stop_bop op _ _ (by omega)⟩)
        (exit_bop op _ 7 _ (by omega))
    have hright : Ev (fun m => parse m 7 (operand r op.sides.2 ++ rest)) (embed r, rest) :=
      operand_S r hSr hr op.sides.2 7 hrm (by omega) rest _ (hstop.mono (by omega))
        (fun hb => ⟨fun h6 => by omega, fun _ => hstop.mono (by omega)⟩)
        (Ev_exit_of_stop hstop)
    have hout : out = (.bin op (embed l) (embed r), rest) := Ev.unique hc (Ev_exit_of_stop hstop6)
    rw [hout]
    exact Ev_down (by omega) (operand_head l hl op.sides.1 6 (by omega) _) hleft (Ev_cmp hk hright hstop6)
  · -- power
    obtain ⟨hlm, hrm⟩ := sides_pow op hk
    rw [hk] at hc hstop ⊢
    have hstop14 : Stop 14 rest := hna14 hk
    have hleft : Ev (fun m => parse m 15 (operand l op.sides.1 ++ (.bop op :: (operand r op.sides.2 ++ rest))))
        (embed l, .bop op :: (operand r op.sides.2 ++ rest)) :=
      operand_S l hSl hl op.sides.1 15 hlm (by omega) _ _ (stop_bop op _ _ (by omega))
        (fun hb => ⟨fun h6 => by omega, fun h14 => by omega⟩)
        (exit_bop op _ 15 _ (by omega))
    have hright : Ev (fun m => parse m 13 (operand r op.sides.2 ++ rest)) (embed r, rest) :=
      operand_S r hSr hr op.sides.2 13 hrm (by omega) rest _ hstop14
        (fun hb => ⟨fun h6 => by omega, fun _ => hstop14⟩)
        (Ev_exit (fun t _ => contLevel_ne t 13 (by omega)))
    have hout : out = (.bin op (embed l) (embed r), rest) := Ev.unique hc (Ev_exit_of_stop hstop14)
    rw [hout]
    exact Ev_down (by omega) (operand_head l hl op.sides.1 14 (by omega) _) hleft (Ev_pow hk hright)

theorem top_word (s : String) (rest : List PTok) (out : PyAst × List PTok)
    (hc : Ev (fun m => cont m 15 (.name s) rest) out) : Ev (fun m => parse m 15 ([.word s] ++ rest)) out :=
  Ev_word hc

/-- every expression of the operator fragment is parsed back from its printed tokens -/
theorem S_all : (e : CE) → (he : frag e = true) → SProp e
  | .atom s, he => lift_top _ he (fun rest out _ hc => by
      simp only [CE.prec, precAtom_eq, pr_atom, embed] at hc ⊢; exact top_word s rest out hc)
  | .int s, he => lift_top _ he (fun rest out _ hc => by
      simp only [CE.prec, precAtom_eq, pr_int, embed] at hc ⊢; exact top_word s rest out hc)
  | .un u x, he => by
    have hx : frag x = true := by simpa [frag] using he
    exact lift_top _ he (top_un u x hx (S_all x hx))
  | .bin op l r, he => by
    have h : frag l = true ∧ frag r = true := by simpa [frag] using he
    exact lift_top _ he (top_bin op l r h.1 h.2 (S_all l h.1) (S_all r h.2))
  | .enum _ _, h | .ternary _ _ _, h | .lambda _ _, h | .call _ _, h | .attr _ _, h | .index _ _, h
  | .isA _ _, h | .sqrt _, h | .tuple _, h | .list _, h | .set _, h => by simp [frag] at h

end MV
