/-
The tail transformations change exactly the statements in tail position, on every path.
-/
import MambaVerif.Model.Tail

namespace MV

/-- what `append_assign` does to one tail statement -/
def wrapA (x : Nat) : TS → TS
  | .expr e => .assign x e
  | .retAssign y e => .assign x (y + e)
  | s => s

/-- what `append_ret` does to one tail statement -/
def wrapR : TS → TS
  | .expr e => .ret e
  | .assign y e => .retAssign y e
  | .block [] => retNone
  | s => s

mutual
theorem leaves_appendAssign (x : Nat) : (s : TS) → leaves (appendAssign x s) = (leaves s).map (wrapA x)
  | .expr e => by simp [appendAssign, leaves, wrapA]
  | .ret e => by simp [appendAssign, leaves, wrapA]
  | .raise e => by simp [appendAssign, leaves, wrapA]
  | .assign y e => by simp [appendAssign, leaves, wrapA]
  | .retAssign y e => by simp [appendAssign, leaves, wrapA]
  | .block ss => by simp only [appendAssign, leaves]; exact leavesLast_appendAssign x ss
  | .ifElse c t e => by
    simp only [appendAssign, leaves, List.map_append, leaves_appendAssign x t, leaves_appendAssign x e]
  | .matchS sc cases => by simp only [appendAssign, leaves]; exact leavesAll_appendAssign x cases
  | .case p b => by simp only [appendAssign, leaves]; exact leaves_appendAssign x b
  | .tryExcept su att hs => by
    simp only [appendAssign, leaves, List.map_append, leaves_appendAssign x att, leavesAll_appendAssign x hs]
  | .except c b => by simp only [appendAssign, leaves]; exact leaves_appendAssign x b
theorem leavesLast_appendAssign (x : Nat) : (ss : List TS) →
    leavesLast (appendAssignLast x ss) = (leavesLast ss).map (wrapA x)
  | [] => by simp [appendAssignLast, leavesLast, wrapA]
  | [s] => by simp only [appendAssignLast, leavesLast]; exact leaves_appendAssign x s
  | s :: s' :: ss => by
    have ih := leavesLast_appendAssign x (s' :: ss)
    cases h : appendAssignLast x (s' :: ss) with
    | nil => cases ss <;> simp [appendAssignLast] at h
    | cons a as =>
      simp only [appendAssignLast, leavesLast, h] at ih ⊢
      exact ih
theorem leavesAll_appendAssign (x : Nat) : (ss : List TS) →
    leavesAll (appendAssignAll x ss) = (leavesAll ss).map (wrapA x)
  | [] => by simp [appendAssignAll, leavesAll]
  | s :: ss => by
    simp only [appendAssignAll, leavesAll, List.map_append, leaves_appendAssign x s, leavesAll_appendAssign x ss]
end

mutual
theorem leaves_appendRet : (s : TS) → leaves (appendRet s) = (leaves s).map wrapR
  | .expr e => by simp [appendRet, leaves, wrapR]
  | .ret e => by simp [appendRet, leaves, wrapR]
  | .raise e => by simp [appendRet, leaves, wrapR]
  | .assign y e => by simp [appendRet, leaves, wrapR]
  | .retAssign y e => by simp [appendRet, leaves, wrapR]
  | .block ss => by simp only [appendRet, leaves]; exact leavesLast_appendRet ss
  | .ifElse c t e => by
    simp only [appendRet, leaves, List.map_append, leaves_appendRet t, leaves_appendRet e]
  | .matchS sc cases => by simp only [appendRet, leaves]; exact leavesAll_appendRet cases
  | .case p b => by simp only [appendRet, leaves]; exact leaves_appendRet b
  | .tryExcept su att hs => by
    simp only [appendRet, leaves, List.map_append, leaves_appendRet att, leavesAll_appendRet hs]
  | .except c b => by simp only [appendRet, leaves]; exact leaves_appendRet b
theorem leavesLast_appendRet : (ss : List TS) → leavesLast (appendRetLast ss) = (leavesLast ss).map wrapR
  | [] => by simp [appendRetLast, leavesLast, wrapR, retNone, leaves]
  | [s] => by simp only [appendRetLast, leavesLast]; exact leaves_appendRet s
  | s :: s' :: ss => by
    have ih := leavesLast_appendRet (s' :: ss)
    cases h : appendRetLast (s' :: ss) with
    | nil => cases ss <;> simp [appendRetLast] at h
    | cons a as =>
      simp only [appendRetLast, leavesLast, h] at ih ⊢
      exact ih
theorem leavesAll_appendRet : (ss : List TS) → leavesAll (appendRetAll ss) = (leavesAll ss).map wrapR
  | [] => by simp [appendRetAll, leavesAll]
  | s :: ss => by
    simp only [appendRetAll, leavesAll, List.map_append, leaves_appendRet s, leavesAll_appendRet ss]
end

/-- a tail statement is never itself a tree (leaves are leaves) -/
def TS.isLeaf : TS → Bool
  | .expr _ | .ret _ | .raise _ | .assign _ _ | .retAssign _ _ | .block [] => true
  | _ => false

mutual
theorem leaves_are_leaves : (s : TS) → ∀ l ∈ leaves s, l.isLeaf = true
  | .expr e => by simp [leaves, TS.isLeaf]
  | .ret e => by simp [leaves, TS.isLeaf]
  | .raise e => by simp [leaves, TS.isLeaf]
  | .assign y e => by simp [leaves, TS.isLeaf]
  | .retAssign y e => by simp [leaves, TS.isLeaf]
  | .block ss => by simp only [leaves]; exact leavesLast_are_leaves ss
  | .ifElse c t e => by
    intro l hl; simp only [leaves, List.mem_append] at hl
    rcases hl with h | h
    · exact leaves_are_leaves t l h
    · exact leaves_are_leaves e l h
  | .matchS sc cases => by simp only [leaves]; exact leavesAll_are_leaves cases
  | .case p b => by simp only [leaves]; exact leaves_are_leaves b
  | .tryExcept su att hs => by
    intro l hl; simp only [leaves, List.mem_append] at hl
    rcases hl with h | h
    · exact leaves_are_leaves att l h
    · exact leavesAll_are_leaves hs l h
  | .except c b => by simp only [leaves]; exact leaves_are_leaves b
theorem leavesLast_are_leaves : (ss : List TS) → ∀ l ∈ leavesLast ss, l.isLeaf = true
  | [] => by simp [leavesLast, TS.isLeaf]
  | [s] => by simp only [leavesLast]; exact leaves_are_leaves s
  | _ :: s' :: ss => by simp only [leavesLast]; exact leavesLast_are_leaves (s' :: ss)
theorem leavesAll_are_leaves : (ss : List TS) → ∀ l ∈ leavesAll ss, l.isLeaf = true
  | [] => by simp [leavesAll]
  | s :: ss => by
    intro l hl; simp only [leavesAll, List.mem_append] at hl
    rcases hl with h | h
    · exact leaves_are_leaves s l h
    · exact leavesAll_are_leaves ss l h
end

end MV
