/-
Parsing the printed tokens of a Core expression with the Python grammar gives back its tree.
-/
import MambaVerif.Lemmas.PyBasic

namespace MV

theorem Ev_of_succ {α : Type} {F G : Nat → Option α} {y : α} (h : ∀ m, F (m + 1) = G m) (hg : Ev G y) : Ev F y := by
  obtain ⟨n, hn⟩ := hg
  refine ⟨n + 1, fun m hm => ?_⟩
  obtain ⟨m', rfl⟩ : ∃ m', m = m' + 1 := ⟨m - 1, by omega⟩
  rw [h]; exact hn m' (by omega)

theorem Ev_bind {α β : Type} {f : Nat → Option α} {g : Nat → α → Option β} {x : α} {y : β}
    (hf : Ev f x) (hg : Ev (fun m => g m x) y) : Ev (fun m => (f m).bind (g m)) y := by
  obtain ⟨n1, h1⟩ := hf; obtain ⟨n2, h2⟩ := hg
  refine ⟨max n1 n2, fun m hm => ?_⟩
  show (f m).bind (g m) = some y
  rw [h1 m (by omega)]
  exact h2 m (by omega)

theorem Ev_const_succ {α : Type} {F : Nat → Option α} {y : α} (h : ∀ m, F (m + 1) = some y) : Ev F y :=
  ⟨1, fun m hm => by obtain ⟨m', rfl⟩ : ∃ m', m = m' + 1 := ⟨m - 1, by omega⟩; exact h m'⟩

theorem Ev_word {s : String} {r : List PTok} {out : PyAst × List PTok}
    (h : Ev (fun m => cont m 15 (.name s) r) out) : Ev (fun m => parse m 15 (.word s :: r)) out :=
  Ev_of_succ (fun m => parse_word m s r) h

theorem Ev_paren {r r' : List PTok} {a : PyAst} {out : PyAst × List PTok}
    (h1 : Ev (fun m => parse m 1 r) (a, .rpar :: r')) (h2 : Ev (fun m => cont m 15 a r') out) :
    Ev (fun m => parse m 15 (.lpar :: r)) out := by
  obtain ⟨n1, e1⟩ := h1; obtain ⟨n2, e2⟩ := h2
  refine ⟨max n1 n2 + 1, fun m hm => ?_⟩
  obtain ⟨m', rfl⟩ : ∃ m', m = m' + 1 := ⟨m - 1, by omega⟩
  show parse (m' + 1) 15 (.lpar :: r) = some out
  rw [parse_paren m' r a r' (e1 m' (by omega))]
  exact e2 m' (by omega)

theorem Ev_down {k : Nat} {ts r : List PTok} {a : PyAst} {out : PyAst × List PTok} (hk : k < 15)
    (hp : NoPrefixAt k ts) (h1 : Ev (fun m => parse m (k + 1) ts) (a, r))
    (h2 : Ev (fun m => cont m k a r) out) : Ev (fun m => parse m k ts) out :=
  Ev_of_succ (fun m => parse_down m k ts hk hp) (Ev_bind h1 h2)

theorem Ev_prefix {k : Nat} {u : UnOp} {ts' r : List PTok} {a : PyAst} (hk : k < 15)
    (hp : prefixForm k (.uop u :: ts') = some (u, ts')) (h1 : Ev (fun m => parse m k ts') (a, r)) :
    Ev (fun m => parse m k (.uop u :: ts')) (.un u a, r) :=
  Ev_of_succ (fun m => parse_prefix m k u ts' hk hp)
    (Ev_bind (g := fun _ p => some (PyAst.un u p.1, p.2)) h1 ⟨0, fun _ _ => rfl⟩)

theorem Ev_exit {k : Nat} {acc : PyAst} {ts : List PTok}
    (h : ∀ t, ts.head? = some t → contLevel t ≠ some k) : Ev (fun m => cont m k acc ts) (acc, ts) :=
  Ev_const_succ (fun m => cont_exit m k acc ts h)

theorem Ev_exit_of_stop {k : Nat} {acc : PyAst} {ts : List PTok} (h : Stop k ts) :
    Ev (fun m => cont m k acc ts) (acc, ts) :=
  Ev_exit (fun t ht hc => by have := h t ht k hc; omega)

theorem Ev_left {k : Nat} {acc b : PyAst} {o : BinOp} {ts' r : List PTok} {out : PyAst × List PTok}
    (hl : isLeft k = true) (ho : pyLevel o = k) (h1 : Ev (fun m => parse m (k + 1) ts') (b, r))
    (h2 : Ev (fun m => cont m k (.bin o acc b) r) out) : Ev (fun m => cont m k acc (.bop o :: ts')) out :=
  Ev_of_succ (fun m => cont_left m k acc o ts' hl ho) (Ev_bind h1 h2)

theorem Ev_pow {acc b : PyAst} {o : BinOp} {ts' r : List PTok} (ho : pyLevel o = 14)
    (h1 : Ev (fun m => parse m 13 ts') (b, r)) : Ev (fun m => cont m 14 acc (.bop o :: ts')) (.bin o acc b, r) :=
  Ev_of_succ (fun m => cont_pow m acc o ts' ho)
    (Ev_bind (g := fun _ p => some (PyAst.bin o acc p.1, p.2)) h1 ⟨0, fun _ _ => rfl⟩)

theorem Ev_cmp {acc b : PyAst} {o : BinOp} {ts' r : List PTok} (ho : pyLevel o = 6)
    (h1 : Ev (fun m => parse m 7 ts') (b, r)) (h2 : Stop 6 r) :
    Ev (fun m => cont m 6 acc (.bop o :: ts')) (.bin o acc b, r) :=
  Ev_of_succ (fun m => cont_cmp m acc o ts' ho)
    (Ev_bind (g := fun m p => chainMore m (PyAst.bin o acc p.1) p.2) h1
      (Ev_const_succ (fun m => chainMore_exit m _ r (fun t ht hc => by have := h2 t ht 6 hc; omega))))

/-- climbing down from level `p` to a lower level `k` when nothing continues in between -/
theorem Ev_descend (d : Nat) : ∀ (k p : Nat) (ts r : List PTok) (a : PyAst) (out : PyAst × List PTok),
    p = k + d + 1 → p ≤ 15 → (∀ j, k ≤ j → j < p → NoPrefixAt j ts) →
    Ev (fun m => parse m p ts) (a, r) → Stop (k + 1) r → Ev (fun m => cont m k a r) out →
    Ev (fun m => parse m k ts) out := by
  induction d with
  | zero =>
    intro k p ts r a out hp hp15 hnp h1 _ h2
    subst hp
    exact Ev_down (by omega) (hnp k (Nat.le_refl _) (by omega)) h1 h2
  | succ d ih =>
    intro k p ts r a out hp hp15 hnp h1 hs h2
    have hmid : Ev (fun m => parse m (k + 1) ts) (a, r) :=
      ih (k + 1) p ts r a (a, r) (by omega) hp15 (fun j hj1 hj2 => hnp j (by omega) hj2) h1
        (hs.mono (by omega)) (Ev_exit (fun t ht hc => by have := hs t ht (k + 1) hc; omega))
    exact Ev_down (by omega) (hnp k (Nat.le_refl _) (by omega)) hmid h2

end MV

namespace MV

/-! ### facts about the regenerated printer tables (these are what a changed table breaks) -/

theorem prec_eq_level (o : BinOp) : o.prec = pyLevel o := by cases o <;> rfl
theorem level_kind (o : BinOp) : isLeft (pyLevel o) = true ∨ pyLevel o = 6 ∨ pyLevel o = 14 := by
  cases o <;> decide
theorem sides_left (o : BinOp) (h : isLeft (pyLevel o) = true) :
    pyLevel o ≤ o.sides.1 ∧ pyLevel o + 1 ≤ o.sides.2 := by
  cases o <;> first | decide | (exact absurd h (by decide))
theorem sides_cmp (o : BinOp) (h : pyLevel o = 6) : 7 ≤ o.sides.1 ∧ 7 ≤ o.sides.2 := by
  cases o <;> first | decide | (exact absurd h (by decide))
theorem sides_pow (o : BinOp) (h : pyLevel o = 14) : 15 ≤ o.sides.1 ∧ 13 ≤ o.sides.2 := by
  cases o <;> first | decide | (exact absurd h (by decide))
theorem un_prec_not : UnOp.Not.prec = 5 := by rfl
theorem un_prec_other (u : UnOp) (h : u ≠ .Not) : u.prec = 13 := by
  cases u <;> first | rfl | (exact absurd rfl h)
theorem precAtom_eq : precAtom = 15 := by rfl
theorem level_bounds (o : BinOp) : 3 ≤ pyLevel o ∧ pyLevel o ≤ 14 := by cases o <;> decide
theorem level_ne (o : BinOp) : pyLevel o ≠ 5 ∧ pyLevel o ≠ 13 ∧ pyLevel o ≠ 1 := by cases o <;> decide

theorem contLevel_ne (t : PTok) (q : Nat) (hq : q = 5 ∨ q = 13 ∨ q = 1) : contLevel t ≠ some q := by
  cases t <;> simp [contLevel] <;> try omega
  rename_i o
  have := level_ne o
  omega

theorem isLeft_cases {k : Nat} (h : isLeft k = true) : k = 3 ∨ k = 4 ∨ (7 ≤ k ∧ k ≤ 12) := by
  simp [isLeft] at h; omega

/-- the operator fragment of `Core` expressions: names, literals, binary and unary operators -/
def frag : CE → Bool
  | .atom _ => true
  | .int _ => true
  | .bin _ l r => frag l && frag r
  | .un _ e => frag e
  | _ => false

/-- after a printed operand of a non-associative level no operator of the same level follows -/
def NonAssocStop (x : CE) (rest : List PTok) : Prop :=
  (x.prec = 6 → Stop 6 rest) ∧ (x.prec = 14 → Stop 14 rest)

def StopAt (k : Nat) (x : CE) (rest : List PTok) : Prop := Stop (k + 1) rest ∧ NonAssocStop x rest

theorem pr_atom (s : String) : pr (.atom s) = [.word s] := by simp [pr]
theorem pr_int (s : String) : pr (.int s) = [.word s] := by simp [pr]
theorem pr_bin (op : BinOp) (l r : CE) :
    pr (.bin op l r) = operand l op.sides.1 ++ [.bop op] ++ operand r op.sides.2 := by simp [pr]
theorem pr_un (u : UnOp) (x : CE) : pr (.un u x) = [.uop u] ++ operand x u.prec := by simp [pr]

theorem frag_prec_bounds : (e : CE) → frag e = true → 3 ≤ e.prec ∧ e.prec ≤ 15
  | .atom _, _ => by simp [CE.prec, precAtom_eq]
  | .int _, _ => by simp [CE.prec, precAtom_eq]
  | .bin op _ _, _ => by
    have := level_bounds op
    simp only [CE.prec, prec_eq_level]; omega
  | .un u _, _ => by
    simp only [CE.prec]
    by_cases h : u = .Not
    · subst h; simp [un_prec_not]
    · rw [un_prec_other u h]; omega
  | .enum _ _, h | .ternary _ _ _, h | .lambda _ _, h | .call _ _, h | .attr _ _, h | .index _ _, h
  | .isA _ _, h | .sqrt _, h | .tuple _, h | .list _, h | .set _, h => by simp [frag] at h

/-- the printed form does not start with a prefix form of a level below its own -/
theorem head_facts : (e : CE) → frag e = true → ∀ (rest : List PTok) (j : Nat), j < e.prec →
    NoPrefixAt j (pr e ++ rest)
  | .atom s, _, rest, j, _ => by simp [pr_atom, NoPrefixAt, prefixForm, headIsLambda]
  | .int s, _, rest, j, _ => by simp [pr_int, NoPrefixAt, prefixForm, headIsLambda]
  | .un u x, _, rest, j, hj => by
    simp only [CE.prec] at hj
    simp only [pr_un, List.cons_append, List.nil_append, NoPrefixAt, prefixForm, headIsLambda, and_true]
    by_cases h : u = .Not
    · subst h; rw [un_prec_not] at hj
      have : ¬ j = 5 := by omega
      simp [this]
    · rw [un_prec_other u h] at hj
      have : ¬ j = 13 := by omega
      simp [h, this]
  | .bin op l r, hf, rest, j, hj => by
    simp only [frag, Bool.and_eq_true] at hf
    simp only [CE.prec, prec_eq_level] at hj
    rw [pr_bin, List.append_assoc, List.append_assoc]
    unfold operand
    split
    · simp [parens, NoPrefixAt, prefixForm, headIsLambda]
    · rename_i hbare
      have hlm : pyLevel op ≤ op.sides.1 := by
        rcases level_kind op with h | h | h
        · exact (sides_left op h).1
        · have := (sides_cmp op h).1; omega
        · have := (sides_pow op h).1; omega
      exact head_facts l hf.1 _ j (by omega)
  | .enum _ _, h, _, _, _ | .ternary _ _ _, h, _, _, _ | .lambda _ _, h, _, _, _ | .call _ _, h, _, _, _
  | .attr _ _, h, _, _, _ | .index _ _, h, _, _, _ | .isA _ _, h, _, _, _ | .sqrt _, h, _, _, _
  | .tuple _, h, _, _, _ | .list _, h, _, _, _ | .set _, h, _, _, _ => by simp [frag] at h

theorem operand_head (x : CE) (hx : frag x = true) (min j : Nat) (hj : j < min) (rest : List PTok) :
    NoPrefixAt j (operand x min ++ rest) := by
  unfold operand
  split
  · simp [parens, NoPrefixAt, prefixForm, headIsLambda]
  · exact head_facts x hx rest j (by omega)

/-- the statement proved by induction on the expression -/
def SProp (e : CE) : Prop :=
  ∀ (k : Nat) (rest : List PTok) (out : PyAst × List PTok), k ≤ e.prec → StopAt k e rest →
    Ev (fun m => cont m k (embed e) rest) out → Ev (fun m => parse m k (pr e ++ rest)) out

theorem stop_rpar (j : Nat) (rest : List PTok) : Stop j (.rpar :: rest) := by
  intro t ht l hl
  simp at ht; subst ht; simp [contLevel] at hl

/-- an operand, bare or parenthesised, is parsed back at any level up to its required minimum -/
theorem operand_S (x : CE) (hS : SProp x) (hx : frag x = true) (min k : Nat) (hk : k ≤ min) (hk15 : k ≤ 15)
    (rest : List PTok) (out : PyAst × List PTok) (hstop : Stop (k + 1) rest)
    (hna : ¬ (x.prec < min) → NonAssocStop x rest)
    (hc : Ev (fun m => cont m k (embed x) rest) out) :
    Ev (fun m => parse m k (operand x min ++ rest)) out := by
  unfold operand
  split
  · -- parenthesised
    have hb := frag_prec_bounds x hx
    have hin : Ev (fun m => parse m 1 (pr x ++ .rpar :: rest)) (embed x, .rpar :: rest) :=
      hS 1 (.rpar :: rest) _ (by omega) ⟨stop_rpar _ _, ⟨fun _ => stop_rpar _ _, fun _ => stop_rpar _ _⟩⟩
        (Ev_exit (fun t ht hc' => by simp at ht; subst ht; simp [contLevel] at hc'))
    have hform : parens (pr x) ++ rest = .lpar :: (pr x ++ .rpar :: rest) := by simp [parens]
    rw [hform]
    by_cases hk' : k = 15
    · subst hk'; exact Ev_paren hin hc
    · have h15 : Ev (fun m => parse m 15 (.lpar :: (pr x ++ .rpar :: rest))) (embed x, rest) :=
        Ev_paren hin (Ev_exit_of_stop (hstop.mono (by omega)))
      exact Ev_descend (15 - k - 1) k 15 _ rest (embed x) out (by omega) (by omega)
        (fun j _ _ => by simp [NoPrefixAt, prefixForm, headIsLambda]) h15 hstop hc
  · rename_i hbare
    exact hS k rest out (by omega) ⟨hstop, hna hbare⟩ hc

/-- from the top level of an expression down to any lower level -/
theorem lift_top (e : CE) (he : frag e = true)
    (htop : ∀ (rest : List PTok) (out : PyAst × List PTok), StopAt e.prec e rest →
      Ev (fun m => cont m e.prec (embed e) rest) out → Ev (fun m => parse m e.prec (pr e ++ rest)) out) :
    SProp e := by
  intro k rest out hk hst hc
  by_cases hkp : k = e.prec
  · subst hkp; exact htop rest out hst hc
  · have hb := frag_prec_bounds e he
    have hp : Ev (fun m => parse m e.prec (pr e ++ rest)) (embed e, rest) :=
      htop rest _ ⟨hst.1.mono (by omega), hst.2⟩ (Ev_exit_of_stop (hst.1.mono (by omega)))
    exact Ev_descend (e.prec - k - 1) k e.prec _ rest (embed e) out (by omega) hb.2
      (fun j hj1 hj2 => head_facts e he rest j hj2) hp hst.1 hc

end MV
