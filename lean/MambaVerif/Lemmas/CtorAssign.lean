/-
Soundness of the constructor analysis: on every path, what the analysis calls assigned is assigned.
-/
import MambaVerif.Model.CtorAssign

namespace MV

/-- every attribute of `F` is assigned (`A`) or still recorded as unassigned (`U`) -/
def Cov (F A U : List Nat) : Prop := ∀ f ∈ F, f ∈ A ∨ f ∈ U

/-- after a statement: on normal completion the invariant holds for the new sets; when the
    constructor has returned, every attribute is assigned -/
def Post (F U' : List Nat) (r : Res) : Prop :=
  (r.1 = false → Cov F r.2.1 U') ∧ (r.1 = true → ∀ f ∈ F, f ∈ r.2.1)

theorem Cov.weaken {F A U U2 : List Nat} (h : Cov F A U) (hs : ∀ x ∈ U, x ∈ U2) : Cov F A U2 :=
  fun f hf => (h f hf).elim Or.inl (fun hu => Or.inr (hs f hu))

theorem Post.weaken {F U U2 : List Nat} {r : Res} (h : Post F U r) (hs : ∀ x ∈ U, x ∈ U2) : Post F U2 r :=
  ⟨fun hr => (h.1 hr).weaken hs, h.2⟩

/-! ### the analysis never adds to the unassigned set -/
mutual
theorem uaS_sub : ∀ (s : CS) (u u' : List Nat), uaS s u = some u' → ∀ x ∈ u', x ∈ u
  | .assign f, u, u', h => by
    simp only [uaS, Option.some.injEq] at h; subst h
    intro x hx; exact (List.mem_filter.mp hx).1
  | .skip, u, u', h => by
    simp only [uaS, Option.some.injEq] at h; subst h; intro x hx; exact hx
  | .ite t e, u, u', h => by
    simp only [uaS] at h
    cases ht : uaB t u with
    | none => simp [ht] at h
    | some a =>
      cases he : uaB e u with
      | none => simp [ht, he] at h
      | some b =>
        simp only [ht, he, Option.some.injEq] at h; subst h
        intro x hx
        rcases List.mem_append.mp hx with hx | hx
        · exact uaB_sub t u a ht x hx
        · exact uaB_sub e u b he x hx
  | .ifOnly t, u, u', h => by
    simp only [uaS] at h
    cases ht : uaB t u with
    | none => simp [ht] at h
    | some a => simp only [ht, Option.some.injEq] at h; subst h; intro x hx; exact hx
  | .loop b, u, u', h => by
    simp only [uaS] at h
    cases ht : uaB b u with
    | none => simp [ht] at h
    | some a => simp only [ht, Option.some.injEq] at h; subst h; intro x hx; exact hx
  | .matchS [] ca, u, u', h => by
    simp only [uaS, Option.some.injEq] at h; subst h; intro x hx; exact hx
  | .matchS (y :: more) ca, u, u', h => by
    simp only [uaS] at h
    cases ha : uaA (y :: more) u with
    | none => simp [ha] at h
    | some a =>
      simp only [ha, Option.some.injEq] at h; subst h
      intro x hx
      cases ca with
      | true => exact uaA_sub (y :: more) u a ha x (by simpa using hx)
      | false =>
        simp only [Bool.false_eq_true, if_false] at hx
        rcases List.mem_append.mp hx with hx | hx
        · exact uaA_sub (y :: more) u a ha x hx
        · exact hx
  | .handle arms, u, u', h => by
    simp only [uaS] at h
    cases ha : uaA arms u with
    | none => simp [ha] at h
    | some a => simp only [ha, Option.some.injEq] at h; subst h; intro x hx; exact hx
  | .ret, u, u', h => by
    simp only [uaS] at h
    split at h
    · simp only [Option.some.injEq] at h; subst h; intro x hx; exact hx
    · exact absurd h (by simp)
theorem uaB_sub : ∀ (b : List CS) (u u' : List Nat), uaB b u = some u' → ∀ x ∈ u', x ∈ u
  | [], u, u', h => by
    simp only [uaB, Option.some.injEq] at h; subst h; intro x hx; exact hx
  | s :: ss, u, u', h => by
    simp only [uaB] at h
    cases hs : uaS s u with
    | none => simp [hs] at h
    | some u1 =>
      simp only [hs] at h
      intro x hx
      exact uaS_sub s u u1 hs x (uaB_sub ss u1 u' h x hx)
theorem uaA_sub : ∀ (arms : List (List CS)) (u x : List Nat), uaA arms u = some x → ∀ y ∈ x, y ∈ u
  | [], u, x, h => by
    simp only [uaA, Option.some.injEq] at h; subst h; intro y hy; exact absurd hy (by simp)
  | a :: more, u, x, h => by
    simp only [uaA] at h
    cases ha : uaB a u with
    | none => simp [ha] at h
    | some p =>
      cases hm : uaA more u with
      | none => simp [ha, hm] at h
      | some q =>
        simp only [ha, hm, Option.some.injEq] at h; subst h
        intro y hy
        rcases List.mem_append.mp hy with hy | hy
        · exact uaB_sub a u p ha y hy
        · exact uaA_sub more u q hm y hy
end

theorem uaA_cons (a : List CS) (more : List (List CS)) (u : List Nat) :
    uaA (a :: more) u = (match uaB a u, uaA more u with
      | some x, some y => some (x ++ y)
      | _, _ => none) := by
  simp only [uaA]
  cases uaB a u <;> cases uaA more u <;> rfl

theorem runA_some : ∀ (more : List (List CS)) (x : List CS) (n : Nat) (cs a : List Nat),
    runA (x :: more) n cs a ≠ none
  | [], x, n, cs, a => by simp [runA]
  | y :: more, x, 0, cs, a => by simp [runA]
  | y :: more, x, n + 1, cs, a => by
    simp only [runA]
    exact runA_some more y n cs a

/-! ### loops -/
theorem iter_post (F u ub : List Nat) (body : List Nat → List Nat → Res)
    (hb : ∀ cs a, Cov F a u → Post F ub (body cs a)) (hsub : ∀ x ∈ ub, x ∈ u) :
    ∀ (k : Nat) (cs a : List Nat), Cov F a u → Post F u (iter k body cs a)
  | 0, cs, a, hc => by
    unfold iter
    exact ⟨fun _ => hc, fun h => absurd h (by simp)⟩
  | k + 1, cs, a, hc => by
    unfold iter
    have hp := hb cs a hc
    cases hr : body cs a with
    | mk r rest =>
      cases rest with
      | mk a' cs' =>
        rw [hr] at hp
        cases r with
        | true => exact ⟨fun h => absurd h (by simp), fun _ => hp.2 rfl⟩
        | false => exact iter_post F u ub body hb hsub k cs' a' ((hp.1 rfl).weaken hsub)

/-! ### soundness: every statement, every block, every arm, every stream of choices -/
mutual
theorem ctorSoundS (F : List Nat) : ∀ (s : CS) (u u' cs a : List Nat), uaS s u = some u' → Cov F a u →
    Post F u' (runS s cs a)
  | .assign f, u, u', cs, a, h, hc => by
    simp only [uaS, Option.some.injEq] at h; subst h
    simp only [runS]
    refine ⟨fun _ g hg => ?_, fun hr => absurd hr (by simp)⟩
    by_cases hgf : g = f
    · left; subst hgf; simp
    · rcases hc g hg with hga | hgu
      · left; simp [hga]
      · right; exact List.mem_filter.mpr ⟨hgu, by simpa using hgf⟩
  | .skip, u, u', cs, a, h, hc => by
    simp only [uaS, Option.some.injEq] at h; subst h
    simp only [runS]
    exact ⟨fun _ => hc, fun hr => absurd hr (by simp)⟩
  | .ite t e, u, u', cs, a, h, hc => by
    simp only [uaS] at h
    cases ht : uaB t u with
    | none => simp [ht] at h
    | some p =>
      cases he : uaB e u with
      | none => simp [ht, he] at h
      | some q =>
        simp only [ht, he, Option.some.injEq] at h; subst h
        have hl : ∀ x ∈ p, x ∈ p ++ q := fun x hx => List.mem_append.mpr (Or.inl hx)
        have hr : ∀ x ∈ q, x ∈ p ++ q := fun x hx => List.mem_append.mpr (Or.inr hx)
        cases cs with
        | nil => simp only [runS]; exact (ctorSoundB F t u p [] a ht hc).weaken hl
        | cons c cs =>
          simp only [runS]
          split
          · exact (ctorSoundB F t u p cs a ht hc).weaken hl
          · exact (ctorSoundB F e u q cs a he hc).weaken hr
  | .ifOnly t, u, u', cs, a, h, hc => by
    simp only [uaS] at h
    cases ht : uaB t u with
    | none => simp [ht] at h
    | some p =>
      simp only [ht, Option.some.injEq] at h; subst h
      cases cs with
      | nil => simp only [runS]; exact ⟨fun _ => hc, fun hr => absurd hr (by simp)⟩
      | cons c cs =>
        simp only [runS]
        split
        · exact ⟨fun _ => hc, fun hr => absurd hr (by simp)⟩
        · exact (ctorSoundB F t u p cs a ht hc).weaken (uaB_sub t u p ht)
  | .loop b, u, u', cs, a, h, hc => by
    simp only [uaS] at h
    cases ht : uaB b u with
    | none => simp [ht] at h
    | some p =>
      simp only [ht, Option.some.injEq] at h; subst h
      cases cs with
      | nil => simp only [runS]; exact ⟨fun _ => hc, fun hr => absurd hr (by simp)⟩
      | cons c cs =>
        simp only [runS]
        exact iter_post F u p (fun cs a => runB b cs a) (fun cs' a' hc' => ctorSoundB F b u p cs' a' ht hc')
          (uaB_sub b u p ht) c cs a hc
  | .matchS [] ca, u, u', cs, a, h, hc => by
    simp only [uaS, Option.some.injEq] at h; subst h
    have hn : Post F u (false, a, cs) := ⟨fun _ => hc, fun hr => absurd hr (by simp)⟩
    cases ca <;> cases cs with
    | nil => simp only [runS, runA, Option.getD_none]; exact ⟨fun _ => hc, fun hr => absurd hr (by simp)⟩
    | cons c cs =>
      first
        | (simp only [runS, runA, Option.getD_none]; exact ⟨fun _ => hc, fun hr => absurd hr (by simp)⟩)
        | (simp only [runS]; cases c <;> simp only [runA, Option.getD_none] <;>
            exact ⟨fun _ => hc, fun hr => absurd hr (by simp)⟩)
  | .matchS (x :: more) true, u, u', cs, a, h, hc => by
    simp only [uaS] at h
    cases ha : uaA (x :: more) u with
    | none => simp [ha] at h
    | some p =>
      simp only [ha, if_true, Option.some.injEq] at h; subst h
      cases cs with
      | nil =>
        simp only [runS]
        cases hr : runA (x :: more) 0 [] a with
        | none => exact absurd hr (runA_some more x 0 [] a)
        | some r => simp only [Option.getD_some]; exact ctorSoundA F (x :: more) u p ha 0 [] a hc r hr
      | cons c cs =>
        simp only [runS]
        cases hr : runA (x :: more) c cs a with
        | none => exact absurd hr (runA_some more x c cs a)
        | some r => simp only [Option.getD_some]; exact ctorSoundA F (x :: more) u p ha c cs a hc r hr
  | .matchS (y :: more) false, u, u', cs, a, h, hc => by
    simp only [uaS] at h
    cases ha : uaA (y :: more) u with
    | none => simp [ha] at h
    | some p =>
      simp only [ha, Bool.false_eq_true, if_false, Option.some.injEq] at h; subst h
      cases cs with
      | nil =>
        simp only [runS]
        exact ⟨fun _ => hc.weaken (fun x hx => List.mem_append.mpr (Or.inr hx)), fun hr => absurd hr (by simp)⟩
      | cons c cs =>
        simp only [runS]
        cases c with
        | zero =>
          exact ⟨fun _ => hc.weaken (fun x hx => List.mem_append.mpr (Or.inr hx)), fun hr => absurd hr (by simp)⟩
        | succ c =>
          simp only
          cases hr : runA (y :: more) c cs a with
          | none =>
            simp only [Option.getD_none]
            exact ⟨fun _ => hc.weaken (fun x hx => List.mem_append.mpr (Or.inr hx)), fun hr => absurd hr (by simp)⟩
          | some r =>
            simp only [Option.getD_some]
            exact (ctorSoundA F (y :: more) u p ha c cs a hc r hr).weaken (fun x hx => List.mem_append.mpr (Or.inl hx))
  | .handle arms, u, u', cs, a, h, hc => by
    simp only [uaS] at h
    cases ha : uaA arms u with
    | none => simp [ha] at h
    | some p =>
      simp only [ha, Option.some.injEq] at h; subst h
      cases cs with
      | nil => simp only [runS]; exact ⟨fun _ => hc, fun hr => absurd hr (by simp)⟩
      | cons c cs =>
        simp only [runS]
        cases c with
        | zero => exact ⟨fun _ => hc, fun hr => absurd hr (by simp)⟩
        | succ c =>
          simp only
          cases hr : runA arms c cs a with
          | none => simp only [Option.getD_none]; exact ⟨fun _ => hc, fun hr => absurd hr (by simp)⟩
          | some r =>
            simp only [Option.getD_some]
            exact (ctorSoundA F arms u p ha c cs a hc r hr).weaken (uaA_sub arms u p ha)
  | .ret, u, u', cs, a, h, hc => by
    simp only [uaS] at h
    split at h
    · rename_i hemp
      simp only [Option.some.injEq] at h; subst h
      simp only [runS]
      refine ⟨fun hr => absurd hr (by simp), fun _ f hf => ?_⟩
      rcases hc f hf with hfa | hfu
      · exact hfa
      · have : u = [] := by simpa using hemp
        subst this; exact absurd hfu (by simp)
    · exact absurd h (by simp)
theorem ctorSoundB (F : List Nat) : ∀ (b : List CS) (u u' cs a : List Nat), uaB b u = some u' → Cov F a u →
    Post F u' (runB b cs a)
  | [], u, u', cs, a, h, hc => by
    simp only [uaB, Option.some.injEq] at h; subst h
    simp only [runB]
    exact ⟨fun _ => hc, fun hr => absurd hr (by simp)⟩
  | s :: ss, u, u', cs, a, h, hc => by
    simp only [uaB] at h
    cases hs : uaS s u with
    | none => simp [hs] at h
    | some u1 =>
      simp only [hs] at h
      have hp := ctorSoundS F s u u1 cs a hs hc
      simp only [runB]
      cases hr : runS s cs a with
      | mk r rest =>
        cases rest with
        | mk a' cs' =>
          rw [hr] at hp
          cases r with
          | true => exact ⟨fun h => absurd h (by simp), fun _ => hp.2 rfl⟩
          | false => exact ctorSoundB F ss u1 u' cs' a' h (hp.1 rfl)
theorem ctorSoundA (F : List Nat) : ∀ (arms : List (List CS)) (u x : List Nat), uaA arms u = some x →
    ∀ (n : Nat) (cs a : List Nat), Cov F a u → ∀ r, runA arms n cs a = some r → Post F x r
  | [], u, x, _, n, cs, a, _, r, hr => by simp [runA] at hr
  | [y], u, x, h, n, cs, a, hc, r, hr => by
    simp only [uaA] at h
    cases hy : uaB y u with
    | none => simp [hy] at h
    | some p =>
      simp only [hy, Option.some.injEq, List.append_nil] at h; subst h
      simp only [runA, Option.some.injEq] at hr; subst hr
      exact ctorSoundB F y u p cs a hy hc
  | y :: z :: more, u, x, h, 0, cs, a, hc, r, hr => by
    rw [uaA_cons] at h
    cases hy : uaB y u with
    | none => simp [hy] at h
    | some p =>
      cases hm : uaA (z :: more) u with
      | none => simp [hy, hm] at h
      | some q =>
        have h' : x = p ++ q := by
          simp only [hy, hm, Option.some.injEq] at h; exact h.symm
        subst h'
        simp only [runA, Option.some.injEq] at hr; subst hr
        exact (ctorSoundB F y u p cs a hy hc).weaken (fun v hv => List.mem_append.mpr (Or.inl hv))
  | y :: z :: more, u, x, h, n + 1, cs, a, hc, r, hr => by
    rw [uaA_cons] at h
    cases hy : uaB y u with
    | none => simp [hy] at h
    | some p =>
      cases hm : uaA (z :: more) u with
      | none => simp [hy, hm] at h
      | some q =>
        have h' : x = p ++ q := by
          simp only [hy, hm, Option.some.injEq] at h; exact h.symm
        subst h'
        simp only [runA] at hr
        exact (ctorSoundA F (z :: more) u q hm n cs a hc r hr).weaken (fun v hv => List.mem_append.mpr (Or.inr hv))
end

end MV
