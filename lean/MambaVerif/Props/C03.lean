/-
C03 — Totality (lexer stage).  The Lean model is total by construction; the content of these
theorems is that no *Rust panic site* of the modelled code is reachable (they are explicit
`LexRes.panic` results of the model): the byte slice `cur_expr[0..len-1]` in the string arm, and
the nesting fuel of the model itself (site 99), for every input text.
The other stages (parser, context, unifier, generator, stack depth, wall time) are explored by the
crash oracle of the check, not proved.
-/
import MambaVerif.Lemmas.LexTotal

namespace MV.C03

open MV

theorem run_noPanic (nested : List Char → LexRes (List Lex)) (cs : List Char) :
    ∀ (skip : Nat) (st : LState), (∀ e : List Char, e.length < cs.length → (nested e).NoPanic) →
    (run nested cs skip st).NoPanic := by
  induction cs with
  | nil => intro skip st _; simp [run, LexRes.NoPanic]
  | cons c rest ih =>
    intro skip st hn
    have hrest : ∀ e : List Char, e.length < rest.length → (nested e).NoPanic :=
      fun e he => hn e (by simp; omega)
    cases skip with
    | succ k => simp only [run]; exact ih k st hrest
    | zero =>
      simp only [run, step]
      have hc := classify_noPanic nested st.pos c rest hrest
      cases hcl : classify nested st.pos c rest with
      | panic n => exact absurd hcl (hc n)
      | err => simp [LexRes.NoPanic]
      | nestedErr p => simp [LexRes.NoPanic]
      | space =>
        simp only []
        have := ih 0 st.space hrest
        cases hr : run nested rest 0 st.space <;> simp_all [LexRes.NoPanic]
      | tok t nest n =>
        simp only []
        have := ih n (st.token t nest).2 hrest
        cases hr : run nested rest n (st.token t nest).2 <;> simp_all [LexRes.NoPanic]

/-- the nested lexer never panics on texts shorter than its fuel -/
theorem tokenizeDirect_noPanic : ∀ (fuel : Nat) (s : List Char), s.length < fuel → (tokenizeDirect fuel s).NoPanic := by
  intro fuel
  induction fuel with
  | zero => intro s h; omega
  | succ f ih =>
    intro s hs
    simp only [tokenizeDirect]
    have := run_noPanic (tokenizeDirect f) s 0 LState.init (fun e he => ih e (by omega))
    cases hr : run (tokenizeDirect f) s 0 LState.init <;> simp_all [LexRes.NoPanic]

/-- **lex_total**: for every input text the lexer returns tokens or a lexical error; no Rust
    panic site of the lexer (byte slicing of an interpolated expression) is reachable. -/
theorem lex_total (s : List Char) : (tokenize s).NoPanic := by
  unfold tokenize tokenizeWith
  have := run_noPanic (tokenizeDirect s.length) s 0 LState.init
    (fun e he => tokenizeDirect_noPanic s.length e he)
  cases hr : run (tokenizeDirect s.length) s 0 LState.init <;> simp_all [LexRes.NoPanic]

/-- every lexical error or token stream: the result is one of the two -/
theorem lex_ok_or_err (s : List Char) : (∃ toks, tokenize s = .ok toks) ∨ (∃ p, tokenize s = .err p) := by
  have := lex_total s
  cases h : tokenize s with
  | ok t => exact Or.inl ⟨t, rfl⟩
  | err p => exact Or.inr ⟨p, rfl⟩
  | panic n => rw [h] at this; exact absurd this (by simp [LexRes.NoPanic])

/-! Non-vacuity: the string arm with nested interpolation is exercised (`"a{b + "c{d}"}e"`). -/
example : (match tokenize ['"', 'a', '{', 'b', '"', 'c', '{', 'd', '}', '"', '}', 'e', '"'] with
    | .ok toks => toks.length == 2 | _ => false) = true := by decide +kernel

end MV.C03
