/-
C06 — Null safety (name layer).

On the models of `TrueName::is_superset_of` and `Name::union` (Model/Ty.lean), for an arbitrary
relation `V` on variants (every class table, every depth):
* a non-nullable `T` never accepts a nullable type, and never accepts `None` unless its class does;
* `T?` accepts `None`, and accepts `T`/`T?` whenever the variants are related (reflexivity of the
  class relation gives `T? ⊒ T` and `T? ⊒ T?`);
* forming the union of a non-null type with `None` yields only nullable members and no `None`
  member (`union_none_nullable`): this is how `x: T := if c then v else None` becomes `T?`.
The flow positions (initialiser, reassignment, argument, return, operand, receiver) are decided by
the verdict oracle of the check over all positions × types × contexts, both directions.
-/
import MambaVerif.Props.C20

namespace MV.C06

open MV

variable (V : TName → TName → R)

/-- **not_sup_nullable**: `T` non-nullable never accepts `T?` (nor any nullable type) -/
theorem not_sup_nullable (s o : TName) (hs : s.nullable = false) (ho : o.nullable = true)
    (hne : (!s.isEmpty && o.isEmpty) = false) : tnSup V s o = .ok false :=
  MV.C20.nullable_not_le_nonnull V s o hs ho hne

/-- **sup_of_nullable**: `T?` accepts `None` -/
theorem nullable_sup_none (s o : TName) (hs : s.nullable = true) (ho : o.isNull = true)
    (hne : (!s.isEmpty && o.isEmpty) = false) : tnSup V s o = .ok true :=
  MV.C20.none_le_nullable V s o hs ho hne

/-- **sup_of_nullable**: `T?` accepts `T` and `T?` when the class relation relates the variants -/
theorem nullable_sup_self (s o : TName) (hs : s.nullable = true) (hv : V s o = .ok true)
    (hne : (!s.isEmpty && o.isEmpty) = false) : tnSup V s o = .ok true :=
  MV.C20.le_nullable_of_variant V s o hs hv hne

/-- **none_not_sup**: a non-nullable `T` accepts `None` only if the class relation does -/
theorem none_sup_iff_variant (s o : TName) (hs : s.nullable = false) (ho : o.nullable = false)
    (hne : (!s.isEmpty && o.isEmpty) = false) : tnSup V s o = V s o :=
  MV.C20.nonnull_sup V s o hs ho hne

theorem mem_dedupT {x : TName} {l : List TName} (h : x ∈ dedupT l) : x ∈ l := by
  induction l with
  | nil => simp [dedupT] at h
  | cons a t ih =>
    unfold dedupT at h
    split at h
    · exact List.mem_cons_of_mem _ (ih h)
    · rcases List.mem_cons.mp h with e | e
      · rw [e]; simp
      · exact List.mem_cons_of_mem _ (ih e)

/-- **union_none_nullable**: when a union contains `None` and something else, every member of the
    result is nullable and none of them is `None` -/
theorem union_none_nullable (a b : NameT)
    (hnull : (dedupT (a.names ++ b.names)).any TName.isNull = true)
    (hlen : (dedupT (a.names ++ b.names)).length > 1) :
    ∀ t ∈ (a.union b).names, t.nullable = true ∧ t.isNull = false := by
  intro t ht
  have hcond : ((dedupT (a.names ++ b.names)).any TName.isNull &&
      decide ((dedupT (a.names ++ b.names)).length > 1)) = true := by simp [hnull, hlen]
  unfold NameT.union at ht
  simp only [hcond, if_true] at ht
  have := mem_dedupT (show t ∈ dedupT _ from ht)
  obtain ⟨n, hn, rfl⟩ := List.mem_map.mp this
  have hf := (List.mem_filter.mp hn).2
  constructor
  · rfl
  · simp only [Bool.not_eq_true'] at hf
    simpa [TName.isNull, TName.base] using hf

/-! Non-vacuity: `Int ∪ None` is `Int?`. -/
example : ((NameT.mk false [.mk false true "Int" []]).union (.mk false [.mk false true "None" []])).names.map
    (fun t => (t.base, t.nullable)) = [("Int", true)] := by decide +kernel

end MV.C06
