/-
C13 — Projects: all-or-nothing, mirrored layout.

On the model of `transpile_dir` / `mamba_to_python` (Model/Pipeline.lean), for every project (any
number of files, any paths, any stage outcomes) and every prior content of the output directory:
* `all_or_nothing` — if any file has a lexical, syntax, type or generation error (or the context
  cannot be built) the result is a non-empty list of errors and NOTHING is written;
* `errors_name_their_file` — every reported error carries the path of a file that has that error;
* `mirror_layout` — on success exactly the paths `withPy rel` are (over)written with that file's
  output, and every other path of the output directory is untouched.
That a file's stage outcome does not depend on the order of the files or on unrelated files
(monotonicity of context building and checking) is not modelled: it is decided by the check's
oracle on all permutations / added files of generated projects.
-/
import MambaVerif.Model.Pipeline

namespace MV.C13

open MV

def isGood : Outcome → Bool
  | .good _ => true
  | _ => false

/-- a type error outcome carries at least one message (the checker returns non-empty lists) -/
def WF (files : List PFile) : Prop := ∀ f ∈ files, ∀ ms, f.outcome = .typeErr ms → ms ≠ []

theorem errs_nonempty_of_bad (files : List PFile) (hw : WF files) (f : PFile) (hf : f ∈ files) (hb : isGood f.outcome = false) :
    parseErrs files ≠ [] ∨ typeErrs files ≠ [] ∨ genErrs files ≠ [] := by
  cases ho : f.outcome with
  | good py => simp [ho, isGood] at hb
  | parseErr m =>
    left; intro h
    have : (f.rel, m) ∈ parseErrs files := List.mem_filterMap.mpr ⟨f, hf, by simp [ho]⟩
    rw [h] at this; simp at this
  | typeErr ms =>
    right; left; intro h
    obtain ⟨m, ms', rfl⟩ : ∃ m ms', ms = m :: ms' := by
      cases ms with
      | nil => exact absurd rfl (hw f hf [] ho)
      | cons m ms' => exact ⟨m, ms', rfl⟩
    have : (f.rel, m) ∈ typeErrs files := List.mem_flatMap.mpr ⟨f, hf, by simp [ho]⟩
    rw [h] at this; simp at this
  | genErr m =>
    right; right; intro h
    have : (f.rel, m) ∈ genErrs files := List.mem_filterMap.mpr ⟨f, hf, by simp [ho]⟩
    rw [h] at this; simp at this

/-- **all_or_nothing** -/
theorem all_or_nothing (fs : FS) (files : List PFile) (ctxErr : List String) (hw : WF files)
    (hbad : (∃ f ∈ files, isGood f.outcome = false) ∨ ctxErr ≠ []) :
    ∃ es, es ≠ [] ∧ transpileDir fs files ctxErr = (.error es, fs) := by
  unfold transpileDir pipeline
  by_cases h1 : parseErrs files ≠ []
  · exact ⟨_, h1, by simp [h1]⟩
  · by_cases h2 : ctxErr ≠ []
    · refine ⟨ctxErr.map fun m => ("<unknown>", m), by simpa using h2, by simp [h1, h2]⟩
    · by_cases h3 : typeErrs files ≠ []
      · exact ⟨_, h3, by simp [h1, h2, h3]⟩
      · by_cases h4 : genErrs files ≠ []
        · exact ⟨_, h4, by simp [h1, h2, h3, h4]⟩
        · exfalso
          rcases hbad with ⟨f, hf, hb⟩ | hc
          · rcases errs_nonempty_of_bad files hw f hf hb with h | h | h
            · exact h1 h
            · exact h3 h
            · exact h4 h
          · exact h2 hc

/-- **errors_name_their_file**: stage errors are reported with the path of the file that has them -/
theorem errors_name_their_file (files : List PFile) (ctxErr : List String) (es : List (String × String))
    (h : pipeline files ctxErr = .error es) (hc : ctxErr = []) :
    ∀ e ∈ es, ∃ f ∈ files, f.rel = e.1 ∧ isGood f.outcome = false := by
  unfold pipeline at h
  intro e he
  split at h
  · cases h
    obtain ⟨f, hf, hm⟩ := List.mem_filterMap.mp he
    refine ⟨f, hf, ?_⟩
    cases ho : f.outcome <;> simp [ho] at hm
    subst hm; simp [isGood]
  · split at h
    · rename_i hcc; exact absurd hc hcc
    · split at h
      · cases h
        obtain ⟨f, hf, hm⟩ := List.mem_flatMap.mp he
        refine ⟨f, hf, ?_⟩
        cases ho : f.outcome <;> simp [ho] at hm
        obtain ⟨m, _, rfl⟩ := hm
        simp [isGood]
      · split at h
        · cases h
          obtain ⟨f, hf, hm⟩ := List.mem_filterMap.mp he
          refine ⟨f, hf, ?_⟩
          cases ho : f.outcome <;> simp [ho] at hm
          subst hm; simp [isGood]
        · cases h

theorem lookup_write (fs : FS) (p c q : String) : (fs.write p c).lookup q = if q = p then some c else fs.lookup q := by
  unfold FS.write FS.lookup
  by_cases h : q = p
  · subst h; simp [List.find?]
  · have : ¬ p = q := fun x => h x.symm
    simp [List.find?, h, this]

theorem lookup_writes (outs : List (String × String)) : ∀ (fs : FS) (q : String),
    (outs.foldl (fun acc o => acc.write (withPy o.1) o.2) fs).lookup q =
      match (outs.reverse.find? (fun o => withPy o.1 = q)) with
      | some o => some o.2
      | none => fs.lookup q := by
  induction outs with
  | nil => intro fs q; simp
  | cons o rest ih =>
    intro fs q
    simp only [List.foldl_cons, List.reverse_cons]
    rw [ih, List.find?_append]
    cases hr : rest.reverse.find? (fun o => decide (withPy o.1 = q)) with
    | some x => simp
    | none =>
      simp only [Option.none_or, List.find?_cons, List.find?_nil]
      rw [lookup_write]
      by_cases h : withPy o.1 = q
      · simp [h]
      · have : ¬ q = withPy o.1 := fun x => h x.symm
        simp [h, this]

/-- **mirror_layout**: on success a path of the output directory holds the output of the (last) file
    mapped to it, and every path no file is mapped to keeps its prior content -/
theorem mirror_layout (fs : FS) (files : List PFile) (ctxErr : List String) (outs : List (String × String))
    (h : pipeline files ctxErr = .ok outs) (q : String) :
    (transpileDir fs files ctxErr).1 = .ok () ∧
    (transpileDir fs files ctxErr).2.lookup q =
      match (outs.reverse.find? (fun o => withPy o.1 = q)) with
      | some o => some o.2
      | none => fs.lookup q := by
  unfold transpileDir
  rw [h]
  exact ⟨rfl, lookup_writes outs fs q⟩

/-- on success there is one output per file, in file order, under that file's path -/
theorem outputs_mirror_files (files : List PFile) (ctxErr : List String) (outs : List (String × String))
    (hw : WF files) (h : pipeline files ctxErr = .ok outs) : outs.map Prod.fst = files.map PFile.rel := by
  unfold pipeline at h
  split at h; · cases h
  split at h; · cases h
  split at h; · cases h
  split at h; · cases h
  rename_i h1 _ h3 h4
  cases h
  simp only [ne_eq, Decidable.not_not] at h1 h3 h4
  -- no file has an error, so every file contributes its output
  induction files with
  | nil => rfl
  | cons f rest ih =>
    cases ho : f.outcome with
    | good py =>
      have e1 : parseErrs rest = [] := by simpa [parseErrs, ho] using h1
      have e3 : typeErrs rest = [] := by simpa [typeErrs, ho] using h3
      have e4 : genErrs rest = [] := by simpa [genErrs, ho] using h4
      have := ih (fun f hf => hw f (by simp [hf])) e1 e3 e4
      simp [outputs, ho] at this ⊢
      exact this
    | parseErr m => simp [parseErrs, ho] at h1
    | typeErr ms =>
      exfalso
      simp only [typeErrs, List.flatMap_cons, ho, List.append_eq_nil_iff, List.map_eq_nil_iff] at h3
      exact hw f (by simp) ms ho h3.1
    | genErr m => simp [genErrs, ho] at h4

end MV.C13
