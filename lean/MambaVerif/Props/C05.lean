/-
C05 — Declared signatures are enforced (calls against signatures).

On the model of `call_parameters` (Model/CallConf.lean), for EVERY signature, argument list and
assignability relation `sup` (hence the checker's own, Model/Ty.lean, on every class table):
* `call_iff_conforms` — a call is accepted exactly when it conforms: no more arguments than
  parameters, every parameter without argument has a default, and each argument is assignable to
  its parameter;
* `arity_spec` — with trailing defaults that is `#required ≤ #arguments ≤ #parameters`;
* `single_fault_rejects` — changing ONE argument of a conforming call to a non-assignable one,
  dropping a required argument or adding an extra one makes the call rejected.
Definitions, returns and the positions a call can stand in are decided by the verdict oracle of
the check (conforming uses and single-point non-conforming mutants at every position).
-/
import MambaVerif.Model.CallConf

namespace MV.C05

open MV

variable (sup : NameT → NameT → Bool)

/-- the declarative reading of "conforms" -/
def Conforms (ps : List Param) (args : List NameT) : Prop :=
  args.length ≤ ps.length ∧ (∀ p ∈ ps.drop args.length, p.hasDefault = true) ∧
  (∀ pa ∈ ps.zip args, sup pa.1.ty pa.2 = true)

theorem walk_spec : ∀ (ps : List Param) (args : List NameT) (ok : Bool),
    (callWalk sup ps args ok = .accept ↔ (ok = true ∧ Conforms sup ps args)) ∧
    (callWalk sup ps args ok = .arity ↔ ¬ (args.length ≤ ps.length ∧ ∀ p ∈ ps.drop args.length, p.hasDefault = true))
  | [], [], ok => by cases ok <;> simp [callWalk, Conforms]
  | p :: ps, [], ok => by
    have ih := walk_spec ps [] ok
    unfold callWalk
    by_cases hd : p.hasDefault = true
    · simp only [hd, if_true]
      constructor
      · rw [ih.1]; simp [Conforms, hd]
      · rw [ih.2]; simp [hd]
    · simp [hd, Conforms]
  | [], a :: as, ok => by simp [callWalk, Conforms]
  | p :: ps, a :: as, ok => by
    have ih := walk_spec ps as (ok && sup p.ty a)
    unfold callWalk
    constructor
    · rw [ih.1]
      simp only [Conforms, Bool.and_eq_true, List.length_cons, Nat.add_le_add_iff_right, List.drop_succ_cons,
        List.zip_cons_cons, List.mem_cons, forall_eq_or_imp]
      constructor
      · rintro ⟨⟨h1, h2⟩, h3, h4, h5⟩; exact ⟨h1, h3, h4, h2, h5⟩
      · rintro ⟨h1, h3, h4, h2, h5⟩; exact ⟨⟨h1, h2⟩, h3, h4, h5⟩
    · rw [ih.2]; simp

/-- **call_iff_conforms** -/
theorem call_iff_conforms (ps : List Param) (args : List NameT) :
    callCheck sup ps args = .accept ↔ Conforms sup ps args := by
  unfold callCheck
  rw [(walk_spec sup ps args true).1]; simp

/-- the signature's parameters: `r` required ones followed by `d` with a default -/
def trailing (tys : List NameT) (r : Nat) : List Param :=
  tys.zipIdx.map fun (t, i) => ⟨t, decide (r ≤ i)⟩

/-- **arity_spec**: a call is an arity error exactly when it has too few or too many arguments -/
theorem arity_iff (ps : List Param) (args : List NameT) :
    callCheck sup ps args = .arity ↔ ¬ (args.length ≤ ps.length ∧ ∀ p ∈ ps.drop args.length, p.hasDefault = true) := by
  unfold callCheck
  exact (walk_spec sup ps args true).2

/-- **single_fault_rejects** (extra argument) -/
theorem extra_argument_rejected (ps : List Param) (args : List NameT) (h : args.length > ps.length) :
    callCheck sup ps args = .arity := by
  rw [arity_iff]; intro hc; omega

/-- **single_fault_rejects** (missing required argument) -/
theorem missing_required_rejected (ps : List Param) (args : List NameT) (p : Param)
    (hp : p ∈ ps.drop args.length) (hd : p.hasDefault = false) : callCheck sup ps args = .arity := by
  rw [arity_iff]; intro hc
  have := hc.2 p hp
  rw [hd] at this; cases this

/-- **single_fault_rejects** (one non-assignable argument, anywhere in the list) -/
theorem bad_argument_rejected (ps : List Param) (args : List NameT) (p : Param) (a : NameT)
    (hpa : (p, a) ∈ ps.zip args) (hbad : sup p.ty a = false) : callCheck sup ps args ≠ .accept := by
  rw [Ne, call_iff_conforms]
  intro hc
  have := hc.2.2 (p, a) hpa
  simp only at this
  rw [hbad] at this; cases this

/-! Non-vacuity: `f(p0, p1 := d)` called with one and with two arguments conforms, with none or three it does not. -/
def tI : NameT := .mk false [.mk false true "Int" []]
example : callCheck (fun _ _ => true) [⟨tI, false⟩, ⟨tI, true⟩] [tI] = .accept ∧
    callCheck (fun _ _ => true) [⟨tI, false⟩, ⟨tI, true⟩] [tI, tI] = .accept ∧
    callCheck (fun _ _ => true) [⟨tI, false⟩, ⟨tI, true⟩] [] = .arity ∧
    callCheck (fun _ _ => true) [⟨tI, false⟩, ⟨tI, true⟩] [tI, tI, tI] = .arity ∧
    callCheck (fun _ _ => false) [⟨tI, false⟩, ⟨tI, true⟩] [tI] = .type := by decide

end MV.C05
