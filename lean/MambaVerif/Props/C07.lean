/-
C07 — Immutability: `fin` definitions are never reassigned.

On the model of the generate stage's mutability discipline (Model/Scope.lean: the flags of the
innermost visible definition decide, `check_reassignable` / `check_iden_mut`):
* `fin_reassign_rejected`, `undefined_reassign_rejected` — a reassignment (`:=` or a compound
  assignment, which the checker treats alike) whose visible target definition is `fin`, or that has
  none, is an error, in any nesting (the statement is reached with the environment of its block);
* `mutable_reassign_ok` — reassigning a mutable definition adds no error of its own;
* `shadow_decides` — after a re-definition the NEW flag decides, whatever the older ones were;
* `definition_scope` — a `fin` definition made inside a branch/loop does not constrain the outer
  name after the block, and an outer `fin` stays `fin` inside.
Fields reached through a receiver and tuple components are outside the model (DESIGN.md).
-/
import MambaVerif.Lemmas.ScopeSound

namespace MV.C07

open MV.SL

theorem fin_reassign_rejected (par : Parents) (h : Nat) (rs : Raises) (Γ : SEnv) (x : Name) (e : Expr)
    (hx : Γ.lookup x = some false) : .mutability x ∈ (checkS par h rs Γ (.assign x e)).1 := by
  simp [checkS, hx]

theorem undefined_reassign_rejected (par : Parents) (h : Nat) (rs : Raises) (Γ : SEnv) (x : Name) (e : Expr)
    (hx : Γ.lookup x = none) : .undefined x ∈ (checkS par h rs Γ (.assign x e)).1 := by
  simp [checkS, hx]

theorem mutable_reassign_ok (par : Parents) (h : Nat) (rs : Raises) (Γ : SEnv) (x : Name) (e : Expr)
    (hx : Γ.lookup x = some true) : (checkS par h rs Γ (.assign x e)).1 = checkE par h rs Γ e := by
  simp [checkS, hx]

/-- **shadow_decides**: the flag of the latest definition decides -/
theorem shadow_decides (par : Parents) (h : Nat) (rs : Raises) (Γ : SEnv) (x : Name) (fin : Bool) (e e' : Expr)
    (he : checkE par h rs Γ e = []) (he' : checkE par h rs (checkS par h rs Γ (.defv x fin e)).2 e' = []) :
    (checkS par h rs Γ (.seq (.defv x fin e) (.assign x e'))).1 = (if fin then [.mutability x] else []) := by
  simp only [checkS, he, List.nil_append]
  have hl : ({ Γ with vars := (x, !fin) :: Γ.vars } : SEnv).lookup x = some (!fin) := by simp [lookup_cons]
  simp only [checkS] at he'
  rw [he', hl]
  cases fin <;> simp

/-- **definition_scope**: what a branch defines does not change the flag a later statement sees -/
theorem definition_scope (par : Parents) (h : Nat) (rs : Raises) (Γ : SEnv) (c : Expr) (t e : Stmt) (x : Name) :
    (checkS par h rs Γ (.ifS c t e)).2.lookup x = Γ.lookup x := by
  simp [checkS]

/-- an outer definition is seen unchanged inside a nested block that does not redefine it -/
theorem outer_flag_inside_loop (par : Parents) (h : Nat) (rs : Raises) (Γ : SEnv) (i x : Name) (hne : i ≠ x) :
    ({ Γ with vars := (i, true) :: Γ.vars } : SEnv).lookup x = Γ.lookup x := by
  simp [lookup_cons, hne]

/-! Non-vacuity: `def fin a := 1; a := 2` is rejected, with a mutable re-definition in between accepted. -/
example : (checkS (fun _ => none) 0 (fun _ => []) ⟨[], [], false⟩
    (.seq (.defv 1 true .lit) (.assign 1 .lit))).1 = [.mutability 1] := by decide
example : (checkS (fun _ => none) 0 (fun _ => []) ⟨[], [], false⟩
    (.seq (.defv 1 true .lit) (.seq (.defv 1 false .lit) (.assign 1 .lit)))).1 = [] := by decide

end MV.C07
