/-
C18 — Token positions are exact and indentation tokens are balanced.
Property theorems about the lexer model (`Model/Lex.lean`); helper lemmas live in `Lemmas/`.
All statements quantify over every input text `s` and every lexer `nested` for interpolated
expressions (hence in particular the real recursive one, `tokenize`).
-/
import MambaVerif.Lemmas.LexDoc
import MambaVerif.Lemmas.LexSpan

namespace MV.C18

open MV

/-- Spec: the running indentation depth never goes negative and is zero at the end. -/
def Balanced (toks : List Lex) : Prop := bal 0 toks = some 0

/-- Spec: the stream ends with an end-of-file token and contains exactly one. -/
def EofSingle (toks : List Lex) : Prop :=
  toks.getLast?.map Lex.kind = some .Eof ∧ (toks.filter (fun l => l.kind == .Eof)).length = 1

theorem flush_bal (st : LState) : bal (LState.level st.curIndent) st.flushIndents = some 0 := by
  unfold LState.flushIndents
  rw [bal_replicate_dedent _ _ _ (Nat.le_refl _)]; simp

theorem flush_noEof (st : LState) : NoEof st.flushIndents := by
  intro l hl
  unfold LState.flushIndents at hl
  rw [List.mem_replicate] at hl; rw [hl.2]; simp

/-- every indent is matched by a dedent before end of input, for every input the lexer accepts -/
theorem indent_balanced_with (nested : List Char → LexRes (List Lex)) (s : List Char) (toks : List Lex)
    (h : tokenizeWith nested s = .ok toks) : Balanced toks := by
  unfold tokenizeWith at h
  split at h
  · exact absurd h (by simp)
  · exact absurd h (by simp)
  · rename_i toks0 st hr
    injection h with h; subst h
    obtain ⟨b, -, -⟩ := run_inv nested s 0 LState.init hr (by intro l hl; simp [LState.init] at hl)
    unfold Balanced
    rw [docPass_eq_docSpec, docSpec_bal, bal_append, bal_append]
    have h0 : LState.level LState.init.curIndent = 0 := by decide
    rw [h0] at b
    rw [b]; simp only [Option.bind_some]
    rw [flush_bal]; simp [bal]

theorem indent_balanced (s : List Char) (toks : List Lex) (h : tokenize s = .ok toks) : Balanced toks :=
  indent_balanced_with _ s toks h

theorem filter_eof_of_noEof {ls : List Lex} (h : NoEof ls) : ls.filter (fun l => l.kind == .Eof) = [] := by
  rw [List.filter_eq_nil_iff]
  intro l hl; simpa using h l hl

/-- the stream ends with a single end-of-file token -/
theorem eof_single_with (nested : List Char → LexRes (List Lex)) (s : List Char) (toks : List Lex)
    (h : tokenizeWith nested s = .ok toks) : EofSingle toks := by
  unfold tokenizeWith at h
  split at h
  · exact absurd h (by simp)
  · exact absurd h (by simp)
  · rename_i toks0 st hr
    injection h with h; subst h
    obtain ⟨-, -, e⟩ := run_inv nested s 0 LState.init hr (by intro l hl; simp [LState.init] at hl)
    rw [docPass_eq_docSpec]
    constructor
    · rw [docSpec_getLast (e := Lex.new (eofPos (toks0 ++ st.flushIndents)) Kind.Eof.tok) (by simp) (by simp)]
      rfl
    · rw [docSpec_filter (fun k => k == .Eof) (by decide) (by decide)]
      rw [List.filter_append, List.filter_append, filter_eof_of_noEof e, filter_eof_of_noEof (flush_noEof st)]
      simp

theorem eof_single (s : List Char) (toks : List Lex) (h : tokenize s = .ok toks) : EofSingle toks :=
  eof_single_with _ s toks h

/-! Non-vacuity: a concrete indented source is accepted and has an indent and a dedent in its stream
    (`if a⏎    b⏎  c`), so the hypotheses of the theorems above are met by non-trivial inputs. -/
def okWith (r : LexRes (List Lex)) (p : List Lex → Bool) : Bool :=
  match r with | .ok t => p t | _ => false

/-- **spans_exact**: for every text the main loop of the lexer accepts (and every lexer `nested` for
    interpolated expressions), (i) the caret ends at the start caret advanced over the whole text, and
    (ii) every token that carries source text — every token except the synthesised `NL`, `Indent`,
    `Dedent` — is EXACTLY a slice of the text: the text splits as `pre ++ mid ++ post` with the token's
    `Display` text equal to `mid`, its start equal to the start caret advanced over `pre`, and its end equal
    to the start caret advanced over `pre ++ mid` (`CaretPos::advance_over`: a line feed starts a new
    line, every other character one column).  Identifiers, keywords, operators, numbers (also E-notation),
    strings (multi-line, non-ASCII, with interpolations), and comments are all covered; CRLF counts as one
    line break. -/
theorem spans_exact (nested : List Char → LexRes (List Lex)) (s : List Char) (toks : List Lex) (st : LState)
    (h : run nested s 0 LState.init = .ok (toks, st)) :
    st.pos = CaretPos.start.advanceOver s ∧ ∀ l ∈ toks, Lexical l → SpanOf CaretPos.start s l := by
  have := run_spans nested s 0 LState.init (Nat.zero_le _) h (fun l hl => by simp [LState.init] at hl)
  simpa [LState.init, CaretPos.start] using this

/-- the dedents flushed at the end of input carry no text (they are not `Lexical`) -/
theorem flush_not_lexical (st : LState) : ∀ l ∈ st.flushIndents, ¬ Lexical l := by
  intro l hl hlex
  unfold LState.flushIndents at hl
  rw [List.mem_replicate] at hl
  exact hlex.2.2.1 (by rw [hl.2]; rfl)

/-- non-vacuity: a text with a multi-line, non-ASCII, interpolated string and a comment is accepted by the
    main loop (so `spans_exact` applies to it), and a `Str` token is lexical -/
example : okWith (match run (tokenizeDirect 20)
      ['x', ' ', ':', '=', ' ', '"', 'é', '\n', '{', 'y', '}', '"', ' ', '#', ' ', 'c', '\r', '\n', 'z'] 0 LState.init with
    | .ok (toks, _) => .ok toks | .err p => .err p | .panic n => .panic n)
    (fun toks => toks.any (fun l => l.kind == .Str)) = true := by decide
example : Lexical (Lex.new CaretPos.start ⟨.Str, ['"', '"']⟩) := by
  simp [Lexical, Lex.kind, Lex.new, Lex.tok]

theorem okWith_spec {r : LexRes (List Lex)} {p : List Lex → Bool} (h : okWith r p = true) :
    ∃ toks, r = .ok toks ∧ p toks = true := by
  unfold okWith at h; split at h
  · exact ⟨_, rfl, h⟩
  · exact absurd h (by simp)

example : ∃ toks, tokenize ['i', 'f', ' ', 'a', '\n', ' ', ' ', ' ', ' ', 'b', '\n', ' ', ' ', 'c'] = .ok toks
    ∧ ((toks.filter (fun l => l.kind == .Indent)).length == 1
       && (toks.filter (fun l => l.kind == .Dedent)).length == 1) = true :=
  okWith_spec (by decide +kernel)

end MV.C18
