/-
C01 — Accepted programs keep their meaning (range desugaring).

`rangeEnd` is the end argument `convert_range_slice` emits; the adjustment (`+ 1` when inclusive)
and the default step are regenerated from `range_slice.rs` on every run.  Theorem: for every start,
end, inclusiveness and POSITIVE step, Python's `range` over the emitted arguments enumerates exactly
the values the Mamba range means.  For a negative step the inclusive end is wrong (`hi + 1` where
`hi - 1` is needed): `range_negative_step_witness` proves the negation on `3 ..= 1 .. -1`; it is a
recorded known finding of this property.
The conversion of the other constructs is decided by the execution oracle of the check.
-/
import MambaVerif.Model.Range

namespace MV.C01

open MV

/-- **range_enumerates_partial** (positive step) -/
theorem range_enumerates_partial (fuel : Nat) (lo hi : Int) (incl : Bool) (s : Int) (hs : s > 0) :
    pyRange fuel lo (rangeEnd hi incl) s = srcRange fuel lo hi incl s := by
  induction fuel generalizing lo with
  | zero => rfl
  | succ n ih =>
    unfold pyRange srcRange
    simp only [hs, if_true]
    cases incl with
    | true =>
      have : rangeEnd hi true = hi + 1 := by
        unfold rangeEnd; simp [rangeAdjustWhenInclusive, rangeAdjust]
      simp only [this, if_true]
      by_cases h : lo ≤ hi
      · have h' : lo < hi + 1 := by omega
        simp only [h, h', if_true]; rw [← this, ih]
      · have h' : ¬ lo < hi + 1 := by omega
        simp only [h, h', if_false]
    | false =>
      have : rangeEnd hi false = hi := by
        unfold rangeEnd; simp [rangeAdjustWhenInclusive]
      simp only [this, Bool.false_eq_true, if_false]
      by_cases h : lo < hi
      · simp only [h, if_true]; rw [← ih, this]
      · simp only [h, if_false]

/-- the default step (no `.. step` in the source) is 1, for which the theorem applies -/
theorem default_step_positive : rangeDefaultStep > 0 := by decide

/-- the full statement is FALSE for negative steps on the current tree: `3 ..= 1 .. -1` means
    `[3, 2, 1]` but `range(3, 1 + 1, -1)` is `[3]` -/
theorem range_negative_step_witness :
    pyRange 10 3 (rangeEnd 1 true) (-1) = [3] ∧ srcRange 10 3 1 true (-1) = [3, 2, 1] := by
  decide

/-! Non-vacuity: `1 ..= 7 .. 3` enumerates 1, 4, 7. -/
example : pyRange 10 1 (rangeEnd 7 true) 3 = [1, 4, 7] ∧ srcRange 10 1 7 true 3 = [1, 4, 7] := by decide

end MV.C01
