/-
C01 — Accepted programs keep their meaning (range desugaring).

`rangeEnd` is the end argument `convert_range_slice` emits; the adjustment (`+ 1` when inclusive)
and the default step are regenerated from `range_slice.rs` on every run.  Theorem: for every start,
end, inclusiveness and POSITIVE step, Python's `range` over the emitted arguments enumerates exactly
the values the Mamba range means.  For a negative step the inclusive end is wrong (`hi + 1` where
`hi - 1` is needed): `range_negative_step_witness` proves the negation on `3 ..= 1 .. -1`; it is a
recorded known finding of this property.
The conversion of the other constructs is decided by the execution oracle of the check.
-/
import MambaVerif.Model.Range
import MambaVerif.Lemmas.Tail
import MambaVerif.Generated.TailTables

namespace MV.C01

open MV

/-- **range_enumerates_partial** (positive step) -/
theorem range_enumerates_partial (fuel : Nat) (lo hi : Int) (incl : Bool) (s : Int) (hs : s > 0) :
    pyRange fuel lo (rangeEnd hi incl) s = srcRange fuel lo hi incl s := by
  induction fuel generalizing lo with
  | zero => rfl
  | succ n ih =>
    unfold pyRange srcRange
    simp only [hs, if_true]
    cases incl with
    | true =>
      have : rangeEnd hi true = hi + 1 := by
        unfold rangeEnd; simp [rangeAdjustWhenInclusive, rangeAdjust]
      simp only [this, if_true]
      by_cases h : lo ≤ hi
      · have h' : lo < hi + 1 := by omega
        simp only [h, h', if_true]; rw [← this, ih]
      · have h' : ¬ lo < hi + 1 := by omega
        simp only [h, h', if_false]
    | false =>
      have : rangeEnd hi false = hi := by
        unfold rangeEnd; simp [rangeAdjustWhenInclusive]
      simp only [this, Bool.false_eq_true, if_false]
      by_cases h : lo < hi
      · simp only [h, if_true]; rw [← ih, this]
      · simp only [h, if_false]

/-- the default step (no `.. step` in the source) is 1, for which the theorem applies -/
theorem default_step_positive : rangeDefaultStep > 0 := by decide

/-- the full statement is FALSE for negative steps on the current tree: `3 ..= 1 .. -1` means
    `[3, 2, 1]` but `range(3, 1 + 1, -1)` is `[3]` -/
theorem range_negative_step_witness :
    pyRange 10 3 (rangeEnd 1 true) (-1) = [3] ∧ srcRange 10 3 1 true (-1) = [3, 2, 1] := by
  decide

/-! Non-vacuity: `1 ..= 7 .. 3` enumerates 1, 4, 7. -/
example : pyRange 10 1 (rangeEnd 7 true) 3 = [1, 4, 7] ∧ srcRange 10 1 7 true 3 = [1, 4, 7] := by decide

/-! ### where a definition and the implicit return land: every path

`def x := if … / match … / … handle …` and the implicit return of a function body are desugared by
`append_assign` / `append_ret` (generate/convert/mod.rs), modelled in `Model/Tail.lean`.  The list of
`Core` variants the Rust functions descend into and the variants they leave alone are REGENERATED from
the source on every run (`Generated/TailTables.lean`) and must coincide with what the model does. -/

/-- the model descends into, and skips, exactly the variants the Rust functions do (regenerated) -/
theorem tail_tables_match :
    assignDescends = modelDescends ∧ retDescends = modelDescends ∧
      assignSkips = modelAssignSkips ∧ retSkips = modelRetSkips := by decide

/-- … and applies the transformation to exactly the children the Rust arms apply it to (regenerated:
    the fields of each rebuilt variant whose initialiser calls the function) -/
theorem tail_children_match : assignChildren = modelChildren ∧ retChildren = modelChildren := by decide

/-- **definition_binds_on_every_path**: after `append_assign`, no path through the statement tree —
    whatever the nesting of blocks, conditionals, match arms, try/except handlers — ends in a bare
    expression: every path ends in an assignment (to `x` where an expression stood), a `return`, a
    `raise`, or an empty block.  Exactly the tail statements change (`leaves_appendAssign`). -/
theorem definition_binds_on_every_path (x : Nat) (s : TS) :
    ∀ l ∈ leaves (appendAssign x s), (∃ y e, l = .assign y e) ∨ (∃ e, l = .ret e) ∨ (∃ e, l = .raise e) ∨ l = .block [] := by
  intro l hl
  rw [leaves_appendAssign] at hl
  obtain ⟨l0, h0, rfl⟩ := List.mem_map.mp hl
  have hleaf := leaves_are_leaves s l0 h0
  cases l0 with
  | expr e => exact Or.inl ⟨x, e, rfl⟩
  | ret e => exact Or.inr (Or.inl ⟨e, rfl⟩)
  | raise e => exact Or.inr (Or.inr (Or.inl ⟨e, rfl⟩))
  | assign y e => exact Or.inl ⟨y, e, rfl⟩
  | retAssign y e => exact Or.inl ⟨x, y + e, rfl⟩
  | block ss =>
    cases ss with
    | nil => exact Or.inr (Or.inr (Or.inr rfl))
    | cons a as => simp [TS.isLeaf] at hleaf
  | ifElse _ _ _ => simp [TS.isLeaf] at hleaf
  | matchS _ _ => simp [TS.isLeaf] at hleaf
  | case _ _ => simp [TS.isLeaf] at hleaf
  | tryExcept _ _ _ => simp [TS.isLeaf] at hleaf
  | except _ _ => simp [TS.isLeaf] at hleaf

/-- where an expression stood in tail position, it is `x` that is assigned, with that expression -/
theorem definition_assigns_the_tail_expression (x : Nat) (s : TS) :
    leaves (appendAssign x s) = (leaves s).map (wrapA x) := leaves_appendAssign x s

/-- **implicit_return_on_every_path**: after `append_ret` every path ends in a `return` or a `raise` —
    or in the `return <assignment>` that `append_ret` makes of an assignment in tail position, which is
    not Python (see the witness below). -/
theorem implicit_return_on_every_path (s : TS) :
    ∀ l ∈ leaves (appendRet s), (∃ e, l = .ret e) ∨ (∃ e, l = .raise e) ∨ (∃ y e, l = .retAssign y e) := by
  intro l hl
  rw [leaves_appendRet] at hl
  obtain ⟨l0, h0, rfl⟩ := List.mem_map.mp hl
  have hleaf := leaves_are_leaves s l0 h0
  cases l0 with
  | expr e => exact Or.inl ⟨e, rfl⟩
  | ret e => exact Or.inl ⟨e, rfl⟩
  | raise e => exact Or.inr (Or.inl ⟨e, rfl⟩)
  | assign y e => exact Or.inr (Or.inr ⟨y, e, rfl⟩)
  | retAssign y e => exact Or.inr (Or.inr ⟨y, e, rfl⟩)
  | block ss =>
    cases ss with
    | nil => exact Or.inl ⟨0, rfl⟩
    | cons a as => simp [TS.isLeaf] at hleaf
  | ifElse _ _ _ => simp [TS.isLeaf] at hleaf
  | matchS _ _ => simp [TS.isLeaf] at hleaf
  | case _ _ => simp [TS.isLeaf] at hleaf
  | tryExcept _ _ _ => simp [TS.isLeaf] at hleaf
  | except _ _ => simp [TS.isLeaf] at hleaf

/-- WITNESS (known finding C02 `function-ends-with-match-definition`): a body that ends in a
    definition fed by a match gets `return <assignment>` in every arm -/
theorem return_of_definition_witness :
    leaves (appendRet (.block [.matchS 1 [.case 1 (.assign 7 2), .case 0 (.assign 7 3)]])) =
      [.retAssign 7 2, .retAssign 7 3] := by
  simp [appendRet, appendRetLast, appendRetAll, leaves, leavesLast, leavesAll]

/-- non-vacuity: a conditional whose first branch ends in a nested match with a block arm -/
example : leaves (appendAssign 9 (.ifElse 1 (.block [.expr 5, .matchS 2 [.case 1 (.block [.expr 6, .expr 7]), .case 0 (.expr 8)]]) (.expr 3))) =
    [.assign 9 7, .assign 9 8, .assign 9 3] := by
  simp [appendAssign, appendAssignLast, appendAssignAll, leaves, leavesLast, leavesAll]

end MV.C01
