/-
C19 — Diagnostics are well-formed and point into the offending file and line (renderer).

On the model of `format_location` / `format_err` (Model/Diag.lean), for every message, position,
source text and cause list:
* `render_no_panic` — rendering succeeds whenever the position is invisible or its start column is
  ≥ 1 (the only arithmetic that can underflow is `pos.start.pos - 1`); with `lex_positions_ge_one`
  every position built from lexer tokens satisfies this;
* `render_quotes_verbatim` — when the source has a non-empty line with the reported number, the
  rendering contains exactly that line, prefixed by its number;
* `caret_under_column` — the caret run starts under the reported column and is as wide as the span.
The negation for an EMPTY reported line is proved on a witness (`empty_line_witness`: the line is
shown as `<unknown>`), recorded as a known limitation of this property.
That every rejection carries a diagnostic with the right file and a position on the faulty line is
decided by the oracle of the check on single-fault mutants.
-/
import MambaVerif.Model.Diag

namespace MV.C19

open MV

/-- **render_no_panic** (location) -/
theorem location_no_panic (offset : Nat) (msg : Option String) (pos : DPos) (src : Option String)
    (h : pos = DPos.invisible ∨ pos.c1 ≥ 1) : (formatLocation offset msg pos src).isSome = true := by
  unfold formatLocation
  split
  · rfl
  · rcases h with h | h
    · rename_i hn; exact absurd h hn
    · have : ¬ (offset * 4 + pos.c1 = 0) := by omega
      unfold locParts; rw [if_neg this]; rfl

theorem cause_no_panic (pos : Option DPos) (src : Option String) (first : Bool) (c : DCause)
    (h : c.pos = DPos.invisible ∨ c.pos.c1 ≥ 1) : (causeText pos src first c).isSome = true := by
  unfold causeText
  split
  · exact location_no_panic 1 _ c.pos src h
  · rfl

/-- the first cause rendered in full (the others are one-liners) never panics either -/
theorem causes_no_panic (pos : Option DPos) (src : Option String) (causes : List DCause) (first : Bool)
    (h : ∀ c ∈ causes, c.pos = DPos.invisible ∨ c.pos.c1 ≥ 1) : (causesText pos src causes first).isSome = true := by
  induction causes generalizing first with
  | nil => rfl
  | cons c rest ih =>
    unfold causesText
    have h1 := cause_no_panic pos src first c (h c (by simp))
    have h2 := ih false (fun c' hc' => h c' (by simp [hc']))
    cases ha : causeText pos src first c with
    | none => rw [ha] at h1; simp at h1
    | some a =>
      cases hb : causesText pos src rest false with
      | none => rw [hb] at h2; simp at h2
      | some b => rfl

/-- **render_no_panic**: rendering a diagnostic never fails when every position it carries is
    invisible or has a start column ≥ 1 -/
theorem render_no_panic (msg : String) (path : Option String) (pos : Option DPos) (src : Option String)
    (causes : List DCause) (hp : ∀ p, pos = some p → p = DPos.invisible ∨ p.c1 ≥ 1)
    (hc : ∀ c ∈ causes, c.pos = DPos.invisible ∨ c.pos.c1 ≥ 1) :
    (formatErr msg path pos src causes).isSome = true := by
  unfold formatErr
  simp only []
  have hg := causes_no_panic pos src causes true hc
  cases hgo : causesText pos src causes true with
  | none => rw [hgo] at hg; simp at hg
  | some b =>
    cases pos with
    | none => rfl
    | some p =>
      have := location_no_panic 0 none p src (hp p rfl)
      cases hl : formatLocation 0 none p src with
      | none => rw [hl] at this; simp at this
      | some loc => simp [hl]

/-- **render_quotes_verbatim**: a non-empty reported line is quoted exactly, with its number -/
theorem render_quotes_verbatim (offset : Nat) (msg : Option String) (pos : DPos) (src line : String)
    (hc : pos.c1 ≥ 1) (hl : pos.l1 ≥ 1)
    (hline : (linesOf src)[pos.l1 - 1]? = some line) (hne : line.isEmpty = false) :
    (locParts offset msg pos (some src)).map LocParts.line =
      some (spaces (4 * offset) ++ pad4 pos.l1 ++ " | " ++ line ++ "\n") := by
  have h0 : ¬ (offset * 4 + pos.c1 = 0) := by omega
  unfold locParts; rw [if_neg h0]
  simp [hl, quoted, hline, hne]

/-- **caret_under_column**: after the 7 columns of the line-number gutter the caret run starts
    `start.pos - 1` columns in (plus the indentation of a cause) and is `get_width` wide -/
theorem caret_under_column (offset : Nat) (msg : Option String) (pos : DPos) (src : Option String)
    (hc : pos.c1 ≥ 1) :
    (locParts offset msg pos src).map LocParts.caret =
      some ("       " ++ spaces (offset * 4 + pos.c1 - 1) ++ String.ofList (List.replicate pos.width '^') ++ "\n") := by
  have h0 : ¬ (offset * 4 + pos.c1 = 0) := by omega
  unfold locParts; rw [if_neg h0]; rfl

/-- the rendered location is the concatenation of its pieces -/
theorem location_text (offset : Nat) (msg : Option String) (pos : DPos) (src : Option String)
    (hv : pos ≠ DPos.invisible) :
    formatLocation offset msg pos src = (locParts offset msg pos src).map LocParts.text := by
  simp [formatLocation, hv]

theorem width_pos (p : DPos) : p.width ≥ 1 := by unfold DPos.width; omega

/-- an EMPTY reported line is not quoted: it is shown as `<unknown>` (the guard `line.isEmpty = false`
    of `render_quotes_verbatim` is necessary; known limitation of this property) -/
theorem empty_line_unknown (offset : Nat) (msg : Option String) (pos : DPos) (src : String)
    (hc : pos.c1 ≥ 1) (hl : pos.l1 ≥ 1) (hline : (linesOf src)[pos.l1 - 1]? = some "") :
    (locParts offset msg pos (some src)).map LocParts.line = some "<unknown>\n" := by
  have h0 : ¬ (offset * 4 + pos.c1 = 0) := by omega
  unfold locParts; rw [if_neg h0]
  simp [hl, quoted, hline]

/-- the position that makes rendering fail exists: a visible position whose start column is 0 -/
theorem column_zero_witness : formatLocation 0 none ⟨1, 0, 1, 3⟩ none = none := by
  simp [formatLocation, locParts, DPos.invisible]

end MV.C19
