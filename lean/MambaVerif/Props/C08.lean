/-
C08 — Explicit error handling: raises must be declared or handled.

On the model of the generate stage's `raises_caught` discipline (Model/Scope.lean: the arms of a
`handle` cover the handled expression only; a function body is checked under its declared classes;
top-level code is unchecked) and the dynamic semantics of the emitted `try/except` (first matching
`except` clause by class ancestry):
* `accepted_body_raises_declared` — whatever path execution takes, an exception that escapes an
  accepted function body is a subclass of a class the function declares; in particular an accepted
  body with an empty declaration lets nothing escape;
* `uncovered_rejected` — a `raise E` / a call of a function declaring `E` with no ancestor of `E`
  caught or declared is an error;
* `arms_not_covered_by_own_handle` — the arms of a handle are checked under the caught set from
  before the handle (the defect repaired for this property).
Method calls are outside the model: the checker does not look at the raises of a method's callee
(recorded known finding).
-/
import MambaVerif.Lemmas.ScopeSound

namespace MV.C08

open MV.SL

/-- **accepted_body_raises_declared** -/
theorem accepted_body_raises_declared (par : Parents) (h : Nat) (rs : Raises) (htrans : FuelSuffices par h)
    (params : List (Name × Bool)) (declared : List Cls) (body : Stmt) (σ : List Name) (c : Cls)
    (hacc : (checkS par h rs ⟨params, declared, true⟩ body).1 = [])
    (hbound : Sub ⟨params, declared, true⟩ σ) (hex : Exec par h rs σ body (.raised c)) :
    ∃ d ∈ declared, isAncestor par h d c = true := by
  have := soundS par h rs htrans hex _ hbound hacc
  simp only [GoodS, Covered] at this
  exact this trivial

/-- nothing escapes an accepted body that declares nothing -/
theorem accepted_body_without_raises (par : Parents) (h : Nat) (rs : Raises) (htrans : FuelSuffices par h)
    (params : List (Name × Bool)) (body : Stmt) (σ : List Name) (c : Cls)
    (hacc : (checkS par h rs ⟨params, [], true⟩ body).1 = []) (hbound : Sub ⟨params, [], true⟩ σ) :
    ¬ Exec par h rs σ body (.raised c) := by
  intro hex
  obtain ⟨d, hd, _⟩ := accepted_body_raises_declared par h rs htrans params [] body σ c hacc hbound hex
  simp at hd

/-- **uncovered_rejected** (raise statement) -/
theorem uncovered_raise_rejected (par : Parents) (h : Nat) (rs : Raises) (Γ : SEnv) (c : Cls)
    (hin : Γ.inFun = true) (hno : ∀ d ∈ Γ.caught, isAncestor par h d c = false) :
    (checkS par h rs Γ (.raiseS c)).1 = [.raise c] := by
  simp only [checkS, uncaught, hin, if_true]
  have : (Γ.caught.any fun d => isAncestor par h d c) = false := by
    rw [List.any_eq_false]; intro d hd; simp [hno d hd]
  simp [this]

/-- **uncovered_rejected** (call of a function that declares a class) -/
theorem uncovered_call_rejected (par : Parents) (h : Nat) (rs : Raises) (Γ : SEnv) (f : Name) (arg : Expr) (c : Cls)
    (hin : Γ.inFun = true) (hc : c ∈ rs f) (hno : ∀ d ∈ Γ.caught, isAncestor par h d c = false) :
    .raise c ∈ checkE par h rs Γ (.call f arg) := by
  simp only [checkE, uncaught, hin, if_true, List.mem_append, List.mem_map, List.mem_filter]
  right
  refine ⟨c, ⟨hc, ?_⟩, rfl⟩
  have : (Γ.caught.any fun d => isAncestor par h d c) = false := by
    rw [List.any_eq_false]; intro d hd; simp [hno d hd]
  simp [this]

/-- top-level code is not checked for raises -/
theorem top_level_unchecked (par : Parents) (h : Nat) (rs : Raises) (Γ : SEnv) (cs : List Cls) (hout : Γ.inFun = false) :
    uncaught par h Γ cs = [] := by
  simp [uncaught, hout]

/-- **arms_not_covered_by_own_handle** (`raises_scoped`): the handled expression is checked under the
    arms' classes, the arms themselves under the caught set from before the handle -/
theorem arms_not_covered_by_own_handle (par : Parents) (h : Nat) (rs : Raises) (Γ : SEnv) (e : Expr) (arms : Arms) :
    checkE par h rs Γ (.handle e arms) =
      checkE par h rs { Γ with caught := armClasses arms ++ Γ.caught } e ++ checkArms par h rs Γ arms := by
  simp [checkE]

/-! Non-vacuity: with `E2 <: E1`, a body `raise E2` is accepted when `E1` is declared and rejected
    when nothing is; a raise inside the arm of a handle for the same class is rejected. -/
def par2 : Parents := fun c => if c = 2 then some 1 else none
example : (checkS par2 2 (fun _ => []) ⟨[], [1], true⟩ (.raiseS 2)).1 = [] := by decide
example : (checkS par2 2 (fun _ => []) ⟨[], [], true⟩ (.raiseS 2)).1 = [.raise 2] := by decide
example : checkE par2 2 (fun f => if f = 7 then [2] else []) ⟨[], [], true⟩
    (.handle (.call 7 .lit) (.cons 1 9 (.raiseS 2) .nil)) = [.raise 2] := by decide
example : FuelSuffices par2 2 := by
  intro a b c h1 h2
  simp only [isAncestor, par2] at *
  revert h1 h2
  by_cases hc : c = 2 <;> by_cases hb : b = 2 <;> simp [hc, hb] <;> intros <;> simp_all <;> omega

end MV.C08
