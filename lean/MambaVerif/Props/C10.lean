/-
C10 — Printed expressions keep their structure.

`pr` is the model of the Rust printer `to_py` (tokens; `renderToks` gives the text, compared with
`format!("{core}")` on every run); its operator spellings, `prec`, `sides` and ternary minima are
REGENERATED from `/repo/src/generate/ast/mod.rs`.  `parse` is the Python 3 expression grammar
(spec side, validated against CPython's `ast.parse` on every run).  The theorem: for every
expression of the operator fragment (names, literals, all 23 binary and 4 unary operators, any
nesting, any depth) the Python grammar parses the printed tokens back to exactly the tree the
expression denotes — each operator keeps the operands it had.

The table facts the proof consumes (`prec_eq_level`, `sides_left`, `sides_cmp`, `sides_pow`,
`un_prec_*` in Lemmas/PyRound.lean) are re-checked against the regenerated table at every build:
a change of the Rust precedence table that loses grouping makes them fail.
-/
import MambaVerif.Lemmas.PyMain
import MambaVerif.Lemmas.PyFull

namespace MV.C10

open MV

/-- **print_parse_roundtrip** (operator fragment): for all sufficient fuel, parsing the printed
    tokens as a Python `expression` consumes them all and yields `⌜e⌝`. -/
theorem print_parse_roundtrip (e : CE) (he : frag e = true) :
    Ev (fun fuel => parse fuel 1 (pr e)) (embed e, []) := by
  have h := S_all e he 1 [] (embed e, []) (by have := frag_prec_bounds e he; omega)
    ⟨fun t ht => by simp at ht, ⟨fun _ t ht => by simp at ht, fun _ t ht => by simp at ht⟩⟩
    (Ev_exit (fun t ht => by simp at ht))
  simpa using h

/-- the parse is a function of the tokens: no other tree can be obtained, whatever the fuel -/
theorem roundtrip_unique (e : CE) (he : frag e = true) (x : PyAst × List PTok)
    (hx : Ev (fun fuel => parse fuel 1 (pr e)) x) : x = (embed e, []) :=
  Ev.unique hx (print_parse_roundtrip e he)

/-- printed as an operand of any required strength, the expression still parses back as a unit
    (explicit parentheses and the grouping chosen by the Mamba parser are never lost) -/
theorem operand_roundtrip (e : CE) (he : frag e = true) (min : Nat) :
    Ev (fun fuel => parse fuel 1 (operand e min)) (embed e, []) := by
  by_cases hm : min = 0
  · subst hm
    have : operand e 0 = pr e := by unfold operand; simp
    rw [this]; exact print_parse_roundtrip e he
  · have h := operand_S e (S_all e he) he min 1 (by omega) (by omega) [] (embed e, [])
      (fun t ht => by simp at ht)
      (fun _ => ⟨fun _ t ht => by simp at ht, fun _ t ht => by simp at ht⟩)
      (Ev_exit (fun t ht => by simp at ht))
    simpa using h

/-- **print_parse_roundtrip_full**: the same for the whole expression language of the printer —
    conditional expressions, lambdas, calls, attribute access and method calls, subscripts, `isinstance`,
    `math.sqrt`, E-notation, tuple/list/set displays, nested in any way with the operators.  `full`
    excludes exactly: tuples with fewer than two elements and the empty set display (for which the
    statement is FALSE: `(x)` is `x` and `{}` is a dictionary in Python — see the witnesses below),
    properties that are neither a name nor a call of a name, and lambda parameters that are not names. -/
theorem print_parse_roundtrip_full (e : CE) (he : full e = true) :
    Ev (fun fuel => parse fuel 1 (pr e)) (embed e, []) := by
  have h := S_all2 e he 1 [] (embed e, []) (Nat.le_refl _) (full_prec_bounds e).1
    ⟨stop_nil _, nonAssoc2_of_stop2 e [] (stop_nil _)⟩ (Ev_exit (fun t ht => by simp at ht))
  simpa using h

theorem roundtrip_unique_full (e : CE) (he : full e = true) (x : PyAst × List PTok)
    (hx : Ev (fun fuel => parse fuel 1 (pr e)) x) : x = (embed e, []) :=
  Ev.unique hx (print_parse_roundtrip_full e he)

/-- **builder_conditions_roundtrip**: the `if` clause the printer builds for a list, set or dictionary
    builder — `operand(c, PREC_NOT)` for every condition, joined with `and` (the minimum is REGENERATED
    from the Rust source as `precCompCond`) — parses, at the grammar level Python prescribes for a
    comprehension condition (`disjunction`), to the conjunction of the conditions, each condition intact
    as one operand, whatever the conditions are (`or`, conditional expressions, lambdas, …).  `rest` is
    whatever follows the clause (a closing bracket, a further `for`): it must not continue an
    expression at the `or` level or above. -/
theorem builder_conditions_roundtrip (c : CE) (cs : List CE) (hc : full c = true) (hcs : fullAll cs = true)
    (rest : List PTok) (hstop : Stop 3 rest) :
    Ev (fun fuel => parse fuel 3 (condChain (c :: cs) ++ rest)) (andFold (embed c) cs, rest) :=
  condChain_S c cs ⟨S_all2 c hc, S_list cs hcs⟩ rest hstop

/-- non-vacuity: `[... if (a or b) and (x if c else y) and not z]` meets the hypotheses, and the closing
    bracket stops every level -/
example : full (.bin .Or (.atom "a") (.atom "b")) = true ∧
    fullAll [.ternary (.atom "c") (.atom "x") (.atom "y"), .un .Not (.atom "z")] = true ∧ Stop 3 [PTok.rbr] :=
  ⟨by decide, by decide, stop_of_none .rbr [] 3 rfl⟩

/-- the operator fragment is part of the full language -/
theorem frag_full : (e : CE) → frag e = true → full e = true
  | .atom _, _ => rfl
  | .int _, _ => rfl
  | .bin _ l r, h => by
    have h' : frag l = true ∧ frag r = true := by simpa [frag] using h
    simp [full, frag_full l h'.1, frag_full r h'.2]
  | .un _ x, h => by
    have h' : frag x = true := by simpa [frag] using h
    simp [full, frag_full x h']
  | .enum _ _, h | .ternary _ _ _, h | .lambda _ _, h | .call _ _, h | .attr _ _, h | .index _ _, h
  | .isA _ _, h | .sqrt _, h | .tuple _, h | .list _, h | .set _, h => by simp [frag] at h

/-- WITNESS that the exclusion of one-element tuples is necessary: the printed form of the tuple `(x,)`
    is `(x)`, which the grammar parses as the bare name. -/
theorem one_tuple_witness :
    Ev (fun fuel => parse fuel 1 (pr (.tuple [.atom "x"]))) (.name "x", []) ∧
      embed (.tuple [.atom "x"]) ≠ .name "x" := by
  constructor
  · have h := operand_roundtrip (.atom "x") rfl 16
    have e : operand (.atom "x") 16 = pr (.tuple [.atom "x"]) := by
      simp [operand_unfold, CE.prec, precAtom_eq, pr_tuple, pr_atom, parens, commaSep, prAll]
    rw [e] at h
    simpa [embed] using h
  · simp [embed, embedAll]

/-! Non-vacuity of the full statement: `f(a if c else b, lambda x: x + 1)[i].m(y) ** 2`, `(a, b if c else d)`. -/
example : full (.bin .Pow (.attr (.index (.call (.atom "f") [.ternary (.atom "c") (.atom "a") (.atom "b"),
    .lambda [.atom "x"] (.bin .Add (.atom "x") (.int "1"))]) (.atom "i")) (.call (.atom "m") [.atom "y"])) (.int "2")) = true := by
  decide
example : full (.tuple [.atom "a", .ternary (.atom "c") (.atom "b") (.atom "d")]) = true := by decide

/-! Non-vacuity: `a - (b - c)`, `-(a * b) ** c`, `not (a == b) and c` are in the fragment. -/
example : frag (.bin .Sub (.atom "a") (.bin .Sub (.atom "b") (.atom "c"))) = true := by decide
example : frag (.bin .Pow (.un .SubU (.bin .Mul (.atom "a") (.atom "b"))) (.atom "c")) = true := by decide
example : frag (.bin .And (.un .Not (.bin .Eq (.atom "a") (.atom "b"))) (.atom "c")) = true := by decide

end MV.C10
