/-
C10 — Printed expressions keep their structure.

`pr` is the model of the Rust printer `to_py` (tokens; `renderToks` gives the text, compared with
`format!("{core}")` on every run); its operator spellings, `prec`, `sides` and ternary minima are
REGENERATED from `/repo/src/generate/ast/mod.rs`.  `parse` is the Python 3 expression grammar
(spec side, validated against CPython's `ast.parse` on every run).  The theorem: for every
expression of the operator fragment (names, literals, all 23 binary and 4 unary operators, any
nesting, any depth) the Python grammar parses the printed tokens back to exactly the tree the
expression denotes — each operator keeps the operands it had.

The table facts the proof consumes (`prec_eq_level`, `sides_left`, `sides_cmp`, `sides_pow`,
`un_prec_*` in Lemmas/PyRound.lean) are re-checked against the regenerated table at every build:
a change of the Rust precedence table that loses grouping makes them fail.
-/
import MambaVerif.Lemmas.PyMain

namespace MV.C10

open MV

/-- **print_parse_roundtrip** (operator fragment): for all sufficient fuel, parsing the printed
    tokens as a Python `expression` consumes them all and yields `⌜e⌝`. -/
theorem print_parse_roundtrip (e : CE) (he : frag e = true) :
    Ev (fun fuel => parse fuel 1 (pr e)) (embed e, []) := by
  have h := S_all e he 1 [] (embed e, []) (by have := frag_prec_bounds e he; omega)
    ⟨fun t ht => by simp at ht, ⟨fun _ t ht => by simp at ht, fun _ t ht => by simp at ht⟩⟩
    (Ev_exit (fun t ht => by simp at ht))
  simpa using h

/-- the parse is a function of the tokens: no other tree can be obtained, whatever the fuel -/
theorem roundtrip_unique (e : CE) (he : frag e = true) (x : PyAst × List PTok)
    (hx : Ev (fun fuel => parse fuel 1 (pr e)) x) : x = (embed e, []) :=
  Ev.unique hx (print_parse_roundtrip e he)

/-- printed as an operand of any required strength, the expression still parses back as a unit
    (explicit parentheses and the grouping chosen by the Mamba parser are never lost) -/
theorem operand_roundtrip (e : CE) (he : frag e = true) (min : Nat) :
    Ev (fun fuel => parse fuel 1 (operand e min)) (embed e, []) := by
  by_cases hm : min = 0
  · subst hm
    have : operand e 0 = pr e := by unfold operand; simp
    rw [this]; exact print_parse_roundtrip e he
  · have h := operand_S e (S_all e he) he min 1 (by omega) (by omega) [] (embed e, [])
      (fun t ht => by simp at ht)
      (fun _ => ⟨fun _ t ht => by simp at ht, fun _ t ht => by simp at ht⟩)
      (Ev_exit (fun t ht => by simp at ht))
    simpa using h

/-! Non-vacuity: `a - (b - c)`, `-(a * b) ** c`, `not (a == b) and c` are in the fragment. -/
example : frag (.bin .Sub (.atom "a") (.bin .Sub (.atom "b") (.atom "c"))) = true := by decide
example : frag (.bin .Pow (.un .SubU (.bin .Mul (.atom "a") (.atom "b"))) (.atom "c")) = true := by decide
example : frag (.bin .And (.un .Not (.bin .Eq (.atom "a") (.atom "b"))) (.atom "c")) = true := by decide

end MV.C10
