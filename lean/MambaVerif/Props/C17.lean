/-
C17 — The output's Python API mirrors the Mamba definitions (operator definitions).

`opMethodTable` is REGENERATED from the four places that together decide under which name an
operator definition (`def +(self, other) …`) is emitted: the parser's operator arms, `NodeOp`'s
`Display`, the string constants of `check/context/function/python.rs` and `CoreFunOp`
(`generate/ast/node.rs`).  `pythonDataModel` is the specification: the special method the Python
data model gives each operator.  Theorems: the emitted name is the data model's for every operator
that can be defined, distinct operators never share a method, and every emitted name is a dunder
name (except `sqrt`, which Python has no operator for).
Names, parameter order, defaults, variadic markers, constructors and inheritance lists of the
other definitions are decided by the signature oracle of the check (python `ast` of every emitted
module against the definitions of the generated program).
-/
import MambaVerif.Generated.OpTables

namespace MV.C17

open MV

/-- Python data model (Language Reference §3.3.8 "Emulating numeric types", §3.3.1 rich comparison) -/
def pythonDataModel : List (String × String) := [
  ("+", "__add__"), ("-", "__sub__"), ("*", "__mul__"), ("/", "__truediv__"), ("//", "__floordiv__"),
  ("mod", "__mod__"), ("^", "__pow__"), ("=", "__eq__"), (">", "__gt__"), ("<", "__lt__"),
  (">=", "__ge__"), ("<=", "__le__"), ("!=", "__ne__"), ("sqrt", "sqrt")]

/-- **operators_as_dunder**: every definable operator is emitted under the data model's method -/
theorem operators_as_dunder : ∀ p ∈ opMethodTable, p ∈ pythonDataModel := by decide

/-- distinct operators are emitted as distinct methods (none shadows another) -/
theorem methods_distinct : (opMethodTable.map Prod.snd).Nodup := by decide

/-- each operator has exactly one row -/
theorem operators_distinct : (opMethodTable.map Prod.fst).Nodup := by decide

/-- the arithmetic and comparison operators of the language that classes can define are all there -/
theorem definable_operators : ∀ o ∈ ["+", "-", "*", "/", "//", "mod", "^", "=", ">", "<"],
    o ∈ opMethodTable.map Prod.fst := by decide

end MV.C17
