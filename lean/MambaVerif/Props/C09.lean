/-
C09 — Definite assignment: no read of a possibly undefined variable.

`checkS`/`checkE` (Model/Scope.lean) is the model of the generate stage's name discipline: persistent
environments, so a definition is visible to the later statements of its own block only (branches,
loop bodies and handler arms hand the incoming environment back).  `Exec`/`Eval` is the dynamic
semantics of the emitted Python for the same constructs, where a name stays bound once assigned
(function-level scope) and every choice of branch and number of loop iterations is possible.
Theorem `no_undefined_read`: a block accepted in an environment whose names are bound never reaches
a read of an unbound name (no NameError / UnboundLocalError), whatever path execution takes.
The model is tied to the code by a verdict-class correspondence on generated programs and
single-fault mutants (undefined, later-defined, branch-local, loop-local, arm-local uses).
Not in the model (recorded in DESIGN.md): use of top-level functions/classes before their
definition, class-level fields read as bare names in methods, reassignment of a global inside a function.
-/
import MambaVerif.Lemmas.ScopeSound
import MambaVerif.Lemmas.CtorAssign
import MambaVerif.Lemmas.CtorComplete

namespace MV.C09

open MV.SL

/-- **no_undefined_read** -/
theorem no_undefined_read (par : Parents) (h : Nat) (rs : Raises) (htrans : FuelSuffices par h)
    (Γ : SEnv) (σ : List Name) (s : Stmt) (o : Out)
    (hacc : (checkS par h rs Γ s).1 = []) (hbound : Sub Γ σ) (hex : Exec par h rs σ s o) :
    ∀ x, o ≠ .unbound x := by
  intro x hx
  have := soundS par h rs htrans hex Γ hbound hacc
  rw [hx] at this
  exact this

/-- a whole program's top-level code, started with nothing bound -/
theorem program_no_undefined_read (par : Parents) (h : Nat) (rs : Raises) (htrans : FuelSuffices par h)
    (s : Stmt) (o : Out) (hacc : (checkS par h rs ⟨[], [], false⟩ s).1 = []) (hex : Exec par h rs [] s o) :
    ∀ x, o ≠ .unbound x :=
  no_undefined_read par h rs htrans ⟨[], [], false⟩ [] s o hacc (fun x hx => by simp [SEnv.lookup] at hx) hex

/-- **undefined_read_rejected**: reading a name with no visible definition is an error -/
theorem undefined_read_rejected (par : Parents) (h : Nat) (rs : Raises) (Γ : SEnv) (x : Name)
    (hx : Γ.lookup x = none) : checkE par h rs Γ (.var x) = [.undefined x] := by
  simp [checkE, hx]

/-- **branch_defs_do_not_escape**: after `if`, `while`, `for` the next statement sees exactly the
    environment from before, so a name defined in one (or in both) branches is not visible afterwards -/
theorem branch_defs_do_not_escape (par : Parents) (h : Nat) (rs : Raises) (Γ : SEnv) (c : Expr) (t e : Stmt) (x : Name) :
    (checkS par h rs Γ (.ifS c t e)).2 = Γ ∧ (checkS par h rs Γ (.whileS c t)).2 = Γ ∧
    (checkS par h rs Γ (.forS x c t)).2 = Γ := by
  simp [checkS]

/-- **shadow_latest**: a re-definition gives later uses the new definition (its flag), whatever was there -/
theorem shadow_latest (par : Parents) (h : Nat) (rs : Raises) (Γ : SEnv) (x : Name) (fin : Bool) (e : Expr) :
    (checkS par h rs Γ (.defv x fin e)).2.lookup x = some (!fin) := by
  simp [checkS, lookup_cons]

/-! Non-vacuity: `if c then def a := 1` followed by a read of `a` is rejected; with the definition
    before the `if` it is accepted (class table and raises empty). -/
example : (checkS (fun _ => none) 0 (fun _ => []) ⟨[], [], false⟩
    (.seq (.ifS .lit (.defv 1 false .lit) .skip) (.expr (.var 1)))).1 = [.undefined 1] := by decide
example : (checkS (fun _ => none) 0 (fun _ => []) ⟨[], [], false⟩
    (.seq (.defv 1 false .lit) (.seq (.ifS .lit (.assign 1 .lit) .skip) (.expr (.var 1))))).1 = [] := by decide

/-! ### attributes in constructors

`uaS` / `uaB` / `uaA` (Model/CtorAssign.lean) is the model of the unassigned-attribute analysis of the
constructor (`Environment::unassigned`: assignment, if with and without else, loops, match with and
without an arm that matches anything, handle, bare return).  `runB body choices` runs the body along
the path selected by `choices` (which branch, how many iterations, which arm, whether the handled
expression raises). -/

open MV in
/-- **constructor_assigns_every_attribute**: a constructor body the analysis accepts has assigned to
    every attribute declared without a value when it ends — on EVERY path, by falling through or by
    `return` -/
theorem constructor_assigns_every_attribute (fields : List Nat) (body : List CS)
    (h : ctorAccepts fields body = true) (choices : List Nat) :
    ∀ f ∈ fields, f ∈ (runB body choices []).2.1 := by
  unfold ctorAccepts at h
  cases hu : uaB body fields with
  | none => simp [hu] at h
  | some u =>
    simp only [hu] at h
    have hemp : u = [] := by simpa using h
    subst hemp
    have hp := ctorSoundB fields body fields [] choices [] hu (fun f hf => Or.inr hf)
    intro f hf
    cases hr : (runB body choices []).1 with
    | true => exact hp.2 hr f hf
    | false =>
      rcases hp.1 hr f hf with ha | hn
      · exact ha
      · exact absurd hn (by simp)

open MV in
/-- non-vacuity: bodies with branches, loops, a match with a catch-all arm and a guarded return are accepted -/
example : ctorAccepts [0, 1] [.assign 1, .ite [.assign 0] [.skip, .assign 0], .loop [.skip], .ifOnly [.ret]] = true
    ∧ ctorAccepts [0] [.matchS [[.assign 0], [.assign 0, .skip]] true, .handle [[.skip]]] = true := by
  decide

open MV in
/-- each rule of the analysis is needed: the rejected bodies below have a path that leaves attribute 0
    unassigned (an empty loop, the missing else, no arm matching, nothing raised, the early return) -/
example : ctorAccepts [0] [.loop [.assign 0]] = false ∧ (runB [.loop [.assign 0]] [0] []).2.1 = []
    ∧ ctorAccepts [0] [.ifOnly [.assign 0]] = false ∧ (runB [.ifOnly [.assign 0]] [0] []).2.1 = []
    ∧ ctorAccepts [0] [.matchS [[.assign 0]] false] = false ∧ (runB [.matchS [[.assign 0]] false] [0] []).2.1 = []
    ∧ ctorAccepts [0] [.handle [[.assign 0]]] = false ∧ (runB [.handle [[.assign 0]]] [0] []).2.1 = []
    ∧ ctorAccepts [0] [.ifOnly [.ret], .assign 0] = false ∧ (runB [.ifOnly [.ret], .assign 0] [1] []).2.1 = [] := by
  decide

open MV in
/-- **constructor_rejection_is_justified**: a constructor body is rejected only if some path through it
    really ends — by falling through or by `return` — with an attribute unassigned (the analysis does
    not over-reject) -/
theorem constructor_rejection_is_justified (fields : List Nat) (body : List CS)
    (h : ctorAccepts fields body = false) :
    ∃ choices, ∃ f ∈ fields, f ∉ (runB body choices []).2.1 := by
  unfold ctorAccepts at h
  cases hu : uaB body fields with
  | none =>
    obtain ⟨x, hx, p, hp⟩ := failB body fields hu
    refine ⟨p, x, hx, ?_⟩
    have := (hp [] [] (by simp)).2
    simpa using this
  | some u' =>
    simp only [hu] at h
    cases u' with
    | nil => simp at h
    | cons x rest =>
      have hx : x ∈ x :: rest := by simp
      obtain ⟨p, hp⟩ := pathB body fields (x :: rest) x hu hx
      refine ⟨p, x, uaB_sub body fields (x :: rest) hu x hx, ?_⟩
      have := (hp [] []).2.2 (by simp)
      simpa using this

open MV in
/-- **constructor_analysis_exact**: acceptance is exactly "every path assigns to every attribute" -/
theorem constructor_analysis_exact (fields : List Nat) (body : List CS) :
    ctorAccepts fields body = true ↔ ∀ choices, ∀ f ∈ fields, f ∈ (runB body choices []).2.1 := by
  constructor
  · intro h choices; exact constructor_assigns_every_attribute fields body h choices
  · intro hall
    cases hacc : ctorAccepts fields body with
    | true => rfl
    | false =>
      obtain ⟨choices, f, hf, hnot⟩ := constructor_rejection_is_justified fields body hacc
      exact absurd (hall choices f hf) hnot

end MV.C09
