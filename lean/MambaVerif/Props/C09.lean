/-
C09 — Definite assignment: no read of a possibly undefined variable.

`checkS`/`checkE` (Model/Scope.lean) is the model of the generate stage's name discipline: persistent
environments, so a definition is visible to the later statements of its own block only (branches,
loop bodies and handler arms hand the incoming environment back).  `Exec`/`Eval` is the dynamic
semantics of the emitted Python for the same constructs, where a name stays bound once assigned
(function-level scope) and every choice of branch and number of loop iterations is possible.
Theorem `no_undefined_read`: a block accepted in an environment whose names are bound never reaches
a read of an unbound name (no NameError / UnboundLocalError), whatever path execution takes.
The model is tied to the code by a verdict-class correspondence on generated programs and
single-fault mutants (undefined, later-defined, branch-local, loop-local, arm-local uses).
Not in the model (recorded in DESIGN.md): use of top-level functions/classes before their
definition, class-level fields read as bare names in methods, reassignment of a global inside a function.
-/
import MambaVerif.Lemmas.ScopeSound

namespace MV.C09

open MV.SL

/-- **no_undefined_read** -/
theorem no_undefined_read (par : Parents) (h : Nat) (rs : Raises) (htrans : FuelSuffices par h)
    (Γ : SEnv) (σ : List Name) (s : Stmt) (o : Out)
    (hacc : (checkS par h rs Γ s).1 = []) (hbound : Sub Γ σ) (hex : Exec par h rs σ s o) :
    ∀ x, o ≠ .unbound x := by
  intro x hx
  have := soundS par h rs htrans hex Γ hbound hacc
  rw [hx] at this
  exact this

/-- a whole program's top-level code, started with nothing bound -/
theorem program_no_undefined_read (par : Parents) (h : Nat) (rs : Raises) (htrans : FuelSuffices par h)
    (s : Stmt) (o : Out) (hacc : (checkS par h rs ⟨[], [], false⟩ s).1 = []) (hex : Exec par h rs [] s o) :
    ∀ x, o ≠ .unbound x :=
  no_undefined_read par h rs htrans ⟨[], [], false⟩ [] s o hacc (fun x hx => by simp [SEnv.lookup] at hx) hex

/-- **undefined_read_rejected**: reading a name with no visible definition is an error -/
theorem undefined_read_rejected (par : Parents) (h : Nat) (rs : Raises) (Γ : SEnv) (x : Name)
    (hx : Γ.lookup x = none) : checkE par h rs Γ (.var x) = [.undefined x] := by
  simp [checkE, hx]

/-- **branch_defs_do_not_escape**: after `if`, `while`, `for` the next statement sees exactly the
    environment from before, so a name defined in one (or in both) branches is not visible afterwards -/
theorem branch_defs_do_not_escape (par : Parents) (h : Nat) (rs : Raises) (Γ : SEnv) (c : Expr) (t e : Stmt) (x : Name) :
    (checkS par h rs Γ (.ifS c t e)).2 = Γ ∧ (checkS par h rs Γ (.whileS c t)).2 = Γ ∧
    (checkS par h rs Γ (.forS x c t)).2 = Γ := by
  simp [checkS]

/-- **shadow_latest**: a re-definition gives later uses the new definition (its flag), whatever was there -/
theorem shadow_latest (par : Parents) (h : Nat) (rs : Raises) (Γ : SEnv) (x : Name) (fin : Bool) (e : Expr) :
    (checkS par h rs Γ (.defv x fin e)).2.lookup x = some (!fin) := by
  simp [checkS, lookup_cons]

/-! Non-vacuity: `if c then def a := 1` followed by a read of `a` is rejected; with the definition
    before the `if` it is accepted (class table and raises empty). -/
example : (checkS (fun _ => none) 0 (fun _ => []) ⟨[], [], false⟩
    (.seq (.ifS .lit (.defv 1 false .lit) .skip) (.expr (.var 1)))).1 = [.undefined 1] := by decide
example : (checkS (fun _ => none) 0 (fun _ => []) ⟨[], [], false⟩
    (.seq (.defv 1 false .lit) (.seq (.ifS .lit (.assign 1 .lit) .skip) (.expr (.var 1))))).1 = [] := by decide

end MV.C09
