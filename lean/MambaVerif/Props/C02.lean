/-
C02 — Every emitted file is syntactically valid Python 3 (separator discipline of the printer).

CPython's acceptance of the emitted text is decided by the check's oracle (`compile()` of every
emitted module); no Lean model replaces the Python compiler.  What is proved here is the mechanism
`generate/ast/mod.rs::comma_delimited` uses for every argument list, parameter list, collection
literal and import list: it appends `", "` after EVERY item, then removes the byte at `len - 2` and
trims the end.  Theorem: for every list of non-empty items that do not end in white space, the
result is exactly the items separated by `", "` — no trailing comma, no lost character.  The empty
item (`Core::Empty`) is the witness that the guard is needed.
-/
import MambaVerif.Model.CoreExpr

namespace MV.C02

open MV

def isWs (c : Char) : Bool := c = ' ' || c = '\n' || c = '\t' || c = '\r'

/-- `String::trim_end` -/
def trimEnd (s : List Char) : List Char := (s.reverse.dropWhile isWs).reverse

/-- `comma_delimited`: append `", "` after each item, remove the byte at `len - 2`, trim the end -/
def commaDelimited (items : List (List Char)) : List Char :=
  let s := items.flatMap (fun i => i ++ [',', ' '])
  let s := if s.length > 2 then s.eraseIdx (s.length - 2) else s
  trimEnd s

def GoodItem (i : List Char) : Prop := i ≠ [] ∧ ∀ c, i.getLast? = some c → isWs c = false

theorem eraseIdx_append_two (a : List Char) (x y : Char) : (a ++ [x, y]).eraseIdx ((a ++ [x, y]).length - 2) = a ++ [y] := by
  have : (a ++ [x, y]).length - 2 = a.length := by simp
  rw [this]
  induction a with
  | nil => rfl
  | cons h t ih => simp [List.eraseIdx, ih]

theorem trimEnd_good (a : List Char) (h : ∀ c, a.getLast? = some c → isWs c = false) : trimEnd (a ++ [' ']) = a := by
  unfold trimEnd
  rw [List.reverse_append]
  simp only [List.reverse_cons, List.reverse_nil, List.nil_append, List.singleton_append]
  rw [List.dropWhile_cons_of_pos (by decide)]
  cases hr : a.reverse with
  | nil =>
    have : a = [] := by simpa using hr
    subst this; rfl
  | cons c cs =>
    have hl : a.getLast? = some c := by
      rw [List.getLast?_eq_head?_reverse, hr]; rfl
    have := h c hl
    rw [List.dropWhile_cons_of_neg (by simp [this])]
    rw [← hr, List.reverse_reverse]

theorem getLast?_append_ne (a l : List Char) (h : l ≠ []) : (a ++ l).getLast? = l.getLast? := by
  rw [List.getLast?_append]; cases hl : l.getLast? with
  | none => simp at hl; exact absurd hl h
  | some x => simp

/-- **comma_delimited_spec** -/
theorem comma_delimited_spec (items : List (List Char)) (h : ∀ i ∈ items, GoodItem i) :
    commaDelimited items = List.intercalate [',', ' '] items := by
  by_cases hne : items = []
  · subst hne; rfl
  · have hsplit := List.dropLast_concat_getLast hne
    generalize items.dropLast = init at hsplit
    generalize items.getLast hne = last at hsplit
    subst hsplit
    have hl := h last (by simp)
    unfold commaDelimited
    simp only [List.flatMap_append, List.flatMap_cons, List.flatMap_nil, List.append_nil]
    have e : init.flatMap (fun i => i ++ [',', ' ']) ++ (last ++ [',', ' ']) =
        (init.flatMap (fun i => i ++ [',', ' ']) ++ last) ++ [',', ' '] := by simp
    rw [e]
    have hlen : (init.flatMap (fun i => i ++ [',', ' ']) ++ last ++ [',', ' ']).length > 2 := by
      have : last.length > 0 := List.length_pos_iff.mpr hl.1
      simp; omega
    simp only [hlen, if_true]
    rw [eraseIdx_append_two]
    have hgood : ∀ c, (init.flatMap (fun i => i ++ [',', ' ']) ++ last).getLast? = some c → isWs c = false := by
      intro c hc
      rw [getLast?_append_ne _ _ hl.1] at hc
      exact hl.2 c hc
    rw [trimEnd_good _ hgood]
    -- the remaining text is the items separated by ", "
    clear hlen hgood e
    induction init with
    | nil => simp [List.intercalate]
    | cons x xs ih =>
      cases xs with
      | nil => simp [List.intercalate]
      | cons y ys =>
        have := ih (fun i hi => h i (by simp at hi ⊢; rcases hi with hi | hi | hi <;> simp [hi]))
        simp only [List.flatMap_cons, List.cons_append, List.append_assoc] at this ⊢
        simp [List.intercalate] at this ⊢
        exact this

/-- an empty item breaks the discipline: `f(a, )`-like text (the guard is necessary) -/
theorem empty_item_witness :
    commaDelimited [['a'], []] ≠ List.intercalate [',', ' '] [['a'], []] := by decide

example : commaDelimited [['a'], ['b', 'c']] = ['a', ',', ' ', 'b', 'c'] := by decide

end MV.C02
