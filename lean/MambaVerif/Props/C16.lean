/-
C16 — Emitted modules are self-contained: generator-used names are imported once.

Model of the import collector (`Imports` in `generate/convert/state.rs`), for EVERY sequence of
`add_import` / `add_from_import` calls the conversion may make:
* `imports_nodup`  — each plain module appears once;
* `from_keys_nodup` — each `from` module appears once;
* `members_nodup`  — each member of a `from` import appears once;
* `imports_cover`  — every name ever registered is present in the final collector (nothing is lost
  when a later call re-sorts or re-inserts).
That each generator-introduced name is registered where it is emitted, and that the statements are
prepended to the module, is decided by the free-name oracle on the emitted modules.
-/
import MambaVerif.Model.Imports

namespace MV.C16

open MV

def Inv (s : Imp) : Prop :=
  s.imports.Nodup ∧ (s.fromImports.map Prod.fst).Nodup ∧ ∀ p ∈ s.fromImports, p.2.Nodup

theorem mem_insertSorted (x y : String) (l : List String) : y ∈ insertSorted x l ↔ y = x ∨ y ∈ l := by
  induction l with
  | nil => simp [insertSorted]
  | cons h t ih =>
    unfold insertSorted
    split
    · simp
    · simp [ih]; constructor
      · rintro (h1 | h1 | h1) <;> simp [h1]
      · rintro (h1 | h1 | h1) <;> simp [h1]

theorem nodup_insertSorted (x : String) (l : List String) (h : l.Nodup) (hx : x ∉ l) : (insertSorted x l).Nodup := by
  induction l with
  | nil => simp [insertSorted]
  | cons a t ih =>
    have ha : a ∉ t := (List.nodup_cons.mp h).1
    have ht : t.Nodup := (List.nodup_cons.mp h).2
    have hxa : x ≠ a := fun e => hx (by simp [e])
    have hxt : x ∉ t := fun e => hx (by simp [e])
    unfold insertSorted
    split
    · exact List.nodup_cons.mpr ⟨hx, h⟩
    · refine List.nodup_cons.mpr ⟨?_, ih ht hxt⟩
      rw [mem_insertSorted]
      rintro (e | e)
      · exact hxa e.symm
      · exact ha e

theorem sortStrings_aux (xs acc : List String) :
    (∀ y, y ∈ xs.foldl (fun a x => insertSorted x a) acc ↔ y ∈ xs ∨ y ∈ acc) ∧
    (acc.Nodup → xs.Nodup → (∀ y ∈ xs, y ∉ acc) → (xs.foldl (fun a x => insertSorted x a) acc).Nodup) := by
  induction xs generalizing acc with
  | nil => simp
  | cons x t ih =>
    simp only [List.foldl_cons]
    obtain ⟨h1, h2⟩ := ih (insertSorted x acc)
    refine ⟨?_, ?_⟩
    · intro y; rw [h1, mem_insertSorted]; simp; constructor
      · rintro (h | h | h) <;> simp [h]
      · rintro ((h | h) | h) <;> simp [h]
    · intro hacc hx hdis
      have hxn : x ∉ t := (List.nodup_cons.mp hx).1
      apply h2 (nodup_insertSorted x acc hacc (hdis x (by simp))) (List.nodup_cons.mp hx).2
      intro y hy
      rw [mem_insertSorted]
      rintro (e | e)
      · subst e; exact hxn hy
      · exact hdis y (by simp [hy]) e

theorem mem_sortStrings (xs : List String) (y : String) : y ∈ sortStrings xs ↔ y ∈ xs := by
  unfold sortStrings; rw [(sortStrings_aux xs []).1]; simp

theorem nodup_sortStrings (xs : List String) (h : xs.Nodup) : (sortStrings xs).Nodup := by
  unfold sortStrings; exact (sortStrings_aux xs []).2 List.nodup_nil h (by simp)

theorem mapReplace_keys (k : String) (v : List String) (m : List (String × List String)) :
    (mapReplace k v m).map Prod.fst = m.map Prod.fst := by
  induction m with
  | nil => rfl
  | cons p rest ih =>
    obtain ⟨k1, v1⟩ := p
    unfold mapReplace
    split
    · rename_i e; subst e; rfl
    · simp [ih]

theorem mapInsertNew_keys (k : String) (v : List String) (m : List (String × List String)) (k' : String) :
    k' ∈ (mapInsertNew k v m).map Prod.fst ↔ k' = k ∨ k' ∈ m.map Prod.fst := by
  induction m with
  | nil => simp [mapInsertNew]
  | cons p rest ih =>
    obtain ⟨k1, v1⟩ := p
    unfold mapInsertNew
    split
    · simp
    · simp only [List.map_cons, List.mem_cons, ih]
      constructor
      · rintro (h | h | h) <;> simp [h]
      · rintro (h | h | h) <;> simp [h]

theorem mapInsertNew_nodup (k : String) (v : List String) (m : List (String × List String))
    (h : (m.map Prod.fst).Nodup) (hk : k ∉ m.map Prod.fst) : ((mapInsertNew k v m).map Prod.fst).Nodup := by
  induction m with
  | nil => simp [mapInsertNew]
  | cons p rest ih =>
    obtain ⟨k1, v1⟩ := p
    have h1 : k1 ∉ rest.map Prod.fst := (List.nodup_cons.mp h).1
    have h2 := (List.nodup_cons.mp h).2
    have hk1 : k ≠ k1 := fun e => hk (by simp [e])
    have hk2 : k ∉ rest.map Prod.fst := fun e => hk (by simp only [List.map_cons, List.mem_cons]; exact Or.inr e)
    unfold mapInsertNew
    split
    · exact List.nodup_cons.mpr ⟨hk, h⟩
    · refine List.nodup_cons.mpr ⟨?_, ih h2 hk2⟩
      rw [mapInsertNew_keys]
      rintro (e | e)
      · exact hk1 e.symm
      · exact h1 e

theorem mapInsert_nodup (k : String) (v : List String) (m : List (String × List String))
    (h : (m.map Prod.fst).Nodup) : ((mapInsert k v m).map Prod.fst).Nodup := by
  unfold mapInsert
  split
  · rw [mapReplace_keys]; exact h
  · rename_i hk; exact mapInsertNew_nodup k v m h hk

theorem mem_mapReplace (k : String) (v : List String) (m : List (String × List String)) (p : String × List String)
    (hp : p ∈ mapReplace k v m) : p = (k, v) ∨ p ∈ m := by
  induction m with
  | nil => simp [mapReplace] at hp
  | cons q rest ih =>
    obtain ⟨k1, v1⟩ := q
    unfold mapReplace at hp
    split at hp
    · rcases List.mem_cons.mp hp with e | e
      · exact Or.inl e
      · exact Or.inr (List.mem_cons_of_mem _ e)
    · rcases List.mem_cons.mp hp with e | e
      · exact Or.inr (by rw [e]; simp)
      · rcases ih e with e' | e'
        · exact Or.inl e'
        · exact Or.inr (List.mem_cons_of_mem _ e')

theorem mem_mapInsertNew (k : String) (v : List String) (m : List (String × List String)) (p : String × List String) :
    p ∈ mapInsertNew k v m ↔ p = (k, v) ∨ p ∈ m := by
  induction m with
  | nil => simp [mapInsertNew]
  | cons q rest ih =>
    obtain ⟨k1, v1⟩ := q
    unfold mapInsertNew
    split
    · simp
    · simp only [List.mem_cons, ih]
      constructor
      · rintro (h | h | h) <;> simp [h]
      · rintro (h | h | h) <;> simp [h]

theorem mem_mapInsert (k : String) (v : List String) (m : List (String × List String)) (p : String × List String)
    (hp : p ∈ mapInsert k v m) : p = (k, v) ∨ p ∈ m := by
  unfold mapInsert at hp
  split at hp
  · exact mem_mapReplace k v m p hp
  · exact (mem_mapInsertNew k v m p).mp hp

theorem mapGet_mem {k : String} {m : List (String × List String)} {v : List String} (h : mapGet k m = some v) :
    (k, v) ∈ m := by
  unfold mapGet at h
  split at h
  · rename_i p hp
    have hm := List.mem_of_find?_eq_some hp
    have hk := List.find?_some hp
    simp only [decide_eq_true_eq] at hk
    cases h
    obtain ⟨a, b⟩ := p
    simp only at hk; subst hk; exact hm
  · cases h

theorem mapGet_none {k : String} {m : List (String × List String)} (h : mapGet k m = none) (v : List String) :
    (k, v) ∉ m := by
  unfold mapGet at h
  split at h
  · cases h
  · rename_i hnone
    intro hm
    have := List.find?_eq_none.mp hnone (k, v) hm
    simp at this

/-- the invariant is preserved by every call -/
theorem step_inv (s : Imp) (op : ImpOp) (h : Inv s) : Inv (s.step op) := by
  obtain ⟨h1, h2, h3⟩ := h
  cases op with
  | imp m =>
    simp only [Imp.step, Imp.addImport]
    split
    · exact ⟨h1, h2, h3⟩
    · rename_i hm
      refine ⟨?_, h2, h3⟩
      rw [List.nodup_append]
      exact ⟨h1, by simp, by intro a ha b hb; simp at hb; subst hb; intro e; subst e; exact hm ha⟩
  | frm m x =>
    simp only [Imp.step, Imp.addFrom]
    split
    · rename_i members hg
      have hmem := mapGet_mem hg
      have hnd := h3 _ hmem
      refine ⟨h1, mapInsert_nodup _ _ _ h2, ?_⟩
      intro p hp
      rcases mem_mapInsert _ _ _ _ hp with e | e
      · subst e
        apply nodup_sortStrings
        split
        · exact hnd
        · rename_i hx
          rw [List.nodup_append]
          exact ⟨hnd, by simp, by intro a ha b hb; simp at hb; subst hb; intro e; subst e; exact hx ha⟩
      · exact h3 p e
    · refine ⟨h1, mapInsert_nodup _ _ _ h2, ?_⟩
      intro p hp
      rcases mem_mapInsert _ _ _ _ hp with e | e
      · subst e; simp
      · exact h3 p e

/-- **imports_nodup / from_keys_nodup / members_nodup**: for every sequence of registrations each
    module is imported once and each member once -/
theorem imports_inv (ops : List ImpOp) : Inv (Imp.run ops) := by
  unfold Imp.run
  have : ∀ (s : Imp), Inv s → Inv (ops.foldl Imp.step s) := by
    induction ops with
    | nil => intro s h; exact h
    | cons op rest ih => intro s h; exact ih _ (step_inv s op h)
  exact this _ ⟨List.nodup_nil, by simp [Imp.empty], by simp [Imp.empty]⟩

/-- what a collector provides -/
def Provides (s : Imp) : ImpOp → Prop
  | .imp m => m ∈ s.imports
  | .frm m x => ∃ ms, (m, ms) ∈ s.fromImports ∧ x ∈ ms

theorem mapInsert_has (k : String) (v : List String) (m : List (String × List String)) : (k, v) ∈ mapInsert k v m := by
  unfold mapInsert
  split
  · rename_i hk
    induction m with
    | nil => simp at hk
    | cons q rest ih =>
      obtain ⟨k1, v1⟩ := q
      unfold mapReplace
      split
      · simp
      · rename_i hne
        have : k ∈ rest.map Prod.fst := by
          simp only [List.map_cons, List.mem_cons] at hk
          rcases hk with e | e
          · exact absurd e hne
          · exact e
        exact List.mem_cons_of_mem _ (ih this)
  · exact (mem_mapInsertNew k v m _).mpr (Or.inl rfl)

theorem mapReplace_keeps (k : String) (v : List String) (m : List (String × List String)) (p : String × List String)
    (hp : p ∈ m) (hk : p.1 ≠ k) : p ∈ mapReplace k v m := by
  induction m with
  | nil => simp at hp
  | cons q rest ih =>
    obtain ⟨k1, v1⟩ := q
    unfold mapReplace
    split
    · rename_i e
      rcases List.mem_cons.mp hp with e' | e'
      · subst e'; exact absurd e.symm hk
      · exact List.mem_cons_of_mem _ e'
    · rcases List.mem_cons.mp hp with e' | e'
      · subst e'; simp
      · exact List.mem_cons_of_mem _ (ih e')

theorem mapInsert_keeps (k : String) (v : List String) (m : List (String × List String)) (p : String × List String)
    (hp : p ∈ m) (hk : p.1 ≠ k) : p ∈ mapInsert k v m := by
  unfold mapInsert
  split
  · exact mapReplace_keeps k v m p hp hk
  · exact (mem_mapInsertNew k v m p).mpr (Or.inr hp)

theorem assoc_unique {k : String} {a b : List String} (l : List (String × List String))
    (hnd : (l.map Prod.fst).Nodup) (h1 : (k, a) ∈ l) (h2 : (k, b) ∈ l) : a = b := by
  induction l with
  | nil => simp at h1
  | cons p rest ih =>
    simp only [List.map_cons, List.nodup_cons] at hnd
    rcases List.mem_cons.mp h1 with e1 | e1 <;> rcases List.mem_cons.mp h2 with e2 | e2
    · rw [← e1] at e2; exact (Prod.mk.inj e2).2.symm
    · exact absurd (List.mem_map_of_mem (f := Prod.fst) e2) (by have := hnd.1; rw [← e1] at this; exact this)
    · exact absurd (List.mem_map_of_mem (f := Prod.fst) e1) (by have := hnd.1; rw [← e2] at this; exact this)
    · exact ih hnd.2 e1 e2

/-- a registration is provided right after it is made, and stays provided after any later call -/
theorem step_provides_self (s : Imp) (op : ImpOp) : Provides (s.step op) op := by
  cases op with
  | imp m =>
    simp only [Imp.step, Imp.addImport, Provides]
    split
    · assumption
    · simp
  | frm m x =>
    simp only [Imp.step, Imp.addFrom, Provides]
    split
    · rename_i members hg
      refine ⟨_, mapInsert_has _ _ _, ?_⟩
      rw [mem_sortStrings]
      split
      · assumption
      · simp
    · exact ⟨[x], mapInsert_has _ _ _, by simp⟩

theorem step_keeps (s : Imp) (op q : ImpOp) (h : Provides s q) (hi : Inv s) : Provides (s.step op) q := by
  cases op with
  | imp m =>
    simp only [Imp.step, Imp.addImport]
    split
    · exact h
    · cases q with
      | imp m' => simp only [Provides] at h ⊢; simp [h]
      | frm m' x' => exact h
  | frm m x =>
    cases q with
    | imp m' =>
      simp only [Imp.step, Imp.addFrom, Provides] at h ⊢
      split <;> exact h
    | frm m' x' =>
      obtain ⟨ms, hms, hx⟩ := h
      simp only [Imp.step, Imp.addFrom, Provides]
      by_cases hmm : m' = m
      · subst hmm
        split
        · rename_i members hg
          have hmem := mapGet_mem hg
          -- the stored member list of m' is `members` (keys are unique)
          have heq : ms = members := assoc_unique _ hi.2.1 hms hmem
          subst heq
          refine ⟨_, mapInsert_has _ _ _, ?_⟩
          rw [mem_sortStrings]
          split
          · exact hx
          · simp [hx]
        · rename_i hg
          -- impossible: m' has an entry
          exact absurd hms (mapGet_none hg ms)
      · split
        · exact ⟨ms, mapInsert_keeps _ _ _ _ hms hmm, hx⟩
        · exact ⟨ms, mapInsert_keeps _ _ _ _ hms hmm, hx⟩

theorem cover_aux (op : ImpOp) (ops : List ImpOp) : ∀ (s : Imp), Inv s → (op ∈ ops ∨ Provides s op) →
    Provides (ops.foldl Imp.step s) op := by
  induction ops with
  | nil => intro s _ h'; rcases h' with h' | h'; exact absurd h' (by simp); exact h'
  | cons o rest ih =>
    intro s hi h'
    simp only [List.foldl_cons]
    apply ih (s.step o) (step_inv s o hi)
    rcases h' with h' | h'
    · rcases List.mem_cons.mp h' with e | e
      · right; subst e; exact step_provides_self s op
      · left; exact e
    · right; exact step_keeps s o op h' hi

/-- **imports_cover**: every name registered at any point of the conversion is provided by the
    final collector -/
theorem imports_cover (ops : List ImpOp) (op : ImpOp) (h : op ∈ ops) : Provides (Imp.run ops) op :=
  cover_aux op ops _ ⟨List.nodup_nil, by simp [Imp.empty], by simp [Imp.empty]⟩ (Or.inl h)

/-! Non-vacuity: the registrations of a module using sqrt, an optional and a union. -/
example : (Imp.run [.imp "math", .frm "typing" "Union", .frm "typing" "Optional", .imp "math", .frm "typing" "Union"]).render
    = ["import math", "from typing import Optional, Union"] := by decide

end MV.C16
