/-
C20 — Assignability is a sound order (Name / TrueName layers).

`nameSup V` / `tnSup V` are the models of `Name::is_superset_of` / `TrueName::is_superset_of` over an
ARBITRARY relation `V` on variants; the theorems therefore hold for every class table, every fuel and
every type of any depth (`isSuperset tbl fuel = nameSup (variantSup tbl fuel)`).  The class-table
recursion itself (`variantSup`: `Context::class`, `has_parent`) is tied to the code by the exhaustive
correspondence on the property's finite universe, where reflexivity, transitivity over all triples,
ancestors and unrelated classes are decided by exhaustive enumeration of the implementation's answers.
-/
import MambaVerif.Lemmas.TyBasic

namespace MV.C20

open MV

variable (V : TName → TName → R)

/-- **union_le_iff / member-wise characterisation**: for a non-interchangeable right-hand side and
    error-free comparisons, `S ⊒ O` holds exactly when every member of `O` is below some member of `S`. -/
theorem sup_iff_members (s o : NameT) (hi : o.inter = false) (hne : (!s.isEmpty && o.isEmpty) = false)
    (h : NoErr V s o) :
    nameSup V s o = .ok true ↔ ∀ n ∈ o.names, ∃ m ∈ s.names, tnSup V m n = .ok true := by
  unfold nameSup
  simp only [hne, Bool.false_eq_true, if_false]
  exact (go_iff V s o hi o.names false (fun m hm n hn => h m hm n hn)).1

/-- a union is assignable to `U` exactly when each member is (members given as two lists) -/
theorem union_le_iff (u : NameT) (a b : List TName)
    (hne : (!u.isEmpty && (NameT.mk false (a ++ b)).isEmpty) = false)
    (hna : (!u.isEmpty && (NameT.mk false a).isEmpty) = false) (hnb : (!u.isEmpty && (NameT.mk false b).isEmpty) = false)
    (h : NoErr V u (.mk false (a ++ b))) :
    nameSup V u (.mk false (a ++ b)) = .ok true ↔
      (nameSup V u (.mk false a) = .ok true ∧ nameSup V u (.mk false b) = .ok true) := by
  have ha : NoErr V u (.mk false a) := fun m hm n hn => h m hm n (by simp [NameT.names] at hn ⊢; exact Or.inl hn)
  have hb : NoErr V u (.mk false b) := fun m hm n hn => h m hm n (by simp [NameT.names] at hn ⊢; exact Or.inr hn)
  rw [sup_iff_members V u _ rfl hne h, sup_iff_members V u _ rfl hna ha, sup_iff_members V u _ rfl hnb hb]
  simp only [NameT.names, List.mem_append]
  constructor
  · intro hm; exact ⟨fun n hn => hm n (Or.inl hn), fun n hn => hm n (Or.inr hn)⟩
  · rintro ⟨h1, h2⟩ n (hn | hn)
    · exact h1 n hn
    · exact h2 n hn

/-- **order_indep**: the answer does not depend on the order in which the members of either side are
    stored (any two storage orders of the same sets) -/
theorem order_indep (s s' o o' : NameT) (hi : o.inter = false) (hi' : o'.inter = false)
    (hs : ∀ m, m ∈ s.names ↔ m ∈ s'.names) (ho : ∀ n, n ∈ o.names ↔ n ∈ o'.names)
    (hne : (!s.isEmpty && o.isEmpty) = false) (hne' : (!s'.isEmpty && o'.isEmpty) = false)
    (h : NoErr V s o) :
    nameSup V s o = .ok true ↔ nameSup V s' o' = .ok true := by
  have h' : NoErr V s' o' := fun m hm n hn => h m ((hs m).mpr hm) n ((ho n).mpr hn)
  rw [sup_iff_members V s o hi hne h, sup_iff_members V s' o' hi' hne' h']
  constructor
  · intro hm n hn
    obtain ⟨m, hm1, hm2⟩ := hm n ((ho n).mpr hn)
    exact ⟨m, (hs m).mp hm1, hm2⟩
  · intro hm n hn
    obtain ⟨m, hm1, hm2⟩ := hm n ((ho n).mp hn)
    exact ⟨m, (hs m).mpr hm1, hm2⟩

/-- `T?` is never assignable to a non-nullable `T`, whatever the classes are -/
theorem nullable_not_le_nonnull (s o : TName) (hs : s.nullable = false) (ho : o.nullable = true)
    (hne : (!s.isEmpty && o.isEmpty) = false) : tnSup V s o = .ok false := by
  unfold tnSup
  simp [hne, hs, ho]

/-- `None` is assignable to every nullable type -/
theorem none_le_nullable (s o : TName) (hs : s.nullable = true) (ho : o.isNull = true)
    (hne : (!s.isEmpty && o.isEmpty) = false) : tnSup V s o = .ok true := by
  unfold tnSup
  simp [hne, hs, ho]

/-- `T` and `T?` are assignable to `T?` as soon as the variants are related -/
theorem le_nullable_of_variant (s o : TName) (hs : s.nullable = true) (hv : V s o = .ok true)
    (hne : (!s.isEmpty && o.isEmpty) = false) : tnSup V s o = .ok true := by
  unfold tnSup
  simp only [hne, Bool.false_eq_true, if_false, hs, Bool.true_and, Bool.true_or, if_true]
  split
  · rfl
  · exact hv

/-- a non-nullable type accepts exactly what its variant accepts among non-nullable types -/
theorem nonnull_sup (s o : TName) (hs : s.nullable = false) (ho : o.nullable = false)
    (hne : (!s.isEmpty && o.isEmpty) = false) : tnSup V s o = V s o := by
  unfold tnSup
  simp [hne, hs, ho]

/-! Non-vacuity: on a two-class table `Int` (child of `Float`) the relation is the expected one. -/
def tbl2 : Tbl := [⟨"Float", [], []⟩, ⟨"Int", [], [.mk false true "Float" []]⟩]
def tInt : NameT := .mk false [.mk false true "Int" []]
def tFloat : NameT := .mk false [.mk false true "Float" []]
def tIntOrFloat : NameT := .mk false [.mk false true "Int" [], .mk false true "Float" []]
example : isSuperset tbl2 8 tFloat tInt = .ok true ∧ isSuperset tbl2 8 tInt tFloat = .ok false
    ∧ isSuperset tbl2 8 tFloat tIntOrFloat = .ok true ∧ isSuperset tbl2 8 tInt tIntOrFloat = .ok false := by
  decide +kernel

end MV.C20
