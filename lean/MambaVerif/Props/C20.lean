/-
C20 — Assignability is a sound order (Name / TrueName layers).

`nameSup V` / `tnSup V` are the models of `Name::is_superset_of` / `TrueName::is_superset_of` over an
ARBITRARY relation `V` on variants; the theorems therefore hold for every class table, every fuel and
every type of any depth (`isSuperset tbl fuel = nameSup (variantSup tbl fuel)`).  The class-table
recursion itself (`variantSup`: `Context::class`, `has_parent`) is tied to the code by the exhaustive
correspondence on the property's finite universe, where reflexivity, transitivity over all triples,
ancestors and unrelated classes are decided by exhaustive enumeration of the implementation's answers.
-/
import MambaVerif.Lemmas.TyBasic
import MambaVerif.Lemmas.TyUnion

namespace MV.C20

open MV

variable (V : TName → TName → R)

/-- **union_le_iff / member-wise characterisation**: for a non-interchangeable right-hand side and
    error-free comparisons, `S ⊒ O` holds exactly when every member of `O` is below some member of `S`. -/
theorem sup_iff_members (s o : NameT) (hi : o.inter = false) (hne : (!s.isEmpty && o.isEmpty) = false)
    (h : NoErr V s o) :
    nameSup V s o = .ok true ↔ ∀ n ∈ o.names, ∃ m ∈ s.names, tnSup V m n = .ok true := by
  unfold nameSup
  simp only [hne, Bool.false_eq_true, if_false]
  exact (go_iff V s o hi o.names false (fun m hm n hn => h m hm n hn)).1

/-- a union is assignable to `U` exactly when each member is (members given as two lists) -/
theorem union_le_iff (u : NameT) (a b : List TName)
    (hne : (!u.isEmpty && (NameT.mk false (a ++ b)).isEmpty) = false)
    (hna : (!u.isEmpty && (NameT.mk false a).isEmpty) = false) (hnb : (!u.isEmpty && (NameT.mk false b).isEmpty) = false)
    (h : NoErr V u (.mk false (a ++ b))) :
    nameSup V u (.mk false (a ++ b)) = .ok true ↔
      (nameSup V u (.mk false a) = .ok true ∧ nameSup V u (.mk false b) = .ok true) := by
  have ha : NoErr V u (.mk false a) := fun m hm n hn => h m hm n (by simp [NameT.names] at hn ⊢; exact Or.inl hn)
  have hb : NoErr V u (.mk false b) := fun m hm n hn => h m hm n (by simp [NameT.names] at hn ⊢; exact Or.inr hn)
  rw [sup_iff_members V u _ rfl hne h, sup_iff_members V u _ rfl hna ha, sup_iff_members V u _ rfl hnb hb]
  simp only [NameT.names, List.mem_append]
  constructor
  · intro hm; exact ⟨fun n hn => hm n (Or.inl hn), fun n hn => hm n (Or.inr hn)⟩
  · rintro ⟨h1, h2⟩ n (hn | hn)
    · exact h1 n hn
    · exact h2 n hn

/-- **order_indep**: the answer does not depend on the order in which the members of either side are
    stored (any two storage orders of the same sets) -/
theorem order_indep (s s' o o' : NameT) (hi : o.inter = false) (hi' : o'.inter = false)
    (hs : ∀ m, m ∈ s.names ↔ m ∈ s'.names) (ho : ∀ n, n ∈ o.names ↔ n ∈ o'.names)
    (hne : (!s.isEmpty && o.isEmpty) = false) (hne' : (!s'.isEmpty && o'.isEmpty) = false)
    (h : NoErr V s o) :
    nameSup V s o = .ok true ↔ nameSup V s' o' = .ok true := by
  have h' : NoErr V s' o' := fun m hm n hn => h m ((hs m).mpr hm) n ((ho n).mpr hn)
  rw [sup_iff_members V s o hi hne h, sup_iff_members V s' o' hi' hne' h']
  constructor
  · intro hm n hn
    obtain ⟨m, hm1, hm2⟩ := hm n ((ho n).mpr hn)
    exact ⟨m, (hs m).mp hm1, hm2⟩
  · intro hm n hn
    obtain ⟨m, hm1, hm2⟩ := hm n ((ho n).mp hn)
    exact ⟨m, (hs m).mpr hm1, hm2⟩

/-- `T?` is never assignable to a non-nullable `T`, whatever the classes are -/
theorem nullable_not_le_nonnull (s o : TName) (hs : s.nullable = false) (ho : o.nullable = true)
    (hne : (!s.isEmpty && o.isEmpty) = false) : tnSup V s o = .ok false := by
  unfold tnSup
  simp [hne, hs, ho]

/-- `None` is assignable to every nullable type -/
theorem none_le_nullable (s o : TName) (hs : s.nullable = true) (ho : o.isNull = true)
    (hne : (!s.isEmpty && o.isEmpty) = false) : tnSup V s o = .ok true := by
  unfold tnSup
  simp [hne, hs, ho]

/-- `T` and `T?` are assignable to `T?` as soon as the variants are related -/
theorem le_nullable_of_variant (s o : TName) (hs : s.nullable = true) (hv : V s o = .ok true)
    (hne : (!s.isEmpty && o.isEmpty) = false) : tnSup V s o = .ok true := by
  unfold tnSup
  simp only [hne, Bool.false_eq_true, if_false, hs, Bool.true_and, Bool.true_or, if_true]
  split
  · rfl
  · exact hv

/-- a non-nullable type accepts exactly what its variant accepts among non-nullable types -/
theorem nonnull_sup (s o : TName) (hs : s.nullable = false) (ho : o.nullable = false)
    (hne : (!s.isEmpty && o.isEmpty) = false) : tnSup V s o = V s o := by
  unfold tnSup
  simp [hne, hs, ho]

/-! ### Reflexivity and transitivity lift from the class table to every type

The class-table relation `V` (on variants) is decided exhaustively on the property's universe; the two
theorems below carry its reflexivity and transitivity to ALL nullable variants and ALL unions built over
it, of any size. -/

/-- the member-level relation is reflexive wherever the variant relation is -/
theorem tnSup_refl (t : TName) (hv : V t t = .ok true) : tnSup V t t = .ok true := by
  unfold tnSup
  by_cases he : t.isEmpty = true
  · by_cases hn : (t.nullable && t.isNull) = true
    · simp [he, hn]
    · cases hnl : t.nullable <;> simp [he, hv]
  · have he' : t.isEmpty = false := by simpa using he
    by_cases hn : (t.nullable && t.isNull) = true
    · simp [he', hn]
    · cases hnl : t.nullable <;> simp [he', hv]

/-- what `tnSup V s o = ok true` means -/
theorem tnSup_true_iff (s o : TName) :
    tnSup V s o = .ok true ↔
      ((!s.isEmpty && o.isEmpty) = false ∧
        ((s.nullable && o.isNull) = true ∨
          ((s.nullable || (!s.nullable && !o.nullable)) = true ∧ V s o = .ok true))) := by
  unfold tnSup
  by_cases h1 : (!s.isEmpty && o.isEmpty) = true
  · simp [h1]
  · have h1' : (!s.isEmpty && o.isEmpty) = false := by simpa using h1
    rw [if_neg h1]
    by_cases h2 : (s.nullable && o.isNull) = true
    · simp [h1', h2]
    · rw [if_neg h2]
      by_cases h3 : (s.nullable || (!s.nullable && !o.nullable)) = true
      · simp [h3, h1', h2]
      · simp [h3, h1', h2]

/-- **transitivity of the member-level relation**: for a variant relation that is transitive and below
    which `None` only has `None`, nullable flags and the empty tuple do not break transitivity -/
theorem tnSup_trans (a b c : TName)
    (htrans : V a b = .ok true → V b c = .ok true → V a c = .ok true)
    (hnull : b.isNull = true → V b c = .ok true → c.isNull = true)
    (h1 : tnSup V a b = .ok true) (h2 : tnSup V b c = .ok true) : tnSup V a c = .ok true := by
  rw [tnSup_true_iff] at h1 h2 ⊢
  obtain ⟨e1, r1⟩ := h1
  obtain ⟨e2, r2⟩ := h2
  refine ⟨?_, ?_⟩
  · cases ha : a.isEmpty <;> cases hb : b.isEmpty <;> cases hc : c.isEmpty <;> simp_all
  · rcases r1 with r1 | ⟨n1, v1⟩
    · -- a nullable, b is None
      have han : a.nullable = true := by
        cases h : a.nullable <;> simp_all
      have hbn : b.isNull = true := by
        cases h : b.isNull <;> simp_all
      rcases r2 with r2 | ⟨_, v2⟩
      · left
        have : c.isNull = true := by cases h : c.isNull <;> simp_all
        simp [han, this]
      · left
        simp [han, hnull hbn v2]
    · rcases r2 with r2 | ⟨n2, v2⟩
      · -- b nullable, c is None: then a is nullable
        left
        have hbn : b.nullable = true := by cases h : b.nullable <;> simp_all
        have hcn : c.isNull = true := by cases h : c.isNull <;> simp_all
        have han : a.nullable = true := by
          cases h : a.nullable <;> simp_all
        simp [han, hcn]
      · right
        refine ⟨?_, htrans v1 v2⟩
        cases ha : a.nullable <;> cases hb : b.nullable <;> cases hc : c.nullable <;> simp_all

/-- **reflexivity for unions of any size** (non-interchangeable names) -/
theorem nameSup_refl (s : NameT) (hi : s.inter = false) (h : NoErr V s s)
    (hv : ∀ n ∈ s.names, V n n = .ok true) : nameSup V s s = .ok true := by
  have hne : (!s.isEmpty && s.isEmpty) = false := by cases s.isEmpty <;> rfl
  rw [sup_iff_members V s s hi hne h]
  intro n hn
  exact ⟨n, hn, tnSup_refl V n (hv n hn)⟩

/-- a true answer is never given to an empty right-hand side by a non-empty left-hand side -/
theorem nameSup_true_nonempty (s o : NameT) (h : nameSup V s o = .ok true) :
    (!s.isEmpty && o.isEmpty) = false := by
  unfold nameSup at h
  by_cases hc : (!s.isEmpty && o.isEmpty) = true
  · rw [if_pos hc] at h; exact absurd h (by simp)
  · simpa using hc

/-- **transitivity for unions of any size**: if the variant relation is transitive (and only `None` is
    below `None`) on the members involved, then `S ⊒ O` and `O ⊒ P` give `S ⊒ P` -/
theorem nameSup_trans (s o p : NameT) (hio : o.inter = false) (hip : p.inter = false)
    (hso : NoErr V s o) (hop : NoErr V o p) (hsp : NoErr V s p)
    (htrans : ∀ a ∈ s.names, ∀ b ∈ o.names, ∀ c ∈ p.names, V a b = .ok true → V b c = .ok true → V a c = .ok true)
    (hnull : ∀ b ∈ o.names, ∀ c ∈ p.names, b.isNull = true → V b c = .ok true → c.isNull = true)
    (h1 : nameSup V s o = .ok true) (h2 : nameSup V o p = .ok true) : nameSup V s p = .ok true := by
  have e1 := nameSup_true_nonempty V s o h1
  have e2 := nameSup_true_nonempty V o p h2
  have e3 : (!s.isEmpty && p.isEmpty) = false := by
    cases ha : s.isEmpty <;> cases hb : o.isEmpty <;> cases hc : p.isEmpty <;> simp_all
  rw [sup_iff_members V s o hio e1 hso] at h1
  rw [sup_iff_members V o p hip e2 hop] at h2
  rw [sup_iff_members V s p hip e3 hsp]
  intro c hc
  obtain ⟨b, hb, hbc⟩ := h2 c hc
  obtain ⟨a, ha, hab⟩ := h1 b hb
  exact ⟨a, ha, tnSup_trans V a b c (htrans a ha b hb c hc) (hnull b hb c hc) hab hbc⟩

/-! Non-vacuity: on a two-class table `Int` (child of `Float`) the relation is the expected one. -/
def tbl2 : Tbl := [⟨"Float", [], []⟩, ⟨"Int", [], [.mk false true "Float" []]⟩]
def tInt : NameT := .mk false [.mk false true "Int" []]
def tFloat : NameT := .mk false [.mk false true "Float" []]
def tIntOrFloat : NameT := .mk false [.mk false true "Int" [], .mk false true "Float" []]
example : isSuperset tbl2 8 tFloat tInt = .ok true ∧ isSuperset tbl2 8 tInt tFloat = .ok false
    ∧ isSuperset tbl2 8 tFloat tIntOrFloat = .ok true ∧ isSuperset tbl2 8 tInt tIntOrFloat = .ok false := by
  decide +kernel

/-! ### forming unions (`Name::union`) — as sets of members, for names without a `None` member

(`…_partial`: the branch of `Name::union` that folds a `None` member into nullable members is not covered by
these theorems; it is decided on the universe by the oracle's law `union-commutative` and by the model
correspondence on `tyunion`.) -/

/-- **union_comm_partial**: `A ∪ B` and `B ∪ A` have the same members -/
theorem union_comm_partial (a b : NameT) (h : NoNull (a.names ++ b.names)) :
    SameKeys (a.union b).names (b.union a).names := by
  rw [union_names_of_noNull a b h, union_names_of_noNull b a (noNull_append_comm h)]
  exact (dedupT_keys _).trans ((sameKeys_append_comm a.names b.names).trans (dedupT_keys _).symm)

/-- **union_idem_partial**: `A ∪ A` has the members of `A` -/
theorem union_idem_partial (a : NameT) (h : NoNull a.names) : SameKeys (a.union a).names a.names := by
  have h2 : NoNull (a.names ++ a.names) := fun x hx => h x ((List.mem_append.mp hx).elim id id)
  rw [union_names_of_noNull a a h2]
  refine (dedupT_keys _).trans ?_
  intro k
  constructor
  · rintro ⟨z, hz, hzk⟩
    exact ⟨z, (List.mem_append.mp hz).elim id id, hzk⟩
  · rintro ⟨z, hz, hzk⟩
    exact ⟨z, List.mem_append.mpr (Or.inl hz), hzk⟩

/-- **union_assoc_partial**: `(A ∪ B) ∪ C` and `A ∪ (B ∪ C)` have the same members -/
theorem union_assoc_partial (a b c : NameT) (h : NoNull (a.names ++ b.names ++ c.names)) :
    SameKeys ((a.union b).union c).names (a.union (b.union c)).names := by
  have hab : NoNull (a.names ++ b.names) := fun x hx => h x (List.mem_append.mpr (Or.inl hx))
  have hbc : NoNull (b.names ++ c.names) := fun x hx => h x (by
    rcases List.mem_append.mp hx with h' | h'
    · exact List.mem_append.mpr (Or.inl (List.mem_append.mpr (Or.inr h')))
    · exact List.mem_append.mpr (Or.inr h'))
  have e1 := union_names_of_noNull a b hab
  have e2 := union_names_of_noNull b c hbc
  have h1 : NoNull ((a.union b).names ++ c.names) := by
    intro x hx
    rcases List.mem_append.mp hx with h' | h'
    · rw [e1] at h'; exact hab x (dedupT_sub _ x h')
    · exact h x (List.mem_append.mpr (Or.inr h'))
  have h2 : NoNull (a.names ++ (b.union c).names) := by
    intro x hx
    rcases List.mem_append.mp hx with h' | h'
    · exact h x (List.mem_append.mpr (Or.inl (List.mem_append.mpr (Or.inl h'))))
    · rw [e2] at h'; exact hbc x (dedupT_sub _ x h')
  rw [union_names_of_noNull _ c h1, union_names_of_noNull a _ h2, e1, e2]
  refine (dedupT_keys _).trans (SameKeys.trans ?_ (dedupT_keys _).symm)
  have l : SameKeys (dedupT (a.names ++ b.names) ++ c.names) (a.names ++ b.names ++ c.names) :=
    sameKeys_append_congr (dedupT_keys _) (SameKeys.refl _)
  have r : SameKeys (a.names ++ dedupT (b.names ++ c.names)) (a.names ++ (b.names ++ c.names)) :=
    sameKeys_append_congr (SameKeys.refl _) (dedupT_keys _)
  rw [List.append_assoc] at l
  exact l.trans r.symm

/-- non-vacuity of the transitivity theorem: a chain through a union on a three-level hierarchy -/
def tbl3 : Tbl := [⟨"A", [], []⟩, ⟨"B", [], [.mk false true "A" []]⟩, ⟨"C", [], [.mk false true "B" []]⟩, ⟨"None", [], []⟩]
def tAq : NameT := .mk false [.mk true true "A" []]
def tBorNone : NameT := .mk false [.mk false true "B" [], .mk false true "None" []]
def tC : NameT := .mk false [.mk false true "C" []]
example : isSuperset tbl3 8 tAq tBorNone = .ok true ∧ isSuperset tbl3 8 tBorNone tC = .ok true
    ∧ isSuperset tbl3 8 tAq tC = .ok true ∧ isSuperset tbl3 8 tC tAq = .ok false := by
  decide +kernel

end MV.C20
