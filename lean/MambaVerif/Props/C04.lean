/-
C04 — Accepted programs do not go wrong (operators of the primitive types).

`stubRows` is REGENERATED from `check/resource/primitive/*.py`: the operator methods the checker
believes `Int`, `Float`, `Complex`, `Bool`, `Str` have, with the declared operand and result types.
`pyOp` is the specification: what CPython's operator does on runtime values of those types (by type
tag; `none` = TypeError/AttributeError, a list = the possible result tags).  A declared type admits
its own tag and the tags of its subtypes in the checker's table (`Int <: Float <: Complex`).
Theorem `stubs_sound_partial`: for every stub row outside the listed exceptions, for every runtime
tag its declared operand type admits, the Python operator is defined and its result is admitted by
the declared result type — so an accepted use of that operator cannot raise TypeError and yields a
value of the type the checker continues with.  Every exception is proved to be really unsound
(`exceptions_are_unsound`), each is a recorded known finding.
Name errors are C09's theorem; method/attribute existence on user classes and collections is
decided by the execution oracle of the check.
-/
import MambaVerif.Generated.StubTables

namespace MV.C04

open MV

/-- runtime tags a declared type admits (the checker's `Int <: Float <: Complex`) -/
def admits : Tag → List Tag
  | .int => [.int]
  | .float => [.float, .int]
  | .complex => [.complex, .float, .int]
  | .bool => [.bool]
  | .str => [.str]

def admitsAll (ts : List Tag) : List Tag := ts.flatMap admits

def isNum : Tag → Bool
  | .int | .float | .complex => true
  | _ => false

/-- the numeric tower's join -/
def join : Tag → Tag → Tag
  | .complex, _ => .complex
  | _, .complex => .complex
  | .float, _ => .float
  | _, .float => .float
  | _, _ => .int

/-- CPython: result tags of `self <op> other` (`none`: TypeError / no such method). `bool` is not
    used as a number by the checker's table, so it only meets `==`, `!=`, `str()`, `bool()`. -/
def pyOp (self : Tag) (method : String) (other : Option Tag) : Option (List Tag) :=
  match method, other with
  | "__str__", none => some [.str]
  | "__bool__", none => some [.bool]
  | "__neg__", none => if isNum self then some [self] else none
  | "__eq__", some _ => some [.bool]
  | "__ne__", some _ => some [.bool]
  | m, some o =>
    if m = "__add__" ∧ self = .str ∧ o = .str then some [.str]
    else if !(isNum self && isNum o) then none
    else if m = "__add__" ∨ m = "__sub__" ∨ m = "__mul__" then some [join self o]
    else if m = "__truediv__" then some [if join self o = .complex then .complex else .float]
    else if m = "__floordiv__" ∨ m = "__mod__" then (if join self o = .complex then none else some [join self o])
    else if m = "__pow__" then
      -- a negative integer exponent gives a float, a negative base with a fractional exponent a complex
      (match join self o with
       | .int => some [.int, .float]
       | .float => some [.float, .complex]
       | t => some [t])
    else if m = "__ge__" ∨ m = "__gt__" ∨ m = "__le__" ∨ m = "__lt__" then
      (if join self o = .complex then none else some [.bool])
    else none
  | _, none => none

/-- the row is sound for one runtime operand tag -/
def soundAt (r : StubRow) (other : Option Tag) : Bool :=
  match pyOp r.cls r.method other with
  | some res => res.all fun t => (admitsAll r.ret).contains t
  | none => false

def rowSound (r : StubRow) : Bool :=
  if r.param.isEmpty then soundAt r none else (admitsAll r.param).all fun o => soundAt r (some o)

/-- the rows known to be unsound on the current tree -/
def exceptions : List (Tag × String) := [
  (.str, "__add__"),        -- "a" + 1 is a TypeError: the stub admits int/float/complex/bool operands
  (.complex, "__div__"),    -- Python 3 has no __div__
  (.complex, "__neg__"),    -- -z is complex, the stub says float
  (.int, "__pow__"),        -- 2 ** -1 is a float
  (.float, "__pow__")]      -- (-8.0) ** 0.5 is a complex

/-- **stubs_sound_partial** -/
theorem stubs_sound_partial : ∀ r ∈ stubRows, (r.cls, r.method) ∉ exceptions → rowSound r = true := by decide

/-- every listed exception is really unsound (each is a known finding, not a blanket exemption) -/
theorem exceptions_are_unsound : ∀ r ∈ stubRows, (r.cls, r.method) ∈ exceptions → rowSound r = false := by decide

/-- the exceptions are rows of the table (the list does not exempt anything that is not there) -/
theorem exceptions_exist : ∀ e ∈ exceptions, ∃ r ∈ stubRows, (r.cls, r.method) = e := by decide

/-- the arithmetic and comparison operators on Int and Float are covered by sound rows -/
theorem int_float_arithmetic_sound : ∀ c ∈ [Tag.int, Tag.float], ∀ m ∈ ["__add__", "__sub__", "__mul__", "__truediv__",
    "__floordiv__", "__mod__", "__ge__", "__gt__", "__le__", "__lt__", "__eq__", "__ne__", "__neg__", "__str__"],
    ∃ r ∈ stubRows, r.cls = c ∧ r.method = m ∧ rowSound r = true := by decide

end MV.C04
