/-
C12 — Determinism (class member order; name lattice order independence is C20.order_indep).

`extract_class` keeps the converted members of a class in a `HashMap` and sorts them by
`(position, rank)`; the map's iteration order is arbitrary and differs from run to run.  Theorem:
whatever the iteration order, the emitted order is the same — because the sort key is injective on
the members of a class (`keys_distinct`).  Offsets and ranks are regenerated from `class.rs`: without
the tie-breaking rank (the defect repaired for this property: every rank equal) `rank_facts` fails.
-/
import MambaVerif.Model.ClassOrder

namespace MV.C12

open MV

/-- the facts about the regenerated constants that make the key injective -/
theorem rank_facts : rankFun ≠ rankVar ∧ rankFun ≠ rankOther ∧ rankInit ≠ rankVar ∧ rankInit ≠ rankOther ∧
    rankInit ≠ rankFun ∧ classVarOffset = classOtherOffset := by decide

theorem le_trans (a b c : Entry) (h1 : Entry.le a b = true) (h2 : Entry.le b c = true) : Entry.le a c = true := by
  simp only [Entry.le, Bool.or_eq_true, decide_eq_true_eq, Bool.and_eq_true, beq_iff_eq] at *
  omega

theorem le_total (a b : Entry) : (Entry.le a b || Entry.le b a) = true := by
  simp only [Entry.le, Bool.or_eq_true, decide_eq_true_eq, Bool.and_eq_true, beq_iff_eq]
  omega

/-- **sorted_unique**: two storage orders of the same entries are emitted identically as soon as
    no two entries share a sort key -/
theorem sorted_unique (l1 l2 : List Entry) (hp : l1.Perm l2)
    (hd : ∀ a ∈ l1, ∀ b ∈ l1, a.pos = b.pos → a.rank = b.rank → a = b) : emitted l1 = emitted l2 := by
  unfold emitted
  apply List.Perm.eq_of_pairwise (le := fun a b => Entry.le a b = true)
  · intro a b ha hb hab hba
    have ha' : a ∈ l1 := List.mem_mergeSort.mp ha
    have hb' : b ∈ l1 := hp.symm.subset (List.mem_mergeSort.mp hb)
    simp only [Entry.le, Bool.or_eq_true, decide_eq_true_eq, Bool.and_eq_true, beq_iff_eq] at hab hba
    exact hd a ha' b hb' (by omega) (by omega)
  · exact List.pairwise_mergeSort le_trans le_total l1
  · exact List.pairwise_mergeSort le_trans le_total l2
  · exact (List.mergeSort_perm l1 _).trans (hp.trans (List.mergeSort_perm l2 _).symm)

/-- a body as the conversion produces it: statement `i` stands at index `i`; at most one `init` -/
def WellFormed (body : List Member) : Prop :=
  (∀ m ∈ body, ∀ m' ∈ body, m.idx = m'.idx → m = m') ∧
  (∀ m ∈ body, ∀ m' ∈ body, m.kind = .init → m'.kind = .init → m = m') ∧
  (∀ m ∈ body, m.idx < body.length)

/-- **keys_distinct**: the sort key `(position, rank)` is injective on the members of a class -/
theorem keys_distinct (body : List Member) (newInit : Bool) (hw : WellFormed body) :
    ∀ a ∈ entries body newInit, ∀ b ∈ entries body newInit, a.pos = b.pos → a.rank = b.rank → a = b := by
  obtain ⟨h1, h2, h3, h4, h5, h6⟩ := rank_facts
  obtain ⟨hidx, hinit, hlen⟩ := hw
  have key : ∀ m ∈ body, ∀ m' ∈ body, (Entry.ofMember m).pos = (Entry.ofMember m').pos →
      (Entry.ofMember m).rank = (Entry.ofMember m').rank → m = m' := by
    intro m hm m' hm' hp hr
    simp only [Entry.ofMember, Member.pos, MKind.rank] at hp hr
    cases hk : m.kind <;> cases hk' : m'.kind <;> simp only [hk, hk'] at hp hr <;>
      first
        | exact hidx m hm m' hm' (by omega)
        | exact hinit m hm m' hm' hk hk'
        | (exfalso; omega)
  intro a ha b hb hp hr
  cases newInit with
  | true =>
    -- a synthesised constructor
    simp only [entries, if_true, List.mem_append, List.mem_map, List.mem_filter, List.mem_singleton] at ha hb
    rcases ha with ⟨m, ⟨hm, hmk⟩, rfl⟩ | rfl <;> rcases hb with ⟨m', ⟨hm', hmk'⟩, rfl⟩ | rfl
    · rw [key m hm m' hm' hp hr]
    · exfalso
      simp only [Entry.ofMember, MKind.rank] at hr
      cases hk : m.kind <;> simp [hk] at hr hmk <;> omega
    · exfalso
      simp only [Entry.ofMember, MKind.rank] at hr
      cases hk : m'.kind <;> simp [hk] at hr hmk' <;> omega
    · rfl
  | false =>
    simp only [entries, Bool.false_eq_true, if_false, List.mem_map] at ha hb
    obtain ⟨m, hm, rfl⟩ := ha
    obtain ⟨m', hm', rfl⟩ := hb
    rw [key m hm m' hm' hp hr]

/-- **class_body_order_perm**: the emitted member order does not depend on the iteration order of
    the map the members are stored in -/
theorem class_body_order_perm (body : List Member) (newInit : Bool) (hw : WellFormed body)
    (stored : List Entry) (hs : stored.Perm (entries body newInit)) :
    emitted stored = emitted (entries body newInit) :=
  sorted_unique stored _ hs (fun a ha b hb => keys_distinct body newInit hw a (hs.subset ha) b (hs.subset hb))

/-! Non-vacuity: the colliding shape of the repaired defect — methods at index 0 and 1, a field at
    index 2 (position 2 twice): both storage orders give methods' and field's order alike. -/
def sampleBody : List Member := [⟨0, .fn, "m0"⟩, ⟨1, .fn, "m1"⟩, ⟨2, .var, "x"⟩]
example : WellFormed sampleBody := by
  refine ⟨?_, ?_, ?_⟩ <;> decide
/-- on that body the method at index 0 and the field at index 2 do share a position: the rank decides -/
example : (Entry.ofMember ⟨0, .fn, "m0"⟩).pos = (Entry.ofMember ⟨2, .var, "x"⟩).pos ∧
    (Entry.ofMember ⟨0, .fn, "m0"⟩).rank ≠ (Entry.ofMember ⟨2, .var, "x"⟩).rank := by decide

end MV.C12
