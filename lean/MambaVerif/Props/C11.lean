/-
C11 — The annotate option is semantically inert.

On the model of `convert_def` (Model/Annotate.lean): with annotations erased, converting a function
with the option on and off gives the same result — in particular the decision to `return` the last
expression does not depend on the option — and the option only ever decides `ty` fields.
`retDecision` is regenerated from `definition.rs`: if the decision is taken from the *rendered*
annotation again (the defect repaired by the fix of this property), `annotate_inert_fun` no longer
holds and its proof fails.  The translator also refuses any use of the option that is not one of
the modelled guards, and any mention of it outside the generate stage (`verdict_independent`).
-/
import MambaVerif.Model.Annotate

namespace MV.C11

open MV

/-- **annotate_inert** for functions: same program once annotations are erased -/
theorem annotate_inert_fun (f : FunIn) : (convFun true f).erase = (convFun false f).erase := by
  simp [convFun, FunOut.erase, retDecision]

/-- the option never changes what a function body does: the implicit return is decided alike -/
theorem return_decision_inert (f : FunIn) : (convFun true f).lastIsReturn = (convFun false f).lastIsReturn := by
  simp [convFun, retDecision]

/-- switched off, no variable, argument or return annotation is emitted -/
theorem off_emits_no_annotation (v : VarIn) (a : ArgIn) (f : FunIn) :
    varDefTy false v = none ∧ funArgTy false a = none ∧ (convFun false f).ret = none := by
  refine ⟨?_, ?_, ?_⟩
  · unfold varDefTy; simp; split <;> rfl
  · simp [funArgTy]
  · simp [convFun]

/-- switched on, a declared type is rendered (unless suppressed by `expand_ty` / tuple literal / self) -/
theorem on_emits_declared (v : VarIn) (t : Nat) (h1 : v.tyDeclared = some t) (h2 : v.expandTy = true)
    (h3 : v.isTupleLiteral = false) : varDefTy true v = some t := by
  simp [varDefTy, h1, h2, h3]

/-- the decision that repaired the defect of this property is the one in the tree -/
theorem ret_decision_is_declared : retDecision = .declared := by decide

/-! Non-vacuity: a function with a declared return type returns its last expression either way. -/
example : (convFun false ⟨some 1, [⟨false, true, some 2⟩]⟩).lastIsReturn = true
    ∧ (convFun true ⟨some 1, [⟨false, true, some 2⟩]⟩).lastIsReturn = true := by decide

end MV.C11
