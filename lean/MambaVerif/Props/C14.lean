/-
C14 — Layout trivia never changes meaning (lexer level).

The theorems are in *suffix form*: at any point where the lexer starts a new `into_tokens` call
(a token boundary), in ANY lexer state `st` (with its invariants) and for ANY remaining text `r`,
the listed trivia is inert for what the parser consumes: token kinds and texts with comments
filtered out (`parse/mod.rs`), positions ignored (they necessarily shift).  The parser's own
insensitivity to the number of NL tokens and the lifting to arbitrary insertion points inside a
program are covered by the correspondence and the end-to-end metamorphic oracle (see DESIGN.md).
-/
import MambaVerif.Lemmas.LexStep

namespace MV.C14

open MV

/-- what the parser consumes of a run from a configuration to the end of input -/
def consumed (r : LexRes (List Lex × LState)) : LexRes (List Tok) :=
  match r with
  | .ok (toks, st) => .ok (noComments (shapes toks ++ shapes st.flushIndents))
  | .err p => .err p
  | .panic n => .panic n

/-- equal verdict and equal consumed stream (error carets may shift) -/
def SameForParser (a b : LexRes (List Lex × LState)) : Prop :=
  match consumed a, consumed b with
  | .ok x, .ok y => x = y
  | .err _, .err _ => True
  | .panic m, .panic n => m = n
  | _, _ => False

theorem flush_shape {s1 s2 : LState} (h : s1.sh = s2.sh) : shapes s1.flushIndents = shapes s2.flushIndents := by
  have hc : s1.curIndent = s2.curIndent := congrArg LState.Sh.curIndent h
  simp [LState.flushIndents, hc]

theorem sameForParser_of_runShEq {a b : LexRes (List Lex × LState)} (h : RunShEq a b) : SameForParser a b := by
  cases a <;> cases b <;> simp_all [RunShEq, SameForParser, consumed]
  rename_i x y
  obtain ⟨t1, s1⟩ := x; obtain ⟨t2, s2⟩ := y
  simp [flush_shape h.2.1]

/-- CRLF: `\r\n` is lexed exactly like `\n` (tokens *and* positions identical). -/
theorem crlf_inert (nested : List Char → LexRes (List Lex)) (r : List Char) (st : LState) :
    run nested ('\r' :: '\n' :: r) 0 st = run nested ('\n' :: r) 0 st := by
  rw [run_cons_tok (classify_crlf nested st.pos r), token_nl, run_nl]
  simp [run]

theorem nlInv_newline {st : LState} (h : NLInv st) : NLInv st.newline := by
  intro l hl
  simp only [LState.newline, List.mem_append, List.mem_singleton] at hl
  rcases hl with hl | hl
  · exact h l hl
  · rw [hl]; rfl

/-- Trailing spaces before a line end (also on a whitespace-only line) are inert. -/
theorem trailing_space_inert (nested : List Char → LexRes (List Lex)) (r : List Char) (st : LState)
    (h : NLInv st) :
    SameForParser (run nested (' ' :: '\n' :: r) 0 st) (run nested ('\n' :: r) 0 st) := by
  apply sameForParser_of_runShEq
  rw [run_sp, run_nl, run_nl]
  apply run_shape
  · simp [LState.sh, LState.newline, LState.space]
  · exact nlInv_newline (st := st.space) h
  · exact nlInv_newline h

/-- Trailing spaces at the very end of the input are inert. -/
theorem trailing_space_eof_inert (nested : List Char → LexRes (List Lex)) (st : LState) :
    SameForParser (run nested [' '] 0 st) (run nested [] 0 st) := by
  rw [run_sp]
  simp [run, SameForParser, consumed, LState.flushIndents, LState.space]

/-- A final newline is inert: pending newlines are never flushed at end of input. -/
theorem final_newline_inert (nested : List Char → LexRes (List Lex)) (st : LState) :
    SameForParser (run nested ['\n'] 0 st) (run nested [] 0 st) := by
  rw [run_nl]
  simp [run, SameForParser, consumed, LState.flushIndents, LState.newline]

/-- the lexer state in the middle of a line, after a token -/
def MidLine (st : LState) : Prop :=
  st.tokenThisLine = true ∧ st.newlines = [] ∧ st.curIndent = st.lineIndent

theorem takeWhile_comment (cmt r : List Char) (h : ∀ d ∈ cmt, d ≠ '\n' ∧ d ≠ '\r') :
    List.takeWhile (fun d => d != '\n' && d != '\r') (cmt ++ '\n' :: r) = cmt := by
  induction cmt with
  | nil => simp
  | cons x xs ih =>
    have hx := h x (by simp)
    simp only [List.cons_append]
    rw [List.takeWhile_cons_of_pos (by simp [hx.1, hx.2])]
    rw [ih (fun d hd => h d (by simp [hd]))]

/-- state after a trailing comment -/
def afterComment (st : LState) (cmt : List Char) : LState :=
  { st with newlines := [], tokenThisLine := true, curIndent := st.lineIndent,
            pos := st.pos.advanceOver ('#' :: cmt) }

/-- A trailing comment after a token on the same line is inert (comments are filtered before parsing). -/
theorem trailing_comment_inert (nested : List Char → LexRes (List Lex)) (cmt r : List Char) (st : LState)
    (hm : MidLine st) (hc : ∀ d ∈ cmt, d ≠ '\n' ∧ d ≠ '\r') :
    SameForParser (run nested ('#' :: cmt ++ '\n' :: r) 0 st) (run nested ('\n' :: r) 0 st) := by
  obtain ⟨h1, h2, h3⟩ := hm
  have hl : st.layout = [] := by simp [LState.layout, h2, h3]
  have e1 : run nested ('#' :: cmt ++ '\n' :: r) 0 st =
      prepend [Lex.new st.pos ⟨.Comment, '#' :: cmt⟩ []] (run nested ('\n' :: r) 0 (afterComment st cmt)) := by
    rw [List.cons_append, run_cons_tok (classify_hash nested st.pos _), takeWhile_comment cmt r hc, run_skip]
    simp [LState.token, hl, afterComment]
  rw [e1]
  have hsh : RunShEq (run nested ('\n' :: r) 0 (afterComment st cmt)) (run nested ('\n' :: r) 0 st) := by
    apply run_shape
    · simp [LState.sh, afterComment, h1, h2, h3]
    · intro l hl'; simp [afterComment] at hl'
    · intro l hl'; simp [h2] at hl'
  revert hsh
  cases run nested ('\n' :: r) 0 (afterComment st cmt) <;>
    cases run nested ('\n' :: r) 0 st <;> intro hsh <;>
    simp_all [RunShEq, SameForParser, consumed, prepend]
  rename_i x y
  obtain ⟨t1, s1⟩ := x; obtain ⟨t2, s2⟩ := y
  have hf := flush_shape hsh.2.1
  have h1' := hsh.1
  simp only [shapes] at hf h1' ⊢
  simp [noComments, Lex.shape, Lex.new, Lex.tok]
  rw [hf, h1']

end MV.C14
