/-
C15 — renaming user identifiers commutes with transpilation.

What is proved here, for every name (no bound on length or spelling):

* `identifier_lexed_uniformly`: the lexer's character dispatch treats every legal name the same
  way: it yields an `Id` token whose payload is the whole spelling and consumes exactly the name;
  nothing but the keyword table can distinguish two names (`rename_preserves_token`).
* `id_payload_chars`: conversely an `Id` token only ever carries identifier characters, so the
  shadowing key `x@1` built by `format_var_map` (separator regenerated from builder.rs) can never
  coincide with a user-chosen name, and the key is injective in (name, offset)
  (`shadow_key_not_a_name`, `shadow_key_injective`).
* `fun_name_commutes`, `type_name_commutes`: the two spelling-indexed tables of the generate
  stage (regenerated from definition.rs and clss/mod.rs) are the identity outside their keys, so
  they commute with every renaming that avoids the keys.
* `undocumented_function_specials`, `type_table_collisions`: which keys are *not* documented
  language names — these are exactly the recorded known findings of this property (a definition
  named `size`, and the type table being applied to user names such as `Slice`/`slice`).

The end-to-end statement (verdict and output of `mamba_to_python`) is decided by the metamorphic
oracle of tools/props/c15.py on the implementation.
-/
import MambaVerif.Model.Lex
import MambaVerif.Generated.NameTables
import MambaVerif.Lemmas.LexBasic
import Std.Data.String.ToNat

namespace MV.C15
open MV

/-- a legal user-chosen name: identifier start, identifier characters, not a keyword -/
structure Legal (c : Char) (more : List Char) : Prop where
  start : isIdStart c = true
  chars : ∀ d ∈ more, isIdChar d = true
  notKw : keywordTable.lookup (c :: more) = none

theorem takeWhile_stop {α} (p : α → Bool) (a b : List α) (ha : ∀ x ∈ a, p x = true)
    (hb : ∀ x ∈ b.head?, p x = false) : (a ++ b).takeWhile p = a := by
  induction a with
  | nil =>
    cases b with
    | nil => rfl
    | cons x xs => simp [hb x (by simp)]
  | cons x xs ih =>
    simp only [List.cons_append, List.takeWhile]
    rw [ha x (by simp)]
    simp only []
    rw [ih (fun y hy => ha y (List.mem_cons_of_mem _ hy))]

theorem idStart_not_digit (c : Char) (h : isIdStart c = true) : c.isDigit = false := by
  unfold isIdStart at h
  cases hd : c.isDigit with
  | false => rfl
  | true =>
    exfalso
    simp only [Bool.or_eq_true, decide_eq_true_eq] at h
    rcases h with h | h
    · simp only [Char.isAlpha, Char.isUpper, Char.isLower, Char.isDigit, Bool.or_eq_true, Bool.and_eq_true,
        decide_eq_true_eq] at h hd
      have e1 : '0'.val.toNat = 48 := rfl
      have e2 : '9'.val.toNat = 57 := rfl
      have e3 : 'A'.val.toNat = 65 := rfl
      have e4 : 'Z'.val.toNat = 90 := rfl
      have e5 : 'a'.val.toNat = 97 := rfl
      have e6 : 'z'.val.toNat = 122 := rfl
      simp only [UInt32.le_iff_toNat_le] at h hd
      omega
    · subst h; revert hd; decide

/-- The character dispatch on a legal name followed by a non-identifier character (or the end of
    the text): an `Id` token carrying the whole spelling; exactly the name is consumed. -/
theorem identifier_lexed_uniformly (nested : List Char → LexRes (List Lex)) (pos : CaretPos)
    (c : Char) (more tail : List Char) (h : Legal c more)
    (htail : ∀ d ∈ tail.head?, isIdChar d = false) :
    classify nested pos c (more ++ tail) = .tok ⟨.Id, c :: more⟩ [] more.length := by
  have hs := h.start
  unfold classify
  simp only []
  repeat (rw [if_neg (by intro e; subst e; revert hs; decide)])
  rw [idStart_not_digit c hs]
  simp only [Bool.false_eq_true, if_false]
  rw [if_pos hs, takeWhile_stop isIdChar more tail h.chars htail]
  unfold asOpOrId
  rw [h.notKw]

/-- Renaming: two legal names in the same context give the same kind of token, each carrying its
    own spelling — the lexer cannot tell them apart in any other way. -/
theorem rename_preserves_token (nested : List Char → LexRes (List Lex)) (pos : CaretPos)
    (c c' : Char) (more more' tail : List Char) (h : Legal c more) (h' : Legal c' more')
    (htail : ∀ d ∈ tail.head?, isIdChar d = false) :
    classify nested pos c (more ++ tail) = .tok ⟨.Id, c :: more⟩ [] more.length ∧
    classify nested pos c' (more' ++ tail) = .tok ⟨.Id, c' :: more'⟩ [] more'.length :=
  ⟨identifier_lexed_uniformly nested pos c more tail h htail,
   identifier_lexed_uniformly nested pos c' more' tail h' htail⟩

theorem keywordTable_not_id : ∀ p ∈ keywordTable, p.2 ≠ Kind.Id := by decide

theorem numTok_not_id (s : NumScan) : (numTok s).kind ≠ .Id := by
  unfold numTok
  split
  · show Kind.ENum ≠ Kind.Id; decide
  · split
    · show Kind.Real ≠ Kind.Id; decide
    · show Kind.Int ≠ Kind.Id; decide

theorem asOpOrId_id (s : List Char) (h : (asOpOrId s).kind = .Id) : (asOpOrId s).text = s := by
  unfold asOpOrId at h ⊢
  split
  · rename_i k hk
    rw [hk] at h
    exact absurd h (keywordTable_not_id _ (lookup_mem _ _ _ hk))
  · rfl

theorem mem_takeWhile_p {α} (p : α → Bool) (l : List α) (x : α) (h : x ∈ l.takeWhile p) : p x = true := by
  induction l with
  | nil => simp at h
  | cons y ys ih =>
    simp only [List.takeWhile] at h
    cases hp : p y with
    | false => rw [hp] at h; simp at h
    | true =>
      rw [hp] at h
      rcases List.mem_cons.mp h with e | e
      · rw [e]; exact hp
      · exact ih e

theorem id_arm (c : Char) (rest : List Char) (hc : isIdStart c = true)
    (hk : (asOpOrId (c :: rest.takeWhile isIdChar)).kind = .Id) :
    (asOpOrId (c :: rest.takeWhile isIdChar)).text ≠ [] ∧
      ∀ d ∈ (asOpOrId (c :: rest.takeWhile isIdChar)).text, isIdChar d = true := by
  rw [asOpOrId_id _ hk]
  refine ⟨by simp, ?_⟩
  intro d hd
  rcases List.mem_cons.mp hd with e | e
  · subst e; unfold isIdChar; unfold isIdStart at hc
    simp only [Bool.or_eq_true] at hc ⊢; exact Or.inl hc
  · exact mem_takeWhile_p _ _ _ e

/-- An `Id` token carries only identifier characters, and is never empty. -/
theorem id_payload_chars (nested : List Char → LexRes (List Lex)) (pos : CaretPos) (c : Char)
    (rest : List Char) (t : Tok) (nest : List (List Lex)) (n : Nat)
    (h : classify nested pos c rest = .tok t nest n) (hk : t.kind = .Id) :
    t.text ≠ [] ∧ ∀ d ∈ t.text, isIdChar d = true := by
  unfold classify at h
  simp only [] at h
  repeat (
    rcases ite_elim h with ⟨hc, h⟩ | ⟨-, h⟩
    · (repeat' split at h)
      all_goals first
        | (injection h with h1 h2 h3; subst h1
           first
             | (exfalso; revert hk; decide)
             | (exfalso; exact numTok_not_id _ hk)
             | (exfalso; revert hk; show Kind.Comment = Kind.Id → False; decide)
             | (exfalso; revert hk; show Kind.Str = Kind.Id → False; decide)
             | exact id_arm _ _ hc hk)
        | (exact absurd h (by simp)))
  exact absurd h (by simp)

/-- `format_var_map` of builder.rs (separator regenerated) -/
def shadowKey (var : List Char) (offset : Nat) : List Char :=
  if offset = 0 then var else var ++ shadowSep ++ (toString offset).toList

theorem shadowSep_not_id : ∀ d ∈ shadowSep, isIdChar d = false := by decide
theorem shadowSep_nonempty : shadowSep ≠ [] := by decide

/-- A shadowing key with a non-zero offset is never the spelling of an identifier token: user
    names cannot collide with the checker's internal `x@1` names. -/
theorem shadow_key_not_a_name (var name : List Char) (offset : Nat) (ho : offset ≠ 0)
    (hname : ∀ d ∈ name, isIdChar d = true) : shadowKey var offset ≠ name := by
  intro e
  unfold shadowKey at e
  rw [if_neg ho] at e
  cases hs : shadowSep with
  | nil => exact shadowSep_nonempty hs
  | cons s ss =>
    have hmem : s ∈ name := by rw [← e, hs]; simp
    have := shadowSep_not_id s (by rw [hs]; simp)
    rw [hname s hmem] at this
    exact absurd this (by simp)

theorem split_at_sep (v v' r r' : List Char) (hv : ∀ d ∈ v, isIdChar d = true)
    (hv' : ∀ d ∈ v', isIdChar d = true) (h : v ++ shadowSep ++ r = v' ++ shadowSep ++ r') :
    v = v' ∧ r = r' := by
  obtain ⟨s, ss, hs⟩ : ∃ s ss, shadowSep = s :: ss := by
    cases hs : shadowSep with
    | nil => exact absurd hs shadowSep_nonempty
    | cons s ss => exact ⟨s, ss, rfl⟩
  have hsep : isIdChar s = false := shadowSep_not_id s (by rw [hs]; simp)
  induction v generalizing v' with
  | nil =>
    cases v' with
    | nil => exact ⟨rfl, by simpa using h⟩
    | cons x xs =>
      exfalso
      rw [hs] at h
      simp only [List.nil_append, List.cons_append, List.cons.injEq] at h
      have := hv' x (by simp)
      rw [← h.1, hsep] at this
      exact absurd this (by simp)
  | cons y ys ih =>
    cases v' with
    | nil =>
      exfalso
      rw [hs] at h
      simp only [List.nil_append, List.cons_append, List.cons.injEq] at h
      have := hv y (by simp)
      rw [h.1, hsep] at this
      exact absurd this (by simp)
    | cons x xs =>
      simp only [List.cons_append, List.cons.injEq] at h
      obtain ⟨e1, e2⟩ := ih xs (fun d hd => hv d (List.mem_cons_of_mem _ hd))
        (fun d hd => hv' d (List.mem_cons_of_mem _ hd)) (by simpa using h.2)
      exact ⟨by rw [h.1, e1], e2⟩

/-- The shadowing key is injective in (name, offset): two different variables, or two different
    shadowing generations of one variable, never share a key. -/
theorem shadow_key_injective (v v' : List Char) (o o' : Nat)
    (hv : ∀ d ∈ v, isIdChar d = true) (hv' : ∀ d ∈ v', isIdChar d = true)
    (h : shadowKey v o = shadowKey v' o') : v = v' ∧ o = o' := by
  by_cases ho : o = 0
  · by_cases ho' : o' = 0
    · subst ho; subst ho'; exact ⟨by simpa [shadowKey] using h, rfl⟩
    · exfalso
      have e : shadowKey v o = v := by simp [shadowKey, ho]
      exact shadow_key_not_a_name v' v o' ho' hv (by rw [← h, e])
  · by_cases ho' : o' = 0
    · exfalso
      have e : shadowKey v' o' = v' := by simp [shadowKey, ho']
      exact shadow_key_not_a_name v v' o ho hv' (by rw [h, e])
    · unfold shadowKey at h
      rw [if_neg ho, if_neg ho'] at h
      obtain ⟨e1, e2⟩ := split_at_sep v v' _ _ hv hv' h
      refine ⟨e1, ?_⟩
      have : toString o = toString o' := String.toList_inj.mp e2
      exact Nat.repr_injective this

end MV.C15

namespace MV.C15
open MV

/-- `match spelling { key => value, …, other => other }` -/
def armLookup (arms : List (String × String)) (s : String) : String := (arms.lookup s).getD s

/-- name of an emitted function definition (`definition.rs`, FunDef arm) -/
def genFunName : String → String := armLookup funDefNameArms
/-- `concrete_to_python`, applied to every identifier the generator converts -/
def genTypeName : String → String := armLookup typeNameArms

/-- Outside the keys of its table a spelling-indexed renaming commutes with every renaming of
    user names that avoids the keys. -/
theorem arm_commutes (arms : List (String × String)) (ρ : String → String) (s : String)
    (h1 : arms.lookup s = none) (h2 : arms.lookup (ρ s) = none) :
    armLookup arms (ρ s) = ρ (armLookup arms s) := by
  unfold armLookup; rw [h1, h2]; rfl

theorem fun_name_commutes (ρ : String → String) (s : String)
    (h1 : funDefNameArms.lookup s = none) (h2 : funDefNameArms.lookup (ρ s) = none) :
    genFunName (ρ s) = ρ (genFunName s) := arm_commutes _ ρ s h1 h2

theorem type_name_commutes (ρ : String → String) (s : String)
    (h1 : typeNameArms.lookup s = none) (h2 : typeNameArms.lookup (ρ s) = none) :
    genTypeName (ρ s) = ρ (genTypeName s) := arm_commutes _ ρ s h1 h2

/-- a key that is mapped to itself is not observable -/
def effective (arms : List (String × String)) : List (String × String) := arms.filter (fun p => p.1 != p.2)

theorem arm_identity_off_effective (arms : List (String × String)) (s : String)
    (h : ∀ p ∈ effective arms, p.1 ≠ s) :
    armLookup arms s = s := by
  unfold armLookup
  cases hl : arms.lookup s with
  | none => rfl
  | some v =>
    have hm := lookup_mem _ _ _ hl
    simp only [Option.getD]
    apply Classical.byContradiction
    intro hne
    have : (s, v) ∈ effective arms := by
      unfold effective
      rw [List.mem_filter]
      refine ⟨hm, ?_⟩
      simp only [bne_iff_ne, ne_eq]
      exact fun e => hne e.symm
    exact h _ this rfl

/-- Function names the language documents as special (constructor, operator methods are handled
    by `CoreFunOp::from`, property C17). -/
def documentedFunNames : List String := ["__init__", "init"]
/-- Type names of the language (`check/context/clss/mod.rs` constants that name a built-in type):
    they are not user-chosen names. -/
def languageTypes : List String :=
  ["Int", "Float", "Str", "Bool", "Complex", "Collection", "Range", "Slice", "Set", "List", "Tuple",
   "Dict", "Callable", "None", "Exception", "Union", "Any"]

/-- WITNESS (known finding `method-named-size`): the function-name table renames a spelling the
    language does not document — a definition called `size` is emitted as `__size__` while its
    call sites keep `size`. -/
theorem undocumented_function_specials :
    ((effective funDefNameArms).map (·.1)).filter (fun s => !documentedFunNames.contains s) = ["size"] := by
  decide

/-- WITNESS (known finding `type-table-on-user-names`): the type-name table is applied to every
    identifier, and it is not injective on names a user may choose: the user names `Slice` and
    `slice` are both emitted as `slice`; `Enum` is not a language type yet it is rewritten. -/
theorem type_table_collisions :
    genTypeName "Slice" = genTypeName "slice" ∧ "Slice" ≠ "slice" ∧
    ((effective typeNameArms).map (·.1)).filter (fun s => !languageTypes.contains s) = ["Enum"] := by
  decide

/-- Apart from the witnesses above, every name is emitted unchanged by both tables. -/
theorem ordinary_names_unchanged (s : String) (h1 : s ≠ "size")
    (h2 : ∀ p ∈ effective typeNameArms, p.1 ≠ s) : genFunName s = s ∧ genTypeName s = s := by
  constructor
  · apply arm_identity_off_effective
    · intro p hp
      have : p ∈ [("size", "__size__")] := by
        have e : effective funDefNameArms = [("size", "__size__")] := by decide
        rw [← e]; exact hp
      simp only [List.mem_singleton] at this
      subst this; exact fun e => h1 e.symm
  · exact arm_identity_off_effective _ _ h2

/-- non-vacuity: an ordinary name meets the hypotheses -/
example : genFunName "total_count" = "total_count" ∧ genTypeName "total_count" = "total_count" :=
  ordinary_names_unchanged "total_count" (by decide) (by decide)

example : Legal 's' "ize".toList := ⟨by decide, by decide, by decide⟩
example : Legal 'm' "ath".toList := ⟨by decide, by decide, by decide⟩

end MV.C15
