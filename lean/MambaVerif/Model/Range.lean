/-
Ranges: the desugaring of `generate/convert/range_slice.rs` (end adjustment and default step are
regenerated from the source), Python's `range(a, b, s)` and the documented meaning of
`lo .. hi` (exclusive) / `lo ..= hi` (inclusive) with a step, both as fuel-indexed enumerations.
-/
import MambaVerif.Generated.ConvertTables

namespace MV

/-- the end argument of the emitted `range(from, end, step)` -/
def rangeEnd (hi : Int) (incl : Bool) : Int :=
  if incl = rangeAdjustWhenInclusive then hi + rangeAdjust else hi

/-- CPython `range(i, b, s)`: ascending while `< b` for a positive step, descending while `> b` for a negative one -/
def pyRange : Nat → Int → Int → Int → List Int
  | 0, _, _, _ => []
  | fuel + 1, i, b, s =>
    if s > 0 then (if i < b then i :: pyRange fuel (i + s) b s else [])
    else if s < 0 then (if i > b then i :: pyRange fuel (i + s) b s else [])
    else []

/-- the documented meaning: start at `lo`, advance by `step`, up to `hi` excluded / included -/
def srcRange : Nat → Int → Int → Bool → Int → List Int
  | 0, _, _, _, _ => []
  | fuel + 1, i, hi, incl, s =>
    if s > 0 then (if (if incl then i ≤ hi else i < hi) then i :: srcRange fuel (i + s) hi incl s else [])
    else if s < 0 then (if (if incl then i ≥ hi else i > hi) then i :: srcRange fuel (i + s) hi incl s else [])
    else []

/-- text of the emitted arguments for literal bounds (compared with the implementation's output) -/
def rangeArgsText (lo hi : Int) (incl : Bool) (step : Int) : String :=
  let hiT := if incl = rangeAdjustWhenInclusive then
      s!"{hi} {if rangeAdjust ≥ 0 then "+" else "-"} {rangeAdjust.natAbs}" else s!"{hi}"
  s!"{lo}, {hiT}, {step}"

end MV
