/-
S-expressions: the wire format for trees between generators, harness and driver.
`(Tag field ...)`; atoms are bare words or "quoted strings" with \" \\ \n escapes.
-/
namespace MV

inductive Sexp where
  | atom (s : String)
  | str (s : String)
  | list (xs : List Sexp)
  deriving Inhabited, Repr

namespace Sexp

def isWordChar (c : Char) : Bool := !(c = ' ' || c = '(' || c = ')' || c = '"' || c = '\n' || c = '\t')

/-- read a quoted string body (after the opening quote); returns (chars, rest after closing quote) -/
def readStr : List Char → List Char → Option (List Char × List Char)
  | [], _ => none
  | '"' :: rest, acc => some (acc.reverse, rest)
  | '\\' :: 'n' :: rest, acc => readStr rest ('\n' :: acc)
  | '\\' :: c :: rest, acc => readStr rest (c :: acc)
  | c :: rest, acc => readStr rest (c :: acc)

mutual
/-- parse one S-expression with fuel -/
def parseOne : Nat → List Char → Option (Sexp × List Char)
  | 0, _ => none
  | _, [] => none
  | n + 1, c :: rest =>
    if c = ' ' || c = '\n' || c = '\t' then parseOne n rest
    else if c = '(' then
      match parseMany n rest [] with
      | some (xs, rest') => some (.list xs, rest')
      | none => none
    else if c = ')' then none
    else if c = '"' then
      match readStr rest [] with
      | some (s, rest') => some (.str (String.ofList s), rest')
      | none => none
    else
      let w := (c :: rest).takeWhile isWordChar
      some (.atom (String.ofList w), (c :: rest).drop w.length)
/-- parse elements up to the closing parenthesis -/
def parseMany : Nat → List Char → List Sexp → Option (List Sexp × List Char)
  | 0, _, _ => none
  | _, [], _ => none
  | n + 1, c :: rest, acc =>
    if c = ' ' || c = '\n' || c = '\t' then parseMany n rest acc
    else if c = ')' then some (acc.reverse, rest)
    else
      match parseOne n (c :: rest) with
      | some (x, rest') => parseMany n rest' (x :: acc)
      | none => none
end

def parse (s : String) : Option Sexp :=
  let cs := s.toList
  match parseOne (2 * cs.length + 2) cs with
  | some (x, _) => some x
  | none => none

end Sexp
end MV
