/-
Model of the checker's type names and of the "may be used where" relation:
`check/name/{mod,true_name/mod,string_name/mod}.rs` (`is_superset_of`, `union`, `is_empty`, …) and
`check/context/clss/mod.rs` (`Context::class`, `has_parent` for `&StringName` and `&Name`).

Hash sets are duplicate-free lists; every answer is shown invariant under their order (C12/C20).
`R.err` is a `TypeErr` (undefined class, generic arity mismatch); `R.fuel` is the model running out
of recursion fuel (never for fuel ≥ depth of the class table + depth of the type).
-/
import MambaVerif.Model.Sexp

namespace MV

mutual
/-- `TrueName`: flags and the `StringName` variant (base name + generic arguments) -/
inductive TName where
  | mk (nullable mutable : Bool) (base : String) (generics : List NameT)
/-- `Name`: a set of `TrueName`s and the interchangeable flag -/
inductive NameT where
  | mk (inter : Bool) (names : List TName)
end

instance : Inhabited TName := ⟨.mk false true "" []⟩
instance : Inhabited NameT := ⟨.mk false []⟩

namespace TName
def nullable : TName → Bool | mk n _ _ _ => n
def mutable : TName → Bool | mk _ m _ _ => m
def base : TName → String | mk _ _ b _ => b
def generics : TName → List NameT | mk _ _ _ g => g
end TName
namespace NameT
def inter : NameT → Bool | mk i _ => i
def names : NameT → List TName | mk _ ns => ns
end NameT

def sortDedup (xs : List String) : List String :=
  let sorted := xs.mergeSort (fun a b => a ≤ b)
  sorted.foldr (fun x acc => match acc with | y :: _ => if x == y then acc else x :: acc | [] => [x]) []

mutual
/-- canonical text of a `TrueName` (members of nested names sorted): equality of keys is `Eq` of the Rust values -/
def TName.key : TName → String
  | .mk n m b gs => (if n then "?" else "!") ++ (if m then "m" else "f") ++ b ++ "[" ++ NameT.keyList gs ++ "]"
/-- canonical text of a `Name`: the set of member keys (`PartialEq` ignores the interchangeable flag) -/
def NameT.key : NameT → String
  | .mk _ ns => "{" ++ ",".intercalate (sortDedup (TName.keyList ns)) ++ "}"
def NameT.keyList : List NameT → String
  | [] => ""
  | x :: xs => NameT.key x ++ ";" ++ NameT.keyList xs
def TName.keyList : List TName → List String
  | [] => []
  | x :: xs => TName.key x :: TName.keyList xs
end

def TName.beq (a b : TName) : Bool := a.key == b.key
def NameT.beq (a b : NameT) : Bool := a.key == b.key
def TName.memList (t : TName) (xs : List TName) : Bool := xs.any (fun x => TName.beq t x)

/-- equality of the `StringName` variants (flags ignored) -/
def TName.variantKey (t : TName) : String := t.base ++ "[" ++ NameT.keyList t.generics ++ "]"
def TName.sameVariant (a b : TName) : Bool := a.variantKey == b.variantKey

/-- `StringName::is_empty`: the empty name `()` or a tuple without elements -/
def TName.isEmpty (t : TName) : Bool := (t.base == "()" && t.generics.isEmpty) || (t.base == "Tuple" && t.generics.isEmpty)
def TName.isNull (t : TName) : Bool := t.base == "None"
/-- `Name::is_empty` -/
def NameT.isEmpty (n : NameT) : Bool := n.names.all TName.isEmpty

def dedupT : List TName → List TName
  | [] => []
  | x :: xs => if TName.memList x xs then dedupT xs else x :: dedupT xs

/-- `Name::union` -/
def NameT.union (a b : NameT) : NameT :=
  let names := dedupT (a.names ++ b.names)
  let names :=
    if names.any TName.isNull && names.length > 1 then
      dedupT ((names.filter (fun n => !n.isNull)).map (fun n => TName.mk true n.mutable n.base n.generics))
    else names
  .mk (a.inter || b.inter) names

/-- a class of the context: base name, generic placeholders, direct parents -/
structure ClassE where
  name : String
  params : List NameT
  parents : List TName
  deriving Inhabited

abbrev Tbl := List ClassE

/-- answer of a query: a boolean, a type error, or the model's fuel exhausted -/
inductive R where
  | ok (b : Bool)
  | err
  | fuel
  deriving DecidableEq, Repr, Inhabited

/-- all results (in any order): an error or fuel exhaustion wins, else the booleans -/
def collectR : List R → Except R (List Bool)
  | [] => .ok []
  | .ok b :: rs => match collectR rs with | .ok bs => .ok (b :: bs) | .error e => .error e
  | .err :: rs => match collectR rs with | .error .fuel => .error .fuel | _ => .error .err
  | .fuel :: _ => .error .fuel

/-- substitution map: placeholder name ↦ argument -/
abbrev Subst := List (NameT × NameT)

def Subst.find (m : Subst) (key : NameT) : Option NameT :=
  match m.find? (fun p => NameT.beq p.1 key) with
  | some p => some p.2
  | none => none

def dedupVariants : List TName → List TName
  | [] => []
  | x :: xs => if xs.any (fun y => TName.sameVariant x y) then dedupVariants xs else x :: dedupVariants xs

mutual
/-- `TrueName::substitute` / `StringName::substitute`; `none` is the error "cannot substitute type union ()" -/
def TName.subst (m : Subst) : TName → Option TName
  | .mk n mu b gs =>
    match m.find (.mk false [.mk false true b gs]) with
    | some arg =>
      match dedupVariants arg.names with
      | [] => none
      | [one] => some (.mk n mu one.base one.generics)
      | many => some (.mk n mu "Union" (many.map fun t => NameT.mk false [.mk false true t.base t.generics]))
    | none =>
      match NameT.substList m gs with
      | some gs' => some (.mk n mu b gs')
      | none => none
def NameT.subst (m : Subst) : NameT → Option NameT
  | .mk i ns =>
    match TName.substList m ns with
    | some ns' => some (.mk i ns')
    | none => none
def NameT.substList (m : Subst) : List NameT → Option (List NameT)
  | [] => some []
  | x :: xs =>
    match NameT.subst m x, NameT.substList m xs with
    | some x', some xs' => some (x' :: xs')
    | _, _ => none
def TName.substList (m : Subst) : List TName → Option (List TName)
  | [] => some []
  | x :: xs =>
    match TName.subst m x, TName.substList m xs with
    | some x', some xs' => some (x' :: xs')
    | _, _ => none
end

/-- a concrete class: its substituted name (as a non-nullable mutable `TName`) and parents -/
structure ClassC where
  self : TName
  parents : List TName
  deriving Inhabited

def zipSubst : List NameT → List NameT → Option Subst
  | [], [] => some []
  | p :: ps, a :: as => match zipSubst ps as with | some m => some ((p, a) :: m) | none => none
  | _, _ => none

def tupleParams (n : Nat) : List NameT :=
  (List.range n).map fun i => NameT.mk false [.mk false true ("G" ++ toString i) []]

/-- `Context::class(&StringName)`: find the generic class, substitute the generics, and look the
    parents up as well (the real code inherits their members; only failure matters here). -/
def classOf (tbl : Tbl) : Nat → TName → Except R ClassC
  | 0, _ => .error .fuel
  | fuel + 1, t =>
    match tbl.find? (fun c => c.name == t.base) with
    | none => .error .err
    | some c =>
      -- tuples have a variable number of generics G0 … Gn; their parents keep the placeholder of the
      -- definition and are not looked up
      let params := if t.base == "Tuple" then tupleParams t.generics.length else c.params
      match zipSubst params t.generics with
      | none => .error .err
      | some m =>
        match TName.substList m c.parents, NameT.substList m params with
        | some ps, some gs =>
          if t.base == "Tuple" then .ok ⟨.mk false true t.base gs, ps⟩
          else
            match collectR (ps.map fun p => match classOf tbl fuel p with | .ok _ => R.ok true | .error e => e) with
            | .ok _ => .ok ⟨.mk false true t.base gs, ps⟩
            | .error e => .error e
        | _, _ => .error .err

def anyName (n : NameT) : Bool :=
  match n.names with
  | [t] => t.base == "Any" && t.generics.isEmpty && !t.nullable && t.mutable
  | _ => false

mutual
/-- `has_parent(&StringName)` of the class `c` -/
def hasParentS (tbl : Tbl) : Nat → ClassC → TName → R
  | 0, _, _ => .fuel
  | fuel + 1, c, target =>
    if TName.sameVariant c.self target || target.base == "Any" then .ok true
    else
      let contender :=
        (c.self.base == "Tuple" && target.base == "Collection") ||
        (c.self.base == target.base && c.self.generics.length == target.generics.length)
      let viaGenerics : R :=
        if contender then genericsSuper tbl fuel (c.self.generics.zip target.generics) else .ok false
      match viaGenerics with
      | .ok true => .ok true
      | .err => .err
      | .fuel => .fuel
      | .ok false =>
        match collectR (c.parents.map fun p =>
            match classOf tbl fuel p with
            | .ok pc => hasParentS tbl fuel pc target
            | .error e => e) with
        | .ok bs => .ok (bs.any id)
        | .error e => e
/-- every member of every generic argument of the class has the target's argument as ancestor -/
def genericsSuper (tbl : Tbl) : Nat → List (NameT × NameT) → R
  | 0, _ => .fuel
  | _, [] => .ok true
  | fuel + 1, (s, o) :: rest =>
    match collectR (s.names.map fun m =>
        match classOf tbl fuel m with
        | .ok mc => hasParentN tbl fuel mc o
        | .error e => e) with
    | .error e => e
    | .ok bs =>
      match genericsSuper tbl fuel rest with
      | .ok b => .ok (bs.all id && b)
      | e => e
/-- `has_parent(&Name)` of the class `c` -/
def hasParentN (tbl : Tbl) : Nat → ClassC → NameT → R
  | 0, _, _ => .fuel
  | fuel + 1, c, n =>
    if n.names.any (fun t => TName.sameVariant c.self t) || anyName n then .ok true
    else
      match collectR (c.parents.map fun p => match classOf tbl fuel p with | .ok _ => R.ok true | .error e => e) with
      | .error e => e
      | .ok _ =>
        (dedupVariants n.names).foldl (fun acc name =>
          match acc with
          | .ok false =>
            match collectR (c.parents.map fun p =>
                match classOf tbl fuel p with
                | .ok pc => hasParentS tbl fuel pc name
                | .error e => e) with
            | .error e => e
            | .ok bs => .ok (bs.any id)
          | other => other) (.ok false)
end

/-- `StringName::is_superset_of`: `ctx.class(other)?.has_parent(self)` -/
def variantSup (tbl : Tbl) (fuel : Nat) (s o : TName) : R :=
  match classOf tbl fuel o with
  | .ok oc => hasParentS tbl fuel oc s
  | .error e => e

/-- `TrueName::is_superset_of`, over an arbitrary relation `V` on variants -/
def tnSup (V : TName → TName → R) (s o : TName) : R :=
  if !s.isEmpty && o.isEmpty then .ok false
  else if s.nullable && o.isNull then .ok true
  else
    let nullableSuper := s.nullable || (!s.nullable && !o.nullable)
    if nullableSuper then V s o else .ok false

/-- `Name::is_superset_of`, over an arbitrary relation `V` on variants -/
def nameSup (V : TName → TName → R) (s o : NameT) : R :=
  if !s.isEmpty && o.isEmpty then .ok false
  else
    -- per member of `other`: the answers of all members of `self`
    let rec go : List TName → Bool → R
      | [], acc => .ok (if o.inter then acc else true)
      | n :: more, acc =>
        match collectR (s.names.map fun m => tnSup V m n) with
        | .error e => e
        | .ok bs =>
          if !o.inter && bs.all (fun b => !b) then .ok false
          else go more (acc || bs.any id)
    go o.names false

/-- the checker's relation on a class table -/
def isSuperset (tbl : Tbl) (fuel : Nat) (s o : NameT) : R := nameSup (variantSup tbl fuel) s o

end MV

namespace MV

/-! ### wire format -/
mutual
partial def nameOfSexp : Sexp → Option NameT
  | .list (.atom "N" :: i :: ts) => do
    let ns ← ts.mapM tnameOfSexp
    some (.mk (sexpAtom i == "1") ns)
  | _ => none
partial def tnameOfSexp : Sexp → Option TName
  | .list (.atom "T" :: n :: m :: b :: gs) => do
    let gs' ← gs.mapM nameOfSexp
    some (.mk (sexpAtom n == "1") (sexpAtom m == "1") (sexpAtom b) gs')
  | _ => none
partial def sexpAtom : Sexp → String
  | .atom s => s
  | .str s => s
  | .list _ => ""
end

def classOfSexp : Sexp → Option ClassE
  | .list [.atom "C", name, .list params, .list parents] => do
    let ps ← params.mapM nameOfSexp
    let pars ← parents.mapM tnameOfSexp
    some ⟨sexpAtom name, ps, pars⟩
  | _ => none

def R.char : R → Char
  | .ok true => '1'
  | .ok false => '0'
  | .err => 'E'
  | .fuel => 'F'

/-- `tysup` request: `(classes…) | (names…)` → `ok n matrix` -/
def tySupRequest (payload : String) : String :=
  match payload.splitOn " | " with
  | [cl, un] =>
    match Sexp.parse cl, Sexp.parse un with
    | some (.list cs), some (.list us) =>
      match cs.mapM classOfSexp, us.mapM nameOfSexp with
      | some tbl, some names =>
        let fuel := 64
        let cells := names.flatMap fun a => names.map fun b => (isSuperset tbl fuel a b).char
        s!"ok {names.length} {String.ofList cells}"
      | _, _ => "bad decode"
    | _, _ => "bad sexp"
  | _ => "bad payload"

mutual
partial def NameT.dump : NameT → String
  | .mk i ns =>
    let ms := (ns.map fun t => (TName.sortKey t, TName.dump t)).mergeSort (fun a b => a.1 ≤ b.1)
    "(N " ++ (if i then "1" else "0") ++ String.join (ms.map fun m => " " ++ m.2) ++ ")"
partial def TName.dump : TName → String
  | .mk n m b gs => "(T " ++ (if n then "1" else "0") ++ " " ++ (if m then "1" else "0") ++ " " ++ (if b.isEmpty then "\"\"" else b) ++
      String.join (gs.map fun g => " " ++ NameT.dump g) ++ ")"
/-- `Ord for TrueName`: by variant (name, then generics member-wise), then nullable, then mutable -/
partial def TName.sortKey : TName → String
  | .mk n m b gs => b ++ "\u0001" ++ String.join (gs.map fun g => NameT.sortKey g ++ "\u0002") ++ "\u0001" ++
      (if n then "1" else "0") ++ (if m then "1" else "0")
partial def NameT.sortKey : NameT → String
  | .mk _ ns => String.join (((ns.map TName.sortKey).mergeSort (fun a b => a ≤ b)).map fun k => k ++ "\u0003")
end

/-- `tyunion` request: `(names…)` → `ok dump;dump;…` for all pairs -/
def tyUnionRequest (payload : String) : String :=
  match Sexp.parse payload with
  | some (.list us) =>
    match us.mapM nameOfSexp with
    | some names => "ok " ++ ";".intercalate (names.flatMap fun a => names.map fun b => (a.union b).dump)
    | none => "bad decode"
  | _ => "bad sexp"

end MV
