/-
Model of `lib.rs::{transpile_dir, mamba_to_python}` and `io.rs::write_source` with the per-file
stages abstract: each file comes with the outcome its stages produce (given the project's context).
The file system is an association list path ↦ content; the three `partition`s of `mamba_to_python`
all precede the write loop of `transpile_dir`.
-/
namespace MV

inductive Outcome where
  | good (py : String)
  | parseErr (msg : String)          -- lexical or syntax error
  | typeErr (msgs : List String)     -- a non-empty list in the real checker
  | genErr (msg : String)
  deriving Repr, DecidableEq

structure PFile where
  rel : String                       -- path relative to the source directory, with extension `.mamba`
  outcome : Outcome
  deriving Repr, DecidableEq

abbrev FS := List (String × String)

def FS.lookup (fs : FS) (p : String) : Option String :=
  match fs.find? (fun e => e.1 = p) with
  | some e => some e.2
  | none => none

/-- `write_source`: create or truncate (the newest entry of a path is its content) -/
def FS.write (fs : FS) (p c : String) : FS := (p, c) :: fs

/-- `with_extension("py")` on a path ending in `.mamba` -/
def withPy (rel : String) : String :=
  if rel.endsWith ".mamba" then (rel.dropEnd 6).toString ++ ".py" else rel ++ ".py"

def parseErrs (files : List PFile) : List (String × String) :=
  files.filterMap fun f => match f.outcome with | .parseErr m => some (f.rel, m) | _ => none
def typeErrs (files : List PFile) : List (String × String) :=
  files.flatMap fun f => match f.outcome with | .typeErr ms => ms.map (fun m => (f.rel, m)) | _ => []
def genErrs (files : List PFile) : List (String × String) :=
  files.filterMap fun f => match f.outcome with | .genErr m => some (f.rel, m) | _ => none
def outputs (files : List PFile) : List (String × String) :=
  files.filterMap fun f => match f.outcome with | .good py => some (f.rel, py) | _ => none

/-- `mamba_to_python`: errors (file, message) of the first failing stage in file order, or all outputs -/
def pipeline (files : List PFile) (ctxErr : List String) : Except (List (String × String)) (List (String × String)) :=
  if parseErrs files ≠ [] then .error (parseErrs files)
  else if ctxErr ≠ [] then .error (ctxErr.map fun m => ("<unknown>", m))
  else if typeErrs files ≠ [] then .error (typeErrs files)
  else if genErrs files ≠ [] then .error (genErrs files)
  else .ok (outputs files)

/-- `transpile_dir`: the verdict and the output directory afterwards -/
def transpileDir (fs : FS) (files : List PFile) (ctxErr : List String) : Except (List (String × String)) Unit × FS :=
  match pipeline files ctxErr with
  | .error es => (.error es, fs)
  | .ok outs => (.ok (), outs.foldl (fun acc o => acc.write (withPy o.1) o.2) fs)

end MV
