/-
Model of how a call is checked against a declared signature: `check/constrain/generate/call.rs::
call_parameters` (and `unify/function.rs::unify_fun_arg`): parameters and arguments are walked with
`zip_longest`; a parameter without argument needs a default, an argument without parameter is an
error, and each pair must satisfy `parameter type ⊒ argument type` (`Name::is_superset_of`,
Model/Ty.lean; a nullable parameter keeps its nullability).
-/
import MambaVerif.Model.Ty

namespace MV

structure Param where
  ty : NameT
  hasDefault : Bool

inductive CallVerdict where
  | accept
  | arity          -- "Expected argument" / "Unexpected argument"
  | type           -- a type constraint fails
  deriving DecidableEq, Repr

/-- the `zip_longest` walk; type mismatches are collected as constraints and decided after the walk,
    arity errors are raised during it -/
def callWalk (sup : NameT → NameT → Bool) : List Param → List NameT → Bool → CallVerdict
  | [], [], okTypes => if okTypes then .accept else .type
  | p :: ps, [], okTypes => if p.hasDefault then callWalk sup ps [] okTypes else .arity
  | [], _ :: _, _ => .arity
  | p :: ps, a :: as, okTypes => callWalk sup ps as (okTypes && sup p.ty a)

def callCheck (sup : NameT → NameT → Bool) (ps : List Param) (args : List NameT) : CallVerdict :=
  callWalk sup ps args true

end MV

namespace MV

/-- `callconf` request: `(classes…) | ((N…) d)… | (N…)…` → accept | arity | type -/
def callConfRequest (payload : String) : String :=
  match payload.splitOn " | " with
  | [cl, ps, as] =>
    match Sexp.parse cl, Sexp.parse ("(" ++ ps ++ ")"), Sexp.parse ("(" ++ as ++ ")") with
    | some (.list cs), some (.list psx), some (.list asx) =>
      match cs.mapM classOfSexp, asx.mapM nameOfSexp with
      | some tbl, some args =>
        let params := psx.filterMap fun p =>
          match p with
          | .list [t, d] => (nameOfSexp t).map fun ty => (⟨ty, sexpAtom d == "1"⟩ : Param)
          | _ => none
        let sup := fun a b => isSuperset tbl 64 a b == .ok true
        match callCheck sup params args with
        | .accept => "accept"
        | .arity => "arity"
        | .type => "type"
      | _, _ => "bad decode"
    | _, _, _ => "bad sexp"
  | _ => "bad payload"

end MV
