/-
Model of the expression printer `generate/ast/mod.rs::to_py` (after the precedence fix):
`Core` expressions, the Python token list they are printed as, and its rendering as text.
Operator spellings, `prec`, `sides` and the ternary minima are regenerated from the Rust source.
-/
import MambaVerif.Generated.CoreTables
import MambaVerif.Model.Sexp

namespace MV

/-- the expression fragment of `generate::ast::node::Core` -/
inductive CE where
  | atom (text : String)                 -- Id, Float, Str, Bool, None, `_`: printed verbatim
  | int (text : String)
  | enum (num exp : String)
  | bin (op : BinOp) (l r : CE)
  | un (op : UnOp) (e : CE)
  | ternary (cond thn el : CE)
  | lambda (args : List CE) (body : CE)
  | call (f : CE) (args : List CE)
  | attr (obj prop : CE)                 -- PropertyCall: `prop` is printed as it is
  | index (item range : CE)
  | isA (l r : CE)
  | sqrt (e : CE)
  | tuple (es : List CE)
  | list (es : List CE)
  | set (es : List CE)
  deriving Inhabited, Repr

/-- Python tokens of the printed text -/
inductive PTok where
  | word (s : String)
  | bop (o : BinOp)
  | uop (o : UnOp)
  | lpar | rpar | lbr | rbr | lcur | rcur
  | comma | commaTight | dot | kIf | kElse | kLambda | colon | space
  deriving DecidableEq, Repr, Inhabited

/-- `prec(core)` -/
def CE.prec : CE → Nat
  | .bin op _ _ => op.prec
  | .un op _ => op.prec
  | .ternary _ _ _ => precTernary
  | .lambda _ _ => precLambda
  | _ => precAtom

def parens (ts : List PTok) : List PTok := [.lpar] ++ ts ++ [.rpar]

/-- `comma_delimited` over already printed items -/
def commaSep : List (List PTok) → List PTok
  | [] => []
  | [x] => x
  | x :: xs => x ++ [.comma] ++ commaSep xs

mutual
/-- `to_py` on expressions, as tokens -/
def pr : CE → List PTok
  | .atom s => [.word s]
  | .int s => [.word s]
  | .enum n e => parens [.word n, .bop .Mul, .word "10", .bop .Pow, .word e]
  | .bin op l r => operand l op.sides.1 ++ [.bop op] ++ operand r op.sides.2
  | .un op e => [.uop op] ++ operand e op.prec
  | .ternary c t e =>
    operand t ternaryMins.1 ++ [.kIf] ++ operand c ternaryMins.2.1 ++ [.kElse] ++ operand e ternaryMins.2.2
  | .lambda args body =>
    [.kLambda] ++ (if args.isEmpty then [] else [.space] ++ commaSep (prAll args)) ++ [.colon] ++ pr body
  | .call f args => primary f ++ [.lpar] ++ commaSep (prAll args) ++ [.rpar]
  | .attr o p => primary o ++ [.dot] ++ pr p
  | .index i r => primary i ++ [.lbr] ++ pr r ++ [.rbr]
  | .isA l r => [.word "isinstance", .lpar] ++ pr l ++ [.commaTight] ++ pr r ++ [.rpar]
  | .sqrt e => [.word "math", .dot, .word "sqrt", .lpar] ++ pr e ++ [.rpar]
  | .tuple es => [.lpar] ++ commaSep (prAll es) ++ [.rpar]
  | .list es => [.lbr] ++ commaSep (prAll es) ++ [.rbr]
  | .set es => [.lcur] ++ commaSep (prAll es) ++ [.rcur]
/-- `operand(core, ind, min)` -/
def operand (e : CE) (min : Nat) : List PTok :=
  if e.prec < min then parens (pr e) else pr e
/-- `primary(core, ind)` -/
def primary (e : CE) : List PTok :=
  match e with
  | .int s => parens [.word s]
  | e => operand e precAtom
def prAll : List CE → List (List PTok)
  | [] => []
  | e :: es => pr e :: prAll es
end

def PTok.render : PTok → String
  | .word s => s
  | .bop o => " " ++ o.spelling ++ " "
  | .uop o => o.spelling
  | .lpar => "(" | .rpar => ")" | .lbr => "[" | .rbr => "]" | .lcur => "{" | .rcur => "}"
  | .comma => ", " | .commaTight => "," | .dot => "." | .kIf => " if " | .kElse => " else "
  | .kLambda => "lambda" | .colon => ": " | .space => " "

def renderToks (ts : List PTok) : String := String.join (ts.map PTok.render)

/-- `format!("{core}")` of an expression: `to_py(core, 0)` followed by a newline -/
def CE.display (e : CE) : String := renderToks (pr e) ++ "\n"

/-! ### reader for the S-expression wire format (same tags as the Rust `Core` variants) -/

def binOpOfName (s : String) : Option BinOp := BinOp.all.find? (fun o => o.name == s)
def unOpOfName (s : String) : Option UnOp := UnOp.all.find? (fun o => o.name == s)

def sexpText : Sexp → String
  | .atom s => s
  | .str s => s
  | .list _ => ""

mutual
partial def ceOfSexp : Sexp → Option CE
  | .list (.atom tag :: args) =>
    match tag, args with
    | "Id", [a] => some (.atom (sexpText a))
    | "Float", [a] => some (.atom (sexpText a))
    | "Str", [a] => some (.atom ("\"" ++ sexpText a ++ "\""))
    | "Bool", [a] => some (.atom (if sexpText a == "true" then "True" else "False"))
    | "None", [] => some (.atom "None")
    | "UnderScore", [] => some (.atom "_")
    | "Int", [a] => some (.int (sexpText a))
    | "ENum", [a, b] => some (.enum (sexpText a) (sexpText b))
    | "Ternary", [c, t, e] => do some (.ternary (← ceOfSexp c) (← ceOfSexp t) (← ceOfSexp e))
    | "AnonFun", [.list as, b] => do some (.lambda (← cesOfSexp as) (← ceOfSexp b))
    | "FunctionCall", [f, .list as] => do some (.call (← ceOfSexp f) (← cesOfSexp as))
    | "PropertyCall", [o, p] => do some (.attr (← ceOfSexp o) (← ceOfSexp p))
    | "Index", [i, r] => do some (.index (← ceOfSexp i) (← ceOfSexp r))
    | "IsA", [l, r] => do some (.isA (← ceOfSexp l) (← ceOfSexp r))
    | "Sqrt", [e] => do some (.sqrt (← ceOfSexp e))
    | "Tuple", [.list es] => do some (.tuple (← cesOfSexp es))
    | "List", [.list es] => do some (.list (← cesOfSexp es))
    | "Set", [.list es] => do some (.set (← cesOfSexp es))
    | t, [l, r] => do
      let op ← binOpOfName t
      some (.bin op (← ceOfSexp l) (← ceOfSexp r))
    | t, [e] => do
      let op ← unOpOfName t
      some (.un op (← ceOfSexp e))
    | _, _ => none
  | _ => none
partial def cesOfSexp : List Sexp → Option (List CE)
  | [] => some []
  | x :: xs => do some ((← ceOfSexp x) :: (← cesOfSexp xs))
end

end MV
