import MambaVerif.Model.Scope
import MambaVerif.Model.Sexp

namespace MV.SL
open MV

def natOf (s : Sexp) : Nat :=
  match s with
  | .atom a => a.toNat?.getD 0
  | _ => 0

mutual
partial def exprOf : Sexp → Option Expr
  | .list [.atom "lit"] => some .lit
  | .list [.atom "var", x] => some (.var (natOf x))
  | .list [.atom "bin", a, b] => do some (.bin (← exprOf a) (← exprOf b))
  | .list [.atom "call", f, a] => do some (.call (natOf f) (← exprOf a))
  | .list (.atom "handle" :: e :: arms) => do some (.handle (← exprOf e) (← armsOf arms))
  | _ => none
partial def armsOf : List Sexp → Option Arms
  | [] => some .nil
  | .list [.atom "arm", c, x, body] :: rest => do some (.cons (natOf c) (natOf x) (← stmtOf body) (← armsOf rest))
  | _ => none
partial def stmtOf : Sexp → Option Stmt
  | .list [.atom "skip"] => some .skip
  | .list [.atom "seq", a, b] => do some (.seq (← stmtOf a) (← stmtOf b))
  | .list [.atom "def", x, fin, e] => do some (.defv (natOf x) (natOf fin == 1) (← exprOf e))
  | .list [.atom "assign", x, e] => do some (.assign (natOf x) (← exprOf e))
  | .list [.atom "expr", e] => do some (.expr (← exprOf e))
  | .list [.atom "if", c, t, e] => do some (.ifS (← exprOf c) (← stmtOf t) (← stmtOf e))
  | .list [.atom "while", c, b] => do some (.whileS (← exprOf c) (← stmtOf b))
  | .list [.atom "for", x, e, b] => do some (.forS (natOf x) (← exprOf e) (← stmtOf b))
  | .list [.atom "raise", c] => some (.raiseS (natOf c))
  | _ => none
end

def progOf : Sexp → Option Prog
  | .list [.atom "prog", .list classes, .list funs, main] => do
    let ps := classes.filterMap fun c =>
      match c with
      | .list [c, .atom "-"] => some (natOf c, none)
      | .list [c, p] => some (natOf c, some (natOf p))
      | _ => none
    let fs ← funs.mapM fun f =>
      match f with
      | .list [name, .list raises, .list params, body] => do
        let ps := params.filterMap fun p => match p with | .list [x, m] => some (natOf x, natOf m == 1) | _ => none
        some (⟨natOf name, raises.map natOf, ps, ← stmtOf body⟩ : FunDef)
      | _ => none
    some ⟨ps, fs, ← stmtOf main⟩
  | _ => none

/-- `scope` request: program S-expression → `accept` | `reject <Class>` (class of the first error) -/
def scopeRequest (payload : String) : String :=
  match Sexp.parse payload with
  | some sx =>
    match progOf sx with
    | some p =>
      match p.check with
      | [] => "accept"
      | e :: _ => "reject " ++ e.cls
    | none => "bad prog"
  | none => "bad sexp"

end MV.SL
