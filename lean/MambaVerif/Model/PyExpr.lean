/-
Spec side of C10: the Python 3 expression grammar (PEG of the reference manual, §"Full Grammar
specification": expression / disjunction / conjunction / inversion / comparison / bitwise_or … /
sum / term / factor / power / primary) as an executable precedence-climbing parser over the
tokens of `Model/CoreExpr.lean`.  `pyLevel` is the grammar's own level of every operator; it is
written here by hand (it is the *specification*), and is validated against CPython's `ast.parse`
by the check on every run.  Fuel makes the functions total; results do not depend on the fuel
once it suffices (`Ev`).
-/
import MambaVerif.Model.CoreExpr

namespace MV

/-- Python expression trees (BoolOp/Compare of CPython's `ast` are kept binary: `a and b and c`
    is `and (and a b) c`; a comparison followed by another comparison operator is a `chain`). -/
inductive PyAst where
  | name (s : String)
  | bin (op : BinOp) (l r : PyAst)
  | un (op : UnOp) (e : PyAst)
  | chain (first : PyAst) (op : BinOp) (next : PyAst)
  | ifExp (cond thn el : PyAst)
  | lambda (args : List String) (body : PyAst)
  | call (f : PyAst) (args : List PyAst)
  | attr (obj : PyAst) (name : String)
  | subscript (item idx : PyAst)
  | tuple (es : List PyAst)
  | list (es : List PyAst)
  | set (es : List PyAst)
  deriving Inhabited, Repr

/-- level of each binary operator in the Python grammar (higher binds tighter) -/
def pyLevel : BinOp → Nat
  | .Or => 3
  | .And => 4
  | .Ge | .Geq | .Le | .Leq | .Is | .IsN | .Eq | .Neq | .In => 6
  | .BOr => 7
  | .BXOr => 8
  | .BAnd => 9
  | .BLShift | .BRShift => 10
  | .Add | .Sub => 11
  | .Mul | .Div | .FDiv | .Mod => 12
  | .Pow => 14

/-- levels whose operators are folded to the left by a loop: disjunction, conjunction, bitwise, shift, sum, term -/
def isLeft (k : Nat) : Bool := k == 3 || k == 4 || (7 ≤ k && k ≤ 12)

/-- the level at which a token continues an already parsed operand (`none`: it does not) -/
def contLevel : PTok → Option Nat
  | .bop o => some (pyLevel o)
  | .kIf => some 2
  | .dot => some 15
  | .lpar => some 15
  | .lbr => some 15
  | _ => none

/-- prefix operators: `not` at the inversion level (5), `+ - ~` at the factor level (13) -/
def prefixForm (k : Nat) : List PTok → Option (UnOp × List PTok)
  | .uop u :: ts => if (u = .Not ∧ k = 5) ∨ (u ≠ .Not ∧ k = 13) then some (u, ts) else none
  | _ => none

def lambdaArgs : List PTok → List String → Option (List String × List PTok)
  | .colon :: r, acc => some (acc.reverse, r)
  | .word s :: .comma :: r, acc => lambdaArgs r (s :: acc)
  | .word s :: .colon :: r, acc => some ((s :: acc).reverse, r)
  | _, _ => none

def headIsLambda : List PTok → Bool
  | .kLambda :: _ => true
  | _ => false

def dropSpace : List PTok → List PTok
  | .space :: r => r
  | r => r

mutual
/-- parse an expression of level `k` (1 = `expression`, …, 15 = `primary`) -/
def parse : Nat → Nat → List PTok → Option (PyAst × List PTok)
  | 0, _, _ => none
  | n + 1, k, ts =>
    if k ≥ 15 then
      match ts with
      | .word s :: r => cont n 15 (.name s) r
      | .lpar :: r =>
        match parse n 1 r with
        | some (a, .rpar :: r') => cont n 15 a r'
        | some (a, .comma :: r') =>
          match items n r' [a] with
          | some (es, .rpar :: r'') => cont n 15 (.tuple es) r''
          | _ => none
        | _ => none
      | .lbr :: r =>
        match items n r [] with
        | some (es, .rbr :: r') => cont n 15 (.list es) r'
        | _ => none
      | .lcur :: r =>
        match items n r [] with
        | some (es, .rcur :: r') => cont n 15 (.set es) r'
        | _ => none
      | _ => none
    else if headIsLambda ts then
      if k = 1 then
        match lambdaArgs (dropSpace ts.tail) [] with
        | some (args, r') =>
          match parse n 1 r' with
          | some (b, r'') => some (.lambda args b, r'')
          | none => none
        | none => none
      else none
    else
      match prefixForm k ts with
      | some (u, ts') =>
        match parse n k ts' with
        | some (a, r) => some (.un u a, r)
        | none => none
      | none =>
        match parse n (k + 1) ts with
        | some (a, r) => cont n k a r
        | none => none
/-- what level `k` does after an operand `acc` of the next level -/
def cont : Nat → Nat → PyAst → List PTok → Option (PyAst × List PTok)
  | 0, _, _, _ => none
  | n + 1, k, acc, ts =>
    match ts with
    | .bop o :: ts' =>
      if pyLevel o = k then
        if k = 14 then
          match parse n 13 ts' with
          | some (b, r) => some (.bin o acc b, r)
          | none => none
        else if k = 6 then
          match parse n 7 ts' with
          | some (b, r) => chainMore n (.bin o acc b) r
          | none => none
        else if isLeft k then
          match parse n (k + 1) ts' with
          | some (b, r) => cont n k (.bin o acc b) r
          | none => none
        else some (acc, ts)
      else some (acc, ts)
    | .kIf :: ts' =>
      if k = 2 then
        match parse n 3 ts' with
        | some (c, .kElse :: r) =>
          match parse n 1 r with
          | some (e, r') => some (.ifExp c acc e, r')
          | none => none
        | _ => none
      else some (acc, ts)
    | .dot :: .word s :: r => if k = 15 then cont n 15 (.attr acc s) r else some (acc, ts)
    | .lpar :: r =>
      if k = 15 then
        match items n r [] with
        | some (es, .rpar :: r') => cont n 15 (.call acc es) r'
        | _ => none
      else some (acc, ts)
    | .lbr :: r =>
      if k = 15 then
        match parse n 1 r with
        | some (i, .rbr :: r') => cont n 15 (.subscript acc i) r'
        | _ => none
      else some (acc, ts)
    | _ => some (acc, ts)
/-- after one comparison: further comparison operators make a chain -/
def chainMore : Nat → PyAst → List PTok → Option (PyAst × List PTok)
  | 0, _, _ => none
  | n + 1, acc, ts =>
    match ts with
    | .bop o :: ts' =>
      if pyLevel o = 6 then
        match parse n 7 ts' with
        | some (b, r) => chainMore n (.chain acc o b) r
        | none => none
      else some (acc, ts)
    | _ => some (acc, ts)
/-- comma separated expressions up to (not including) a closing bracket; `acc` reversed -/
def items : Nat → List PTok → List PyAst → Option (List PyAst × List PTok)
  | 0, _, _ => none
  | n + 1, ts, acc =>
    match ts with
    | .rpar :: _ => some (acc.reverse, ts)
    | .rbr :: _ => some (acc.reverse, ts)
    | .rcur :: _ => some (acc.reverse, ts)
    | _ =>
      match parse n 1 ts with
      | some (a, .comma :: r) => items n r (a :: acc)
      | some (a, .commaTight :: r) => items n r (a :: acc)
      | some (a, r) => some ((a :: acc).reverse, r)
      | none => none
end

/-- parse a complete token list as an expression -/
def pyParse (ts : List PTok) : Option PyAst :=
  match parse (16 * ts.length + 64) 1 ts with
  | some (a, []) => some a
  | _ => none

def atomName : CE → String
  | .atom s => s
  | .int s => s
  | _ => "?"

mutual
/-- the Python tree a `Core` expression denotes (`⌜e⌝`) -/
def embed : CE → PyAst
  | .atom s => .name s
  | .int s => .name s
  | .enum n e => .bin .Mul (.name n) (.bin .Pow (.name "10") (.name e))
  | .bin op l r => .bin op (embed l) (embed r)
  | .un op e => .un op (embed e)
  | .ternary c t e => .ifExp (embed c) (embed t) (embed e)
  | .lambda args body => .lambda (args.map atomName) (embed body)
  | .call f args => .call (embed f) (embedAll args)
  | .attr o p =>
    match p with
    | .atom s => .attr (embed o) s
    | .call (.atom s) args => .call (.attr (embed o) s) (embedAll args)
    | _ => .attr (embed o) "?"
  | .index i r => .subscript (embed i) (embed r)
  | .isA l r => .call (.name "isinstance") [embed l, embed r]
  | .sqrt e => .call (.attr (.name "math") "sqrt") [embed e]
  | .tuple es => .tuple (embedAll es)
  | .list es => .list (embedAll es)
  | .set es => .set (embedAll es)
def embedAll : List CE → List PyAst
  | [] => []
  | e :: es => embed e :: embedAll es
end

end MV

namespace MV

mutual
partial def PyAst.dump : PyAst → String
  | .name s => s
  | .bin op l r => s!"({op.name} {l.dump} {r.dump})"
  | .un op e => s!"({op.name} {e.dump})"
  | .chain f op n => s!"(Chain {f.dump} {op.name} {n.dump})"
  | .ifExp c t e => s!"(IfExp {c.dump} {t.dump} {e.dump})"
  | .lambda args b => s!"(Lambda ({" ".intercalate args}) {b.dump})"
  | .call f args => s!"(Call {f.dump} ({PyAst.dumpAll args}))"
  | .attr o n => s!"(Attr {o.dump} {n})"
  | .subscript i x => s!"(Subscript {i.dump} {x.dump})"
  | .tuple es => s!"(Tuple ({PyAst.dumpAll es}))"
  | .list es => s!"(List ({PyAst.dumpAll es}))"
  | .set es => s!"(Set ({PyAst.dumpAll es}))"
partial def PyAst.dumpAll (es : List PyAst) : String := " ".intercalate (es.map PyAst.dump)
end

end MV

namespace MV

/-- printing WITHOUT any parentheses (operator fragment only): used to validate the grammar model
    against CPython on texts the real printer never emits (chains, regrouped operands) -/
def prFlat : CE → List PTok
  | .atom s => [.word s]
  | .int s => [.word s]
  | .bin op l r => prFlat l ++ [.bop op] ++ prFlat r
  | .un op e => [.uop op] ++ prFlat e
  | .ternary c t e => prFlat t ++ [.kIf] ++ prFlat c ++ [.kElse] ++ prFlat e
  | _ => [.word "z"]

end MV
