/-
Model of the diagnostic renderer `common/result.rs::{format_err, format_location}` and
`common/position.rs::Position::get_width`.  Text is `String`; `usize` arithmetic that can underflow
in Rust (`pos.start.pos - 1`) is explicit: `none` is the Rust panic (overflow checks on) .
-/
import MambaVerif.Model.Lex

namespace MV

structure DPos where
  l1 : Nat
  c1 : Nat
  l2 : Nat
  c2 : Nat
  deriving DecidableEq, Repr

def DPos.invisible : DPos := ⟨0, 0, 0, 0⟩

/-- `Position::get_width`: at least 1 -/
def DPos.width (p : DPos) : Nat := max 1 (if p.c2 ≥ p.c1 then p.c2 - p.c1 else p.c1 - p.c2)

/-- `str::lines()`: split at `\n`, a trailing `\r` of a line is dropped, no empty last line -/
def linesOf (s : String) : List String :=
  let parts := s.splitOn "\n"
  let parts := if s.endsWith "\n" || s.isEmpty then parts.dropLast else parts
  parts.map fun l => if l.endsWith "\r" then (l.dropEnd 1).toString else l

/-- `{:4}` of a number -/
def pad4 (n : Nat) : String :=
  let s := toString n
  String.ofList (List.replicate (4 - s.length) ' ') ++ s

def spaces (n : Nat) : String := String.ofList (List.replicate n ' ')

/-- the quoted source line `lines().nth(i)` rendered as `{offset}{:4} | {line}\n` (`none` when the
    line does not exist or is empty: the caller substitutes its default) -/
def quoted (src : Option String) (idx : Option Nat) (shown : Nat) (offset : Nat) : Option String :=
  match src, idx with
  | some s, some i =>
    match (linesOf s)[i]? with
    | some line => if line.isEmpty then none else some (spaces (4 * offset) ++ pad4 shown ++ " | " ++ line ++ "\n")
    | none => none
  | _, _ => none

/-- the pieces `format_location` writes one after the other -/
structure LocParts where
  header : String     -- the cause message line, if any
  before : String     -- the previous source line, if any
  line : String       -- the reported source line
  caret : String      -- the caret line
  deriving Repr, DecidableEq

def LocParts.text (l : LocParts) : String := l.header ++ l.before ++ l.line ++ l.caret

/-- `format_location` for a visible position; `none` = arithmetic underflow of `offset * 4 + pos.start.pos - 1` -/
def locParts (offset : Nat) (msg : Option String) (pos : DPos) (src : Option String) : Option LocParts :=
  if offset * 4 + pos.c1 = 0 then none
  else some {
    header := match msg with | some m => spaces (4 * offset) ++ " └─→ " ++ m ++ "\n" | none => "",
    -- `max(line - 2, usize::MAX as i32)`: index `line - 2` / `line - 1`, no line when negative;
    -- `max(line, usize::MAX)` is always out of range: the following line is never shown
    before := (quoted src (if pos.l1 ≥ 2 then some (pos.l1 - 2) else none) (pos.l1 - 1) offset).getD "",
    line := (quoted src (if pos.l1 ≥ 1 then some (pos.l1 - 1) else none) pos.l1 offset).getD "<unknown>\n",
    caret := "       " ++ spaces (offset * 4 + pos.c1 - 1) ++ String.ofList (List.replicate pos.width '^') ++ "\n" }

/-- `format_location` -/
def formatLocation (offset : Nat) (msg : Option String) (pos : DPos) (src : Option String) : Option String :=
  if pos = DPos.invisible then
    some ((match msg with | some m => spaces (4 * offset) ++ " └─→ " ++ m ++ "\n" | none => "") ++ "\n")
  else (locParts offset msg pos src).map LocParts.text

structure DCause where
  pos : DPos
  msg : String

def stripSep (p : String) : String := if p.endsWith "/" then (p.dropEnd 1).toString else p

def differs : Option DPos → DPos → Bool
  | some p, q => p != q
  | none, _ => false

/-- one cause: the first one is rendered with its location when it is not the error's own position -/
def causeText (pos : Option DPos) (src : Option String) (first : Bool) (c : DCause) : Option String :=
  if first && differs pos c.pos then formatLocation 1 (some c.msg) c.pos src
  else some ("     └─→ " ++ c.msg ++ "\n")

def causesText (pos : Option DPos) (src : Option String) : List DCause → Bool → Option String
  | [], _ => some ""
  | c :: rest, first =>
    match causeText pos src first c, causesText pos src rest false with
    | some a, some b => some (a ++ b)
    | _, _ => none

/-- `format_err` -/
def formatErr (msg : String) (path : Option String) (pos : Option DPos) (src : Option String)
    (causes : List DCause) : Option String :=
  let path := stripSep (path.getD "<unknown>")
  let head : Option String :=
    match pos with
    | some p =>
      match formatLocation 0 none p src with
      | some loc => some (msg ++ "\n ──→ " ++ path ++ ":" ++ toString p.l1 ++ ":" ++ toString p.c1 ++ "\n" ++ loc)
      | none => none
    | none => some (msg ++ "\n ──→ " ++ path ++ "\n")
  match head, causesText pos src causes true with
  | some a, some b => some (a ++ b)
  | _, _ => none

end MV
