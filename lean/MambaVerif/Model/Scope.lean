/-
A core statement language (SL) with the three environment disciplines of the checker's generate
stage (`check/constrain/generate/*`): lexical visibility of names (`Environment.vars`, block
scoping through persistent environments), mutability flags (`fin`), and the set of caught
exception classes (`Environment.raises_caught`, extended by the arms of a `handle` for the handled
expression only and by the declared raises of a function for its body).
`check` is the static model (what the generate stage rejects); `Exec`/`Eval` is the dynamic
semantics of the emitted Python for the same constructs (function-level binding: a name stays
bound after the block that defined it; exceptions propagate to the first matching `except`).
-/
namespace MV.SL

abbrev Name := Nat
abbrev Cls := Nat

/-- the class table: direct parent of an exception class (`none`: a root) -/
abbrev Parents := Cls → Option Cls

/-- `a` is `c` or an ancestor of `c` (fuel bounds the height of the hierarchy) -/
def isAncestor (par : Parents) : Nat → Cls → Cls → Bool
  | 0, a, c => a == c
  | fuel + 1, a, c => a == c || (match par c with | some p => isAncestor par fuel a p | none => false)

/-- what a function declares: the exception classes it may raise -/
abbrev Raises := Name → List Cls

mutual
inductive Expr where
  | lit
  | var (x : Name)
  | bin (a b : Expr)
  | call (f : Name) (arg : Expr)
  | handle (e : Expr) (arms : Arms)
inductive Arms where
  | nil
  | cons (c : Cls) (binder : Name) (body : Stmt) (rest : Arms)
inductive Stmt where
  | skip
  | seq (a b : Stmt)
  | defv (x : Name) (fin : Bool) (e : Expr)
  | assign (x : Name) (e : Expr)
  | expr (e : Expr)
  | ifS (c : Expr) (t e : Stmt)
  | whileS (c : Expr) (b : Stmt)
  | forS (x : Name) (e : Expr) (b : Stmt)
  | raiseS (c : Cls)
end

inductive Err where
  | undefined (x : Name)
  | mutability (x : Name)
  | raise (c : Cls)
  deriving DecidableEq, Repr

/-- the static environment -/
structure SEnv where
  vars : List (Name × Bool)      -- visible definitions, innermost first, with `mutable`
  caught : List Cls
  inFun : Bool
  deriving Repr

def SEnv.lookup (Γ : SEnv) (x : Name) : Option Bool :=
  match Γ.vars.find? (fun p => p.1 == x) with
  | some p => some p.2
  | none => none

def armClasses : Arms → List Cls
  | .nil => []
  | .cons c _ _ rest => c :: armClasses rest

/-- `check_raises_caught`: every raised class has an ancestor-or-self in the caught set (inside functions only) -/
def uncaught (par : Parents) (h : Nat) (Γ : SEnv) (raised : List Cls) : List Err :=
  if Γ.inFun then (raised.filter fun c => !(Γ.caught.any fun d => isAncestor par h d c)).map Err.raise else []

mutual
/-- expressions: undefined reads, uncaught raises of calls; a `handle` covers its expression with its arms -/
def checkE (par : Parents) (h : Nat) (rs : Raises) (Γ : SEnv) : Expr → List Err
  | .lit => []
  | .var x => if (Γ.lookup x).isSome then [] else [.undefined x]
  | .bin a b => checkE par h rs Γ a ++ checkE par h rs Γ b
  | .call f arg => checkE par h rs Γ arg ++ uncaught par h Γ (rs f)
  | .handle e arms =>
    checkE par h rs { Γ with caught := armClasses arms ++ Γ.caught } e ++ checkArms par h rs Γ arms
/-- each arm is checked under the environment before the handle, with its binder defined -/
def checkArms (par : Parents) (h : Nat) (rs : Raises) (Γ : SEnv) : Arms → List Err
  | .nil => []
  | .cons _ x body rest =>
    (checkS par h rs { Γ with vars := (x, true) :: Γ.vars } body).1 ++ checkArms par h rs Γ rest
/-- statements: errors and the environment the NEXT statement of the same block sees -/
def checkS (par : Parents) (h : Nat) (rs : Raises) (Γ : SEnv) : Stmt → List Err × SEnv
  | .skip => ([], Γ)
  | .seq a b =>
    let r := checkS par h rs Γ a
    let r' := checkS par h rs r.2 b
    (r.1 ++ r'.1, r'.2)
  | .defv x fin e => (checkE par h rs Γ e, { Γ with vars := (x, !fin) :: Γ.vars })
  | .assign x e =>
    (checkE par h rs Γ e ++
      (match Γ.lookup x with
       | some true => []
       | some false => [.mutability x]
       | none => [.undefined x]), Γ)
  | .expr e => (checkE par h rs Γ e, Γ)
  | .ifS c t e => (checkE par h rs Γ c ++ (checkS par h rs Γ t).1 ++ (checkS par h rs Γ e).1, Γ)
  | .whileS c b => (checkE par h rs Γ c ++ (checkS par h rs Γ b).1, Γ)
  | .forS x e b => (checkE par h rs Γ e ++ (checkS par h rs { Γ with vars := (x, true) :: Γ.vars } b).1, Γ)
  | .raiseS c => (uncaught par h Γ [c], Γ)
end

/-! ### dynamic semantics of the emitted Python -/

inductive Out where
  | ok (σ : List Name)          -- the names bound afterwards
  | raised (c : Cls)
  | unbound (x : Name)          -- NameError / UnboundLocalError
  deriving Repr

/-- the first arm whose class is the raised class or an ancestor of it -/
def selectArm (par : Parents) (h : Nat) : Arms → Cls → Option (Name × Stmt)
  | .nil, _ => none
  | .cons d x body rest, c => if isAncestor par h d c then some (x, body) else selectArm par h rest c

mutual
inductive Eval (par : Parents) (h : Nat) (rs : Raises) : List Name → Expr → Out → Prop
  | lit {σ} : Eval par h rs σ .lit (.ok σ)
  | varOk {σ x} : x ∈ σ → Eval par h rs σ (.var x) (.ok σ)
  | varUnbound {σ x} : x ∉ σ → Eval par h rs σ (.var x) (.unbound x)
  | binOk {σ σ1 a b o} : Eval par h rs σ a (.ok σ1) → Eval par h rs σ1 b o → Eval par h rs σ (.bin a b) o
  | binRaise {σ a b c} : Eval par h rs σ a (.raised c) → Eval par h rs σ (.bin a b) (.raised c)
  | binUnbound {σ a b x} : Eval par h rs σ a (.unbound x) → Eval par h rs σ (.bin a b) (.unbound x)
  | callArgRaise {σ f arg c} : Eval par h rs σ arg (.raised c) → Eval par h rs σ (.call f arg) (.raised c)
  | callArgUnbound {σ f arg x} : Eval par h rs σ arg (.unbound x) → Eval par h rs σ (.call f arg) (.unbound x)
  /-- a call returns, or raises a subclass of something its callee declares -/
  | callOk {σ σ1 f arg} : Eval par h rs σ arg (.ok σ1) → Eval par h rs σ (.call f arg) (.ok σ1)
  | callRaise {σ σ1 f arg c d} : Eval par h rs σ arg (.ok σ1) → d ∈ rs f → isAncestor par h d c = true →
      Eval par h rs σ (.call f arg) (.raised c)
  | handleOk {σ σ1 e arms} : Eval par h rs σ e (.ok σ1) → Eval par h rs σ (.handle e arms) (.ok σ1)
  | handleUnbound {σ e arms x} : Eval par h rs σ e (.unbound x) → Eval par h rs σ (.handle e arms) (.unbound x)
  | handleMiss {σ e arms c} : Eval par h rs σ e (.raised c) → selectArm par h arms c = none →
      Eval par h rs σ (.handle e arms) (.raised c)
  /-- Python rebinds the handler's name in the frame as it stood when the `try` began, plus whatever got bound -/
  | handleHit {σ e arms c x body o} : Eval par h rs σ e (.raised c) → selectArm par h arms c = some (x, body) →
      Exec par h rs (x :: σ) body o → Eval par h rs σ (.handle e arms) o
inductive Exec (par : Parents) (h : Nat) (rs : Raises) : List Name → Stmt → Out → Prop
  | skip {σ} : Exec par h rs σ .skip (.ok σ)
  | seqOk {σ σ1 a b o} : Exec par h rs σ a (.ok σ1) → Exec par h rs σ1 b o → Exec par h rs σ (.seq a b) o
  | seqRaise {σ a b c} : Exec par h rs σ a (.raised c) → Exec par h rs σ (.seq a b) (.raised c)
  | seqUnbound {σ a b x} : Exec par h rs σ a (.unbound x) → Exec par h rs σ (.seq a b) (.unbound x)
  | defOk {σ σ1 x fin e} : Eval par h rs σ e (.ok σ1) → Exec par h rs σ (.defv x fin e) (.ok (x :: σ1))
  | defRaise {σ x fin e c} : Eval par h rs σ e (.raised c) → Exec par h rs σ (.defv x fin e) (.raised c)
  | defUnbound {σ x fin e y} : Eval par h rs σ e (.unbound y) → Exec par h rs σ (.defv x fin e) (.unbound y)
  | assignOk {σ σ1 x e} : Eval par h rs σ e (.ok σ1) → Exec par h rs σ (.assign x e) (.ok (x :: σ1))
  | assignRaise {σ x e c} : Eval par h rs σ e (.raised c) → Exec par h rs σ (.assign x e) (.raised c)
  | assignUnbound {σ x e y} : Eval par h rs σ e (.unbound y) → Exec par h rs σ (.assign x e) (.unbound y)
  | exprS {σ e o} : Eval par h rs σ e o → Exec par h rs σ (.expr e) o
  | ifCondBad {σ c t e o} : Eval par h rs σ c o → (∀ σ1, o ≠ .ok σ1) → Exec par h rs σ (.ifS c t e) o
  | ifThen {σ σ1 c t e o} : Eval par h rs σ c (.ok σ1) → Exec par h rs σ1 t o → Exec par h rs σ (.ifS c t e) o
  | ifElse {σ σ1 c t e o} : Eval par h rs σ c (.ok σ1) → Exec par h rs σ1 e o → Exec par h rs σ (.ifS c t e) o
  | whileCondBad {σ c b o} : Eval par h rs σ c o → (∀ σ1, o ≠ .ok σ1) → Exec par h rs σ (.whileS c b) o
  | whileDone {σ σ1 c b} : Eval par h rs σ c (.ok σ1) → Exec par h rs σ (.whileS c b) (.ok σ1)
  | whileBodyBad {σ σ1 c b o} : Eval par h rs σ c (.ok σ1) → Exec par h rs σ1 b o → (∀ σ2, o ≠ .ok σ2) →
      Exec par h rs σ (.whileS c b) o
  | whileStep {σ σ1 σ2 c b o} : Eval par h rs σ c (.ok σ1) → Exec par h rs σ1 b (.ok σ2) →
      Exec par h rs σ2 (.whileS c b) o → Exec par h rs σ (.whileS c b) o
  | forBad {σ x e b o} : Eval par h rs σ e o → (∀ σ1, o ≠ .ok σ1) → Exec par h rs σ (.forS x e b) o
  | forDone {σ σ1 x e b} : Eval par h rs σ e (.ok σ1) → Exec par h rs σ (.forS x e b) (.ok σ1)
  /-- one or more iterations: the loop variable is bound, the body runs, then the rest of the loop (as a while over the same body) -/
  | forStep {σ σ1 x e b o} : Eval par h rs σ e (.ok σ1) → Exec par h rs (x :: σ1) (.whileS .lit b) o →
      Exec par h rs σ (.forS x e b) o
  | raiseS {σ c} : Exec par h rs σ (.raiseS c) (.raised c)
end

end MV.SL

namespace MV.SL

/-- a program: exception classes with their parents, functions, top-level code -/
structure FunDef where
  name : Name
  raises : List Cls
  params : List (Name × Bool)     -- with `mutable`
  body : Stmt

structure Prog where
  parents : List (Cls × Option Cls)
  funs : List FunDef
  main : Stmt

def Prog.par (p : Prog) : Parents := fun c =>
  match p.parents.find? (fun e => e.1 == c) with
  | some e => e.2
  | none => none

def Prog.raisesOf (p : Prog) : Raises := fun f =>
  match p.funs.find? (fun d => d.name == f) with
  | some d => d.raises
  | none => []

/-- the errors of the generate stage, function bodies first (in order), then the top-level code -/
def Prog.check (p : Prog) : List Err :=
  let h := p.parents.length
  (p.funs.flatMap fun d => (checkS p.par h p.raisesOf ⟨d.params, d.raises, true⟩ d.body).1) ++
  (checkS p.par h p.raisesOf ⟨[], [], false⟩ p.main).1

def Err.cls : Err → String
  | .undefined _ => "Undefined"
  | .mutability _ => "Mutability"
  | .raise _ => "Raise"

end MV.SL
