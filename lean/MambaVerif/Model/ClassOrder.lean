/-
Model of the ordering of class members in `generate/convert/class.rs::extract_class`: every
statement of the converted body gets a position (offsets regenerated from the source), the members
live in a `HashMap` (ARBITRARY iteration order), and are sorted by `(position, rank)`.
-/
import MambaVerif.Generated.ClassTables

namespace MV

inductive MKind where
  | var | init | other | fn
  deriving DecidableEq, Repr

/-- one stored member: where it stood in the body, what it is, and its name -/
structure Member where
  idx : Nat
  kind : MKind
  name : String
  deriving DecidableEq, Repr

def MKind.rank : MKind → Nat
  | .var => rankVar | .init => rankInit | .other => rankOther | .fn => rankFun

/-- position of a member of the body (an explicit `init` in the body is a function definition) -/
def Member.pos (m : Member) : Nat :=
  match m.kind with
  | .var => m.idx + classVarOffset
  | .other => m.idx + classOtherOffset
  | .fn => m.idx + classFunOffset
  | .init => m.idx + classFunOffset

/-- a stored entry: sort key and member -/
structure Entry where
  pos : Nat
  rank : Nat
  m : Member
  deriving DecidableEq, Repr

def Entry.ofMember (m : Member) : Entry := ⟨m.pos, m.kind.rank, m⟩

/-- the synthesised constructor goes right after the last variable, or first -/
def newInitPos (body : List Member) : Nat :=
  ((body.filter (fun m => m.kind = .var)).map (fun m => m.pos + classInitAfterVar)).foldl max classInitDefault

/-- the entries of the map: the body's members, and the synthesised constructor when there is one
    (it replaces an explicit one of the same name) -/
def entries (body : List Member) (newInit : Bool) : List Entry :=
  if newInit then
    let old := body.find? (fun m => m.kind = .init)
    let pos := match old with | some o => o.pos | none => newInitPos body
    (body.filter (fun m => m.kind ≠ .init)).map Entry.ofMember ++ [⟨pos, rankInit, ⟨body.length, .init, "__init__"⟩⟩]
  else body.map Entry.ofMember

def Entry.le (a b : Entry) : Bool := a.pos < b.pos || (a.pos == b.pos && a.rank ≤ b.rank)

/-- the emitted order for a given storage order of the map -/
def emitted (stored : List Entry) : List Entry := stored.mergeSort Entry.le

end MV
