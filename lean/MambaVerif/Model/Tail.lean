/-
Model of the tail transformations of the desugaring stage, `append_assign` and `append_ret`
(`src/generate/convert/mod.rs`): a definition `def x := <if / match / handle ...>` and the implicit
return of a function body are produced by pushing an assignment (a `return`) down to the LAST
statement of every branch of the statement tree.

Statement trees are `Core` as far as these two functions look at it; expressions and conditions are
opaque identifiers.  Import-free (the driver links it).
-/
namespace MV

/-- statement trees -/
inductive TS where
  | expr (e : Nat)                                   -- anything the functions wrap (an expression statement)
  | ret (e : Nat)                                    -- `Core::Return`
  | raise (e : Nat)                                  -- `Core::Raise`
  | assign (x e : Nat)                               -- `Core::VarDef` / `Core::Assign`
  | retAssign (x e : Nat)                            -- `return <assignment>`: what `append_ret` makes of an assignment in tail position
  | block (ss : List TS)                             -- `Core::Block`
  | ifElse (c : Nat) (t e : TS)                      -- `Core::IfElse`
  | matchS (scrut : Nat) (cases : List TS)           -- `Core::Match`
  | case (pat : Nat) (body : TS)                     -- `Core::Case`
  | tryExcept (setup : Nat) (attempt : TS) (handlers : List TS)   -- `Core::TryExcept`
  | except (cls : Nat) (body : TS)                   -- `Core::ExceptId` / `Core::Except`
  deriving Inhabited, Repr

mutual
/-- `append_assign(core, assign_to = x)` -/
def appendAssign (x : Nat) : TS → TS
  | .block ss => .block (appendAssignLast x ss)
  | .ifElse c t e => .ifElse c (appendAssign x t) (appendAssign x e)
  | .matchS s cases => .matchS s (appendAssignAll x cases)
  | .case p b => .case p (appendAssign x b)
  | .tryExcept su att hs => .tryExcept su (appendAssign x att) (appendAssignAll x hs)
  | .except c b => .except c (appendAssign x b)
  | .ret e => .ret e
  | .raise e => .raise e
  | .assign y e => .assign y e
  | .retAssign y e => .assign x (y + e)  -- not produced before `append_assign` runs; wrapped like any other statement
  | .expr e => .assign x e
/-- the transformation applied to the last statement of a block (an empty block is left alone) -/
def appendAssignLast (x : Nat) : List TS → List TS
  | [] => []
  | [s] => [appendAssign x s]
  | s :: s' :: ss => s :: appendAssignLast x (s' :: ss)
def appendAssignAll (x : Nat) : List TS → List TS
  | [] => []
  | s :: ss => appendAssign x s :: appendAssignAll x ss
end

/-- what `append_ret` puts into an empty block: `return None` (expression id 0) -/
def retNone : TS := .ret 0

mutual
/-- `append_ret(core)` -/
def appendRet : TS → TS
  | .block ss => .block (appendRetLast ss)
  | .ifElse c t e => .ifElse c (appendRet t) (appendRet e)
  | .matchS s cases => .matchS s (appendRetAll cases)
  | .case p b => .case p (appendRet b)
  | .tryExcept su att hs => .tryExcept su (appendRet att) (appendRetAll hs)
  | .except c b => .except c (appendRet b)
  | .ret e => .ret e
  | .raise e => .raise e
  | .assign y e => .retAssign y e        -- `_ => Return { expr: core }`: an assignment is wrapped like any other statement
  | .retAssign y e => .retAssign y e
  | .expr e => .ret e
def appendRetLast : List TS → List TS
  | [] => [retNone]
  | [s] => [appendRet s]
  | s :: s' :: ss => s :: appendRetLast (s' :: ss)
def appendRetAll : List TS → List TS
  | [] => []
  | s :: ss => appendRet s :: appendRetAll ss
end

mutual
/-- the statements in tail position, one per path through the tree, in source order -/
def leaves : TS → List TS
  | .block ss => leavesLast ss
  | .ifElse _ t e => leaves t ++ leaves e
  | .matchS _ cases => leavesAll cases
  | .case _ b => leaves b
  | .tryExcept _ att hs => leaves att ++ leavesAll hs
  | .except _ b => leaves b
  | s => [s]
def leavesLast : List TS → List TS
  | [] => [.block []]
  | [s] => leaves s
  | _ :: s' :: ss => leavesLast (s' :: ss)
def leavesAll : List TS → List TS
  | [] => []
  | s :: ss => leaves s ++ leavesAll ss
end

/-- the kind of a tail statement, as the correspondence reports it -/
def TS.kindName : TS → String
  | .expr _ => "expr"
  | .ret _ => "return"
  | .raise _ => "raise"
  | .assign _ _ => "assign"
  | .retAssign _ _ => "return-of-assignment"
  | .block [] => "empty"
  | _ => "tree"

/-- Core variants the model descends into (compared with the regenerated arms of the Rust functions) -/
def modelDescends : List String := ["Block", "IfElse", "Match", "Case", "TryExcept", "ExceptId", "Except"]
/-- per variant, the children the model transforms (`appendAssign` and `appendRet` alike): the last statement of a
    block, both branches, every case, the case body, the attempt and every handler, the handler body -/
def modelChildren : List (String × List String) :=
  [("Block", ["last"]), ("IfElse", ["then", "el"]), ("Match", ["cases"]), ("Case", ["body"]),
   ("TryExcept", ["attempt", "except"]), ("ExceptId", ["body"]), ("Except", ["body"])]
def modelAssignSkips : List String := ["Return", "Raise", "VarDef", "Assign"]
def modelRetSkips : List String := ["Return", "Raise"]

end MV
