/-
Model of the Mamba lexer: `src/parse/lex/{mod,tokenize,state,token}.rs`, `pass/docstring.rs`,
`common/position.rs` (caret arithmetic).  Import-free apart from the regenerated tables.

Text is `List Char`.  A token is a kind plus its `Display` text (`Tok`); the payload of
`Id/Int/Real/ENum/Str/DocStr/Comment` is recoverable from the text, exactly as the Rust
`Display` impl renders it (the translator checks those templates).

Rust panic sites of the modelled code are explicit: `LexRes.panic`.
-/
import MambaVerif.Generated.LexTables

namespace MV

structure CaretPos where
  line : Nat
  pos : Nat
  deriving DecidableEq, Repr, Inhabited

namespace CaretPos
def start : CaretPos := ⟨1, 1⟩
def offsetPos (p : CaretPos) (n : Nat) : CaretPos := ⟨p.line, p.pos + n⟩
def newline (p : CaretPos) : CaretPos := ⟨p.line + 1, 1⟩
/-- one step of `CaretPos::advance_over` -/
def advChar (p : CaretPos) (c : Char) : CaretPos :=
  if c = '\n' then p.newline else p.offsetPos 1
/-- `CaretPos::advance_over` -/
def advanceOver (p : CaretPos) (cs : List Char) : CaretPos := cs.foldl advChar p
/-- `CaretPos::offset` (usize arithmetic; every caret the lexer builds is ≥ (1,1)) -/
def offset (p o : CaretPos) : CaretPos := ⟨p.line + o.line - 1, p.pos + o.pos - 1⟩
end CaretPos

/-- A token: kind and `Display` text. -/
structure Tok where
  kind : Kind
  text : List Char
  deriving DecidableEq, Repr, Inhabited

/-- `Lex`: position, token, and (for `Str`) the token lists of its interpolated expressions. -/
inductive Lex where
  | mk (start stop : CaretPos) (tok : Tok) (nested : List (List Lex))

instance : Inhabited Lex := ⟨Lex.mk default default default []⟩

namespace Lex
def start : Lex → CaretPos | mk s _ _ _ => s
def stop : Lex → CaretPos | mk _ e _ _ => e
def tok : Lex → Tok | mk _ _ t _ => t
def nested : Lex → List (List Lex) | mk _ _ _ n => n
def kind (l : Lex) : Kind := l.tok.kind
/-- `Lex::new`: the end is the start advanced over the token's own text. -/
def new (start : CaretPos) (tok : Tok) (nested : List (List Lex) := []) : Lex :=
  mk start (start.advanceOver tok.text) tok nested
end Lex

/-- token of a payload-free kind -/
def Kind.tok (k : Kind) : Tok := ⟨k, match k.spelling with | some s => s | none => []⟩

/-- `State` of `parse/lex/state.rs` (indents are 1-indexed columns). -/
structure LState where
  newlines : List Lex
  curIndent : Nat
  lineIndent : Nat
  tokenThisLine : Bool
  pos : CaretPos
  deriving Inhabited

namespace LState
def init : LState := ⟨[], 1, 1, false, ⟨1, 1⟩⟩

/-- `State::level` -/
def level (indent : Nat) : Nat := (indent - 1) / 4

def newline (st : LState) : LState :=
  { st with newlines := st.newlines ++ [Lex.new st.pos Kind.NL.tok],
            tokenThisLine := false, lineIndent := 1, pos := st.pos.newline }

def space (st : LState) : LState :=
  { st with pos := st.pos.offsetPos 1,
            lineIndent := st.lineIndent + (if st.tokenThisLine then 0 else 1) }

/-- tokens emitted in front of a non-NL token: one buffered newline, indents or dedents(+NL),
    then the remaining buffered newlines -/
def layout (st : LState) : List Lex :=
  let popped := st.newlines.getLast?.toList
  let lineL := level st.lineIndent
  let curL := level st.curIndent
  let dents :=
    if lineL ≥ curL then List.replicate (lineL - curL) (Lex.new st.pos Kind.Indent.tok)
    else List.replicate (curL - lineL) (Lex.new st.pos Kind.Dedent.tok) ++ [Lex.new st.pos Kind.NL.tok]
  popped ++ dents ++ st.newlines.dropLast

/-- `State::token` -/
def token (st : LState) (tok : Tok) (nested : List (List Lex) := []) : List Lex × LState :=
  if tok.kind = Kind.NL then ([], st.newline)
  else
    (st.layout ++ [Lex.new st.pos tok nested],
     { st with newlines := [], tokenThisLine := true, curIndent := st.lineIndent,
               pos := st.pos.advanceOver tok.text })

/-- `State::flush_indents` -/
def flushIndents (st : LState) : List Lex :=
  List.replicate (level st.curIndent) (Lex.new st.pos Kind.Dedent.tok)
end LState

/-- result of lexing: tokens, a lexical error at a caret, or a Rust panic site reached -/
inductive LexRes (α : Type) where
  | ok (a : α)
  | err (pos : CaretPos)
  | panic (site : Nat)
  deriving Inhabited

def isIdStart (c : Char) : Bool := c.isAlpha || c = '_'
def isIdChar (c : Char) : Bool := c.isAlpha || c = '_' || c.isDigit

/-- `as_op_or_id` -/
def asOpOrId (s : List Char) : Tok :=
  match keywordTable.lookup s with
  | some k => k.tok
  | none => ⟨.Id, s⟩

/-- State of the number scanner (accumulators reversed). -/
structure NumScan where
  number : List Char
  exp : List Char
  float : Bool
  eNum : Bool
  consumed : Nat

/-- the `while let Some(&c) = it.peek()` loop of the digit arm -/
def scanNum : List Char → NumScan → NumScan
  | [], s => s
  | c :: cs, s =>
    if c.isDigit then
      if !s.eNum then scanNum cs { s with number := c :: s.number, consumed := s.consumed + 1 }
      else scanNum cs { s with exp := c :: s.exp, consumed := s.consumed + 1 }
    else if c = 'E' then
      if s.eNum then s else scanNum cs { s with eNum := true, consumed := s.consumed + 1 }
    else if c = '.' then
      if s.float || s.eNum then s
      else match cs with
        | '.' :: _ => s
        | _ => scanNum cs { s with number := c :: s.number, float := true, consumed := s.consumed + 1 }
    else s

def numTok (s : NumScan) : Tok :=
  if s.eNum then ⟨.ENum, s.number.reverse ++ 'E' :: s.exp.reverse⟩
  else if s.float then ⟨.Real, s.number.reverse⟩
  else ⟨.Int, s.number.reverse⟩

/-- State of the string scanner (`string`, `curExpr` reversed; `exprs` reversed).
    `cur_offset` is kept as the (reversed) text of the literal before the expression; the caret
    `state.pos.offset_pos(1).advance_over(&string)` is computed from it by `exprOffset`. -/
structure StrScan where
  string : List Char
  backSlash : Bool
  build : Int
  exprs : List (List Char × List Char)
  curPrefix : List Char
  curExpr : List Char
  consumed : Nat
  terminated : Bool
  panicked : Bool

/-- `cur_expr` after the current character was (or was not) recorded -/
def curExprOf (c : Char) (s : StrScan) : List Char := if s.build > 0 then c :: s.curExpr else s.curExpr
/-- the literal's text before an expression that opens at this character -/
def curPrefixOf (c : Char) (s : StrScan) : List Char :=
  if c = '{' && s.build == 0 then c :: s.string else s.curPrefix
/-- `build_cur_expr` after the current character -/
def buildOf (c : Char) (s : StrScan) : Int :=
  if c = '{' then s.build + 1 else if c = '}' then s.build - 1 else s.build
/-- an interpolated expression is complete after this character -/
def exprDone (c : Char) (s : StrScan) : Bool := buildOf c s == 0 && !(curExprOf c s).isEmpty

/-- body of the `for c in it` loop of the `'"'` arm for a character that does not end the literal -/
def scanStep (c : Char) (s : StrScan) : StrScan :=
  if s.backSlash then
    -- the escaped character still belongs to an interpolated expression that is being collected
    { s with string := c :: s.string, consumed := s.consumed + 1, backSlash := c = '\\', curExpr := curExprOf c s }
  else if exprDone c s then
    -- `cur_expr[0..cur_expr.len() - 1]`: byte slicing, panics unless the last char is 1 byte
    { s with string := c :: s.string, consumed := s.consumed + 1, backSlash := c = '\\',
             curExpr := [], curPrefix := curPrefixOf c s, build := buildOf c s,
             exprs := if (curExprOf c s).tail.isEmpty then s.exprs
                      else (curPrefixOf c s, (curExprOf c s).tail.reverse) :: s.exprs,
             panicked := s.panicked ||
               (match (curExprOf c s).head? with | some l => l.utf8Size != 1 | none => false) }
  else
    { s with string := c :: s.string, consumed := s.consumed + 1, backSlash := c = '\\',
             curExpr := curExprOf c s, curPrefix := curPrefixOf c s, build := buildOf c s }

/-- the `for c in it` loop of the `'"'` arm -/
def scanStr : List Char → StrScan → StrScan
  | [], s => s
  | c :: cs, s =>
    if !s.backSlash && s.build == 0 && c = '"' then
      { s with consumed := s.consumed + 1, terminated := true }
    else scanStr cs (scanStep c s)

def StrScan.init : StrScan := ⟨[], false, 0, [], [], [], 0, false, false⟩

/-- `cur_offset = state.pos.offset_pos(1).advance_over(&string)` -/
def exprOffset (pos : CaretPos) (prefixRev : List Char) : CaretPos :=
  (pos.offsetPos 1).advanceOver prefixRev.reverse

/-- tokens of one interpolated expression, re-based at `offset` (`Lex::new(lex.pos.offset(offset).start, ..)`;
    tokens nested deeper keep their own coordinates, as in Rust) -/
def rebase (offset : CaretPos) (l : Lex) : Lex :=
  Lex.new (l.start.offset offset) l.tok l.nested

/-- all nested expressions, first error wins (`collect::<Result<_,_>>`) -/
def nestedAll (nested : List Char → LexRes (List Lex)) (pos : CaretPos) :
    List (List Char × List Char) → LexRes (List (List Lex))
  | [] => .ok []
  | (pre, e) :: rest =>
    match nested e with
    | .err p => .err p
    | .panic n => .panic n
    | .ok toks =>
      match nestedAll nested pos rest with
      | .err p => .err p
      | .panic n => .panic n
      | .ok more => .ok (toks.map (rebase (exprOffset pos pre)) :: more)

/-- What one call of `into_tokens` decides before it touches the indentation state. -/
inductive Cls where
  | tok (t : Tok) (nest : List (List Lex)) (n : Nat)   -- a token; `n` further characters consumed
  | space
  | err                                               -- lexical error at the current caret
  | nestedErr (p : CaretPos)                           -- error inside an interpolated expression
  | panic (site : Nat)

/-- The character dispatch of `into_tokens(c, it, state)`; `pos` is `state.pos`,
    `nested` lexes an interpolated expression. -/
def classify (nested : List Char → LexRes (List Lex)) (pos : CaretPos) (c : Char) (rest : List Char) : Cls :=
  let create (k : Kind) (n : Nat) : Cls := .tok k.tok [] n
  if c = ',' then create .Comma 0
  else if c = ':' then
    match rest with
    | ':' :: '=' :: _ => create .SliceIncl 2
    | ':' :: _ => create .Slice 1
    | '=' :: _ => create .Assign 1
    | _ => create .DoublePoint 0
  else if c = '(' then create .LRBrack 0
  else if c = ')' then create .RRBrack 0
  else if c = '[' then create .LSBrack 0
  else if c = ']' then create .RSBrack 0
  else if c = '{' then create .LCBrack 0
  else if c = '}' then create .RCBrack 0
  else if c = '|' then create .Ver 0
  else if c = '\n' then create .NL 0
  else if c = '\r' then
    match rest with
    | '\n' :: _ => create .NL 1
    | _ => .err
  else if c = '.' then
    match rest with
    | '.' :: '=' :: _ => create .RangeIncl 2
    | '.' :: _ => create .Range 1
    | _ => create .Point 0
  else if c = '<' then
    match rest with
    | '<' :: '=' :: _ => create .BLShiftAssign 2
    | '<' :: _ => create .BLShift 1
    | '=' :: _ => create .Leq 1
    | _ => create .Le 0
  else if c = '>' then
    match rest with
    | '>' :: '=' :: _ => create .BRShiftAssign 2
    | '>' :: _ => create .BRShift 1
    | '=' :: _ => create .Geq 1
    | _ => create .Ge 0
  else if c = '+' then
    match rest with
    | '=' :: _ => create .AddAssign 1
    | _ => create .Add 0
  else if c = '-' then
    match rest with
    | '=' :: _ => create .SubAssign 1
    | '>' :: _ => create .To 1
    | _ => create .Sub 0
  else if c = '*' then
    match rest with
    | '=' :: _ => create .MulAssign 1
    | _ => create .Mul 0
  else if c = '/' then
    match rest with
    | '=' :: _ => create .DivAssign 1
    | '/' :: _ => create .FDiv 1
    | _ => create .Div 0
  else if c = '\\' then create .BSlash 0
  else if c = '^' then
    match rest with
    | '=' :: _ => create .PowAssign 1
    | _ => create .Pow 0
  else if c = '=' then
    match rest with
    | '>' :: _ => create .BTo 1
    | _ => create .Eq 0
  else if c = '#' then
    let comment := rest.takeWhile (fun d => d != '\n' && d != '\r')
    .tok ⟨.Comment, '#' :: comment⟩ [] comment.length
  else if c = '!' then
    match rest with
    | '=' :: _ => create .Neq 1
    | _ => .err
  else if c = '?' then create .Question 0
  else if c.isDigit then
    let s := scanNum rest ⟨[c], [], false, false, 0⟩
    .tok (numTok s) [] s.consumed
  else if isIdStart c then
    let more := rest.takeWhile isIdChar
    .tok (asOpOrId (c :: more)) [] more.length
  else if c = '"' then
    let s := scanStr rest StrScan.init
    if s.panicked then .panic 1
    else if !s.terminated then .err
    else
      -- The Rust arm `string.starts_with("\"\"") && string.ends_with("\"\"")` is dead: the first
      -- scanned character is never a quote (it would have terminated the scan); not modelled.
      match nestedAll nested pos s.exprs.reverse with
      | .err p => .nestedErr p
      | .panic n => .panic n
      | .ok nest => .tok ⟨.Str, '"' :: s.string.reverse ++ ['"']⟩ nest s.consumed
  else if c = ' ' then .space
  else .err

/-- One call of `into_tokens(c, it, state)`: returns emitted tokens, the new state and how many
    further characters of `rest` were consumed. -/
def step (nested : List Char → LexRes (List Lex)) (c : Char) (rest : List Char) (st : LState) :
    LexRes (List Lex × LState × Nat) :=
  match classify nested st.pos c rest with
  | .tok t nest n => .ok ((st.token t nest).1, (st.token t nest).2, n)
  | .space => .ok ([], st.space, 0)
  | .err => .err st.pos
  | .nestedErr p => .err p
  | .panic n => .panic n

/-- The main loop `while let Some(c) = it.next() { tokens.append(into_tokens(..)?) }`.
    `skip` counts characters already consumed by the previous call of `into_tokens`
    (structural recursion on the text, so the kernel can evaluate the model). -/
def run (nested : List Char → LexRes (List Lex)) : List Char → Nat → LState → LexRes (List Lex × LState)
  | [], _, st => .ok ([], st)
  | _ :: rest, skip + 1, st => run nested rest skip st
  | c :: rest, 0, st =>
    match step nested c rest st with
    | .err p => .err p
    | .panic n => .panic n
    | .ok (toks, st', n) =>
      match run nested rest n st' with
      | .err p => .err p
      | .panic n => .panic n
      | .ok (more, st'') => .ok (toks ++ more, st'')

/-! ### doc-string pass (`pass/docstring.rs`) -/

structure DocWin where
  front : Option Lex
  middle : Option Lex
  back : Option Lex

def strBody (t : Tok) : Option (List Char) :=
  if t.kind = .Str then some (t.text.drop 1).dropLast else none

/-- the test in `DocString::get`: three adjacent `Str` tokens, the outer two empty; yields the body -/
def mergeCond (f m b : Lex) : Option (List Char) :=
  match strBody f.tok, strBody m.tok, strBody b.tok with
  | some fs, some ds, some bs =>
    if fs.isEmpty && bs.isEmpty && f.stop.pos == m.start.pos && m.stop.pos == b.start.pos then some ds
    else none
  | _, _, _ => none

def docTok (f b : Lex) (ds : List Char) : Lex := Lex.mk f.start b.stop ⟨.DocStr, '#' :: '#' :: ds⟩ []

/-- `DocString::add` followed by `DocString::get` -/
def DocWin.push (w : DocWin) (l : Lex) : List Lex × DocWin :=
  match w.middle, w.back with
  | some f, some m =>
    match mergeCond f m l with
    | some ds => ([docTok f l ds], ⟨none, none, none⟩)
    | none => ([f], ⟨none, some m, some l⟩)
  | some f, none => ([f], ⟨none, none, some l⟩)
  | none, b => ([], ⟨none, b, some l⟩)

def DocWin.flush (w : DocWin) : List Lex :=
  w.front.toList ++ w.middle.toList ++ w.back.toList

def docPassGo : List Lex → DocWin → List Lex
  | [], w => w.flush
  | l :: ls, w => let r := w.push l; r.1 ++ docPassGo ls r.2

/-- `pass(&tokens)` -/
def docPass (ls : List Lex) : List Lex := docPassGo ls ⟨none, none, none⟩

/-! ### entry points -/

/-- `tokenize_direct` with nesting fuel (a nested expression is a strict substring, so
    `fuel = length` never runs out; running out is reported as panic site 99). -/
def tokenizeDirect : Nat → List Char → LexRes (List Lex)
  | 0, _ => .panic 99
  | fuel + 1, s =>
    match run (tokenizeDirect fuel) s 0 LState.init with
    | .err p => .err p
    | .panic n => .panic n
    | .ok (toks, st) => .ok (docPass (toks ++ st.flushIndents))

def eofPos (toks : List Lex) : CaretPos :=
  match toks.getLast? with
  | some l => l.stop.offsetPos 1
  | none => CaretPos.start

/-- `tokenize` for an arbitrary nested-expression lexer -/
def tokenizeWith (nested : List Char → LexRes (List Lex)) (s : List Char) : LexRes (List Lex) :=
  match run nested s 0 LState.init with
  | .err p => .err p
  | .panic n => .panic n
  | .ok (toks, st) =>
    let toks := toks ++ st.flushIndents
    .ok (docPass (toks ++ [Lex.new (eofPos toks) Kind.Eof.tok]))

/-- `parse::lex::tokenize` -/
def tokenize (s : List Char) : LexRes (List Lex) := tokenizeWith (tokenizeDirect s.length) s

end MV
