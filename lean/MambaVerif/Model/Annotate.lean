/-
Model of how `generate/convert/definition.rs` consumes the `annotate` option: the three guards of
type-annotation fields (variable definition, function argument, function return type) and the
decision whether a function's last expression becomes a `return`.  Which value that decision reads
(`retDecision`) and the set of read sites are regenerated from the Rust source; the translator
refuses any other use of the option in the generate stage and any mention outside it.
Types are opaque (`Nat`); everything the option does not touch is a parameter left unchanged.
-/
import MambaVerif.Generated.AnnotateTables

namespace MV

/-- `NodeTy::VariableDef` as `convert_def` sees it -/
structure VarIn where
  isTupleLiteral : Bool
  expandTy : Bool
  tyDeclared : Option Nat
  exprTy : Option (Option Nat)     -- `expr` present, with its inferred type
  deriving DecidableEq, Repr

/-- the `ty` field of the emitted `Core::VarDef` / `Core::FunArg` -/
def varDefTy (annotate : Bool) (v : VarIn) : Option Nat :=
  let ann := annotate && v.expandTy && !v.isTupleLiteral
  match v.tyDeclared, v.exprTy with
  | some t, _ => if ann then some t else none
  | none, some et => if ann then et else none
  | none, none => none

/-- `NodeTy::FunArg` -/
structure ArgIn where
  isSelf : Bool
  expandTy : Bool
  ty : Option Nat
  deriving DecidableEq, Repr

def funArgTy (annotate : Bool) (a : ArgIn) : Option Nat :=
  if annotate && a.expandTy && !a.isSelf then a.ty else none

/-- `NodeTy::FunDef` -/
structure FunIn where
  retDeclared : Option Nat
  args : List ArgIn
  deriving DecidableEq, Repr

/-- the emitted function: annotations, and whether the last expression of the body is returned -/
structure FunOut where
  ret : Option Nat
  argTys : List (Option Nat)
  lastIsReturn : Bool
  deriving DecidableEq, Repr

def convFun (annotate : Bool) (f : FunIn) : FunOut :=
  let ret := if annotate then f.retDeclared else none
  { ret := ret,
    argTys := f.args.map (funArgTy annotate),
    lastIsReturn := match retDecision with
      | .declared => f.retDeclared.isSome
      | .rendered => ret.isSome }

/-- erasing annotations -/
def FunOut.erase (o : FunOut) : FunOut := { o with ret := none, argTys := o.argTys.map (fun _ => none) }

end MV
