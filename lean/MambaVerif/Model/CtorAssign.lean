/-
Model of the definite-assignment analysis of attributes in a constructor
(`Environment::unassigned` threaded through `check/constrain/generate/{call,control_flow,statement}.rs`):
every non nullable attribute declared without a value must be assigned to on every path through
`__init__`.

Constructor bodies are statement trees as far as the analysis looks at them; conditions, values and
handled expressions are opaque.  Import-free (the driver links it).
-/
namespace MV

/-- statements of a constructor body -/
inductive CS where
  | assign (f : Nat)                               -- `self.f := v` (`Environment::assigned_to`)
  | skip                                           -- any statement that assigns to no attribute
  | ite (t e : List CS)                            -- `if c then t else e`
  | ifOnly (t : List CS)                           -- `if c then t`
  | loop (b : List CS)                             -- `for` / `while`
  | matchS (arms : List (List CS)) (catchAll : Bool) -- `match`; `catchAll`: some arm matches anything
  | handle (arms : List (List CS))                 -- `e handle arms` (`e` assigns to nothing)
  | ret                                            -- bare `return`
  deriving Inhabited, Repr

mutual
/-- the unassigned attributes after a statement (`none`: the checker reports an error) -/
def uaS : CS → List Nat → Option (List Nat)
  | .assign f, u => some (u.filter (fun x => x != f))
  | .skip, u => some u
  | .ite t e, u =>
    -- `env.intersection(&then_env.union(&else_env))`
    match uaB t u, uaB e u with
    | some a, some b => some (a ++ b)
    | _, _ => none
  | .ifOnly t, u =>
    -- `generate(then, env, ..)?; Ok(env.clone())`
    match uaB t u with
    | some _ => some u
    | none => none
  | .loop b, u =>
    match uaB b u with
    | some _ => some u
    | none => none
  | .matchS [] _, u => some u                       -- `envs` empty: `Ok(env.clone())`
  | .matchS (x :: more) ca, u =>
    -- union over the arms; without an arm that matches anything no arm may run
    match uaA (x :: more) u with
    | some a => some (if ca then a else a ++ u)
    | none => none
  | .handle arms, u =>
    -- `arms_env.union(&outer_env)`: no arm runs when the handled expression does not raise
    match uaA arms u with
    | some _ => some u
    | none => none
  | .ret, u => if u.isEmpty then some u else none   -- "not assigned to before return"
/-- a block: statements in sequence -/
def uaB : List CS → List Nat → Option (List Nat)
  | [], u => some u
  | s :: ss, u =>
    match uaS s u with
    | some u' => uaB ss u'
    | none => none
/-- the arms of a match / handle: each from the same start, the results united -/
def uaA : List (List CS) → List Nat → Option (List Nat)
  | [], _ => some []
  | a :: more, u =>
    match uaB a u, uaA more u with
    | some x, some y => some (x ++ y)
    | _, _ => none
end

/-- the checker's verdict on a constructor body for the attributes `fields` -/
def ctorAccepts (fields : List Nat) (body : List CS) : Bool :=
  match uaB body fields with
  | some u => u.isEmpty
  | none => false

/-! ### what a constructor does: every path, selected by a stream of choices -/

/-- outcome of running a statement: returned?, attributes assigned so far, remaining choices -/
abbrev Res := Bool × List Nat × List Nat

/-- `k` iterations of a loop body (a `return` inside ends the constructor) -/
def iter (k : Nat) (body : List Nat → List Nat → Res) (cs a : List Nat) : Res :=
  match k with
  | 0 => (false, a, cs)
  | k + 1 =>
    match body cs a with
    | (true, a', cs') => (true, a', cs')
    | (false, a', cs') => iter k body cs' a'

mutual
def runS : CS → List Nat → List Nat → Res
  | .assign f, cs, a => (false, f :: a, cs)
  | .skip, cs, a => (false, a, cs)
  | .ite t e, c :: cs, a => if c = 0 then runB t cs a else runB e cs a
  | .ite t _, [], a => runB t [] a
  | .ifOnly t, c :: cs, a => if c = 0 then (false, a, cs) else runB t cs a
  | .ifOnly _, [], a => (false, a, [])
  | .loop b, c :: cs, a => iter c (fun cs a => runB b cs a) cs a
  | .loop _, [], a => (false, a, [])
  | .matchS arms true, c :: cs, a => (runA arms c cs a).getD (false, a, cs)
  | .matchS arms true, [], a => (runA arms 0 [] a).getD (false, a, [])
  | .matchS arms false, c :: cs, a =>
    match c with
    | 0 => (false, a, cs)                                   -- no pattern matches
    | c + 1 => (runA arms c cs a).getD (false, a, cs)
  | .matchS _ false, [], a => (false, a, [])
  | .handle arms, c :: cs, a =>
    match c with
    | 0 => (false, a, cs)                                   -- nothing is raised
    | c + 1 => (runA arms c cs a).getD (false, a, cs)
  | .handle _, [], a => (false, a, [])
  | .ret, cs, a => (true, a, cs)
def runB : List CS → List Nat → List Nat → Res
  | [], cs, a => (false, a, cs)
  | s :: ss, cs, a =>
    match runS s cs a with
    | (true, a', cs') => (true, a', cs')
    | (false, a', cs') => runB ss cs' a'
/-- arm number `n` (any larger number selects the last arm); `none` only without arms -/
def runA : List (List CS) → Nat → List Nat → List Nat → Option Res
  | [], _, _, _ => none
  | [x], _, cs, a => some (runB x cs a)
  | x :: _ :: _, 0, cs, a => some (runB x cs a)
  | _ :: y :: more, n + 1, cs, a => runA (y :: more) n cs a
end

/-! ### wire format of the driver: `A<n>` assign, `S` skip, `I(t;e)`, `O(t)` if-only, `L(b)`,
    `M1(a|b|..)` / `M0(..)` match with / without catch-all, `H(a|b)`, `R`; statements separated by `,` -/

partial def readNat (cs : List Char) (acc : Nat) : Nat × List Char :=
  match cs with
  | c :: rest => if c.isDigit then readNat rest (acc * 10 + (c.toNat - '0'.toNat)) else (acc, cs)
  | [] => (acc, [])

mutual
partial def readCS (cs : List Char) : Option (CS × List Char) :=
  match cs with
  | 'A' :: rest => let (n, r) := readNat rest 0; some (.assign n, r)
  | 'S' :: rest => some (.skip, rest)
  | 'R' :: rest => some (.ret, rest)
  | 'I' :: '(' :: rest =>
    match readBlock rest with
    | some (t, ';' :: r1) =>
      match readBlock r1 with
      | some (e, ')' :: r2) => some (.ite t e, r2)
      | _ => none
    | _ => none
  | 'O' :: '(' :: rest =>
    match readBlock rest with
    | some (t, ')' :: r) => some (.ifOnly t, r)
    | _ => none
  | 'L' :: '(' :: rest =>
    match readBlock rest with
    | some (t, ')' :: r) => some (.loop t, r)
    | _ => none
  | 'M' :: d :: '(' :: rest =>
    match readArms rest with
    | some (arms, ')' :: r) => some (.matchS arms (d == '1'), r)
    | _ => none
  | 'H' :: '(' :: rest =>
    match readArms rest with
    | some (arms, ')' :: r) => some (.handle arms, r)
    | _ => none
  | _ => none
partial def readBlock (cs : List Char) : Option (List CS × List Char) :=
  match readCS cs with
  | none => some ([], cs)
  | some (s, ',' :: rest) =>
    match readBlock rest with
    | some (ss, r) => some (s :: ss, r)
    | none => none
  | some (s, rest) => some ([s], rest)
partial def readArms (cs : List Char) : Option (List (List CS) × List Char) :=
  match readBlock cs with
  | some (b, '|' :: rest) =>
    match readArms rest with
    | some (bs, r) => some (b :: bs, r)
    | none => none
  | some (b, rest) => some ([b], rest)
  | none => none
end

/-- request `<number of fields> <body>` ↦ `accept` / `reject` -/
def ctorRequest (payload : String) : String :=
  match payload.trimAscii.toString.splitOn " " with
  | [n, body] =>
    match n.toNat?, readBlock body.toList with
    | some k, some (b, []) => if ctorAccepts (List.range k) b then "accept" else "reject"
    | _, _ => "bad-request"
  | _ => "bad-request"

end MV
