/-
Model of `generate/convert/state.rs::Imports`: the collector of support imports.
`imports` is a `Vec` with a `contains` check; `from_imports` is a `BTreeMap<String, Core::Import>`
whose member list is re-sorted at every insertion.  Names are strings; the map is an association
list kept sorted by key.
-/
namespace MV

structure Imp where
  imports : List String
  fromImports : List (String × List String)
  deriving Repr, DecidableEq

inductive ImpOp where
  | imp (m : String)
  | frm (m x : String)
  deriving Repr, DecidableEq

def Imp.empty : Imp := ⟨[], []⟩

/-- insertion into a list sorted by `≤` (the `sorted_by_key` of the member list; stable) -/
def insertSorted (x : String) : List String → List String
  | [] => [x]
  | y :: ys => if x < y then x :: y :: ys else y :: insertSorted x ys

def sortStrings (xs : List String) : List String := xs.foldl (fun acc x => insertSorted x acc) []

/-- replace the value stored under an existing key -/
def mapReplace (k : String) (v : List String) : List (String × List String) → List (String × List String)
  | [] => []
  | (k', v') :: rest => if k = k' then (k, v) :: rest else (k', v') :: mapReplace k v rest

/-- insert a NEW key at its place in key order -/
def mapInsertNew (k : String) (v : List String) : List (String × List String) → List (String × List String)
  | [] => [(k, v)]
  | (k', v') :: rest => if k < k' then (k, v) :: (k', v') :: rest else (k', v') :: mapInsertNew k v rest

/-- `BTreeMap::insert`: the value of an existing key is replaced, a new key goes to its place in key order -/
def mapInsert (k : String) (v : List String) (m : List (String × List String)) : List (String × List String) :=
  if k ∈ m.map Prod.fst then mapReplace k v m else mapInsertNew k v m

def mapGet (k : String) (m : List (String × List String)) : Option (List String) :=
  match m.find? (fun p => p.1 = k) with
  | some p => some p.2
  | none => none

/-- `add_import` -/
def Imp.addImport (s : Imp) (m : String) : Imp :=
  if m ∈ s.imports then s else { s with imports := s.imports ++ [m] }

/-- `add_from_import` -/
def Imp.addFrom (s : Imp) (m x : String) : Imp :=
  match mapGet m s.fromImports with
  | some members =>
    let members' := if x ∈ members then members else members ++ [x]
    { s with fromImports := mapInsert m (sortStrings members') s.fromImports }
  | none => { s with fromImports := mapInsert m [x] s.fromImports }

def Imp.step (s : Imp) : ImpOp → Imp
  | .imp m => s.addImport m
  | .frm m x => s.addFrom m x

def Imp.run (ops : List ImpOp) : Imp := ops.foldl Imp.step Imp.empty

/-- `imports()`: plain imports in insertion order, then the from-imports in key order; rendered as text -/
def Imp.render (s : Imp) : List String :=
  s.imports.map (fun m => "import " ++ m) ++
  s.fromImports.map (fun p => "from " ++ p.1 ++ " import " ++ ", ".intercalate p.2)

end MV
