/-
Wire helpers shared by the driver: hex, token dump in the harness's canonical format.
-/
import MambaVerif.Model.Lex

namespace MV

def hexDigit (n : Nat) : Char :=
  if n < 10 then Char.ofNat (48 + n) else Char.ofNat (87 + n)

def hexOfBytes (b : ByteArray) : String :=
  String.ofList (b.toList.flatMap fun x => [hexDigit (x.toNat / 16), hexDigit (x.toNat % 16)])

def hexOfChars (cs : List Char) : String := hexOfBytes (String.ofList cs).toUTF8

def hexVal (c : Char) : Option Nat :=
  if '0' ≤ c ∧ c ≤ '9' then some (c.toNat - 48)
  else if 'a' ≤ c ∧ c ≤ 'f' then some (c.toNat - 87)
  else if 'A' ≤ c ∧ c ≤ 'F' then some (c.toNat - 55)
  else none

def unhexBytes : List Char → Option (List UInt8)
  | [] => some []
  | [_] => none
  | a :: b :: rest => do
    let h ← hexVal a
    let l ← hexVal b
    let more ← unhexBytes rest
    pure (UInt8.ofNat (h * 16 + l) :: more)

def unhexString (s : String) : Option String := do
  let bytes ← unhexBytes s.toList
  String.fromUTF8? (ByteArray.mk bytes.toArray)

mutual
partial def dumpLex (l : Lex) : String :=
  let base := s!"T({l.kind.name},{l.start.line},{l.start.pos},{l.stop.line},{l.stop.pos},{hexOfChars l.tok.text}"
  if l.kind = Kind.Str then
    base ++ ",[" ++ String.join (l.nested.map fun g => "[" ++ dumpLexList g ++ "]") ++ "])"
  else base ++ ")"
partial def dumpLexList (ls : List Lex) : String :=
  " ".intercalate (ls.map dumpLex)
end

def dumpLexRes : LexRes (List Lex) → String
  | .ok toks => "ok " ++ dumpLexList toks
  | .err p => s!"err {p.line} {p.pos}"
  | .panic n => s!"PANIC-SITE {n}"

end MV
