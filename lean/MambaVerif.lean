import MambaVerif.Model.Lex
