import MambaVerif.Props.C18
