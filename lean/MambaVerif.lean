import MambaVerif.Props.C18
import MambaVerif.Props.C14
import MambaVerif.Props.C03
import MambaVerif.Props.C10
import MambaVerif.Props.C20
import MambaVerif.Props.C01
import MambaVerif.Props.C11
import MambaVerif.Props.C02
