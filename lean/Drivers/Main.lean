/-
mvdrv <mode>: one request per line on stdin (`id<TAB>payload`), one answer per line on stdout
(`id<TAB>result`), same protocol as the Rust harness `mv_harness`.
-/
import MambaVerif.Model.Wire
import MambaVerif.Model.PyExpr
import MambaVerif.Model.Ty
import MambaVerif.Model.Range
import MambaVerif.Props.C02
import MambaVerif.Model.Imports
import MambaVerif.Model.ClassOrder
import MambaVerif.Model.Pipeline
import MambaVerif.Model.Diag
import MambaVerif.Model.ScopeWire
import MambaVerif.Model.CallConf
import MambaVerif.Model.Tail
import MambaVerif.Model.CtorAssign

open MV


namespace MV
/-- reader of the wire form of statement trees: `E R X A`, `B(..;..)`, `I(t;e)`, `M(c;..)`, `C(b)`, `T(a;h;..)`, `H(b)` -/
partial def readTS : List Char → Option (TS × List Char)
  | 'E' :: r => some (.expr 1, r)
  | 'R' :: r => some (.ret 1, r)
  | 'X' :: r => some (.raise 1, r)
  | 'A' :: r => some (.assign 2 1, r)
  | 'B' :: '(' :: r => do let (ss, r') ← readTSList r; some (.block ss, r')
  | 'I' :: '(' :: r => do
      let (ss, r') ← readTSList r
      match ss with
      | [t, e] => some (.ifElse 1 t e, r')
      | _ => none
  | 'M' :: '(' :: r => do let (ss, r') ← readTSList r; some (.matchS 1 ss, r')
  | 'C' :: '(' :: r => do
      let (ss, r') ← readTSList r
      match ss with
      | [b] => some (.case 1 b, r')
      | _ => none
  | 'T' :: '(' :: r => do
      let (ss, r') ← readTSList r
      match ss with
      | a :: hs => some (.tryExcept 1 a hs, r')
      | _ => none
  | 'H' :: '(' :: r => do
      let (ss, r') ← readTSList r
      match ss with
      | [b] => some (.except 1 b, r')
      | _ => none
  | _ => none
where
  readTSList : List Char → Option (List TS × List Char)
    | ')' :: r => some ([], r)
    | cs => do
      let (t, r) ← readTS cs
      match r with
      | ';' :: r' => do let (ts, r'') ← readTSList r'; some (t :: ts, r'')
      | ')' :: r' => some ([t], r')
      | _ => none

def tailRequest (payload : String) : String :=
  match payload.splitOn " " with
  | [which, tree] =>
    match readTS tree.toList with
    | some (t, []) =>
      let out := if which == "assign" then appendAssign 9 t else appendRet t
      " ".intercalate ((leaves out).map TS.kindName)
    | _ => "bad tree"
  | _ => "bad payload"
end MV

def handle (mode : String) (payload : String) : String :=
  match mode with
  | "lex" =>
    match unhexString payload with
    | some s => dumpLexRes (tokenize s.toList)
    | none => "BADINPUT"
  | "core" =>
    match Sexp.parse payload with
    | some sx =>
      match ceOfSexp sx with
      | some e => "ok " ++ hexOfBytes e.display.toUTF8
      | none => "bad core"
    | none => "bad sexp"
  | "pyparse" =>
    -- Core S-expression -> tokens of the print model -> Python grammar model -> tree dump, and ⌜e⌝
    match Sexp.parse payload with
    | some sx =>
      match ceOfSexp sx with
      | some e =>
        let ts := pr e
        let big := parse (64 * ts.length + 256) 1 ts
        let parsed := match pyParse ts, big with
          | some a, some (b, []) => if a.dump == b.dump then a.dump else "FUEL-DEPENDENT"
          | none, none => "noparse"
          | none, some (_, _ :: _) => "noparse"
          | _, _ => "FUEL-DEPENDENT"
        parsed ++ "\t" ++ (embed e).dump
      | none => "bad core"
    | none => "bad sexp"
  | "pyflat" =>
    match Sexp.parse payload with
    | some sx =>
      match ceOfSexp sx with
      | some e =>
        let ts := prFlat e
        let parsed := match pyParse ts with | some a => a.dump | none => "noparse"
        hexOfBytes (renderToks ts).toUTF8 ++ "\t" ++ parsed
      | none => "bad core"
    | none => "bad sexp"
  | "scope" => MV.SL.scopeRequest payload
  | "callconf" => callConfRequest payload
  | "tail" => MV.tailRequest payload
  | "ctor" => MV.ctorRequest payload
  | "render" =>
    -- same payload as the harness: `<haspos> l1 c1 l2 c2 <hex msg> <hex path|-> <hex source|-> <n> (l1 c1 l2 c2 <hex msg>)*`
    let ws := (payload.splitOn " ")
    let nat (i : Nat) : Nat := (ws.getD i "0").toNat?.getD 0
    let str (i : Nat) : Option String := if ws.getD i "-" == "-" then none else unhexString (ws.getD i "")
    let pos : DPos := ⟨nat 1, nat 2, nat 3, nat 4⟩
    let n := nat 8
    let causes := (List.range n).map fun k => (⟨⟨nat (9 + 5 * k), nat (10 + 5 * k), nat (11 + 5 * k), nat (12 + 5 * k)⟩,
      (unhexString (ws.getD (13 + 5 * k) "")).getD ""⟩ : DCause)
    match formatErr ((unhexString (ws.getD 5 "")).getD "") (str 6) (if ws.getD 0 "0" == "1" then some pos else none) (str 7) causes with
    | some t => "ok " ++ hexOfBytes t.toUTF8
    | none => "PANIC"
  | "proj" =>
    -- payload: `<pre paths comma separated or -> <file>*` with file = `rel:label` (label g|p|t|x = good, parse, type, gen error)
    match (payload.splitOn " ").filter (· != "") with
    | pre :: fs =>
      let prior : FS := if pre == "-" then [] else (pre.splitOn ",").map fun p => (p, "old")
      let files := fs.filterMap fun t =>
        match t.splitOn ":" with
        | [rel, l] =>
          let o := if l == "g" then Outcome.good ("py:" ++ rel) else if l == "p" then .parseErr "e"
            else if l == "t" then .typeErr ["e"] else .genErr "e"
          some (⟨rel, o⟩ : PFile)
        | _ => none
      let (res, out) := transpileDir prior files []
      let paths := (out.map Prod.fst).eraseDups.mergeSort (fun a b => a ≤ b)
      let verdict := match res with
        | .ok _ => "ok"
        | .error es => "err " ++ ",".intercalate ((es.map Prod.fst).eraseDups)
      verdict ++ " | " ++ ",".intercalate paths
    | [] => "bad payload"
  | "classorder" =>
    -- payload: `<newinit 0|1> kind:name ...` (kind v|f|i|o, in body order) -> emitted member names
    match (payload.splitOn " ").filter (· != "") with
    | ni :: ms =>
      let members := ms.zipIdx.filterMap fun (t, i) =>
        match t.splitOn ":" with
        | [k, n] =>
          let kind := if k == "v" then some MKind.var else if k == "f" then some MKind.fn
            else if k == "i" then some MKind.init else if k == "o" then some MKind.other else none
          kind.map fun kd => (⟨i, kd, n⟩ : Member)
        | _ => none
      let es := entries members (ni == "1")
      -- the result must not depend on the storage order: emit from two different storage orders
      let a := (emitted es).map (·.m.name)
      let b := (emitted es.reverse).map (·.m.name)
      if a == b then " ".intercalate a else "ORDER-DEPENDENT " ++ " ".intercalate a ++ " / " ++ " ".intercalate b
    | [] => "bad payload"
  | "imports" =>
    let ops := (payload.splitOn " ").filter (· != "") |>.map fun o =>
      match o.splitOn ":" with
      | ["i", m] => some (ImpOp.imp m)
      | ["f", m, x] => some (ImpOp.frm m x)
      | _ => none
    if ops.all Option.isSome then
      "ok " ++ "|".intercalate (Imp.run (ops.filterMap id)).render
    else "bad op"
  | "commadelim" =>
    -- payload: space separated hex items; result: hex of C02.commaDelimited
    let items := (payload.splitOn " ").filter (· != "") |>.map (fun h => if h == "-" then some "" else unhexString h)
    if items.all Option.isSome then
      hexOfChars (MV.C02.commaDelimited (items.map fun i => (i.getD "").toList))
    else "bad hex"
  | "range" =>
    match payload.splitOn " " with
    | [a, b, c, d] =>
      match a.toInt?, b.toInt?, d.toInt? with
      | some lo, some hi, some st => rangeArgsText lo hi (c == "1") st
      | _, _, _ => "bad ints"
    | _ => "bad payload"
  | "tysup" => tySupRequest payload
  | "tyunion" => tyUnionRequest payload
  | _ => "BADMODE"

partial def loop (h : IO.FS.Stream) (out : IO.FS.Stream) (mode : String) : IO Unit := do
  let line ← h.getLine
  if line.isEmpty then return ()
  let line := (line.dropEndWhile (fun c => c == '\n' || c == '\r')).toString
  if line.isEmpty then loop h out mode else
  let (id, payload) := match line.splitOn "\t" with
    | [a] => (a, "")
    | a :: b :: _ => (a, b)
    | [] => ("", "")
  out.putStrLn (id ++ "\t" ++ handle mode payload)
  loop h out mode

def main (args : List String) : IO UInt32 := do
  match args with
  | [mode] =>
    loop (← IO.getStdin) (← IO.getStdout) mode
    return 0
  | _ =>
    IO.eprintln "usage: mvdrv <mode>"
    return 2
