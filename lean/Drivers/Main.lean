/-
mvdrv <mode>: one request per line on stdin (`id<TAB>payload`), one answer per line on stdout
(`id<TAB>result`), same protocol as the Rust harness `mv_harness`.
-/
import MambaVerif.Model.Wire

open MV

def handle (mode : String) (payload : String) : String :=
  match mode with
  | "lex" =>
    match unhexString payload with
    | some s => dumpLexRes (tokenize s.toList)
    | none => "BADINPUT"
  | _ => "BADMODE"

partial def loop (h : IO.FS.Stream) (out : IO.FS.Stream) (mode : String) : IO Unit := do
  let line ← h.getLine
  if line.isEmpty then return ()
  let line := (line.dropEndWhile (fun c => c == '\n' || c == '\r')).toString
  if line.isEmpty then loop h out mode else
  let (id, payload) := match line.splitOn "\t" with
    | [a] => (a, "")
    | a :: b :: _ => (a, b)
    | [] => ("", "")
  out.putStrLn (id ++ "\t" ++ handle mode payload)
  loop h out mode

def main (args : List String) : IO UInt32 := do
  match args with
  | [mode] =>
    loop (← IO.getStdin) (← IO.getStdout) mode
    return 0
  | _ =>
    IO.eprintln "usage: mvdrv <mode>"
    return 2
