//! S-expressions: `(Tag field ...)`, bare-word atoms and "quoted strings" with \" \\ \n escapes.
#[derive(Debug, Clone, PartialEq)]
pub enum Sexp {
    Atom(String),
    Str(String),
    List(Vec<Sexp>),
}

impl Sexp {
    pub fn parse(s: &str) -> Option<Sexp> {
        let cs: Vec<char> = s.chars().collect();
        let mut i = 0;
        parse_one(&cs, &mut i)
    }

    pub fn tag(&self) -> Option<&str> {
        match self {
            Sexp::List(xs) => match xs.first() {
                Some(Sexp::Atom(a)) => Some(a.as_str()),
                _ => None,
            },
            _ => None,
        }
    }

    pub fn args(&self) -> &[Sexp] {
        match self {
            Sexp::List(xs) if !xs.is_empty() => &xs[1..],
            _ => &[],
        }
    }

    pub fn text(&self) -> String {
        match self {
            Sexp::Atom(a) => a.clone(),
            Sexp::Str(a) => a.clone(),
            Sexp::List(_) => String::new(),
        }
    }

    pub fn items(&self) -> &[Sexp] {
        match self {
            Sexp::List(xs) => xs,
            _ => &[],
        }
    }
}

fn parse_one(cs: &[char], i: &mut usize) -> Option<Sexp> {
    while *i < cs.len() && (cs[*i] == ' ' || cs[*i] == '\n' || cs[*i] == '\t') {
        *i += 1;
    }
    if *i >= cs.len() {
        return None;
    }
    match cs[*i] {
        '(' => {
            *i += 1;
            let mut xs = vec![];
            loop {
                while *i < cs.len() && (cs[*i] == ' ' || cs[*i] == '\n' || cs[*i] == '\t') {
                    *i += 1;
                }
                if *i >= cs.len() {
                    return None;
                }
                if cs[*i] == ')' {
                    *i += 1;
                    return Some(Sexp::List(xs));
                }
                xs.push(parse_one(cs, i)?);
            }
        }
        ')' => None,
        '"' => {
            *i += 1;
            let mut s = String::new();
            while *i < cs.len() {
                match cs[*i] {
                    '"' => {
                        *i += 1;
                        return Some(Sexp::Str(s));
                    }
                    '\\' if *i + 1 < cs.len() => {
                        s.push(if cs[*i + 1] == 'n' { '\n' } else { cs[*i + 1] });
                        *i += 2;
                    }
                    c => {
                        s.push(c);
                        *i += 1;
                    }
                }
            }
            None
        }
        _ => {
            let start = *i;
            while *i < cs.len() && !" ()\"\n\t".contains(cs[*i]) {
                *i += 1;
            }
            Some(Sexp::Atom(cs[start..*i].iter().collect()))
        }
    }
}

pub fn quote(s: &str) -> String {
    let mut out = String::from("\"");
    for c in s.chars() {
        match c {
            '"' => out.push_str("\\\""),
            '\\' => out.push_str("\\\\"),
            '\n' => out.push_str("\\n"),
            c => out.push(c),
        }
    }
    out.push('"');
    out
}
