//! `core` mode: S-expression of a `Core` tree -> `format!("{core}")` (the real printer).
use mamba::generate::ast::node::{Core, CoreFunOp, CoreOp};

use crate::sexp::Sexp;
use crate::util::hex;

fn bx(s: &Sexp) -> Result<Box<Core>, String> {
    Ok(Box::from(core(s)?))
}

fn vecc(s: &Sexp) -> Result<Vec<Core>, String> {
    s.items().iter().map(core).collect()
}

fn opt(s: &Sexp) -> Result<Option<Box<Core>>, String> {
    match s {
        Sexp::Atom(a) if a == "none" => Ok(None),
        Sexp::List(xs) if xs.len() == 2 && xs[0] == Sexp::Atom("some".into()) => Ok(Some(bx(&xs[1])?)),
        other => Err(format!("bad option {other:?}")),
    }
}

fn core_op(s: &str) -> Result<CoreOp, String> {
    Ok(match s {
        "Assign" => CoreOp::Assign,
        "AddAssign" => CoreOp::AddAssign,
        "SubAssign" => CoreOp::SubAssign,
        "MulAssign" => CoreOp::MulAssign,
        "DivAssign" => CoreOp::DivAssign,
        "PowAssign" => CoreOp::PowAssign,
        "BLShiftAssign" => CoreOp::BLShiftAssign,
        "BRShiftAssign" => CoreOp::BRShiftAssign,
        _ => return Err(format!("bad CoreOp {s}")),
    })
}

fn fun_op(s: &str) -> Result<CoreFunOp, String> {
    Ok(match s {
        "Ge" => CoreFunOp::Ge,
        "Geq" => CoreFunOp::Geq,
        "Le" => CoreFunOp::Le,
        "Leq" => CoreFunOp::Leq,
        "Eq" => CoreFunOp::Eq,
        "Neq" => CoreFunOp::Neq,
        "Add" => CoreFunOp::Add,
        "Sub" => CoreFunOp::Sub,
        "Mul" => CoreFunOp::Mul,
        "Div" => CoreFunOp::Div,
        "Pow" => CoreFunOp::Pow,
        "Mod" => CoreFunOp::Mod,
        "FDiv" => CoreFunOp::FDiv,
        _ => return Err(format!("bad CoreFunOp {s}")),
    })
}

pub fn core(s: &Sexp) -> Result<Core, String> {
    let tag = s.tag().ok_or_else(|| format!("no tag in {s:?}"))?;
    let a = s.args();
    let need = |n: usize| if a.len() == n { Ok(()) } else { Err(format!("{tag}: expected {n} fields, got {}", a.len())) };
    macro_rules! bin {
        ($v:ident) => {{
            need(2)?;
            Core::$v { left: bx(&a[0])?, right: bx(&a[1])? }
        }};
    }
    macro_rules! un {
        ($v:ident) => {{
            need(1)?;
            Core::$v { expr: bx(&a[0])? }
        }};
    }
    Ok(match tag {
        "Id" => { need(1)?; Core::Id { lit: a[0].text() } }
        "Int" => { need(1)?; Core::Int { int: a[0].text() } }
        "Float" => { need(1)?; Core::Float { float: a[0].text() } }
        "Str" => { need(1)?; Core::Str { string: a[0].text() } }
        "FStr" => { need(1)?; Core::FStr { string: a[0].text() } }
        "DocStr" => { need(1)?; Core::DocStr { string: a[0].text() } }
        "Bool" => { need(1)?; Core::Bool { boolean: a[0].text() == "true" } }
        "ENum" => { need(2)?; Core::ENum { num: a[0].text(), exp: a[1].text() } }
        "None" => Core::None,
        "Pass" => Core::Pass,
        "Break" => Core::Break,
        "Continue" => Core::Continue,
        "UnderScore" => Core::UnderScore,
        "Empty" => Core::Empty,
        "Ge" => bin!(Ge), "Geq" => bin!(Geq), "Le" => bin!(Le), "Leq" => bin!(Leq),
        "Is" => bin!(Is), "IsN" => bin!(IsN), "Eq" => bin!(Eq), "Neq" => bin!(Neq), "IsA" => bin!(IsA),
        "And" => bin!(And), "Or" => bin!(Or), "Add" => bin!(Add), "Sub" => bin!(Sub), "Mul" => bin!(Mul),
        "Mod" => bin!(Mod), "Pow" => bin!(Pow), "Div" => bin!(Div), "FDiv" => bin!(FDiv),
        "BAnd" => bin!(BAnd), "BOr" => bin!(BOr), "BXOr" => bin!(BXOr), "BLShift" => bin!(BLShift), "BRShift" => bin!(BRShift),
        "In" => bin!(In),
        "Not" => un!(Not), "AddU" => un!(AddU), "SubU" => un!(SubU), "BOneCmpl" => un!(BOneCmpl), "Sqrt" => un!(Sqrt),
        "Return" => un!(Return),
        "Raise" => { need(1)?; Core::Raise { error: bx(&a[0])? } }
        "Ternary" => { need(3)?; Core::Ternary { cond: bx(&a[0])?, then: bx(&a[1])?, el: bx(&a[2])? } }
        "AnonFun" => { need(2)?; Core::AnonFun { args: vecc(&a[0])?, body: bx(&a[1])? } }
        "FunctionCall" => { need(2)?; Core::FunctionCall { function: bx(&a[0])?, args: vecc(&a[1])? } }
        "PropertyCall" => { need(2)?; Core::PropertyCall { object: bx(&a[0])?, property: bx(&a[1])? } }
        "Index" => { need(2)?; Core::Index { item: bx(&a[0])?, range: bx(&a[1])? } }
        "Tuple" => { need(1)?; Core::Tuple { elements: vecc(&a[0])? } }
        "TupleLiteral" => { need(1)?; Core::TupleLiteral { elements: vecc(&a[0])? } }
        "List" => { need(1)?; Core::List { elements: vecc(&a[0])? } }
        "Set" => { need(1)?; Core::Set { elements: vecc(&a[0])? } }
        "Dictionary" => {
            need(1)?;
            let mut elements = vec![];
            for kv in a[0].items() {
                let kv = kv.items();
                if kv.len() != 2 { return Err("bad dictionary element".into()); }
                elements.push((core(&kv[0])?, core(&kv[1])?));
            }
            Core::Dictionary { elements }
        }
        "KeyValue" => { need(2)?; Core::KeyValue { key: bx(&a[0])?, value: bx(&a[1])? } }
        "Comprehension" => { need(3)?; Core::Comprehension { expr: bx(&a[0])?, col: bx(&a[1])?, conds: vecc(&a[2])? } }
        "DictComprehension" => { need(4)?; Core::DictComprehension { from: bx(&a[0])?, to: bx(&a[1])?, col: bx(&a[2])?, conds: vecc(&a[3])? } }
        "Block" => { need(1)?; Core::Block { statements: vecc(&a[0])? } }
        "If" => { need(2)?; Core::If { cond: bx(&a[0])?, then: bx(&a[1])? } }
        "IfElse" => { need(3)?; Core::IfElse { cond: bx(&a[0])?, then: bx(&a[1])?, el: bx(&a[2])? } }
        "While" => { need(2)?; Core::While { cond: bx(&a[0])?, body: bx(&a[1])? } }
        "For" => { need(3)?; Core::For { expr: bx(&a[0])?, col: bx(&a[1])?, body: bx(&a[2])? } }
        "Assign" => { need(3)?; Core::Assign { left: bx(&a[0])?, right: bx(&a[1])?, op: core_op(&a[2].text())? } }
        "VarDef" => { need(3)?; Core::VarDef { var: bx(&a[0])?, ty: opt(&a[1])?, expr: opt(&a[2])? } }
        "FunDef" => {
            need(5)?;
            Core::FunDef { dec: a[0].items().iter().map(|d| d.text()).collect(), id: a[1].text(), arg: vecc(&a[2])?, ty: opt(&a[3])?, body: bx(&a[4])? }
        }
        "FunDefOp" => { need(4)?; Core::FunDefOp { op: fun_op(&a[0].text())?, arg: vecc(&a[1])?, ty: opt(&a[2])?, body: bx(&a[3])? } }
        "FunArg" => { need(4)?; Core::FunArg { vararg: a[0].text() == "true", var: bx(&a[1])?, ty: opt(&a[2])?, default: opt(&a[3])? } }
        "ClassDef" => { need(3)?; Core::ClassDef { name: bx(&a[0])?, parent_names: vecc(&a[1])?, body: bx(&a[2])? } }
        "Match" => { need(2)?; Core::Match { expr: bx(&a[0])?, cases: vecc(&a[1])? } }
        "Case" => { need(2)?; Core::Case { expr: bx(&a[0])?, body: bx(&a[1])? } }
        "TryExcept" => { need(3)?; Core::TryExcept { setup: opt(&a[0])?, attempt: bx(&a[1])?, except: vecc(&a[2])? } }
        "ExceptId" => { need(3)?; Core::ExceptId { id: bx(&a[0])?, class: bx(&a[1])?, body: bx(&a[2])? } }
        "Except" => { need(2)?; Core::Except { class: bx(&a[0])?, body: bx(&a[1])? } }
        "With" => { need(2)?; Core::With { resource: bx(&a[0])?, expr: bx(&a[1])? } }
        "WithAs" => { need(3)?; Core::WithAs { resource: bx(&a[0])?, alias: bx(&a[1])?, expr: bx(&a[2])? } }
        "Import" => { need(3)?; Core::Import { from: opt(&a[0])?, import: vecc(&a[1])?, alias: vecc(&a[2])? } }
        "Type" => { need(2)?; Core::Type { lit: a[0].text(), generics: vecc(&a[1])? } }
        "ExpressionType" => { need(2)?; Core::ExpressionType { expr: bx(&a[0])?, ty: bx(&a[1])? } }
        _ => return Err(format!("unknown Core tag {tag}")),
    })
}

/// payload: S-expression of a Core tree; result: `ok <hex of format!("{core}")>` | `bad <msg>`
pub fn print(payload: &str) -> String {
    match Sexp::parse(payload) {
        None => String::from("bad sexp"),
        Some(s) => match core(&s) {
            Ok(c) => format!("ok {}", hex(format!("{c}").as_bytes())),
            Err(e) => format!("bad {e}"),
        },
    }
}
