use mamba::verif_hooks::{tokenize, Lex, Token};

use crate::util::{hex, unhex_str};

fn kind(t: &Token) -> String {
    let d = format!("{t:?}");
    d.split(|c| c == '(' || c == ' ').next().unwrap_or("").to_string()
}

pub fn dump_lex(l: &Lex, out: &mut String) {
    out.push_str(&format!(
        "T({},{},{},{},{},{}",
        kind(&l.token),
        l.pos.start.line,
        l.pos.start.pos,
        l.pos.end.line,
        l.pos.end.pos,
        hex(l.token.to_string().as_bytes())
    ));
    if let Token::Str(_, nested) = &l.token {
        out.push_str(",[");
        for group in nested {
            out.push('[');
            dump_list(group, out);
            out.push(']');
        }
        out.push(']');
    }
    out.push(')');
}

pub fn dump_list(ls: &[Lex], out: &mut String) {
    let mut first = true;
    for l in ls {
        if !first {
            out.push(' ');
        }
        first = false;
        dump_lex(l, out);
    }
}

/// payload: hex of the UTF-8 source text. result: `ok <tokens>` | `err <line> <col>`
pub fn lex(payload: &str) -> String {
    let src = unhex_str(payload);
    match tokenize(&src) {
        Ok(tokens) => {
            let mut s = String::from("ok ");
            dump_list(&tokens, &mut s);
            s
        }
        Err(e) => format!("err {} {}", e.pos.line, e.pos.pos),
    }
}
