//! `proj` mode: the real `transpile_dir` on a project written to a scratch directory.
use std::fs;
use std::path::{Path, PathBuf};
use std::sync::atomic::{AtomicUsize, Ordering};

use mamba::{transpile_dir, Arguments};

use crate::util::{hex, unhex_str};

static COUNTER: AtomicUsize = AtomicUsize::new(0);

fn walk(dir: &Path, base: &Path, out: &mut Vec<(String, String)>) {
    let Ok(rd) = fs::read_dir(dir) else { return };
    let mut entries: Vec<PathBuf> = rd.filter_map(|e| e.ok().map(|e| e.path())).collect();
    entries.sort();
    for p in entries {
        if p.is_dir() {
            let before = out.len();
            walk(&p, base, out);
            if out.len() == before {
                out.push((format!("{}/", p.strip_prefix(base).unwrap().display()), String::new()));
            }
        } else {
            let rel = p.strip_prefix(base).unwrap().display().to_string();
            out.push((rel, fs::read_to_string(&p).unwrap_or_default()));
        }
    }
}

/// payload: `<annotate> <npre> (<hex out-rel path> <hex content>)* <n> (<hex src-rel path> <hex content>)*`
/// result : `ok|err <k> <hex msg>* | <m> (<hex path under target> <hex content>)*`  (tree of the output directory)
pub fn proj(payload: &str) -> String {
    let mut it = payload.split(' ');
    let annotate = it.next() == Some("1");
    let npre: usize = it.next().and_then(|x| x.parse().ok()).unwrap_or(0);
    let id = COUNTER.fetch_add(1, Ordering::SeqCst);
    let root = std::env::temp_dir().join(format!("mv_proj_{}_{}", std::process::id(), id));
    let _ = fs::remove_dir_all(&root);
    let (src, target) = (root.join("src"), root.join("target"));
    fs::create_dir_all(&src).unwrap();
    for _ in 0..npre {
        let p = target.join(unhex_str(it.next().unwrap_or("")));
        fs::create_dir_all(p.parent().unwrap()).unwrap();
        fs::write(&p, unhex_str(it.next().unwrap_or(""))).unwrap();
    }
    let n: usize = it.next().and_then(|x| x.parse().ok()).unwrap_or(0);
    for _ in 0..n {
        let p = src.join(unhex_str(it.next().unwrap_or("")));
        fs::create_dir_all(p.parent().unwrap()).unwrap();
        fs::write(&p, unhex_str(it.next().unwrap_or(""))).unwrap();
    }
    let res = transpile_dir(&root, None, None, &Arguments { annotate });
    let mut s = match res {
        Ok(_) => String::from("ok 0"),
        Err(errs) => {
            let mut s = format!("err {}", errs.len());
            for e in errs {
                s.push(' ');
                // the scratch directory is not part of the observable result
                s.push_str(&hex(e.replace(&root.display().to_string(), "<root>").as_bytes()));
            }
            s
        }
    };
    let mut tree = vec![];
    walk(&target, &target, &mut tree);
    s.push_str(&format!(" | {}", tree.len()));
    for (p, c) in tree {
        s.push_str(&format!(" {} {}", hex(p.as_bytes()), hex(c.as_bytes())));
    }
    let _ = fs::remove_dir_all(&root);
    s
}
