//! `imports` mode: a sequence of add_import / add_from_import calls on the generator's real collector.
use mamba::generate::ast::node::Core;
use mamba::verif_hooks::Imports;

/// payload: space separated ops `i:<module>` | `f:<module>:<member>`; result: `ok` + the rendered import
/// statements separated by `|`
pub fn imports(payload: &str) -> String {
    let mut imp = Imports::new();
    for op in payload.split(' ').filter(|s| !s.is_empty()) {
        let parts: Vec<&str> = op.split(':').collect();
        match parts.as_slice() {
            ["i", m] => imp.add_import(m),
            ["f", m, x] => imp.add_from_import(m, x),
            _ => return format!("bad op {op}"),
        }
    }
    let lines: Vec<String> = imp
        .imports()
        .iter()
        .map(|c: &Core| format!("{c}").trim_end().to_string())
        .collect();
    format!("ok {}", lines.join("|"))
}
