//! mv_harness: runs the real mamba implementation (linked from /repo, feature `verif`) on cases
//! read from stdin, one per line `id<TAB>payload`, and prints `id<TAB>result` per case.
//! Every case runs under catch_unwind; a panic is reported as `PANIC <hex message>`.
use std::io::{self, BufRead, Write};
use std::panic;

mod util;
#[allow(dead_code)]
mod sexp;
#[cfg(feature = "m_lex")]
mod lexmode;
#[cfg(feature = "m_pipe")]
mod pipemode;
#[cfg(feature = "m_core")]
mod coremode;
#[cfg(feature = "m_ty")]
mod tymode;
#[cfg(feature = "m_imports")]
mod impmode;
#[cfg(feature = "m_proj")]
mod projmode;
#[cfg(feature = "m_render")]
mod rendermode;

fn main() {
    let args: Vec<String> = std::env::args().collect();
    if args.len() < 2 {
        eprintln!("usage: mv_harness <mode>   (cases on stdin)");
        std::process::exit(2);
    }
    let mode = args[1].clone();
    panic::set_hook(Box::new(|_| {}));
    let stdin = io::stdin();
    let stdout = io::stdout();
    let mut out = io::BufWriter::new(stdout.lock());
    for line in stdin.lock().lines() {
        let line = match line {
            Ok(l) => l,
            Err(_) => break,
        };
        if line.is_empty() {
            continue;
        }
        let (id, payload) = match line.split_once('\t') {
            Some((a, b)) => (a.to_string(), b.to_string()),
            None => (line.clone(), String::new()),
        };
        let m = mode.clone();
        let res = panic::catch_unwind(move || dispatch(&m, &payload));
        let res = match res {
            Ok(s) => s,
            Err(e) => {
                let msg = if let Some(s) = e.downcast_ref::<&str>() {
                    s.to_string()
                } else if let Some(s) = e.downcast_ref::<String>() {
                    s.clone()
                } else {
                    String::from("?")
                };
                format!("PANIC {}", util::hex(msg.as_bytes()))
            }
        };
        writeln!(out, "{id}\t{res}").unwrap();
        out.flush().unwrap();
    }
}

fn dispatch(mode: &str, payload: &str) -> String {
    match mode {
        #[cfg(feature = "m_lex")]
        "lex" => lexmode::lex(payload),
        #[cfg(feature = "m_pipe")]
        "pipe" => pipemode::pipe(payload),
        #[cfg(feature = "m_core")]
        "core" => coremode::print(payload),
        #[cfg(feature = "m_imports")]
        "imports" => impmode::imports(payload),
        #[cfg(feature = "m_proj")]
        "proj" => projmode::proj(payload),
        #[cfg(feature = "m_render")]
        "render" => rendermode::render(payload),
        #[cfg(feature = "m_ty")]
        "tysup" => tymode::sup(payload),
        #[cfg(feature = "m_ty")]
        "tyunion" => tymode::union(payload),
        #[cfg(feature = "m_ty")]
        "tyclasses" => tymode::classes(payload),
        #[cfg(feature = "m_pipe")]
        "multi" => pipemode::multi(payload),
        _ => format!("BADMODE {mode}"),
    }
}
