//! `render` mode: the real Display of a TypeErr built from a description.
use std::path::PathBuf;

use mamba::check::result::TypeErr;
use mamba::common::position::{CaretPos, Position};
use mamba::common::result::{WithCause, WithSource};

use crate::util::{hex, unhex_str};

fn pos(it: &mut std::str::Split<char>) -> Position {
    let mut n = || it.next().and_then(|x| x.parse::<usize>().ok()).unwrap_or(0);
    Position::new(CaretPos::new(n(), n()), CaretPos::new(n(), n()))
}

/// payload: `<haspos 0|1> l1 c1 l2 c2 <hex msg> <hex path|-> <hex source|-> <ncauses> (l1 c1 l2 c2 <hex msg>)*`
pub fn render(payload: &str) -> String {
    let mut it = payload.split(' ');
    let has_pos = it.next() == Some("1");
    let p = pos(&mut it);
    let msg = unhex_str(it.next().unwrap_or(""));
    let path = match it.next() {
        Some("-") | None => None,
        Some(h) => Some(PathBuf::from(unhex_str(h))),
    };
    let source = match it.next() {
        Some("-") | None => None,
        Some(h) => Some(unhex_str(h)),
    };
    let mut err = if has_pos { TypeErr::new(p, &msg) } else { TypeErr::new_no_pos(&msg) };
    let n: usize = it.next().and_then(|x| x.parse().ok()).unwrap_or(0);
    for _ in 0..n {
        let cp = pos(&mut it);
        let cm = unhex_str(it.next().unwrap_or(""));
        err = err.with_cause(&cm, cp);
    }
    let err = err.with_source(&source, &path);
    format!("ok {}", hex(format!("{err}").as_bytes()))
}
