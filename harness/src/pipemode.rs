use std::path::PathBuf;

use mamba::{mamba_to_python, PipelineArguments};

use crate::util::{hex, unhex_str};

/// payload: `<annotate 0|1> <hex source>`; result: `ok <hex python>` | `err <n> <hex rendered error>...`
pub fn pipe(payload: &str) -> String {
    let mut it = payload.split(' ');
    let annotate = it.next() == Some("1");
    let src = unhex_str(it.next().unwrap_or(""));
    let dir = PathBuf::from("proj");
    let res = mamba_to_python(
        &[(src, Some(PathBuf::from("proj/main.mamba")))],
        &dir,
        &PipelineArguments { annotate },
    );
    match res {
        Ok(srcs) => format!("ok {}", hex(srcs.join("\n---\n").as_bytes())),
        Err(errs) => {
            let mut s = format!("err {}", errs.len());
            for e in errs {
                s.push(' ');
                s.push_str(&hex(e.as_bytes()));
            }
            s
        }
    }
}

/// payload: `<annotate> <n> (<hex path> <hex source>)*`; result: `ok <hex py>...` | `err <n> <hex>...`
pub fn multi(payload: &str) -> String {
    let mut it = payload.split(' ');
    let annotate = it.next() == Some("1");
    let n: usize = it.next().and_then(|x| x.parse().ok()).unwrap_or(0);
    let mut sources = vec![];
    for _ in 0..n {
        let path = unhex_str(it.next().unwrap_or(""));
        let src = unhex_str(it.next().unwrap_or(""));
        sources.push((src, Some(PathBuf::from(path))));
    }
    let dir = PathBuf::from("proj");
    match mamba_to_python(&sources, &dir, &PipelineArguments { annotate }) {
        Ok(srcs) => {
            let mut s = format!("ok {}", srcs.len());
            for e in srcs {
                s.push(' ');
                s.push_str(&hex(e.as_bytes()));
            }
            s
        }
        Err(errs) => {
            let mut s = format!("err {}", errs.len());
            for e in errs {
                s.push(' ');
                s.push_str(&hex(e.as_bytes()));
            }
            s
        }
    }
}
