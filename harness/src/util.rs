pub fn hex(bytes: &[u8]) -> String {
    let mut s = String::with_capacity(bytes.len() * 2);
    for b in bytes {
        s.push_str(&format!("{b:02x}"));
    }
    s
}

pub fn unhex(s: &str) -> Vec<u8> {
    let b = s.as_bytes();
    let mut out = Vec::with_capacity(b.len() / 2);
    let mut i = 0;
    while i + 1 < b.len() {
        let h = (b[i] as char).to_digit(16).unwrap_or(0) as u8;
        let l = (b[i + 1] as char).to_digit(16).unwrap_or(0) as u8;
        out.push(h * 16 + l);
        i += 2;
    }
    out
}

pub fn unhex_str(s: &str) -> String {
    String::from_utf8_lossy(&unhex(s)).into_owned()
}
