//! `ty` modes: the checker's assignability relation and unions on a universe of types.
use std::collections::HashSet;
use std::convert::TryFrom;

use mamba::check::context::Context;
use mamba::check::name::string_name::StringName;
use mamba::check::name::true_name::TrueName;
use mamba::check::name::{IsSuperSet, Name, Union};
use mamba::common::position::Position;
use mamba::parse::ast::AST;

use crate::sexp::Sexp;
use crate::util::unhex_str;

/// `(N inter (T nullable mutable Base generic...) ...)`
pub fn name_of(s: &Sexp) -> Result<Name, String> {
    if s.tag() != Some("N") {
        return Err(format!("expected (N ...), got {s:?}"));
    }
    let a = s.args();
    let inter = a.first().map(|x| x.text() == "1").unwrap_or(false);
    let mut names = HashSet::new();
    for t in &a[1..] {
        names.insert(true_name_of(t)?);
    }
    Ok(Name { names, is_interchangeable: inter })
}

fn true_name_of(s: &Sexp) -> Result<TrueName, String> {
    if s.tag() != Some("T") {
        return Err(format!("expected (T ...), got {s:?}"));
    }
    let a = s.args();
    if a.len() < 3 {
        return Err("short T".into());
    }
    let generics: Vec<Name> = a[3..].iter().map(name_of).collect::<Result<_, _>>()?;
    Ok(TrueName {
        is_nullable: a[0].text() == "1",
        is_mutable: a[1].text() == "1",
        variant: StringName::new(&a[2].text(), &generics),
    })
}

pub fn dump_name(n: &Name) -> String {
    let mut members: Vec<&TrueName> = n.names.iter().collect();
    members.sort();
    let mut s = format!("(N {}", if n.is_interchangeable { 1 } else { 0 });
    for m in members {
        s.push(' ');
        s.push_str(&dump_true_name(m));
    }
    s.push(')');
    s
}

fn dump_true_name(t: &TrueName) -> String {
    let base = if t.variant.name.is_empty() { String::from("\"\"") } else { t.variant.name.clone() };
    let mut s = format!("(T {} {} {}", t.is_nullable as u8, t.is_mutable as u8, base);
    for g in &t.variant.generics {
        s.push(' ');
        s.push_str(&dump_name(g));
    }
    s.push(')');
    s
}

fn context(src: &str) -> Result<Context, String> {
    let ast = src.parse::<AST>().map_err(|e| format!("parse: {e}"))?;
    Context::try_from(&[ast][..]).map_err(|errs| format!("ctx: {}", errs.iter().map(|e| e.to_string()).collect::<Vec<_>>().join("|")))
}

fn universe(s: &str) -> Result<Vec<Name>, String> {
    let sx = Sexp::parse(s).ok_or("bad sexp")?;
    sx.items().iter().map(name_of).collect()
}

/// payload: `<hex class source>\x20<sexp list of names>`; result: `ok <n> <n*n chars 1|0|E row-major: row ⊒ column>`
pub fn sup(payload: &str) -> String {
    let (h, rest) = payload.split_once(' ').unwrap_or((payload, "()"));
    let ctx = match context(&unhex_str(h)) {
        Ok(c) => c,
        Err(e) => return format!("bad {e}"),
    };
    let names = match universe(rest) {
        Ok(n) => n,
        Err(e) => return format!("bad {e}"),
    };
    let pos = Position::invisible();
    let mut out = String::with_capacity(names.len() * names.len());
    for a in &names {
        for b in &names {
            out.push(match a.is_superset_of(b, &ctx, pos) {
                Ok(true) => '1',
                Ok(false) => '0',
                Err(_) => 'E',
            });
        }
    }
    format!("ok {} {}", names.len(), out)
}

/// payload: `<sexp list of names>`; result: `ok` followed by the canonical dump of `a.union(b)` for all pairs, `;`-separated
pub fn union(payload: &str) -> String {
    let names = match universe(payload) {
        Ok(n) => n,
        Err(e) => return format!("bad {e}"),
    };
    let mut parts = vec![];
    for a in &names {
        for b in &names {
            parts.push(dump_name(&a.union(b)));
        }
    }
    format!("ok {}", parts.join(";"))
}

/// payload: `<hex class source>`; result: the class table of the context:
/// `ok (C name (placeholder...) (parent as T ...)) ...` sorted by name
pub fn classes(payload: &str) -> String {
    let ctx = match context(&unhex_str(payload)) {
        Ok(c) => c,
        Err(e) => return format!("bad {e}"),
    };
    let mut cs: Vec<String> = ctx
        .classes
        .iter()
        .map(|c| {
            let gens: Vec<String> = c.name.generics.iter().map(dump_name).collect();
            let mut ps: Vec<&TrueName> = c.parents.iter().map(|p| &p.name).collect();
            ps.sort();
            let ps: Vec<String> = ps.iter().map(|p| dump_true_name(p)).collect();
            format!("(C {} ({}) ({}))", c.name.name, gens.join(" "), ps.join(" "))
        })
        .collect();
    cs.sort();
    format!("ok {}", cs.join(" "))
}
