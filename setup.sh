#!/bin/sh
# Builds the framework from files on disk only (offline): Rust harness against /repo, tables, Lean library + driver.
set -e
cd "$(dirname "$0")"
export CARGO_NET_OFFLINE=true
(cd harness && cargo build --offline --quiet)
python3 tools/translate.py >/dev/null
(cd lean && lake build)
echo setup-ok
